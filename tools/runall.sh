#!/bin/bash
# Run every claimed check (quick by default) against /repo's working tree, writing /verif/evidence/*.json
TIER=${1:-quick}
cd /verif
ids=$(python3 -c "import json;print(' '.join(c['property_id'] for c in json.load(open('MANIFEST.json'))['checks']))")
rc=0
for id in $ids; do
  out=$(bin/check $id $TIER 2>&1); r=$?
  echo "$out" | grep -E "^C[0-9]+ |VIOLATION|KNOWN-FINDING" | cut -c1-220
  [ $r -ne 0 ] && rc=1
done
python3-vt - <<'P'
import json, jsonschema, glob
sch=json.load(open('/root/.vp/EVIDENCE.schema.json'))
bad=0
for f in sorted(glob.glob('/verif/evidence/*.json')):
    try: jsonschema.validate(json.load(open(f)), sch)
    except Exception as e: print("INVALID", f, str(e)[:200]); bad+=1
m=json.load(open('/verif/MANIFEST.json')); jsonschema.validate(m, json.load(open('/root/.vp/MANIFEST.schema.json')))
print("evidence files valid:", len(glob.glob('/verif/evidence/*.json'))-bad, "invalid:", bad, "| manifest valid, checks:", len(m['checks']))
P
# every claimed check must have its evidence file tracked by git
for id in $ids; do
  git -C /verif ls-files --error-unmatch evidence/$id.json >/dev/null 2>&1 || { echo "UNTRACKED evidence/$id.json (git add it)"; rc=1; }
done
exit $rc
