import os, subprocess, json, glob, sys
from concurrent.futures import ThreadPoolExecutor
ENV=dict(os.environ, GOFLAGS="-mod=mod", GOPROXY="off", GOSUMDB="off", GOTOOLCHAIN="local")
def sh(c, cwd=None, env=None):
    p=subprocess.run(c, shell=True, cwd=cwd, env=env or ENV, stdout=subprocess.PIPE, stderr=subprocess.STDOUT, text=True); return p.returncode, p.stdout
PK={}
for l in sh("/verif/bin/verifsa packages")[1].splitlines():
    p=l.split()
    if p and p[0].startswith("C"): PK[p[0]]=set(p[1:])
def one(pid):
    wt=f"/tmp/combo-{pid}"
    sh(f"git -C /repo worktree remove --force {wt}")
    sh(f"git -C /repo worktree add --detach {wt} HEAD -q")
    applied=[]
    for n in (1,2,3,4):
        d=f"/verif/benign/{pid}-{n}/patch.diff"
        if os.path.exists(d) and sh(f"git apply {d}", wt)[0]==0: applied.append(n)
    rc,out=sh("git diff --name-only", wt)
    touched={os.path.dirname(f) for f in out.split() if f.endswith(".go")}
    pk=" ".join("./"+t for t in touched)
    rc,out=sh(f"go build {pk}", wt)
    res={"applied":applied,"builds":rc==0,"alarms":{}}
    if rc==0:
        for p,ps in PK.items():
            if touched & ps:
                rc,o=sh(f"/verif/bin/verifsa check -p {p} -tier quick -evidence /tmp/combo-ev-{pid}", env=dict(ENV,VERIF_REPO=wt))
                if rc!=0:
                    res["alarms"][p]=[l.strip()[:260] for l in o.splitlines() if l.startswith("  ")][:3]
    sh(f"git -C /repo worktree remove --force {wt}"); sh(f"rm -rf /tmp/combo-ev-{pid}")
    return pid,res
ids=sorted({os.path.basename(d).split("-")[0] for d in glob.glob("/verif/benign/C*-*")})
with ThreadPoolExecutor(max_workers=12) as ex:
    for pid,res in ex.map(one, ids):
        print(pid, res["applied"], "builds" if res["builds"] else "NOBUILD", "ALARM "+json.dumps(res["alarms"]) if res["alarms"] else "silent"); sys.stdout.flush()
