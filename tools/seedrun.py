#!/usr/bin/env python3
"""Run the registered quick checks against every seeded change.

usage: seedrun.py [seed-id ...]     (default: all of /verif/seeded/*)
For each seed: git -C /repo apply patch.diff; run the quick check of the seed's
property (and, with --all, of every claimed property); git -C /repo checkout -- .
Writes /verif/seeded/RESULTS.json and prints a table.  /repo is always restored.
"""
import json, os, subprocess, sys, glob

def sh(cmd, cwd=None):
    p = subprocess.run(cmd, shell=True, cwd=cwd, stdout=subprocess.PIPE, stderr=subprocess.STDOUT, text=True)
    return p.returncode, p.stdout

def main():
    args = [a for a in sys.argv[1:] if not a.startswith("--")]
    run_all = "--all" in sys.argv
    seeds = args or sorted(os.path.basename(d) for d in glob.glob("/verif/seeded/C*") if os.path.isdir(d))
    manifest = json.load(open("/verif/MANIFEST.json"))
    claimed = [c["property_id"] for c in manifest["checks"]]
    rc, out = sh("git status --porcelain", "/repo")
    if out.strip():
        print("/repo is not clean; refusing to run"); return 2
    sh("cd /verif/sa && GOFLAGS=-mod=mod GOPROXY=off GOSUMDB=off GOTOOLCHAIN=local go build -o /verif/bin/verifsa ./cmd/verifsa")
    results = {}
    try:
        results = json.load(open("/verif/seeded/RESULTS.json"))
    except Exception:
        pass
    for sid in seeds:
        d = f"/verif/seeded/{sid}"
        meta = json.load(open(f"{d}/meta.json"))
        prop = meta["property"]
        rc, out = sh(f"git apply {d}/patch.diff", "/repo")
        if rc:
            print(sid, "patch does not apply:", out.strip()[:200])
            results[sid] = {"property": prop, "applies": False}
            continue
        try:
            props = claimed if run_all else [prop]
            caught_by = {}
            for p in props:
                if p not in claimed:
                    continue
                rc, out = sh(f"/verif/bin/verifsa check -p {p} -tier quick -evidence /tmp/seedrun-ev")
                if rc != 0:
                    lines = [l.strip() for l in out.splitlines() if l.startswith("  ")]
                    caught_by[p] = lines[:3]
            results[sid] = {"property": prop, "applies": True, "claimed": prop in claimed, "caught": bool(caught_by), "caught_by": caught_by,
                            "summary": meta.get("summary", "")[:300]}
            flag = "CAUGHT " if caught_by else ("missed " if prop in claimed else "unclaimed")
            print(f"{sid:8} {flag} {list(caught_by.keys())} :: {meta.get('summary','')[:110]}")
            for p, ls in caught_by.items():
                for l in ls[:1]:
                    print("          ", l[:230])
        finally:
            sh("git checkout -- .", "/repo")
            sh("git clean -fdq -- .", "/repo")
    json.dump(results, open("/verif/seeded/RESULTS.json", "w"), indent=1, ensure_ascii=False, sort_keys=True)
    n = sum(1 for r in results.values() if r.get("caught"))
    print(f"caught {n}/{len(results)}")
    return 0

if __name__ == "__main__":
    sys.exit(main())
