#!/usr/bin/env python3
"""Detection under refactoring: for every seeded change, first apply the behaviour-preserving
probes of the same property that apply together with it, then the seed, and run the property's
quick check.  The seed must still be caught (the refactoring must not hide the violation from the
rules, in particular not through the helper-inlined re-decision).  Scratch worktrees only."""
import os, subprocess, json, glob, sys
from concurrent.futures import ThreadPoolExecutor
ENV=dict(os.environ, GOFLAGS="-mod=mod", GOPROXY="off", GOSUMDB="off", GOTOOLCHAIN="local")
def sh(c, cwd=None, env=None):
    p=subprocess.run(c, shell=True, cwd=cwd, env=env or ENV, stdout=subprocess.PIPE, stderr=subprocess.STDOUT, text=True); return p.returncode, p.stdout
RES=json.load(open("/verif/seeded/RESULTS.json"))
def one(sid):
    prop=sid.split("-")[0]
    if not RES.get(sid,{}).get("caught"): return sid, None
    wt=f"/tmp/sob-{sid}"
    sh(f"git -C /repo worktree remove --force {wt}")
    sh(f"git -C /repo worktree add --detach {wt} HEAD -q")
    if sh(f"git apply /verif/seeded/{sid}/patch.diff", wt)[0]!=0:
        sh(f"git -C /repo worktree remove --force {wt}"); return sid, None
    stacked=[]
    for n in (1,2,3,4):
        d=f"/verif/benign/{prop}-{n}/patch.diff"
        if os.path.exists(d) and sh(f"git apply {d}", wt)[0]==0: stacked.append(n)
    rc,out=sh("git diff --name-only", wt)
    pk=" ".join(sorted({"./"+os.path.dirname(f) for f in out.split() if f.endswith(".go")}))
    if not stacked or sh(f"go build {pk}", wt)[0]!=0:
        sh(f"git -C /repo worktree remove --force {wt}"); return sid, None
    caught=False
    for p in (RES[sid].get("caught_by") or {prop: 1}):   # the check(s) that catch the seed on its own
        rc,o=sh(f"/verif/bin/verifsa check -p {p} -tier quick -evidence /tmp/sob-ev-{sid}", env=dict(ENV,VERIF_REPO=wt))
        caught = caught or (rc!=0 and "VIOLATION" in o)
    sh(f"git -C /repo worktree remove --force {wt}"); sh(f"rm -rf /tmp/sob-ev-{sid}")
    return sid, {"stacked":stacked, "caught": caught}
ids=sorted(os.path.basename(d) for d in glob.glob("/verif/seeded/C*-*"))
n=c=0
with ThreadPoolExecutor(max_workers=12) as ex:
    for sid,res in ex.map(one, ids):
        if res is None: continue
        n+=1; c+=res["caught"]
        if not res["caught"]: print(sid, "NOT CAUGHT under refactorings", res["stacked"]); sys.stdout.flush()
print(f"{c} of {n} seeds still caught with refactorings of the same property stacked on them")
