#!/usr/bin/env python3
"""Run the registered quick checks against seeded changes, each in its own scratch
worktree of /repo HEAD (so /repo itself is never touched and seeds run in parallel).

usage: seedrun2.py [--all] [-j N] [seed-id ...]     (default: every /verif/seeded/C*)
  --all   run every claimed property's check against each seed (default: only the seed's property)
Writes /verif/seeded/RESULTS.json (merging with what is there) and prints a table.
The checks are run by the same binary with VERIF_REPO pointing at the scratch tree.
"""
import json, os, subprocess, sys, glob, shutil
from concurrent.futures import ThreadPoolExecutor

BIN = "/verif/bin/verifsa"
ENV = dict(os.environ, GOFLAGS="-mod=mod", GOPROXY="off", GOSUMDB="off", GOTOOLCHAIN="local")

def sh(cmd, cwd=None, env=None):
    p = subprocess.run(cmd, shell=True, cwd=cwd, env=env or ENV, stdout=subprocess.PIPE, stderr=subprocess.STDOUT, text=True)
    return p.returncode, p.stdout

def one(sid, claimed, run_all):
    d = f"/verif/seeded/{sid}"
    meta = json.load(open(f"{d}/meta.json"))
    prop = meta["property"]
    wt = f"/tmp/sr-{sid}"
    sh(f"git -C /repo worktree remove --force {wt}")
    rc, out = sh(f"git -C /repo worktree add --detach {wt} HEAD -q")
    if rc:
        return sid, {"property": prop, "applies": False, "error": out[-200:]}
    try:
        rc, out = sh(f"git apply {d}/patch.diff", wt)
        if rc:
            return sid, {"property": prop, "applies": False, "error": out.strip()[-200:]}
        props = claimed if run_all else [prop]
        caught_by = {}
        env = dict(ENV, VERIF_REPO=wt)
        for p in props:
            if p not in claimed:
                continue
            ev = f"/tmp/sr-ev-{sid}"
            rc, out = sh(f"{BIN} check -p {p} -tier quick -evidence {ev}", env=env)
            if rc != 0:
                lines = [l.strip() for l in out.splitlines() if l.startswith("  ") and "rule R" in l]
                if "VIOLATION property=" in out and lines:
                    caught_by[p] = lines[:3]
                else:
                    print(f"!! {sid} {p}: checker failed without a rule violation:", out[-300:].replace("\n", " | "), flush=True)
            shutil.rmtree(ev, ignore_errors=True)
        return sid, {"property": prop, "applies": True, "claimed": prop in claimed, "caught": bool(caught_by), "caught_by": caught_by,
                     "summary": meta.get("summary", "")[:300]}
    finally:
        sh(f"git -C /repo worktree remove --force {wt}")

def main():
    args = [a for a in sys.argv[1:] if not a.startswith("-")]
    run_all = "--all" in sys.argv
    jobs = 8
    if "-j" in sys.argv:
        jobs = int(sys.argv[sys.argv.index("-j") + 1])
        args = [a for a in args if a != str(jobs)]
    seeds = args or sorted(os.path.basename(d) for d in glob.glob("/verif/seeded/C*") if os.path.isdir(d))
    manifest = json.load(open("/verif/MANIFEST.json"))
    claimed = [c["property_id"] for c in manifest["checks"]]
    rc, out = sh("cd /verif/sa && go build -o /verif/bin/verifsa ./cmd/verifsa")
    if rc:
        print(out); return 2
    global BIN
    BIN = f"/tmp/verifsa-run-{os.getpid()}"
    shutil.copy("/verif/bin/verifsa", BIN)
    results = {}
    try:
        results = json.load(open("/verif/seeded/RESULTS.json"))
    except Exception:
        pass
    with ThreadPoolExecutor(max_workers=jobs) as ex:
        for sid, res in ex.map(lambda s: one(s, claimed, run_all), seeds):
            old = results.get(sid, {})
            if not run_all and old.get("caught_by") and res.get("applies"):
                # keep cross-property catches recorded by an earlier --all run
                for p, ls in old["caught_by"].items():
                    if p != res["property"] and p not in res["caught_by"]:
                        res["caught_by"][p] = ls  # kept from an earlier --all run
                res["caught"] = bool(res["caught_by"])
            results[sid] = res
            flag = "CAUGHT " if res.get("caught") else ("missed " if res.get("claimed") else "n/a    ")
            if not res.get("applies"):
                flag = "NOAPPLY"
            print(f"{sid:8} {flag} {list(res.get('caught_by', {}).keys())} :: {res.get('summary','')[:100]}", flush=True)
            for p, ls in res.get("caught_by", {}).items():
                for l in ls[:1]:
                    print("          ", l[:220])
    json.dump(results, open("/verif/seeded/RESULTS.json", "w"), indent=1, ensure_ascii=False, sort_keys=True)
    os.remove(BIN)
    n = sum(1 for r in results.values() if r.get("caught"))
    print(f"caught {n}/{len(results)}")
    return 0

if __name__ == "__main__":
    sys.exit(main())
