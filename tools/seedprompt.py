#!/usr/bin/env python3
"""Print the sub-agent prompt for seeding a property-breaking change. Usage: seedprompt.py C11 /tmp/seed-C11"""
import json, sys
pid, wt = sys.argv[1], sys.argv[2]
rec = None
for l in open('/verif/properties.jsonl'):
    p = json.loads(l)
    if p['id'] == pid:
        rec = p
print(f"""You are helping to test a verification effort by playing the role of a developer who introduces a subtle regression.

You work ONLY inside the scratch git worktree {wt} (a checkout of the Go project 33cn/chain33, a modular blockchain framework). Never read or write /repo or /verif. The sandbox has no network. For every shell command first run:
  export GOFLAGS=-mod=mod GOPROXY=off GOSUMDB=off GOTOOLCHAIN=local
(The package system/consensus/snowman never builds in this sandbox; ignore it. Build/test individual packages, e.g. `go build ./executor/... && go test -count=1 ./executor/`, not the whole module — whole-module runs take very long.)

Here is a semantic property of chain33 that should always hold (JSON record; 'anchors' tells you where the mechanism lives):

{json.dumps(rec, indent=1, ensure_ascii=False)}

TASK: produce up to THREE different, independent changes to chain33's non-test source, each of which BREAKS this property while
  (a) still compiling, and
  (b) still passing the existing tests of every package you touched (and of obvious dependants if cheap to run), unedited.
Each change must be realistic — the kind of slip a competent developer makes in a refactor, optimisation or 'cleanup' (a dropped or mis-ordered call, a check moved to the wrong branch, a lock released early, a field forgotten in a copy/reset/key, a wrong variable used, an off-by-one, an error swallowed, two sites that each look fine alone). It must need something SPECIFIC to manifest: a particular interleaving, a crash/fault at a particular point, a multi-step sequence of operations, an unusual input, or two cooperating sites. Changes that any ordinary use would expose at once (or that existing tests catch) are useless. The three changes should use different mechanisms / different code sites. Keep each change small (a few lines).

For each change N (1..3) create the directory {wt}/out/N/ containing:
  - patch.diff : `git diff` of the source change only (no test files), applicable with `git apply` at the worktree root;
  - a demonstration: a NEW Go test file (give its intended path inside the repo in meta.json; name it zz_seed_demo_test.go in the right package directory) or a small program, that FAILS with the change applied and PASSES without it. Save a copy as {wt}/out/N/demo_test.go;
  - meta.json : {{"property": "{pid}", "summary": "...what was changed...", "needs": "...what it needs in order to manifest...", "demo_path": "<repo-relative path where demo_test.go must be placed>", "demo_cmd": "<go test command run from the worktree root, e.g. go test -count=1 -run TestSeedDemo ./executor/>", "packages_tested": ["./executor/", ...]}}
Verify each yourself: with the patch applied the touched packages build and their existing tests pass and the demo FAILS; with the patch reverted (git checkout -- . ; keep the demo file) the demo PASSES. Leave the worktree clean of source modifications at the end (`git checkout -- .`), keeping only out/. NEVER use `git stash` (the stash is shared with other worktrees of this repository and other people are working in those): to set a change aside use `git diff > file; git checkout -- .` and later `git apply file`.

If after honest effort you can only produce one or two, that's fine — quality over quantity. Finish with a short report: for each change one line (files touched, mechanism, how the demo triggers it). Do not describe how one might detect these changes.""")
