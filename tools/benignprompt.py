#!/usr/bin/env python3
"""Print the sub-agent prompt for producing BEHAVIOUR-PRESERVING refactorings (false-alarm probes). Usage: benignprompt.py C11 /tmp/benign-C11"""
import json, sys
pid, wt = sys.argv[1], sys.argv[2]
rec = None
for l in open('/verif/properties.jsonl'):
    p = json.loads(l)
    if p['id'] == pid:
        rec = p
print(f"""You are helping to test a verification effort by playing the role of a careful developer who REFACTORS code without changing its behaviour.

You work ONLY inside the scratch git worktree {wt} (a checkout of the Go project 33cn/chain33, a modular blockchain framework). Never read or write /repo or /verif. The sandbox has no network. For every shell command first run:
  export GOFLAGS=-mod=mod GOPROXY=off GOSUMDB=off GOTOOLCHAIN=local
(The package system/consensus/snowman never builds in this sandbox; ignore it. Build/test individual packages, e.g. `go build ./executor/... && go test -count=1 ./executor/`, not the whole module.)

Here is a semantic property of chain33 that holds today and must KEEP holding (JSON record; 'anchors' tells you where the mechanism lives):

{json.dumps(rec, indent=1, ensure_ascii=False)}

TASK: produce FOUR different, independent, BEHAVIOUR-PRESERVING refactorings of the non-test source code that implements this mechanism (the anchored functions and their close helpers). Each must leave the observable behaviour exactly as it is — the property above still holds for every input, schedule and history — and the existing tests of every package you touch must still pass, unedited. Make them the kind of edit a maintainer does routinely, and make them structurally visible (not just a comment or whitespace change). Use a DIFFERENT kind of transformation for each, chosen from for example:
  - rename local variables / parameters / an unexported helper function (update all uses);
  - extract a block into a new unexported helper function, or inline a small helper into its only caller;
  - turn an if/else-if chain into a switch (or back), invert a condition and swap the branches, replace `if x {{ continue }}` by wrapping the rest of the loop body in `if !x {{ ... }}` WITHOUT changing which statements run;
  - introduce a local variable for a repeated sub-expression, or replace a temporary by its defining expression;
  - reorder two statements that are independent of each other; replace `x += y` by `x = x + y`; replace an index loop by a range loop over the same elements (same order) or back;
  - replace `defer mu.Unlock()` by explicit unlocks on every path (all paths!), or the reverse;
  - change `a < b` into `b > a`, `!(a == b)` into `a != b`, `len(x) == 0` guards that are equivalent in context, etc.
Do NOT change any exported API, do NOT change behaviour in any corner case (nil vs empty, error values, order of side effects that are observable, locking discipline), do NOT delete checks. If you are not sure a transformation preserves behaviour in every case, do not use it.

For each refactoring N (1..4) create the directory {wt}/out/N/ containing:
  - patch.diff : `git diff` of the source change only, applicable with `git apply` at the worktree root;
  - meta.json : {{"property": "{pid}", "kind": "<which transformation>", "summary": "...what was changed and why behaviour is unchanged...", "packages_tested": ["./executor/", ...]}}
Verify each yourself: with the patch applied the touched packages build and their existing tests pass. Leave the worktree clean of source modifications at the end (`git checkout -- .`), keeping only out/. NEVER use `git stash`: to set a change aside use `git diff > file; git checkout -- .` and later `git apply file`.

Finish with a short report: one line per refactoring (files touched, kind of transformation).""")
