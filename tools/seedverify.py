#!/usr/bin/env python3
"""Confirm a seeded change in a scratch worktree and store it under /verif/seeded/.

usage: seedverify.py <agent-out-dir e.g. /tmp/seed-C21/out/1> <seed-id e.g. C21-1> [--skip-pkg-tests]

Steps (all in a fresh detached worktree of /repo HEAD under /tmp, removed afterwards):
 1. git apply patch.diff; go build + go vet-less `go test -count=1` of meta.packages_tested (existing tests must pass)
 2. place demo at meta.demo_path, run meta.demo_cmd -> must FAIL
 3. git checkout the patch away (keep the demo), run demo -> must PASS
On success writes /verif/seeded/<seed-id>/{patch.diff, demo_test.go, meta.json}.
"""
import json, os, shutil, subprocess, sys, time

ENV = dict(os.environ, GOFLAGS="-mod=mod", GOPROXY="off", GOSUMDB="off", GOTOOLCHAIN="local")


def run(cmd, cwd, timeout=1800):
    p = subprocess.run(cmd, cwd=cwd, shell=True, env=ENV, stdout=subprocess.PIPE, stderr=subprocess.STDOUT, timeout=timeout, text=True)
    return p.returncode, p.stdout


def main():
    src, sid = sys.argv[1], sys.argv[2]
    skip = "--skip-pkg-tests" in sys.argv
    meta = json.load(open(os.path.join(src, "meta.json")))
    wt = f"/tmp/sv-{sid}"
    subprocess.run(f"git -C /repo worktree remove --force {wt}", shell=True, stdout=subprocess.DEVNULL, stderr=subprocess.DEVNULL)
    rc, out = run(f"git -C /repo worktree add --detach {wt} HEAD -q", "/repo")
    if rc:
        print("worktree failed", out); return 2
    result = {"seed": sid, "steps": []}
    ok = False
    try:
        rc, out = run(f"git apply {os.path.join(src, 'patch.diff')}", wt)
        result["steps"].append(["apply", rc])
        if rc:
            print("APPLY FAILED\n", out); return 1
        pkgs = " ".join(p.split()[0] for p in meta.get("packages_tested", []) if p.strip())
        rc, out = run(f"go build {pkgs}", wt)
        result["steps"].append(["build", rc])
        if rc:
            print("BUILD FAILED\n", out[-3000:]); return 1
        if not skip:
            t0 = time.time()
            rc, out = run(f"go test -count=1 -vet=off -timeout 25m {pkgs}", wt, timeout=2400)
            result["steps"].append(["existing tests with patch", rc, round(time.time() - t0)])
            if rc:
                print("EXISTING TESTS FAIL WITH PATCH\n", out[-3000:]); return 1
        demo_dst = os.path.join(wt, meta["demo_path"])
        os.makedirs(os.path.dirname(demo_dst), exist_ok=True)
        demo_src = os.path.join(src, "demo_test.go")
        shutil.copy(demo_src, demo_dst)
        rc1, out1 = run(meta["demo_cmd"], wt)
        result["steps"].append(["demo with patch (must fail)", rc1])
        if rc1 == 0:
            print("DEMO PASSES WITH PATCH (should fail)\n", out1[-2000:]); return 1
        if "build failed" in out1 or "[build failed]" in out1 or "[setup failed]" in out1:
            print("DEMO DOES NOT BUILD\n", out1[-2000:]); return 1
        run("git checkout -- .", wt)
        rc2, out2 = run(meta["demo_cmd"], wt)
        result["steps"].append(["demo without patch (must pass)", rc2])
        if rc2 != 0:
            print("DEMO FAILS WITHOUT PATCH\n", out2[-2000:]); return 1
        ok = True
        dst = f"/verif/seeded/{sid}"
        os.makedirs(dst, exist_ok=True)
        shutil.copy(os.path.join(src, "patch.diff"), dst)
        shutil.copy(demo_src, os.path.join(dst, "demo_test.go"))
        meta["confirmed"] = {"by": "tools/seedverify.py", "steps": result["steps"], "repo_head": subprocess.check_output("git -C /repo rev-parse --short HEAD", shell=True, text=True).strip(),
                             "what_was_run": f"git apply patch.diff; go build {pkgs}; go test -count=1 {pkgs} (existing tests pass); {meta['demo_cmd']} fails with the patch and passes without it"}
        fail_tail = [l for l in out1.splitlines() if "FAIL" in l or "Error" in l][:6]
        meta["confirmed"]["demo_failure_excerpt"] = fail_tail
        json.dump(meta, open(os.path.join(dst, "meta.json"), "w"), indent=1, ensure_ascii=False)
        print("CONFIRMED", sid, result["steps"])
        return 0
    finally:
        subprocess.run(f"git -C /repo worktree remove --force {wt}", shell=True, stdout=subprocess.DEVNULL, stderr=subprocess.DEVNULL)
        if not ok:
            print("NOT CONFIRMED", sid, result["steps"])


if __name__ == "__main__":
    sys.exit(main())
