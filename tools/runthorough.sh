#!/bin/bash
# Run every claimed check in the thorough tier (whole-module load + seed replay), evidence to a scratch
# directory (default /tmp/ev-thorough) so that the committed quick-tier evidence is left alone.
EV=${1:-/tmp/ev-thorough}
cd /verif
ids=$(python3 -c "import json;print(' '.join(c['property_id'] for c in json.load(open('MANIFEST.json'))['checks']))")
rc=0
for id in $ids; do
  out=$(/verif/bin/verifsa check -p $id -tier thorough -evidence $EV 2>&1); r=$?
  echo "$out" | grep -E "^C[0-9]+ |VIOLATION|KNOWN-FINDING" | cut -c1-220
  python3 - "$EV/$id.json" <<'P'
import json,sys
try:
    s=json.load(open(sys.argv[1]))['coverage'].get('sensitivity') or {}
    print("   seeds replayed: %s detected: %s not detected: %s" % (s.get('seeded_changes_tried'), s.get('detected'), s.get('not_detected')))
except Exception as e: print("   (no sensitivity)", e)
P
  [ $r -ne 0 ] && rc=1
done
exit $rc
