#!/usr/bin/env python3
"""Run every claimed quick check against behaviour-preserving refactorings (false-alarm probes).

usage: benignrun.py <dir-with-N/patch.diff ...> [more dirs] [-j N] [--only Cxx,Cyy]
Each <dir>/<N>/ holds patch.diff and meta.json (as written by the benign sub-agents).  Every patch is
applied in its own scratch worktree of /repo HEAD; any VIOLATION line is a false alarm to be triaged.
Accepted probes (confirmed to build and to pass the touched packages' tests) are kept under /verif/benign/.
"""
import json, os, subprocess, sys, shutil, glob
from concurrent.futures import ThreadPoolExecutor

ENV = dict(os.environ, GOFLAGS="-mod=mod", GOPROXY="off", GOSUMDB="off", GOTOOLCHAIN="local")
BIN = "/verif/bin/verifsa"
PKGS = {}

def sh(cmd, cwd=None, env=None):
    p = subprocess.run(cmd, shell=True, cwd=cwd, env=env or ENV, stdout=subprocess.PIPE, stderr=subprocess.STDOUT, text=True)
    return p.returncode, p.stdout

def one(item, claimed):
    tag, d = item
    wt = f"/tmp/bn-{tag}"
    sh(f"git -C /repo worktree remove --force {wt}")
    rc, out = sh(f"git -C /repo worktree add --detach {wt} HEAD -q")
    if rc:
        return tag, {"error": out[-200:]}
    try:
        rc, out = sh(f"git apply {d}/patch.diff", wt)
        if rc:
            return tag, {"applies": False, "error": out.strip()[-200:]}
        env = dict(ENV, VERIF_REPO=wt)
        alarms = {}
        # a quick check analyses only the syntax of its own packages: a patch can only change the
        # verdict of checks that load a package it touches
        rc, out = sh("git diff --name-only", wt)
        touched = {os.path.dirname(f) for f in out.split() if f.endswith(".go")}
        for p in claimed:
            if PKGS.get(p) is not None and not (touched & PKGS[p]):
                continue
            ev = f"/tmp/bn-ev-{tag}"
            rc, out = sh(f"{BIN} check -p {p} -tier quick -evidence {ev}", env=env)
            if rc != 0:
                lines = [l.strip() for l in out.splitlines() if l.startswith("  ")]
                alarms[p] = lines[:4] or [out[-300:]]
            shutil.rmtree(ev, ignore_errors=True)
        return tag, {"applies": True, "alarms": alarms}
    finally:
        sh(f"git -C /repo worktree remove --force {wt}")

def main():
    args = [a for a in sys.argv[1:] if not a.startswith("-")]
    jobs = 6
    only = None
    if "-j" in sys.argv:
        jobs = int(sys.argv[sys.argv.index("-j") + 1]); args = [a for a in args if a != str(jobs)]
    if "--only" in sys.argv:
        only = sys.argv[sys.argv.index("--only") + 1].split(","); args = [a for a in args if a != ",".join(only)]
    manifest = json.load(open("/verif/MANIFEST.json"))
    claimed = [c["property_id"] for c in manifest["checks"]]
    if only:
        claimed = [c for c in claimed if c in only]
    rc, out = sh("cd /verif/sa && go build -o /verif/bin/verifsa ./cmd/verifsa")
    if rc:
        print(out); return 2
    global BIN
    BIN = f"/tmp/verifsa-bn-{os.getpid()}"
    shutil.copy("/verif/bin/verifsa", BIN)
    rc, out = sh(f"{BIN} packages")
    for l in out.splitlines():
        parts = l.split()
        if parts and parts[0].startswith("C"):
            PKGS[parts[0]] = set(parts[1:])
    items = []
    for root in args:
        for d in sorted(glob.glob(os.path.join(root, "*"))):
            if os.path.exists(os.path.join(d, "patch.diff")):
                parts = os.path.abspath(d).rstrip("/").split("/")
                tag = (parts[-3] if parts[-2] == "out" else parts[-2]).replace("benign-", "") + "-" + parts[-1]
                items.append((tag, d))
    bad = 0
    with ThreadPoolExecutor(max_workers=jobs) as ex:
        for tag, res in ex.map(lambda it: one(it, claimed), items):
            if res.get("alarms"):
                bad += 1
                print(f"{tag:12} FALSE ALARM(S): {list(res['alarms'].keys())}")
                for p, ls in res["alarms"].items():
                    for l in ls[:2]:
                        print("             ", l[:240])
            elif res.get("applies"):
                print(f"{tag:12} silent")
            else:
                print(f"{tag:12} not applicable: {res.get('error','')[:120]}")
            sys.stdout.flush()
    os.remove(BIN)
    print(f"{bad} of {len(items)} refactorings raised an alarm")
    return 1 if bad else 0

if __name__ == "__main__":
    sys.exit(main())
