package core

import (
	"fmt"
	"go/ast"
	"go/types"
	"strings"

	"golang.org/x/tools/go/packages"
	"golang.org/x/tools/go/types/typeutil"
)

// FuncInfo is one analysable function body: a declared function/method or a
// function literal nested in one.
type FuncInfo struct {
	W    *World
	Pkg  *packages.Package
	Name string // short name, e.g. executor.(*executor).execTx or …execTx$lit1
	Decl *ast.FuncDecl
	Lit  *ast.FuncLit
	Obj  *types.Func // nil for literals
	Encl *FuncInfo   // enclosing function for literals
	g    *Graph
	gi   *Graph // graph with helpers inlined
	gis  *Graph // gi with compound bool returns decomposed (dataflow only)
	// inlined: helper bodies and synthesized binding statements spliced into gi
	inlined []ast.Node
	// replaced: call statements whose effect is given by the spliced body
	replaced map[ast.Node]bool
	// binds: the synthesized parameter bindings of spliced helpers
	binds []*ast.AssignStmt
	// retAssign: the synthesized assignments of spliced helpers' returns
	retAssign map[ast.Node]bool
}

func (f *FuncInfo) Body() *ast.BlockStmt {
	if f.Lit != nil {
		return f.Lit.Body
	}
	return f.Decl.Body
}

func (f *FuncInfo) Type() *ast.FuncType {
	if f.Lit != nil {
		return f.Lit.Type
	}
	return f.Decl.Type
}

func (f *FuncInfo) Node() ast.Node {
	if f.Lit != nil {
		return f.Lit
	}
	return f.Decl
}

func (f *FuncInfo) Info() *types.Info { return f.Pkg.TypesInfo }

func (f *FuncInfo) Sig() *types.Signature {
	if f.Lit != nil {
		return f.Info().TypeOf(f.Lit).(*types.Signature)
	}
	return f.Obj.Type().(*types.Signature)
}

// Recv returns the receiver variable of a method (nil otherwise).
func (f *FuncInfo) Recv() *types.Var {
	if f.Obj == nil {
		if f.Encl != nil {
			return f.Encl.Recv()
		}
		return nil
	}
	return f.Sig().Recv()
}

// Param returns the i-th parameter object.
func (f *FuncInfo) Param(i int) *types.Var {
	ps := f.Sig().Params()
	if i < 0 || i >= ps.Len() {
		return nil
	}
	return ps.At(i)
}

// ShortName renders a types.Func as pkg.(*T).m / pkg.T.m / pkg.f with the module
// prefix removed from the package path.
func ShortName(fn *types.Func) string {
	if fn == nil {
		return ""
	}
	sig, _ := fn.Type().(*types.Signature)
	if sig != nil && sig.Recv() != nil {
		t := sig.Recv().Type()
		ptr := false
		if p, ok := t.(*types.Pointer); ok {
			t, ptr = p.Elem(), true
		}
		if n, ok := t.(*types.Named); ok {
			pkg := ""
			if n.Obj().Pkg() != nil {
				pkg = shortenPath(n.Obj().Pkg().Path()) + "."
			}
			if ptr {
				return pkg + "(*" + n.Obj().Name() + ")." + fn.Name()
			}
			return pkg + n.Obj().Name() + "." + fn.Name()
		}
		return shorten(fn.FullName())
	}
	if fn.Pkg() == nil {
		return fn.Name()
	}
	return shortenPath(fn.Pkg().Path()) + "." + fn.Name()
}

func shortenPath(p string) string {
	if p == Module {
		return "chain33"
	}
	return strings.TrimPrefix(p, Module+"/")
}

func shorten(s string) string {
	s = strings.ReplaceAll(s, Module+"/", "")
	s = strings.ReplaceAll(s, Module+".", "chain33.")
	return s
}

// ShortObj renders any object as pkg.Name (module prefix removed).
func ShortObj(o types.Object) string {
	if o == nil {
		return "<nil>"
	}
	if f, ok := o.(*types.Func); ok {
		return ShortName(f)
	}
	if v, ok := o.(*types.Var); ok && v.IsField() {
		return "field " + v.Name()
	}
	if o.Pkg() != nil {
		return shorten(o.Pkg().Path() + "." + o.Name())
	}
	return o.Name()
}

// splitQual splits "system/mempool.(*Mempool).checkTx" into pkg path and rest.
func splitQual(q string) (pkg, rest string) {
	slash := strings.LastIndex(q, "/")
	dot := strings.Index(q[slash+1:], ".")
	if dot < 0 {
		return "", q
	}
	return q[:slash+1+dot], q[slash+1+dot+1:]
}

// LookupObj resolves "pkg.Name", "pkg.(*T).m", "pkg.T.m" or "pkg.T.field" to an object.
func (w *World) LookupObj(q string) types.Object {
	pkgp, rest := splitQual(q)
	tp := w.TypesPkg(pkgp)
	if tp == nil {
		return nil
	}
	rest = strings.TrimPrefix(rest, "(")
	ptr := strings.HasPrefix(rest, "*")
	rest = strings.TrimPrefix(rest, "*")
	rest = strings.Replace(rest, ")", "", 1)
	_ = ptr
	parts := strings.Split(rest, ".")
	obj := tp.Scope().Lookup(parts[0])
	if obj == nil {
		return nil
	}
	for _, name := range parts[1:] {
		t := obj.Type()
		o, _, _ := types.LookupFieldOrMethod(t, true, tp, name)
		if o == nil {
			o, _, _ = types.LookupFieldOrMethod(types.NewPointer(t), true, tp, name)
		}
		if o == nil {
			return nil
		}
		obj = o
	}
	return obj
}

// MustObj resolves or records an unresolved anchor.
func (w *World) MustObj(q string) (types.Object, error) {
	o := w.LookupObj(q)
	if o == nil {
		return nil, fmt.Errorf("unresolved anchor %q", q)
	}
	return o, nil
}

// Func finds a declared function or method with a body in the loaded roots.
func (w *World) Func(q string) *FuncInfo {
	mentioned[q] = true
	if fi, ok := w.funcs[q]; ok {
		return fi
	}
	// closures: name$litN
	if i := strings.Index(q, "$"); i >= 0 {
		base := w.Func(q[:i])
		if base == nil {
			return nil
		}
		sel := q[i+1:]
		if strings.HasPrefix(sel, "calls:") {
			// the unique literal whose own body (not nested literals) calls the callee
			ns := Names(strings.TrimPrefix(sel, "calls:"))
			var hit *FuncInfo
			for _, c := range base.Closures() {
				found := false
				InspectNode(c.Lit.Body, func(x ast.Node) bool {
					if call, ok := x.(*ast.CallExpr); ok && ns.Has(Callee(c.Info(), call)) {
						found = true
					}
					return true
				})
				if found {
					if hit != nil {
						// nested: prefer the innermost
						if hit.Lit.Pos() <= c.Lit.Pos() && c.Lit.End() <= hit.Lit.End() {
							hit = c
							continue
						}
						return nil
					}
					hit = c
				}
			}
			if hit == nil {
				// the literal was turned into a declared helper of the package: the
				// unique function base calls directly whose own body calls the callee
				for _, h := range directHelpers(base, ns) {
					if hit != nil {
						hit = nil
						break
					}
					hit = h
				}
				w.funcs[q] = hit
				return hit
			}
			hit.Name = q
			w.funcs[q] = hit
			return hit
		}
		for _, c := range base.Closures() {
			if c.Name == q {
				w.funcs[q] = c
				return c
			}
		}
		return nil
	}
	obj, _ := w.LookupObj(q).(*types.Func)
	if obj == nil {
		w.funcs[q] = nil
		return nil
	}
	fi := w.FuncOf(obj)
	w.funcs[q] = fi
	return fi
}

// Peek is Func without recording the name as mentioned by a rule (used when a
// rule merely looks at whatever helpers a function happens to call).
func (w *World) Peek(q string) *FuncInfo {
	was := mentioned[q]
	f := w.Func(q)
	if !was {
		delete(mentioned, q)
	}
	return f
}

// FuncOf returns the body of a function object if its package was loaded with syntax.
func (w *World) FuncOf(obj *types.Func) *FuncInfo {
	if obj == nil || obj.Pkg() == nil {
		return nil
	}
	obj = obj.Origin()
	pkg := w.Pkgs[obj.Pkg().Path()]
	if pkg == nil {
		return nil
	}
	key := "obj:" + obj.FullName()
	if fi, ok := w.funcs[key]; ok {
		return fi
	}
	for _, f := range pkg.Syntax {
		if !(f.Pos() <= obj.Pos() && obj.Pos() <= f.End()) {
			continue
		}
		for _, d := range f.Decls {
			fd, ok := d.(*ast.FuncDecl)
			if !ok || fd.Body == nil {
				continue
			}
			if pkg.TypesInfo.Defs[fd.Name] == obj {
				fi := &FuncInfo{W: w, Pkg: pkg, Name: ShortName(obj), Decl: fd, Obj: obj}
				w.funcs[key] = fi
				return fi
			}
		}
	}
	w.funcs[key] = nil
	return nil
}

// AllFuncs enumerates every declared function with a body in a loaded package.
func (w *World) AllFuncs(pkg *packages.Package) []*FuncInfo {
	var out []*FuncInfo
	for _, f := range pkg.Syntax {
		for _, d := range f.Decls {
			fd, ok := d.(*ast.FuncDecl)
			if !ok || fd.Body == nil {
				continue
			}
			obj, _ := pkg.TypesInfo.Defs[fd.Name].(*types.Func)
			if obj == nil {
				continue
			}
			if fi := w.FuncOf(obj); fi != nil {
				out = append(out, fi)
			}
		}
	}
	return out
}

// Closures lists the function literals directly or transitively nested in f,
// in source order, named f$lit1, f$lit2, ...
func (f *FuncInfo) Closures() []*FuncInfo {
	var out []*FuncInfo
	n := 0
	root := f
	for root.Encl != nil {
		root = root.Encl
	}
	if f.Encl != nil {
		// closures of a closure: those of the root that are nested in f
		for _, c := range root.Closures() {
			if c.Lit != f.Lit && f.Lit.Pos() <= c.Lit.Pos() && c.Lit.End() <= f.Lit.End() {
				out = append(out, c)
			}
		}
		return out
	}
	var stack []*FuncInfo
	ast.Inspect(f.Body(), func(x ast.Node) bool {
		if x == nil {
			return true
		}
		for len(stack) > 0 && !(stack[len(stack)-1].Lit.Pos() <= x.Pos() && x.End() <= stack[len(stack)-1].Lit.End()) {
			stack = stack[:len(stack)-1]
		}
		if lit, ok := x.(*ast.FuncLit); ok {
			n++
			encl := f
			if len(stack) > 0 {
				encl = stack[len(stack)-1]
			}
			c := &FuncInfo{W: f.W, Pkg: f.Pkg, Name: fmt.Sprintf("%s$lit%d", f.Name, n), Lit: lit, Encl: encl}
			out = append(out, c)
			stack = append(stack, c)
		}
		return true
	})
	return out
}

// ClosureWhere returns the unique nested literal satisfying pred, or nil.
func (f *FuncInfo) ClosureWhere(pred func(c *FuncInfo) bool) *FuncInfo {
	var hit *FuncInfo
	for _, c := range f.Closures() {
		if pred(c) {
			if hit != nil {
				return nil
			}
			hit = c
		}
	}
	return hit
}

// Callee resolves the static callee of a call (function, method or interface method).
func Callee(info *types.Info, call *ast.CallExpr) *types.Func {
	fn, _ := typeutil.Callee(info, call).(*types.Func)
	if fn != nil {
		fn = fn.Origin()
	}
	return fn
}

// IsBuiltinCall reports whether call invokes the named builtin.
func IsBuiltinCall(info *types.Info, call *ast.CallExpr, name string) bool {
	id, ok := ast.Unparen(call.Fun).(*ast.Ident)
	if !ok || id.Name != name {
		return false
	}
	_, isb := info.Uses[id].(*types.Builtin)
	return isb
}

// NameSet is a set of short function names; matching also accepts a method
// promoted from an embedded type or declared on an interface when listed.
type NameSet map[string]bool

func Names(ns ...string) NameSet {
	m := NameSet{}
	for _, n := range ns {
		m[n] = true
		mentioned[n] = true
	}
	return m
}

func (s NameSet) Has(fn *types.Func) bool {
	return fn != nil && s[ShortName(fn)]
}

// HasCall is Has(Callee(call)) extended to calls of function values: a call
// whose function expression has a named func type pkg.T matches the name
// "pkg.T" (e.g. an option applied as opt(x)).
func (s NameSet) HasCall(info *types.Info, call *ast.CallExpr) bool {
	if fn := Callee(info, call); fn != nil {
		return s.Has(fn)
	}
	if t := info.TypeOf(call.Fun); t != nil {
		if n, ok := t.(*types.Named); ok {
			if _, isSig := n.Underlying().(*types.Signature); isSig && n.Obj().Pkg() != nil {
				return s[shortenPath(n.Obj().Pkg().Path())+"."+n.Obj().Name()]
			}
		}
	}
	return false
}

func (s NameSet) List() []string {
	var out []string
	for k := range s {
		out = append(out, k)
	}
	sortStrings(out)
	return out
}
