package core

import (
	"go/ast"
	"go/types"
)

// Helper summaries (depth 1).  A rule anchored on function F names the calls
// it reasons about; when a behaviour-preserving refactoring moves such a call
// into a helper of F's package, F itself no longer contains the call.  The
// functions below compute, from the helper's own flow graph, when a call to
// the helper can stand for the call it wraps.  Every summary is a must-fact of
// the helper (all of its live returns), so using it never accepts more than
// the un-refactored code would establish.

// directHelpers lists the declared functions of f's package (other than f)
// that f calls directly and that themselves call one of callees.
func directHelpers(f *FuncInfo, callees NameSet) []*FuncInfo {
	var out []*FuncInfo
	seen := map[*types.Func]bool{}
	ast.Inspect(f.Body(), func(x ast.Node) bool {
		call, ok := x.(*ast.CallExpr)
		if !ok {
			return true
		}
		fn := Callee(f.Info(), call)
		if fn == nil || seen[fn] || fn.Pkg() == nil || fn.Pkg() != f.Pkg.Types || callees.Has(fn) {
			return true
		}
		seen[fn] = true
		h := f.W.FuncOf(fn)
		if h == nil || h == f || h.Body() == nil {
			return true
		}
		calls := false
		ast.Inspect(h.Body(), func(y ast.Node) bool {
			if c2, ok := y.(*ast.CallExpr); ok && callees.Has(Callee(h.Info(), c2)) {
				calls = true
			}
			return !calls
		})
		if calls {
			out = append(out, h)
		}
		return true
	})
	return out
}

func lastResultKind(h *FuncInfo) string {
	sig := h.Sig()
	if sig == nil || sig.Results().Len() == 0 {
		return ""
	}
	t := sig.Results().At(sig.Results().Len() - 1).Type()
	if isBool(t) {
		return "bool"
	}
	if types.Identical(t, types.Universe.Lookup("error").Type()) {
		return "error"
	}
	return ""
}

// summariseGuard returns the guards by which calls to helpers of f stand for cg.
func summariseGuard(f *FuncInfo, base *FlowSpec, cg CallGuard) []CallGuard {
	if cg.ArgOK != nil {
		return nil
	}
	var out []CallGuard
	for _, h := range directHelpers(f, cg.Callee) {
		hs := &FlowSpec{Calls: []CallGuard{cg}, Assume: base.Assume, noExpand: true}
		fl := RunFlow(h, hs)
		kind := lastResultKind(h)
		all, okPass, nPass := true, true, 0
		n := 0
		for _, ret := range fl.G.Returns() {
			if !fl.Live(ret) {
				continue
			}
			n++
			has := fl.In[ret].Has(cg.Fact)
			if !has {
				all = false
			}
			if kind != "" && ClassifyReturn(fl, ret, -1) != False {
				nPass++
				if !has {
					okPass = false
				}
			}
		}
		if n == 0 {
			continue
		}
		name := NameSet{ShortName(h.Obj): true} // (not Names: a summary does not make the helper a named function)
		switch {
		case all:
			out = append(out, CallGuard{Fact: cg.Fact, Callee: name, Pass: OCalled, NoArgDeps: true, InDefer: cg.InDefer})
		case kind == "error" && okPass && nPass > 0 && cg.Pass != OCalled:
			// the helper reports success only after the wrapped call passed
			out = append(out, CallGuard{Fact: cg.Fact, Callee: name, Pass: OErrNil, Idx: -1, NoArgDeps: cg.NoArgDeps})
		case kind == "bool" && okPass && nPass > 0 && cg.Pass != OCalled:
			out = append(out, CallGuard{Fact: cg.Fact, Callee: name, Pass: OTrue, Idx: -1, NoArgDeps: cg.NoArgDeps})
		}
	}
	return out
}

// FailWrappers lists the helpers of f's package whose error result is non-nil
// on every path after a failing call to one of callees: a call to such a
// helper fails whenever the wrapped call does.
func FailWrappers(f *FuncInfo, base *FlowSpec, fc FailCall) []string {
	if fc.ArgOK != nil {
		return nil
	}
	var out []string
	for _, h := range directHelpers(f, fc.Callee) {
		if lastResultKind(h) != "error" {
			continue
		}
		hs := &FlowSpec{FailCalls: []FailCall{fc}, noExpand: true}
		if base != nil {
			hs.Assume = base.Assume
		}
		fl := RunFlow(h, hs)
		sites, ok := 0, true
		for _, n := range fl.G.Nodes {
			if !fl.Live(n) || n.Ast == nil || n.Defer || n.Go {
				continue
			}
			hit := false
			for _, call := range CallsIn(n.Ast) {
				if fc.Callee.Has(Callee(fl.C.Info, call)) {
					hit = true
				}
			}
			if !hit {
				continue
			}
			sites++
			reach := fl.G.Reachable([]*GNode{n}, func(e *GEdge) bool { return !fl.Feasible(e) }, nil)
			for _, m := range fl.G.Returns() {
				if m != n && reach[m] && fl.Live(m) && ClassifyReturn(fl, m, -1) != False {
					ok = false
				}
			}
		}
		if sites > 0 && ok {
			out = append(out, ShortName(h.Obj))
		}
	}
	return out
}

// expandSpec adds the helper summaries of every call guard.
func expandSpec(f *FuncInfo, spec *FlowSpec) *FlowSpec {
	if spec == nil || spec.noExpand || len(spec.Calls) == 0 || f.Body() == nil {
		return spec
	}
	var extra []CallGuard
	for _, cg := range spec.Calls {
		extra = append(extra, summariseGuard(f, spec, cg)...)
	}
	if len(extra) == 0 {
		return spec
	}
	cp := *spec
	cp.Calls = append(append([]CallGuard{}, spec.Calls...), extra...)
	cp.noExpand = true
	return &cp
}
