package core

import (
	"fmt"
	"go/ast"
	"go/token"
	"go/types"
	"sort"
	"strings"
)

// ---------------------------------------------------------------------------
// Node predicates (sinks)

// SinkPred selects nodes of interest given the flow result.
type SinkPred struct {
	Label string
	Match func(fl *Flow, n *GNode) bool
}

// CallSink matches nodes that evaluate a (non-deferred, non-go) call to one of names.
func CallSink(names ...string) SinkPred {
	ns := Names(names...)
	return SinkPred{Label: "call " + strings.Join(names, "|"), Match: func(fl *Flow, n *GNode) bool {
		if n.Ast == nil || n.Defer || n.Go {
			return false
		}
		for _, c := range CallsIn(n.Ast) {
			if ns.Has(Callee(fl.C.Info, c)) {
				return true
			}
		}
		return false
	}}
}

// CallSinkWhere is CallSink restricted by a predicate on the call.
func CallSinkWhere(label string, names []string, ok func(c *Ctx, call *ast.CallExpr) bool) SinkPred {
	ns := Names(names...)
	return SinkPred{Label: label, Match: func(fl *Flow, n *GNode) bool {
		if n.Ast == nil || n.Defer || n.Go {
			return false
		}
		for _, c := range CallsIn(n.Ast) {
			if ns.Has(Callee(fl.C.Info, c)) && ok(fl.C, c) {
				return true
			}
		}
		return false
	}}
}

// GoSink matches `go` statements whose call (or literal body) reaches one of names.
func GoSink(names ...string) SinkPred {
	ns := Names(names...)
	return SinkPred{Label: "go " + strings.Join(names, "|"), Match: func(fl *Flow, n *GNode) bool {
		if !n.Go {
			return false
		}
		gs := n.Ast.(*ast.GoStmt)
		found := false
		ast.Inspect(gs, func(x ast.Node) bool {
			if c, ok := x.(*ast.CallExpr); ok && ns.Has(Callee(fl.C.Info, c)) {
				found = true
			}
			return true
		})
		return found
	}}
}

// StoreSink matches assignments (=, :=, op=, ++/--) whose left side selects one of the fields.
func StoreSink(w *World, fields ...string) SinkPred {
	return SinkPred{Label: "store " + strings.Join(fields, "|"), Match: func(fl *Flow, n *GNode) bool {
		return len(StoresTo(fl.C, n.Ast, fields...)) > 0
	}}
}

// StoresTo returns the LHS expressions in node a that select one of the named
// fields (pkg.T.f) or package-level variables (pkg.v).
func StoresTo(c *Ctx, a ast.Node, quals ...string) []ast.Expr {
	var objs []types.Object
	for _, q := range quals {
		if o := c.W.LookupObj(q); o != nil {
			objs = append(objs, o)
		}
	}
	var lhs []ast.Expr
	switch s := a.(type) {
	case *ast.AssignStmt:
		lhs = s.Lhs
	case *ast.IncDecStmt:
		lhs = []ast.Expr{s.X}
	}
	var out []ast.Expr
	for _, l := range lhs {
		l = ast.Unparen(l)
		// x.f = .., x.f[i] = .. (element store counts as store to the field)
		base := l
		for {
			if ix, ok := base.(*ast.IndexExpr); ok {
				base = ast.Unparen(ix.X)
				continue
			}
			break
		}
		var o types.Object
		switch b := base.(type) {
		case *ast.SelectorExpr:
			o = c.Info.ObjectOf(b.Sel)
		case *ast.Ident:
			o = c.Info.ObjectOf(b)
		}
		for _, want := range objs {
			if o == want {
				out = append(out, l)
			}
		}
	}
	return out
}

// errConstructors are calls known to produce a non-nil error.
var errConstructors = Names("errors.New", "fmt.Errorf", "github.com/pkg/errors.New", "github.com/pkg/errors.Errorf",
	"github.com/pkg/errors.Wrap", "github.com/pkg/errors.Wrapf", "github.com/pkg/errors.WithStack")

// Classify a return node: True = certainly a success return, False = certainly a
// failure return, Unknown = may be either.  Result index -1 = last result.
func ClassifyReturn(fl *Flow, n *GNode, idx int) Tri {
	if n.Kind != KReturn {
		return False
	}
	sig := fl.C.F.Sig()
	nres := sig.Results().Len()
	if nres == 0 {
		return True
	}
	if idx < 0 {
		idx = nres + idx
	}
	rt := sig.Results().At(idx).Type()
	st := fl.In[n]
	rs, _ := n.Ast.(*ast.ReturnStmt)
	var e ast.Expr
	if rs != nil && len(rs.Results) == nres {
		e = ast.Unparen(rs.Results[idx])
	} else if rs != nil && len(rs.Results) == 1 && nres > 1 {
		return Unknown // return f()
	} else {
		// bare return with named results
		v := sig.Results().At(idx)
		if v.Name() == "" || v.Name() == "_" {
			return Unknown
		}
		if t, ok := st.Val[v]; ok {
			if isBool(rt) {
				return t
			}
			return t.Not() // Val True = non-nil = failure
		}
		return Unknown
	}
	if isBool(rt) {
		t := eval3(fl.C, fl.Spec, e, st, nil)
		return t
	}
	// error-like
	if isNilExpr(fl.C.Info, e) {
		return True
	}
	switch x := e.(type) {
	case *ast.Ident:
		o := fl.C.Info.ObjectOf(x)
		if v, ok := o.(*types.Var); ok {
			if v.Pkg() != nil && v.Parent() == v.Pkg().Scope() {
				return False // package-level sentinel
			}
			if t, ok := st.Val[v]; ok {
				return t.Not()
			}
		}
	case *ast.SelectorExpr:
		if v, ok := fl.C.Info.ObjectOf(x.Sel).(*types.Var); ok && !v.IsField() {
			return False // pkg.ErrX
		}
	case *ast.CallExpr:
		if errConstructors.Has(Callee(fl.C.Info, x)) {
			return False
		}
	}
	return Unknown
}

// SuccessReturn matches returns that may be success returns (result idx nil/true).
func SuccessReturn(idx int) SinkPred {
	return SinkPred{Label: "success return", Match: func(fl *Flow, n *GNode) bool {
		return n.Kind == KReturn && ClassifyReturn(fl, n, idx) != False
	}}
}

// CertainSuccessReturn matches returns whose result idx is certainly nil/true.
func CertainSuccessReturn(idx int) SinkPred {
	return SinkPred{Label: "certain success return", Match: func(fl *Flow, n *GNode) bool {
		return n.Kind == KReturn && ClassifyReturn(fl, n, idx) == True
	}}
}

// AnyReturn matches every return.
func AnyReturn() SinkPred {
	return SinkPred{Label: "return", Match: func(fl *Flow, n *GNode) bool { return n.Kind == KReturn }}
}

// ---------------------------------------------------------------------------
// E1: dominance with polarity

// Dominated requires that every sink in Fn holds all Need facts (or one of the
// Unless facts) on entry.
type Dominated struct {
	Fn     string
	Spec   *FlowSpec
	Sink   SinkPred
	Need   []Fact
	AnyOf  [][]Fact // alternatively: at least one of these fact sets must hold entirely
	Unless []Fact   // an exempting fact (frozen exception) — must carry a reason
	Reason string   // reason for Unless
	Min    int      // minimum number of sinks expected in Fn
	// SkipSink lets a rule drop individual sinks with a reason.
	SkipSink func(fl *Flow, n *GNode) (skip bool, reason string)
}

// Check runs the rule, reporting one obligation per (sink, needed fact).
func (d Dominated) Check(r *Run) {
	f := r.Fn(d.Fn)
	if f == nil {
		return
	}
	fl := RunFlow(f, d.Spec)
	r.Stats.FlowRuns++
	cnt := 0
	occ := map[string]int{}
	for _, n := range fl.G.Nodes {
		if !fl.Live(n) || !d.Sink.Match(fl, n) {
			continue
		}
		if d.SkipSink != nil {
			if skip, why := d.SkipSink(fl, n); skip {
				r.Exception(f.Name+" "+sinkDesc(n), why)
				continue
			}
		}
		cnt++
		desc := sinkDesc(n)
		occ[desc]++
		label := fmt.Sprintf("%s @ %s#%d", f.Name, desc, occ[desc])
		st := fl.In[n]
		exempt := false
		for _, u := range d.Unless {
			if st.Has(u) {
				exempt = true
				r.Exception(label, "exempt by "+string(u)+": "+d.Reason)
			}
		}
		if len(d.AnyOf) > 0 {
			c := label + " justified by one of the alternatives"
			okAlt := exempt
			for _, alt := range d.AnyOf {
				all := true
				for _, f := range alt {
					if !st.Has(f) {
						all = false
					}
				}
				if all {
					okAlt = true
				}
			}
			if okAlt {
				r.OK(c, r.W.Pos(n.Ast.Pos()), "one alternative fact set holds on every path reaching the sink")
			} else {
				r.Fail(c, r.W.Pos(n.Ast.Pos()), fmt.Sprintf("`%s` in %s is reachable without any of the justifying fact sets %v; facts at sink: %v", ExprStr(n.Ast), f.Name, d.AnyOf, st.FactList()))
			}
		}
		for _, need := range d.Need {
			c := label + " needs " + string(need)
			if exempt || st.Has(need) {
				r.OK(c, r.W.Pos(n.Ast.Pos()), "fact holds on every path reaching the sink")
			} else {
				r.Fail(c, r.W.Pos(n.Ast.Pos()), fmt.Sprintf("a path from the entry of %s reaches `%s` without %s; facts at sink: %v", f.Name, ExprStr(n.Ast), need, st.FactList()))
			}
		}
	}
	if cnt < d.Min {
		r.Fail(fmt.Sprintf("%s sinks[%s]", f.Name, d.Sink.Label), r.W.Pos(f.Node().Pos()), fmt.Sprintf("expected at least %d sink sites, found %d (sink removed or no longer recognised)", d.Min, cnt))
	}
}

func sinkDesc(n *GNode) string {
	s := ExprStr(n.Ast)
	if len(s) > 70 {
		s = s[:70] + "…"
	}
	if s == "" && n.Kind == KReturn {
		s = "return(implicit)"
	}
	return s
}

// ---------------------------------------------------------------------------
// E2: pairing

// Paired requires that after every Open node each feasible path to a return
// passes a Close node (a deferred Close counts from the defer on).
type Paired struct {
	Fn    string
	Spec  *FlowSpec // only used for feasibility pruning (may be nil)
	Open  NameSet
	Close NameSet
	// ExemptExit exempts an exit with a reason.
	ExemptExit func(fl *Flow, n *GNode) (bool, string)
	MinOpen    int
}

func nodeCalls(c *Ctx, n *GNode, ns NameSet, deferredToo bool) bool {
	if n.Ast == nil {
		return false
	}
	if n.Go {
		return false
	}
	if n.Defer {
		if !deferredToo {
			return false
		}
		for _, call := range DeferredCalls(n.Ast) {
			if ns.Has(Callee(c.Info, call)) {
				return true
			}
		}
		return false
	}
	for _, call := range CallsIn(n.Ast) {
		if ns.Has(Callee(c.Info, call)) {
			return true
		}
	}
	return false
}

func (p Paired) Check(r *Run) {
	f := r.Fn(p.Fn)
	if f == nil {
		return
	}
	spec := p.Spec
	if spec == nil {
		spec = &FlowSpec{}
	}
	fl := RunFlow(f, spec)
	r.Stats.FlowRuns++
	opens := 0
	for _, n := range fl.G.Nodes {
		if !fl.Live(n) || !nodeCalls(fl.C, n, p.Open, false) {
			continue
		}
		opens++
		reach := fl.G.Reachable([]*GNode{n}, func(e *GEdge) bool { return !fl.Feasible(e) }, func(m *GNode) bool {
			return m != n && nodeCalls(fl.C, m, p.Close, true)
		})
		nExits := 0
		for _, m := range fl.G.Nodes {
			if !reach[m] || m.Kind != KReturn {
				continue
			}
			if nodeCalls(fl.C, m, p.Close, true) {
				continue
			}
			nExits++
			label := fmt.Sprintf("%s open@%s → exit `%s`", f.Name, ExprStr(n.Ast), sinkDesc(m))
			if p.ExemptExit != nil {
				if ok, why := p.ExemptExit(fl, m); ok {
					r.Exception(label, why)
					r.OK(label, r.W.Pos(m.Ast.Pos()), "frozen exception: "+why)
					continue
				}
			}
			r.Fail(label, r.W.Pos(m.Ast.Pos()), fmt.Sprintf("exit reachable after %s without passing %v", ExprStr(n.Ast), p.Close.List()))
		}
		r.OK(fmt.Sprintf("%s open@%s all other exits closed", f.Name, ExprStr(n.Ast)), r.W.Pos(n.Ast.Pos()),
			fmt.Sprintf("%d open exits found and reported separately; every other path passes %v", nExits, p.Close.List()))
	}
	if opens < p.MinOpen {
		r.Fail(f.Name+" opens", r.W.Pos(f.Node().Pos()), fmt.Sprintf("expected ≥%d open sites (%v), found %d", p.MinOpen, p.Open.List(), opens))
	}
}

// ControlledBy reports whether node n is reachable only through an edge on which
// an atom recognised by match holds with the given value (the exit is
// control-dependent on it in the strong, dominating sense).
func ControlledBy(fl *Flow, n *GNode, match func(c *Ctx, e ast.Expr) bool, val bool) bool {
	// cut all edges that imply the atom; if n becomes unreachable it is controlled
	reach := fl.G.Reachable([]*GNode{fl.G.Entry}, func(e *GEdge) bool {
		if !fl.Feasible(e) {
			return true
		}
		if e.Cond == nil {
			return false
		}
		cond := e.Cond
		if e.Tag != nil {
			cond = &ast.BinaryExpr{X: e.Tag, Op: token.EQL, Y: e.Cond}
		}
		for _, at := range Implied(cond, e.Val) {
			if at.Val == val && match(fl.C, ast.Unparen(at.E)) {
				return true
			}
		}
		return false
	}, nil)
	return !reach[n]
}

// ---------------------------------------------------------------------------
// E12: live rejection

// LiveReturn requires a live, conditional return mentioning the sentinel.
type LiveReturn struct {
	Fn        string
	Spec      *FlowSpec
	Sentinels []string // qualified package-level error variables
}

func mentionsObj(info *types.Info, n ast.Node, o types.Object) bool {
	found := false
	InspectNode(n, func(x ast.Node) bool {
		if id, ok := x.(*ast.Ident); ok && info.Uses[id] == o {
			found = true
		}
		return !found
	})
	return found
}

func (l LiveReturn) Check(r *Run) {
	f := r.Fn(l.Fn)
	if f == nil {
		return
	}
	spec := l.Spec
	if spec == nil {
		spec = &FlowSpec{}
	}
	fl := RunFlow(f, spec)
	r.Stats.FlowRuns++
	for _, sname := range l.Sentinels {
		o := r.W.LookupObj(sname)
		if o == nil {
			r.Unresolved(sname)
			continue
		}
		label := fmt.Sprintf("%s rejects with %s", f.Name, sname)
		ok := false
		var where token.Pos
		var whyNot = "no live node produces the sentinel"
		for _, n := range fl.G.Nodes {
			if !fl.Live(n) || n.Ast == nil || !producesSentinel(fl, n, o) {
				continue
			}
			// conditional: some return is reachable avoiding n
			reach := fl.G.Reachable([]*GNode{fl.G.Entry}, func(e *GEdge) bool { return !fl.Feasible(e) }, func(m *GNode) bool { return m == n })
			cond := false
			for _, m := range fl.G.Returns() {
				if m != n && reach[m] {
					cond = true
				}
			}
			// and a return must be reachable from n
			after := fl.G.Reachable([]*GNode{n}, func(e *GEdge) bool { return !fl.Feasible(e) }, nil)
			ret := false
			for _, m := range fl.G.Returns() {
				if after[m] {
					ret = true
				}
			}
			if cond && ret {
				ok = true
				where = n.Ast.Pos()
				break
			}
			if !cond {
				whyNot = "the sentinel is produced unconditionally (its controlling condition is constant or gone)"
			}
		}
		if ok {
			r.OK(label, r.W.Pos(where), "live, conditionally reached production of the sentinel")
		} else {
			r.Fail(label, r.W.Pos(f.Node().Pos()), whyNot)
		}
	}
}

// producesSentinel: the node returns the sentinel or assigns it to a variable /
// passes it to a call (not merely compares against it).
func producesSentinel(fl *Flow, n *GNode, o types.Object) bool {
	info := fl.C.Info
	if !mentionsObj(info, n.Ast, o) {
		return false
	}
	// exclude pure comparisons: every mention sits under ==/!= or errors.Is
	nonCmp := false
	var walk func(x ast.Node, inCmp bool)
	walk = func(x ast.Node, inCmp bool) {
		if x == nil {
			return
		}
		switch y := x.(type) {
		case *ast.FuncLit:
			return
		case *ast.BinaryExpr:
			c := inCmp || y.Op == token.EQL || y.Op == token.NEQ
			walk(y.X, c)
			walk(y.Y, c)
			return
		case *ast.CallExpr:
			c := inCmp
			if fn := Callee(info, y); fn != nil && fn.Pkg() != nil && fn.Pkg().Path() == "errors" && (fn.Name() == "Is" || fn.Name() == "As") {
				c = true
			}
			walk(y.Fun, c)
			for _, a := range y.Args {
				walk(a, c)
			}
			return
		case *ast.Ident:
			if info.Uses[y] == o && !inCmp {
				nonCmp = true
			}
			return
		case *ast.CaseClause:
			return
		}
		// generic children
		ast.Inspect(x, func(ch ast.Node) bool {
			if ch == x || ch == nil {
				return true
			}
			walk(ch, inCmp)
			return false
		})
	}
	walk(n.Ast, false)
	// a bare expression node that is a switch-case value is a comparison
	if _, isExpr := n.Ast.(ast.Expr); isExpr {
		for _, e := range n.Succ {
			if e.Cond != nil {
				return false
			}
		}
	}
	return nonCmp
}

// ---------------------------------------------------------------------------
// Relation guards (normalised comparisons)

// Rel is a comparison relation between a left and right operand.
type Rel string

var negRel = map[token.Token]token.Token{token.LSS: token.GEQ, token.LEQ: token.GTR, token.GTR: token.LEQ, token.GEQ: token.LSS, token.EQL: token.NEQ, token.NEQ: token.EQL}
var mirRel = map[token.Token]token.Token{token.LSS: token.GTR, token.LEQ: token.GEQ, token.GTR: token.LSS, token.GEQ: token.LEQ, token.EQL: token.EQL, token.NEQ: token.NEQ}

// ExprPred recognises an operand.
type ExprPred func(c *Ctx, e ast.Expr) bool

// CmpAtom recognises `L op R` (in either orientation) and returns the relation
// that holds between L and R when the atom is true.
func CmpAtom(c *Ctx, e ast.Expr, L, R ExprPred) (token.Token, bool) {
	b, ok := ast.Unparen(e).(*ast.BinaryExpr)
	if !ok {
		return 0, false
	}
	if _, isCmp := negRel[b.Op]; !isCmp {
		return 0, false
	}
	if L(c, b.X) && R(c, b.Y) {
		return b.Op, true
	}
	if L(c, b.Y) && R(c, b.X) {
		return mirRel[b.Op], true
	}
	return 0, false
}

// RelGuard builds a CondGuard whose fact holds on edges where `L rel R` is
// implied.  rel is the relation that must hold to PASS (e.g. "<").
func RelGuard(fact Fact, L ExprPred, rel token.Token, R ExprPred) CondGuard {
	return CondGuard{Fact: fact, Match: func(c *Ctx, atom ast.Expr) (bool, bool) {
		op, ok := CmpAtom(c, atom, L, R)
		if !ok {
			return false, false
		}
		if implies(op, rel) {
			return true, true
		}
		if implies(negRel[op], rel) {
			return true, false
		}
		return false, false
	}}
}

// implies: does (L a R) imply (L b R)?
func implies(a, b token.Token) bool {
	if a == b {
		return true
	}
	switch a {
	case token.LSS:
		return b == token.LEQ || b == token.NEQ
	case token.GTR:
		return b == token.GEQ || b == token.NEQ
	case token.EQL:
		return b == token.LEQ || b == token.GEQ
	}
	return false
}

// Mentions builds an ExprPred that holds when the expression refers to every
// listed object (qualified names: field pkg.T.f, func/method, package var,
// or "param:N" / "recv").
func Mentions(quals ...string) ExprPred {
	return func(c *Ctx, e ast.Expr) bool {
		for _, q := range quals {
			if !derivedQual(c, e, q, 2) {
				return false
			}
		}
		return true
	}
}

// MentionsDirect is the purely syntactic form of Mentions (no local variable is
// followed): used where the rule needs "does not involve X" and a variable
// derived from X is still a different operand.
func MentionsDirect(quals ...string) ExprPred {
	return func(c *Ctx, e ast.Expr) bool {
		for _, q := range quals {
			if !mentionsQual(c, e, q) {
				return false
			}
		}
		return true
	}
}

// MentionsAny holds when any listed object is referred to.
func MentionsAny(quals ...string) ExprPred {
	return func(c *Ctx, e ast.Expr) bool {
		for _, q := range quals {
			if derivedQual(c, e, q, 2) {
				return true
			}
		}
		return false
	}
}

// AnyExpr accepts everything.
func AnyExpr(c *Ctx, e ast.Expr) bool { return true }

// IsConstInt recognises an integer constant expression with the given value.
func IsConstInt(v int64) ExprPred {
	return func(c *Ctx, e ast.Expr) bool {
		tv, ok := c.Info.Types[e]
		if !ok || tv.Value == nil {
			return false
		}
		return tv.Value.ExactString() == fmt.Sprint(v)
	}
}

// Not negates an operand predicate.
func Not(p ExprPred) ExprPred { return func(c *Ctx, e ast.Expr) bool { return !p(c, e) } }

// And conjoins operand predicates.
func And(ps ...ExprPred) ExprPred {
	return func(c *Ctx, e ast.Expr) bool {
		for _, p := range ps {
			if !p(c, e) {
				return false
			}
		}
		return true
	}
}

func mentionsQual(c *Ctx, e ast.Node, q string) bool {
	var want types.Object
	switch {
	case strings.HasPrefix(q, "param:"): // parameter of the enclosing declared function
		var i int
		fmt.Sscanf(q, "param:%d", &i)
		root := c.F
		for root.Encl != nil {
			root = root.Encl
		}
		if v := root.Param(i); v != nil {
			want = v
		}
	case strings.HasPrefix(q, "lparam:"): // parameter of the literal itself
		var i int
		fmt.Sscanf(q, "lparam:%d", &i)
		if v := c.F.Param(i); v != nil {
			want = v
		}
	case q == "recv":
		if v := c.F.Recv(); v != nil {
			want = v
		}
	case strings.HasPrefix(q, "builtin:"):
		name := strings.TrimPrefix(q, "builtin:")
		found := false
		InspectNode(e, func(x ast.Node) bool {
			if id, ok := x.(*ast.Ident); ok && id.Name == name {
				if _, isb := c.Info.Uses[id].(*types.Builtin); isb {
					found = true
				}
			}
			return !found
		})
		return found
	default:
		want = c.W.LookupObj(q)
	}
	if want == nil {
		return false
	}
	found := false
	InspectNode(e, func(x ast.Node) bool {
		if id, ok := x.(*ast.Ident); ok {
			o := c.Info.Uses[id]
			if o == nil {
				o = c.Info.Defs[id]
			}
			if fn, ok := o.(*types.Func); ok {
				o = fn.Origin()
			}
			if v, ok := o.(*types.Var); ok {
				o = v.Origin()
			}
			if o == want {
				found = true
			}
		}
		return !found
	})
	return found
}

// CallsAny builds an ExprPred: the expression contains a call to one of names,
// directly or through local variables all of whose definitions contain one
// (two levels).
func CallsAny(names ...string) ExprPred {
	ns := Names(names...)
	var rec func(c *Ctx, e ast.Node, depth int) bool
	rec = func(c *Ctx, e ast.Node, depth int) bool {
		found := false
		InspectNode(e, func(x ast.Node) bool {
			if call, ok := x.(*ast.CallExpr); ok && ns.Has(Callee(c.Info, call)) {
				found = true
			}
			return !found
		})
		if found || depth == 0 {
			return found
		}
		InspectNode(e, func(x ast.Node) bool {
			id, ok := x.(*ast.Ident)
			if !ok || found {
				return !found
			}
			v, ok := c.Info.Uses[id].(*types.Var)
			if !ok || v.IsField() || v.Pkg() == nil || v.Parent() == v.Pkg().Scope() {
				return true
			}
			defs := LiveDefs(c.DefsOf(v))
			n := 0
			for _, d := range defs {
				if _, isDecl := d.Stmt.(*ast.ValueSpec); isDecl && d.Rhs == nil {
					continue
				}
				if d.Rhs == nil || !rec(c, d.Rhs, depth-1) {
					return true
				}
				n++
			}
			if n > 0 {
				found = true
			}
			return !found
		})
		return found
	}
	return func(c *Ctx, e ast.Expr) bool { return rec(c, e, 2) }
}

// CallsAnyDirect is the purely syntactic form of CallsAny.
func CallsAnyDirect(names ...string) ExprPred {
	ns := Names(names...)
	return func(c *Ctx, e ast.Expr) bool {
		found := false
		InspectNode(e, func(x ast.Node) bool {
			if call, ok := x.(*ast.CallExpr); ok && ns.Has(Callee(c.Info, call)) {
				found = true
			}
			return !found
		})
		return found
	}
}

// RejectWhen requires: in Fn there is a condition atom `L rel R` (any
// orientation / negation) such that on the edge where the relation holds every
// feasible path ends in a return mentioning Sentinel (or, if Sentinel is empty,
// a certain-failure return).
type RejectWhen struct {
	Fn       string
	Spec     *FlowSpec
	Name     string
	L, R     ExprPred
	Rel      token.Token
	Sentinel string
	// BoolAtom, when set, is used instead of L/R/Rel: an atom recognised by it
	// rejects when its value equals RejectVal.
	BoolAtom  ExprPred
	RejectVal bool
	ErrIdx    int // result index of the error/bool (default last)
	// RejectIsTrue: for predicates like isExpired() the rejecting return is `true`.
	RejectIsTrue bool
	// RejectBy, when set, decides whether an exit is a rejecting one (e.g. a
	// return reached with the fact "msg.Data = <error>" established).
	RejectBy func(fl *Flow, ret *GNode) bool
}

// ReturnsRel requires that Fn has a live return whose result #Idx is exactly the
// comparison `L rel R` (any orientation; negation normalised).
type ReturnsRel struct {
	Fn   string
	Name string
	L, R ExprPred
	Rel  token.Token
	Idx  int
}

func (rr ReturnsRel) Check(r *Run) {
	f := r.Fn(rr.Fn)
	if f == nil {
		return
	}
	c := f.Ctx()
	label := fmt.Sprintf("%s returns %s", f.Name, rr.Name)
	var near []string
	for _, n := range f.Graph().Returns() {
		rs, ok := n.Ast.(*ast.ReturnStmt)
		if !ok || len(rs.Results) == 0 {
			continue
		}
		idx := rr.Idx
		if idx < 0 || idx >= len(rs.Results) {
			idx = len(rs.Results) - 1
		}
		e := ast.Unparen(rs.Results[idx])
		neg := false
		for {
			if u, ok := e.(*ast.UnaryExpr); ok && u.Op == token.NOT {
				e = ast.Unparen(u.X)
				neg = !neg
				continue
			}
			break
		}
		op, ok := CmpAtom(c, e, rr.L, rr.R)
		if !ok {
			continue
		}
		if neg {
			op = negRel[op]
		}
		if op == rr.Rel {
			r.OK(label, r.W.Pos(rs.Pos()), "return of the comparison with the required relation "+rr.Rel.String())
			return
		}
		near = append(near, fmt.Sprintf("%s: `%s` has relation %s", r.W.Pos(rs.Pos()), ExprStr(rs), op))
	}
	why := "no return of a comparison between the required operands"
	if len(near) > 0 {
		why = "required relation " + rr.Rel.String() + " but found " + strings.Join(near, "; ")
	}
	r.Fail(label, r.W.Pos(f.Node().Pos()), why)
}

func (rw RejectWhen) Check(r *Run) {
	f := r.Fn(rw.Fn)
	if f == nil {
		return
	}
	spec := rw.Spec
	if spec == nil {
		spec = &FlowSpec{}
	}
	fl := RunFlow(f, spec)
	r.Stats.FlowRuns++
	var sent types.Object
	if rw.Sentinel != "" {
		sent = r.W.LookupObj(rw.Sentinel)
		if sent == nil {
			r.Unresolved(rw.Sentinel)
			return
		}
	}
	label := fmt.Sprintf("%s rejects when %s", f.Name, rw.Name)
	errIdx := rw.ErrIdx
	if errIdx == 0 {
		errIdx = -1
	}
	type cand struct {
		e   *GEdge
		why string
	}
	var seenAtom bool
	var problems []string
	okCount := 0
	for _, n := range fl.G.Nodes {
		if !fl.Live(n) {
			continue
		}
		for _, e := range n.Succ {
			if e.Cond == nil || !fl.Feasible(e) {
				continue
			}
			cond := e.Cond
			if e.Tag != nil {
				cond = &ast.BinaryExpr{X: e.Tag, Op: token.EQL, Y: e.Cond}
			}
			// find the atom inside cond
			var atom ast.Expr
			var rejectVal bool
			var relFound token.Token
			walkAtoms(cond, func(a ast.Expr) {
				if atom != nil {
					return
				}
				if rw.BoolAtom != nil {
					if rw.BoolAtom(fl.C, a) {
						atom, rejectVal = a, rw.RejectVal
					}
					return
				}
				if op, ok := CmpAtom(fl.C, a, rw.L, rw.R); ok {
					seenAtom = true
					relFound = op
					if op == rw.Rel {
						atom, rejectVal = a, true
					} else if negRel[op] == rw.Rel {
						atom, rejectVal = a, false
					} else {
						problems = append(problems, fmt.Sprintf("%s: comparison `%s` gives relation %s / %s, neither is the required %s", r.W.Pos(a.Pos()), ExprStr(a), op, negRel[op], rw.Rel))
					}
				}
			})
			_ = relFound
			if atom == nil {
				continue
			}
			seenAtom = true
			// Does this edge get taken whenever atom == rejectVal?
			t := eval3(fl.C, fl.Spec, cond, fl.Out[n], func(x ast.Expr) Tri {
				if x == atom {
					return triOf(rejectVal)
				}
				return Unknown
			})
			if t == Unknown || (t == True) != e.Val {
				continue
			}
			// every feasible path from e.To must end in a rejecting return
			reach := fl.G.Reachable([]*GNode{e.To}, func(x *GEdge) bool { return !fl.Feasible(x) }, nil)
			good, bad := 0, 0
			var badPos string
			for m := range reach {
				if m.Kind == KPanic {
					good++
					continue
				}
				if m.Kind != KReturn {
					continue
				}
				rej := false
				if rw.RejectBy != nil {
					rej = rw.RejectBy(fl, m)
				} else if sent != nil {
					rej = mentionsObj(fl.C.Info, m.Ast, sent)
					if !rej {
						// returned through a variable assigned the sentinel on this path
						rej = returnsVarAssignedSentinel(fl, m, sent, reach)
					}
				} else if rw.RejectIsTrue {
					rej = ClassifyReturn(fl, m, errIdx) == True
				} else {
					rej = ClassifyReturn(fl, m, errIdx) == False
				}
				if rej {
					good++
				} else {
					bad++
					badPos = r.W.Pos(m.Ast.Pos())
				}
			}
			if good > 0 && bad == 0 {
				okCount++
				r.OK(label, r.W.Pos(atom.Pos()), fmt.Sprintf("atom `%s`=%v forces the rejecting edge; all %d exits beyond it reject", ExprStr(atom), rejectVal, good))
			} else {
				problems = append(problems, fmt.Sprintf("%s: atom `%s`=%v does not force rejection (exit at %s does not reject)", r.W.Pos(atom.Pos()), ExprStr(atom), rejectVal, badPos))
			}
		}
	}
	if okCount == 0 {
		why := "no condition of the required shape was found"
		if seenAtom || len(problems) > 0 {
			why = strings.Join(problems, "; ")
			if why == "" {
				why = "the condition exists but no edge is forced by it (it is and-ed with something not assumed)"
			}
		}
		r.Fail(label, r.W.Pos(f.Node().Pos()), why)
	}
}

func returnsVarAssignedSentinel(fl *Flow, ret *GNode, sent types.Object, region map[*GNode]bool) bool {
	rs, ok := ret.Ast.(*ast.ReturnStmt)
	if !ok {
		return false
	}
	for _, res := range rs.Results {
		id, ok := ast.Unparen(res).(*ast.Ident)
		if !ok {
			continue
		}
		o := fl.C.Info.ObjectOf(id)
		for m := range region {
			as, ok := m.Ast.(*ast.AssignStmt)
			if !ok {
				continue
			}
			for i, l := range as.Lhs {
				if lid, ok := l.(*ast.Ident); ok && fl.C.Info.ObjectOf(lid) == o && i < len(as.Rhs) && mentionsObj(fl.C.Info, as.Rhs[i], sent) {
					return true
				}
			}
		}
	}
	return false
}

// walkAtoms visits the leaves of a &&/||/! condition tree.
func walkAtoms(e ast.Expr, fn func(ast.Expr)) {
	e = ast.Unparen(e)
	switch x := e.(type) {
	case *ast.UnaryExpr:
		if x.Op == token.NOT {
			walkAtoms(x.X, fn)
			return
		}
	case *ast.BinaryExpr:
		if x.Op == token.LAND || x.Op == token.LOR {
			walkAtoms(x.X, fn)
			walkAtoms(x.Y, fn)
			return
		}
	}
	fn(e)
}

// ---------------------------------------------------------------------------
// E4: who may call

// CallSite is one resolved call.
type CallSite struct {
	Caller *FuncInfo // outermost declared function
	Call   *ast.CallExpr
	Callee *types.Func
	InLit  bool
}

// CallSitesOf enumerates calls (and method-value references) to any of names in
// all loaded packages.
func (w *World) CallSitesOf(ns NameSet) []CallSite {
	var out []CallSite
	for _, pkg := range w.Pkgs {
		for _, file := range pkg.Syntax {
			for _, d := range file.Decls {
				fd, ok := d.(*ast.FuncDecl)
				if !ok || fd.Body == nil {
					continue
				}
				var fi *FuncInfo
				depth := 0
				ast.Inspect(fd.Body, func(x ast.Node) bool {
					switch y := x.(type) {
					case *ast.FuncLit:
						_ = y
						depth++
					case *ast.CallExpr:
						if fn := Callee(pkg.TypesInfo, y); ns.Has(fn) {
							if fi == nil {
								obj, _ := pkg.TypesInfo.Defs[fd.Name].(*types.Func)
								fi = w.FuncOf(obj)
							}
							out = append(out, CallSite{Caller: fi, Call: y, Callee: fn})
						}
					}
					return true
				})
			}
		}
	}
	return out
}

// RefsTo enumerates every identifier use of the named objects (calls, method
// values, field reads/writes) in loaded packages, with the enclosing function.
type Ref struct {
	Fn    *FuncInfo
	Ident *ast.Ident
	Obj   types.Object
}

func (w *World) RefsTo(objs map[types.Object]bool) []Ref {
	var out []Ref
	for _, pkg := range w.Pkgs {
		for _, file := range pkg.Syntax {
			for _, d := range file.Decls {
				fd, ok := d.(*ast.FuncDecl)
				if !ok || fd.Body == nil {
					continue
				}
				var fi *FuncInfo
				ast.Inspect(fd.Body, func(x ast.Node) bool {
					if id, ok := x.(*ast.Ident); ok {
						o := pkg.TypesInfo.Uses[id]
						if fn, ok := o.(*types.Func); ok {
							o = fn.Origin()
						}
						if v, ok := o.(*types.Var); ok {
							o = v.Origin()
						}
						if o != nil && objs[o] {
							if fi == nil {
								obj, _ := pkg.TypesInfo.Defs[fd.Name].(*types.Func)
								fi = w.FuncOf(obj)
							}
							out = append(out, Ref{Fn: fi, Ident: id, Obj: o})
						}
					}
					return true
				})
			}
		}
	}
	return out
}

// WhoMayCall requires that every reference to Targets lies in a function of Allowed.
type WhoMayCall struct {
	Targets []string
	Allowed []string // short function names; "pkg.*" allows a whole package
	Min     int
	Reasons map[string]string
}

func (wm WhoMayCall) Check(r *Run) {
	objs := map[types.Object]bool{}
	for _, t := range wm.Targets {
		o := r.W.LookupObj(t)
		if o == nil {
			r.Unresolved(t)
			return
		}
		if fn, ok := o.(*types.Func); ok {
			o = fn.Origin()
		}
		objs[o] = true
	}
	allowed := map[string]bool{}
	var pkgsAllowed []string
	for _, a := range wm.Allowed {
		if strings.HasSuffix(a, ".*") {
			pkgsAllowed = append(pkgsAllowed, strings.TrimSuffix(a, ".*"))
		} else {
			allowed[a] = true
		}
	}
	refs := r.W.RefsTo(objs)
	n := 0
	perCaller := map[string]int{}
	for _, ref := range refs {
		if ref.Fn == nil {
			continue
		}
		r.Touch(ref.Fn)
		n++
		name := ref.Fn.Name
		perCaller[name]++
		label := fmt.Sprintf("%s referenced from %s#%d", ShortObj(ref.Obj), name, perCaller[name])
		ok := allowed[name]
		for _, p := range pkgsAllowed {
			if ref.Fn.Pkg.PkgPath == FullPath(p) {
				ok = true
			}
		}
		if ok {
			r.OK(label, r.W.Pos(ref.Ident.Pos()), "caller is in the allowed set")
		} else if via := wm.onlyThroughAllowed(r, ref.Fn, allowed, pkgsAllowed, 2); via != "" {
			// an unexported helper that is itself referenced only from the allowed set (an extracted block)
			r.OK(label, r.W.Pos(ref.Ident.Pos()), "unexported helper used only by "+via)
		} else {
			r.Fail(label, r.W.Pos(ref.Ident.Pos()), fmt.Sprintf("%s is used outside the allowed set %v", ShortObj(ref.Obj), wm.Allowed))
		}
	}
	if n < wm.Min {
		r.Fail(fmt.Sprintf("references to %v", wm.Targets), "-", fmt.Sprintf("expected ≥%d references, found %d", wm.Min, n))
	}
}

// onlyThroughAllowed: f is an unexported declared function every reference to
// which lies in an allowed function (or, up to depth, in another such helper).
// Returns a description of the allowed users, "" when the condition fails.
func (wm WhoMayCall) onlyThroughAllowed(r *Run, f *FuncInfo, allowed map[string]bool, pkgsAllowed []string, depth int) string {
	if f == nil || f.Obj == nil || f.Obj.Exported() || depth == 0 {
		return ""
	}
	refs := r.W.RefsTo(map[types.Object]bool{f.Obj.Origin(): true})
	if len(refs) == 0 {
		return ""
	}
	var users []string
	for _, ref := range refs {
		if ref.Fn == nil {
			return ""
		}
		ok := allowed[ref.Fn.Name]
		for _, p := range pkgsAllowed {
			if ref.Fn.Pkg.PkgPath == FullPath(p) {
				ok = true
			}
		}
		if !ok && wm.onlyThroughAllowed(r, ref.Fn, allowed, pkgsAllowed, depth-1) == "" {
			return ""
		}
		users = append(users, ref.Fn.Name)
	}
	sort.Strings(users)
	return strings.Join(users, ", ")
}

// OnlyUsedBy reports, for an unexported declared function, the allowed
// functions through which alone it is referenced (directly or through further
// such helpers, two levels); "" when it has any other user.  A rule that
// confines an effect to a frozen set of functions uses it to accept a helper
// extracted from one of them.
func OnlyUsedBy(r *Run, f *FuncInfo, allowed map[string]bool) string {
	return WhoMayCall{}.onlyThroughAllowed(r, f, allowed, nil, 2)
}
