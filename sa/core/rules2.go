package core

import (
	"fmt"
	"go/ast"
	"go/token"
	"go/types"
	"strings"
)

// FailStops: assume every call to Callee fails (its result #Idx has outcome
// Fail); then from each such call site no Forbidden node may be reachable along
// feasible edges.  "If the check fails, the sink is never reached."
type FailStops struct {
	Fn        string
	Spec      *FlowSpec // extra assumptions / facts (FailCalls is added by the rule)
	Callee    []string
	Idx       int     // result index (-1 = last)
	Fail      Outcome // OErrNonNil, OFalse, OTrue, OErrNil
	ArgOK     func(c *Ctx, call *ast.CallExpr) bool
	Forbidden SinkPred
	Min       int // minimum number of call sites
	Name      string
}

func (fs FailStops) Check(r *Run) {
	f := r.Fn(fs.Fn)
	if f == nil {
		return
	}
	spec := &FlowSpec{}
	if fs.Spec != nil {
		cp := *fs.Spec
		spec = &cp
	}
	ns := Names(fs.Callee...)
	spec.FailCalls = append(append([]FailCall{}, spec.FailCalls...), FailCall{Callee: ns, Idx: fs.Idx, Outcome: fs.Fail, ArgOK: fs.ArgOK})
	if fs.Fail == OErrNonNil {
		// a helper of the package whose error is non-nil whenever the wrapped call fails stands for the call
		if ws := FailWrappers(f, fs.Spec, FailCall{Callee: ns, Idx: fs.Idx, Outcome: fs.Fail, ArgOK: fs.ArgOK}); len(ws) > 0 {
			wn := NameSet{} // (not Names: being a wrapper does not make the helper a named function)
			for _, w := range ws {
				wn[w] = true
			}
			spec.FailCalls = append(spec.FailCalls, FailCall{Callee: wn, Idx: -1, Outcome: OErrNonNil})
			all := NameSet{}
			for _, k := range fs.Callee {
				all[k] = true
			}
			for k := range wn {
				all[k] = true
			}
			ns = all
		}
	}
	fl := RunFlow(f, spec)
	r.Stats.FlowRuns++
	sites := 0
	name := fs.Name
	if name == "" {
		name = strings.Join(fs.Callee, "|")
	}
	for _, n := range fl.G.Nodes {
		if !fl.Live(n) || n.Ast == nil || n.Defer || n.Go {
			continue
		}
		hit := false
		for _, call := range CallsIn(n.Ast) {
			if ns.HasCall(fl.C.Info, call) && (fs.ArgOK == nil || fs.ArgOK(fl.C, call)) {
				hit = true
			}
		}
		if !hit {
			continue
		}
		sites++
		label := fmt.Sprintf("%s: failing %s#%d stops before %s", f.Name, name, sites, fs.Forbidden.Label)
		reach := fl.G.Reachable([]*GNode{n}, func(e *GEdge) bool { return !fl.Feasible(e) }, nil)
		var bad *GNode
		for _, m := range fl.G.Nodes {
			if m == n || !reach[m] || !fl.Live(m) {
				continue
			}
			if fs.Forbidden.Match(fl, m) {
				bad = m
				break
			}
		}
		if bad == nil {
			r.OK(label, r.W.Pos(n.Ast.Pos()), "with the call assumed to fail no path from it reaches the sink")
		} else {
			pos := "-"
			if bad.Ast != nil {
				pos = r.W.Pos(bad.Ast.Pos())
			}
			r.Fail(label, r.W.Pos(n.Ast.Pos()), fmt.Sprintf("even when %s fails, `%s` at %s is still reached (the failure is ignored, overwritten or only logged)", name, sinkDesc(bad), pos))
		}
	}
	if sites < fs.Min {
		r.Fail(fmt.Sprintf("%s call sites of %s", f.Name, name), r.W.Pos(f.Node().Pos()), fmt.Sprintf("expected ≥%d call sites, found %d", fs.Min, sites))
	}
}

// ErrorStore returns a NodeGen-style predicate: node stores a value of an
// error type into the named field (e.g. queue.Message.Data = err).
func ErrorStore(fieldQual string) func(c *Ctx, n *GNode) bool {
	return func(c *Ctx, n *GNode) bool {
		as, ok := n.Ast.(*ast.AssignStmt)
		if !ok {
			return false
		}
		for i, l := range as.Lhs {
			if len(StoresTo(c, &ast.AssignStmt{Lhs: []ast.Expr{l}, Tok: as.Tok, Rhs: as.Rhs}, fieldQual)) == 0 {
				continue
			}
			if i < len(as.Rhs) && IsErrorTyped(c.Info, as.Rhs[i]) {
				return true
			}
		}
		return false
	}
}

var errorIface = types.Universe.Lookup("error").Type().Underlying().(*types.Interface)

// IsErrorTyped reports whether the expression's static type implements error.
func IsErrorTyped(info *types.Info, e ast.Expr) bool {
	t := info.TypeOf(e)
	if t == nil {
		return false
	}
	if _, isNil := t.(*types.Basic); isNil && t.(*types.Basic).Kind() == types.UntypedNil {
		return false
	}
	return types.Implements(t, errorIface)
}

// NotFact matches return nodes at which the fact does not (must-)hold.
func ReturnWithout(f Fact) SinkPred {
	return SinkPred{Label: "return without " + string(f), Match: func(fl *Flow, n *GNode) bool {
		return n.Kind == KReturn && !fl.In[n].Has(f)
	}}
}

// OrSink is the union of sinks.
func OrSink(ss ...SinkPred) SinkPred {
	var labels []string
	for _, s := range ss {
		labels = append(labels, s.Label)
	}
	return SinkPred{Label: strings.Join(labels, " | "), Match: func(fl *Flow, n *GNode) bool {
		for _, s := range ss {
			if s.Match(fl, n) {
				return true
			}
		}
		return false
	}}
}

// PlusOne holds for `X + 1` (or `1 + X`) with p(X), looking through one local
// variable definition.
func PlusOne(p ExprPred) ExprPred {
	var rec func(c *Ctx, e ast.Expr, depth int) bool
	rec = func(c *Ctx, e ast.Expr, depth int) bool {
		e = ast.Unparen(e)
		if b, ok := e.(*ast.BinaryExpr); ok && b.Op.String() == "+" {
			if IsConstInt(1)(c, b.Y) && p(c, b.X) {
				return true
			}
			if IsConstInt(1)(c, b.X) && p(c, b.Y) {
				return true
			}
			return false
		}
		if id, ok := e.(*ast.Ident); ok && depth > 0 {
			if o := c.Info.ObjectOf(id); o != nil {
				defs := c.DefsOf(o)
				if len(defs) == 0 {
					return false
				}
				for _, d := range defs {
					if d.Rhs == nil || !rec(c, d.Rhs, depth-1) {
						return false
					}
				}
				return true
			}
		}
		return false
	}
	return func(c *Ctx, e ast.Expr) bool { return rec(c, e, 1) }
}

// CallArgs checks every call to callee in Fn (including nested literals when
// deep) against positional argument predicates; reports one obligation per call.
type CallArgs struct {
	Fn     string
	Callee []string
	Args   map[int]ExprPred
	What   string
	Min    int
	Deep   bool
}

func (ca CallArgs) Check(r *Run) {
	f := r.Fn(ca.Fn)
	if f == nil {
		return
	}
	c := f.Ctx()
	ns := Names(ca.Callee...)
	n := 0
	visit := func(x ast.Node) bool {
		if _, isLit := x.(*ast.FuncLit); isLit && !ca.Deep {
			return false
		}
		call, ok := x.(*ast.CallExpr)
		if !ok || !ns.Has(Callee(c.Info, call)) {
			return true
		}
		n++
		label := fmt.Sprintf("%s call#%d of %s: %s", f.Name, n, strings.Join(ca.Callee, "|"), ca.What)
		bad := ""
		for i, p := range ca.Args {
			if i >= len(call.Args) || !p(c, call.Args[i]) {
				arg := "<missing>"
				if i < len(call.Args) {
					arg = ExprStr(call.Args[i])
				}
				bad += fmt.Sprintf(" argument %d `%s` does not have the required shape;", i, arg)
			}
		}
		if bad == "" {
			r.OK(label, r.W.Pos(call.Pos()), "arguments have the required shape")
		} else {
			r.Fail(label, r.W.Pos(call.Pos()), strings.TrimSpace(bad))
		}
		return true
	}
	InspectBody(f, visit)
	if n < ca.Min {
		r.Fail(fmt.Sprintf("%s calls of %s", f.Name, strings.Join(ca.Callee, "|")), r.W.Pos(f.Node().Pos()), fmt.Sprintf("expected ≥%d calls, found %d", ca.Min, n))
	}
}

// HasAtom requires a live condition atom in Fn that tests exactly the relation
// `L rel R` (any orientation; a test of the complementary relation is the same
// test).  It pins comparison boundaries that dominance rules accept loosely.
type HasAtom struct {
	Fn   string
	Spec *FlowSpec
	Name string
	L, R ExprPred
	Rel  token.Token
}

func (h HasAtom) Check(r *Run) {
	f := r.Fn(h.Fn)
	if f == nil {
		return
	}
	spec := h.Spec
	if spec == nil {
		spec = &FlowSpec{}
	}
	fl := RunFlow(f, spec)
	label := fmt.Sprintf("%s tests %s", f.Name, h.Name)
	var near []string
	for _, n := range fl.G.Nodes {
		if !fl.Live(n) {
			continue
		}
		for _, e := range n.Succ {
			if e.Cond == nil || !e.Val {
				continue
			}
			cond := e.Cond
			if e.Tag != nil {
				cond = &ast.BinaryExpr{X: e.Tag, Op: token.EQL, Y: e.Cond}
			}
			found := false
			walkAtoms(cond, func(a ast.Expr) {
				op, ok := CmpAtom(fl.C, a, h.L, h.R)
				if !ok {
					return
				}
				if op == h.Rel || negRel[op] == h.Rel {
					found = true
					r.OK(label, r.W.Pos(a.Pos()), fmt.Sprintf("atom `%s` tests the required boundary", ExprStr(a)))
				} else {
					near = append(near, fmt.Sprintf("%s: `%s` tests %s/%s", r.W.Pos(a.Pos()), ExprStr(a), op, negRel[op]))
				}
			})
			if found {
				return
			}
		}
	}
	// returned comparisons count as tests too
	for _, n := range fl.G.Returns() {
		rs, ok := n.Ast.(*ast.ReturnStmt)
		if !ok {
			continue
		}
		for _, res := range rs.Results {
			found := false
			walkAtoms(res, func(a ast.Expr) {
				if op, ok := CmpAtom(fl.C, a, h.L, h.R); ok && (op == h.Rel || negRel[op] == h.Rel) {
					found = true
				}
			})
			if found {
				r.OK(label, r.W.Pos(rs.Pos()), "returned comparison tests the required boundary")
				return
			}
		}
	}
	why := "no comparison between the required operands"
	if len(near) > 0 {
		why = fmt.Sprintf("required boundary %s, found %s", h.Rel, strings.Join(near, "; "))
	}
	r.Fail(label, r.W.Pos(f.Node().Pos()), why)
}

// MinusOne holds for `X - 1` with p(X).
func MinusOne(p ExprPred) ExprPred {
	return func(c *Ctx, e ast.Expr) bool {
		b, ok := ast.Unparen(e).(*ast.BinaryExpr)
		return ok && b.Op == token.SUB && IsConstInt(1)(c, b.Y) && p(c, b.X)
	}
}
