// Package core holds the static-analysis engines used by the per-property
// rule tables in verif/sa/props.  Nothing in here executes chain33 code; it
// loads /repo with go/packages, type-checks it, builds go/cfg (and go/ssa on
// demand) and decides obligations over the resolved program.
package core

import (
	"fmt"
	"go/ast"
	"go/token"
	"go/types"
	"os"
	"path/filepath"
	"sort"
	"strings"
	"time"

	"golang.org/x/tools/go/packages"
)

// Module is the import-path prefix of the analysed repository.
const Module = "github.com/33cn/chain33"

// RepoDir is where the analysed tree lives.  Overridable for self-tests.
var RepoDir = func() string {
	if d := os.Getenv("VERIF_REPO"); d != "" {
		return d
	}
	return "/repo"
}()

// allowTypeErrorsIn lists the only packages that do not type-check on this
// image (see DESIGN.md 2.1).  Any type error elsewhere fails the check.
var allowTypeErrorsIn = []string{
	Module + "/system/consensus/snowman",
	"github.com/ava-labs/avalanchego",
}

// World is the loaded, type-checked program (or the part of it a check needs).
type World struct {
	Fset   *token.FileSet
	Pkgs   map[string]*packages.Package // by import path, roots only (have syntax)
	All    map[string]*packages.Package // every package seen, including deps
	Roots  []*packages.Package
	LoadS  float64
	funcs  map[string]*FuncInfo
	parent map[ast.Node]ast.Node
	Mode   string

	// Overlay, when set before loading, replaces file contents (used by the
	// sensitivity runs; nothing is written to /repo).
	Overlay map[string][]byte

	// Inline switches Graph() to the graphs with helpers spliced in.
	Inline bool
	// InlineFor restricts inline mode to these declared functions (nil = all).
	InlineFor map[*FuncInfo]bool
}

func loadEnv() []string {
	env := os.Environ()
	out := env[:0:0]
	for _, e := range env {
		if strings.HasPrefix(e, "GOWORK=") || strings.HasPrefix(e, "GOFLAGS=") {
			continue
		}
		out = append(out, e)
	}
	out = append(out, "GOFLAGS=-mod=mod", "GOPROXY=off", "GOSUMDB=off", "GOTOOLCHAIN=local", "GOWORK=off")
	return out
}

// FullPath turns a short package path ("executor", "system/mempool") into a full
// import path.  A path whose first segment contains a dot, or that does not name
// a directory of the repository (standard library), is returned unchanged.
func FullPath(p string) string {
	if p == "" || p == "." {
		return Module
	}
	first := p
	if i := strings.Index(p, "/"); i >= 0 {
		first = p[:i]
	}
	if strings.Contains(first, ".") {
		return p
	}
	if st, err := os.Stat(filepath.Join(RepoDir, p)); err == nil && st.IsDir() {
		return Module + "/" + p
	}
	return p
}

// Load loads the given packages (short or full paths, or "./...").  With deep=false
// only the named packages get syntax (dependencies come from export data).
func Load(deep bool, overlay map[string][]byte, pats ...string) (*World, error) {
	t0 := time.Now()
	mode := packages.NeedName | packages.NeedFiles | packages.NeedCompiledGoFiles | packages.NeedImports |
		packages.NeedTypes | packages.NeedTypesSizes | packages.NeedSyntax | packages.NeedTypesInfo | packages.NeedModule
	if deep {
		mode |= packages.NeedDeps
	}
	var full []string
	for _, p := range pats {
		if p == "./..." {
			full = append(full, p)
		} else {
			full = append(full, FullPath(p))
		}
	}
	cfg := &packages.Config{Mode: mode, Dir: RepoDir, Env: loadEnv(), Tests: false, Overlay: overlay}
	cfg.Fset = token.NewFileSet()
	pkgs, err := packages.Load(cfg, full...)
	if err != nil {
		return nil, fmt.Errorf("packages.Load: %v", err)
	}
	w := &World{Fset: cfg.Fset, Pkgs: map[string]*packages.Package{}, All: map[string]*packages.Package{},
		funcs: map[string]*FuncInfo{}, parent: map[ast.Node]ast.Node{}, Overlay: overlay}
	if deep {
		w.Mode = "LoadAllSyntax"
	} else {
		w.Mode = "LoadSyntax"
	}
	var errs []string
	packages.Visit(pkgs, nil, func(p *packages.Package) {
		w.All[p.PkgPath] = p
		allowed := false
		for _, a := range allowTypeErrorsIn {
			if strings.HasPrefix(p.PkgPath, a) {
				allowed = true
			}
		}
		for _, e := range p.Errors {
			if !allowed {
				errs = append(errs, p.PkgPath+": "+e.Error())
			}
		}
	})
	if len(errs) > 0 {
		sort.Strings(errs)
		if len(errs) > 8 {
			errs = errs[:8]
		}
		return nil, fmt.Errorf("type/load errors outside the allow-list:\n  %s", strings.Join(errs, "\n  "))
	}
	for _, p := range pkgs {
		if len(p.Syntax) == 0 {
			skip := false
			for _, a := range allowTypeErrorsIn {
				if strings.HasPrefix(p.PkgPath, a) {
					skip = true
				}
			}
			if skip || len(p.GoFiles)+len(p.CompiledGoFiles) == 0 {
				continue // allow-listed, or a directory that only holds _test.go files
			}
			return nil, fmt.Errorf("package %s loaded without syntax", p.PkgPath)
		}
		w.Pkgs[p.PkgPath] = p
		w.Roots = append(w.Roots, p)
	}
	if deep {
		// every module package with syntax is analysable
		for path, p := range w.All {
			if strings.HasPrefix(path, Module) && len(p.Syntax) > 0 {
				w.Pkgs[path] = p
			}
		}
	}
	if len(w.Pkgs) == 0 {
		return nil, fmt.Errorf("no packages loaded for %v", pats)
	}
	w.LoadS = time.Since(t0).Seconds()
	return w, nil
}

// Pkg returns a loaded root package by short or full path (nil if absent).
func (w *World) Pkg(short string) *packages.Package {
	return w.Pkgs[FullPath(short)]
}

// TypesPkg returns the types.Package for a path, whether loaded from source or
// from export data.
func (w *World) TypesPkg(short string) *types.Package {
	fp := FullPath(short)
	if p := w.Pkgs[fp]; p != nil {
		return p.Types
	}
	if p := w.All[fp]; p != nil && p.Types != nil {
		return p.Types
	}
	// dependency known only through imports of a root
	for _, r := range w.Roots {
		if ip := r.Imports[fp]; ip != nil && ip.Types != nil {
			return ip.Types
		}
		for _, imp := range r.Types.Imports() {
			if imp.Path() == fp {
				return imp
			}
		}
	}
	// transitive: search the import graph of type packages
	seen := map[*types.Package]bool{}
	var find func(p *types.Package) *types.Package
	find = func(p *types.Package) *types.Package {
		if p == nil || seen[p] {
			return nil
		}
		seen[p] = true
		if p.Path() == fp {
			return p
		}
		for _, q := range p.Imports() {
			if r := find(q); r != nil {
				return r
			}
		}
		return nil
	}
	for _, r := range w.Roots {
		if r := find(r.Types); r != nil {
			return r
		}
	}
	return nil
}

// Pos renders a position relative to the repository root.
func (w *World) Pos(p token.Pos) string {
	if !p.IsValid() {
		return "-"
	}
	pp := w.Fset.Position(p)
	rel, err := filepath.Rel(RepoDir, pp.Filename)
	if err != nil || strings.HasPrefix(rel, "..") {
		rel = pp.Filename
	}
	return fmt.Sprintf("%s:%d", rel, pp.Line)
}

// FileOf returns the repo-relative file of a position.
func (w *World) FileOf(p token.Pos) string {
	s := w.Pos(p)
	if i := strings.LastIndex(s, ":"); i >= 0 {
		return s[:i]
	}
	return s
}

// Parent returns the syntactic parent of n (built lazily per file).
func (w *World) Parent(n ast.Node) ast.Node {
	if p, ok := w.parent[n]; ok {
		return p
	}
	// find file containing n
	for _, pkg := range w.Pkgs {
		for _, f := range pkg.Syntax {
			if f.Pos() <= n.Pos() && n.End() <= f.End() {
				if _, done := w.parent[f]; !done {
					w.parent[f] = nil
					var stack []ast.Node
					ast.Inspect(f, func(x ast.Node) bool {
						if x == nil {
							stack = stack[:len(stack)-1]
							return true
						}
						if len(stack) > 0 {
							w.parent[x] = stack[len(stack)-1]
						}
						stack = append(stack, x)
						return true
					})
				}
				return w.parent[n]
			}
		}
	}
	return nil
}

// PkgOfPos finds the loaded package whose syntax contains pos.
func (w *World) PkgOfPos(pos token.Pos) *packages.Package {
	for _, pkg := range w.Pkgs {
		for _, f := range pkg.Syntax {
			if f.Pos() <= pos && pos <= f.End() {
				return pkg
			}
		}
	}
	return nil
}
