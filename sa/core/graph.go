package core

import (
	"go/ast"
	"go/token"
	"go/types"
	"sort"

	"golang.org/x/tools/go/cfg"
)

func sortStrings(s []string) { sort.Strings(s) }

// NodeKind classifies graph nodes.
type NodeKind int

const (
	KPlain  NodeKind = iota
	KReturn          // explicit or materialised return
	KNop             // empty block placeholder
	KPanic           // block ends in a no-return call
)

// GNode is one statement/expression evaluation point of a function.
type GNode struct {
	ID    int
	Ast   ast.Node
	Kind  NodeKind
	Block *cfg.Block
	Succ  []*GEdge
	Pred  []*GEdge
	Defer bool // node is a DeferStmt
	Go    bool // node is a GoStmt
}

// GEdge is a control-flow edge.  When Cond != nil the edge is taken iff Cond
// evaluates to Val.  For tagged switch cases Tag is the switch tag and Cond the
// case expression (edge semantics: (Tag == Cond) == Val).
type GEdge struct {
	From, To *GNode
	Cond     ast.Expr
	Tag      ast.Expr
	Val      bool
	Kind     cfg.BlockKind // kind of the target block (RangeBody, RangeDone, ...)
	LoopStmt ast.Stmt      // for edges leaving a loop head: the loop statement
}

// Graph is the node-level control-flow graph of one function body.
type Graph struct {
	F      *FuncInfo
	Nodes  []*GNode
	Entry  *GNode
	CFG    *cfg.CFG
	byAst  map[ast.Node]*GNode
	caseOf map[*ast.CaseClause]ast.Stmt
	// AssignIdents: identifiers that go/cfg emits as nodes because they are
	// assigned (range key/value, select receive target), not read.
	AssignIdents map[*ast.Ident]bool
}

var noReturnFuncs = map[string]bool{
	"os.Exit": true, "log.Fatal": true, "log.Fatalf": true, "log.Fatalln": true, "log.Panic": true, "log.Panicf": true,
	"runtime.Goexit": true,
}

func mayReturn(info *types.Info) func(*ast.CallExpr) bool {
	return func(call *ast.CallExpr) bool {
		if IsBuiltinCall(info, call, "panic") {
			return false
		}
		if fn := Callee(info, call); fn != nil && fn.Pkg() != nil {
			if noReturnFuncs[fn.Pkg().Path()+"."+fn.Name()] {
				return false
			}
		}
		return true
	}
}

// Graph builds (once) the node-level CFG of f.  In inline mode (World.Inline)
// the graph has the bodies of the package's unmentioned helpers spliced in at
// their call statements (see inline.go).
func (f *FuncInfo) Graph() *Graph {
	if f.inlineOn() {
		if f.gi == nil {
			f.gi = buildGraph(f)
			inlineHelpers(f.gi, f, 2, map[*FuncInfo]bool{f: true})
		}
		return f.gi
	}
	if f.g == nil {
		f.g = buildGraph(f)
	}
	return f.g
}

// flowGraph is the graph the dataflow runs on: in inline mode additionally with
// compound bool returns decomposed into tests (rules that read the return
// expressions themselves use Graph()).
func (f *FuncInfo) flowGraph() *Graph {
	if !f.inlineOn() {
		return f.Graph()
	}
	if f.gis == nil {
		g := cloneGraph(f.Graph())
		splitBoolReturns(g, f)
		f.gis = g
	}
	return f.gis
}

func cloneGraph(g *Graph) *Graph {
	out := &Graph{F: g.F, CFG: g.CFG, byAst: map[ast.Node]*GNode{}, caseOf: g.caseOf, AssignIdents: g.AssignIdents}
	m := map[*GNode]*GNode{}
	for _, n := range g.Nodes {
		cp := &GNode{ID: n.ID, Ast: n.Ast, Kind: n.Kind, Block: n.Block, Defer: n.Defer, Go: n.Go}
		m[n] = cp
		out.Nodes = append(out.Nodes, cp)
	}
	for k, n := range g.byAst {
		if cp := m[n]; cp != nil {
			out.byAst[k] = cp
		}
	}
	for _, n := range g.Nodes {
		for _, e := range n.Succ {
			if m[e.To] == nil {
				continue
			}
			ne := &GEdge{From: m[n], To: m[e.To], Cond: e.Cond, Tag: e.Tag, Val: e.Val, Kind: e.Kind, LoopStmt: e.LoopStmt}
			m[n].Succ = append(m[n].Succ, ne)
			m[e.To].Pred = append(m[e.To].Pred, ne)
		}
	}
	out.Entry = m[g.Entry]
	return out
}

func buildGraph(f *FuncInfo) *Graph {
	info := f.Info()
	c := cfg.New(f.Body(), mayReturn(info))
	g := &Graph{F: f, CFG: c, byAst: map[ast.Node]*GNode{}, caseOf: map[*ast.CaseClause]ast.Stmt{}, AssignIdents: map[*ast.Ident]bool{}}
	ast.Inspect(f.Body(), func(n ast.Node) bool {
		switch s := n.(type) {
		case *ast.SwitchStmt:
			for _, cl := range s.Body.List {
				g.caseOf[cl.(*ast.CaseClause)] = s
			}
		case *ast.TypeSwitchStmt:
			for _, cl := range s.Body.List {
				g.caseOf[cl.(*ast.CaseClause)] = s
			}
		case *ast.RangeStmt:
			for _, kv := range []ast.Expr{s.Key, s.Value} {
				if id, ok := kv.(*ast.Ident); ok {
					g.AssignIdents[id] = true
				}
			}
		case *ast.CommClause:
			if as, ok := s.Comm.(*ast.AssignStmt); ok && len(as.Lhs) > 0 {
				if id, ok := as.Lhs[0].(*ast.Ident); ok {
					g.AssignIdents[id] = true
				}
			}
		case *ast.FuncLit:
			return false
		}
		return true
	})
	first := map[*cfg.Block]*GNode{}
	last := map[*cfg.Block]*GNode{}
	newNode := func(b *cfg.Block, a ast.Node, k NodeKind) *GNode {
		n := &GNode{ID: len(g.Nodes), Ast: a, Kind: k, Block: b}
		g.Nodes = append(g.Nodes, n)
		if a != nil {
			g.byAst[a] = n
		}
		return n
	}
	for _, b := range c.Blocks {
		if !b.Live {
			continue
		}
		var prev *GNode
		for _, a := range b.Nodes {
			k := KPlain
			if _, ok := a.(*ast.ReturnStmt); ok {
				k = KReturn
			}
			n := newNode(b, a, k)
			switch a.(type) {
			case *ast.DeferStmt:
				n.Defer = true
			case *ast.GoStmt:
				n.Go = true
			}
			if prev != nil {
				e := &GEdge{From: prev, To: n}
				prev.Succ = append(prev.Succ, e)
				n.Pred = append(n.Pred, e)
			} else {
				first[b] = n
			}
			prev = n
		}
		if prev == nil {
			n := newNode(b, nil, KNop)
			first[b] = n
			prev = n
		}
		last[b] = prev
		if len(b.Succs) == 0 && prev.Kind != KReturn {
			// falls off: no-return call
			if prev.Kind == KPlain {
				// keep the call node as is; mark a synthetic panic terminator
				p := newNode(b, nil, KPanic)
				e := &GEdge{From: prev, To: p}
				prev.Succ = append(prev.Succ, e)
				p.Pred = append(p.Pred, e)
				last[b] = p
			} else {
				prev.Kind = KPanic
			}
		}
	}
	for _, b := range c.Blocks {
		if !b.Live {
			continue
		}
		from := last[b]
		switch len(b.Succs) {
		case 1:
			to := first[b.Succs[0]]
			if to == nil {
				continue
			}
			e := &GEdge{From: from, To: to, Kind: b.Succs[0].Kind}
			from.Succ = append(from.Succ, e)
			to.Pred = append(to.Pred, e)
		case 2:
			var cond, tag ast.Expr
			t := b.Succs[0]
			var loop ast.Stmt
			switch t.Kind {
			case cfg.KindIfThen, cfg.KindForBody:
				if len(b.Nodes) > 0 {
					cond, _ = b.Nodes[len(b.Nodes)-1].(ast.Expr)
				}
				if t.Kind == cfg.KindForBody {
					loop = t.Stmt
				}
			case cfg.KindSwitchCaseBody:
				if cc, ok := t.Stmt.(*ast.CaseClause); ok {
					if sw, ok := g.caseOf[cc].(*ast.SwitchStmt); ok && len(b.Nodes) > 0 {
						cond, _ = b.Nodes[len(b.Nodes)-1].(ast.Expr)
						tag = sw.Tag
					}
				}
			case cfg.KindRangeBody:
				loop = t.Stmt
			}
			for i, sb := range b.Succs {
				to := first[sb]
				if to == nil {
					continue
				}
				e := &GEdge{From: from, To: to, Cond: cond, Tag: tag, Val: i == 0, Kind: sb.Kind, LoopStmt: loop}
				from.Succ = append(from.Succ, e)
				to.Pred = append(to.Pred, e)
			}
		}
	}
	g.Entry = first[c.Blocks[0]]
	return g
}

// NodeOf returns the graph node for a CFG-level AST node.
func (g *Graph) NodeOf(a ast.Node) *GNode { return g.byAst[a] }

// NodeContaining returns the graph node whose AST encloses pos (innermost by
// span), ignoring nested function literals.
func (g *Graph) NodeContaining(pos token.Pos) *GNode {
	var best *GNode
	for _, n := range g.Nodes {
		if n.Ast == nil {
			continue
		}
		if n.Ast.Pos() <= pos && pos < n.Ast.End() {
			if best == nil || (n.Ast.End()-n.Ast.Pos()) < (best.Ast.End()-best.Ast.Pos()) {
				best = n
			}
		}
	}
	return best
}

// Returns lists return nodes (explicit and materialised).
func (g *Graph) Returns() []*GNode {
	var out []*GNode
	for _, n := range g.Nodes {
		if n.Kind == KReturn {
			out = append(out, n)
		}
	}
	return out
}

// InspectNode walks the AST of a graph node without entering function literals
// (their bodies are separate functions).  RangeStmt/Select pieces are already
// separate nodes in go/cfg.
func InspectNode(n ast.Node, fn func(ast.Node) bool) {
	if n == nil {
		return
	}
	ast.Inspect(n, func(x ast.Node) bool {
		if x == nil {
			return true
		}
		if _, ok := x.(*ast.FuncLit); ok {
			fn(x)
			return false
		}
		return fn(x)
	})
}

// CallsIn returns the call expressions evaluated by a graph node (not inside
// nested literals).  For defer/go statements the deferred call itself is
// included; callers distinguish through GNode.Defer/Go.
func CallsIn(n ast.Node) []*ast.CallExpr {
	var out []*ast.CallExpr
	InspectNode(n, func(x ast.Node) bool {
		if c, ok := x.(*ast.CallExpr); ok {
			out = append(out, c)
		}
		return true
	})
	return out
}

// Reachable computes the nodes reachable from start, optionally skipping edges.
func (g *Graph) Reachable(start []*GNode, skipEdge func(*GEdge) bool, skipNode func(*GNode) bool) map[*GNode]bool {
	seen := map[*GNode]bool{}
	var stack []*GNode
	for _, s := range start {
		if s != nil && !seen[s] {
			seen[s] = true
			stack = append(stack, s)
		}
	}
	for len(stack) > 0 {
		n := stack[len(stack)-1]
		stack = stack[:len(stack)-1]
		if skipNode != nil && skipNode(n) {
			continue
		}
		for _, e := range n.Succ {
			if skipEdge != nil && skipEdge(e) {
				continue
			}
			if !seen[e.To] {
				seen[e.To] = true
				stack = append(stack, e.To)
			}
		}
	}
	return seen
}
