package core

import (
	"go/ast"
	"go/token"
)

// ReverseLoopOver recognises `for i := len(X)-1; i >= 0; i--` with p(X), the
// induction variable not assigned in the body.
func ReverseLoopOver(p ExprPred) func(c *Ctx, s ast.Stmt) bool {
	return func(c *Ctx, s ast.Stmt) bool {
		fs, ok := s.(*ast.ForStmt)
		if !ok || fs.Init == nil || fs.Cond == nil || fs.Post == nil {
			return false
		}
		as, ok := fs.Init.(*ast.AssignStmt)
		if !ok || len(as.Lhs) != 1 || len(as.Rhs) != 1 {
			return false
		}
		iv, ok := as.Lhs[0].(*ast.Ident)
		if !ok {
			return false
		}
		io := c.Info.ObjectOf(iv)
		isI := func(c *Ctx, e ast.Expr) bool {
			id, ok := ast.Unparen(e).(*ast.Ident)
			return ok && c.Info.ObjectOf(id) == io
		}
		lenX := func(c *Ctx, e ast.Expr) bool {
			call, ok := ast.Unparen(e).(*ast.CallExpr)
			return ok && IsBuiltinCall(c.Info, call, "len") && len(call.Args) == 1 && p(c, call.Args[0])
		}
		if !MinusOne(lenX)(c, as.Rhs[0]) {
			return false
		}
		op, ok := CmpAtom(c, fs.Cond, isI, IsConstInt(0))
		if !ok || op != token.GEQ {
			return false
		}
		dec, ok := fs.Post.(*ast.IncDecStmt)
		if !ok || dec.Tok != token.DEC || !isI(c, dec.X) {
			return false
		}
		bad := false
		ast.Inspect(fs.Body, func(x ast.Node) bool {
			switch st := x.(type) {
			case *ast.AssignStmt:
				for _, l := range st.Lhs {
					if isI(c, l) {
						bad = true
					}
				}
			case *ast.IncDecStmt:
				if isI(c, st.X) {
					bad = true
				}
			}
			return true
		})
		return !bad
	}
}

// LoopsIn lists the for/range statements of a function body (not in literals).
func LoopsIn(f *FuncInfo) []ast.Stmt {
	var out []ast.Stmt
	InspectBody(f, func(x ast.Node) bool {
		switch s := x.(type) {
		case *ast.FuncLit:
			return false
		case *ast.ForStmt:
			out = append(out, s)
		case *ast.RangeStmt:
			out = append(out, s)
		}
		return true
	})
	return out
}
