package core

import (
	"fmt"
	"os"
	"path/filepath"
	"strings"
)

// OverlayFromPatch applies a unified diff (git format, -p1 paths) to the
// CURRENT contents of the files under repoDir, in memory, and returns the new
// contents keyed by absolute path — suitable for packages.Config.Overlay.
// Nothing is written anywhere.  Hunks are located by their old-side lines:
// first at the stated line, otherwise at the nearest position where those
// lines occur (the tree may have moved since the patch was recorded).
func OverlayFromPatch(repoDir, patchPath string) (map[string][]byte, error) {
	data, err := os.ReadFile(patchPath)
	if err != nil {
		return nil, err
	}
	out := map[string][]byte{}
	lines := strings.Split(string(data), "\n")
	var file string
	var cur []string // current file content as lines
	flush := func() {
		if file != "" {
			out[filepath.Join(repoDir, file)] = []byte(strings.Join(cur, "\n"))
		}
	}
	i := 0
	for i < len(lines) {
		l := lines[i]
		switch {
		case strings.HasPrefix(l, "+++ "):
			flush()
			p := strings.TrimSpace(strings.TrimPrefix(l, "+++ "))
			p = strings.TrimPrefix(p, "b/")
			if p == "/dev/null" {
				return nil, fmt.Errorf("patch deletes a file; not supported")
			}
			file = p
			b, err := os.ReadFile(filepath.Join(repoDir, file))
			if err != nil {
				return nil, fmt.Errorf("patch touches %s: %v", file, err)
			}
			cur = strings.Split(string(b), "\n")
			i++
		case strings.HasPrefix(l, "@@ "):
			if file == "" {
				return nil, fmt.Errorf("hunk before file header")
			}
			var oldStart, oldLen, newStart, newLen int
			oldLen, newLen = 1, 1
			hdr := l[3:]
			if j := strings.Index(hdr, " @@"); j >= 0 {
				hdr = hdr[:j]
			}
			parts := strings.Fields(hdr)
			if len(parts) != 2 {
				return nil, fmt.Errorf("bad hunk header %q", l)
			}
			parse := func(s string, start, n *int) {
				s = s[1:]
				if k := strings.Index(s, ","); k >= 0 {
					fmt.Sscanf(s[:k], "%d", start)
					fmt.Sscanf(s[k+1:], "%d", n)
				} else {
					fmt.Sscanf(s, "%d", start)
				}
			}
			parse(parts[0], &oldStart, &oldLen)
			parse(parts[1], &newStart, &newLen)
			i++
			var oldSide, newSide []string
			for i < len(lines) {
				h := lines[i]
				if strings.HasPrefix(h, "@@ ") || strings.HasPrefix(h, "diff ") || strings.HasPrefix(h, "--- ") {
					break
				}
				switch {
				case strings.HasPrefix(h, "+"):
					newSide = append(newSide, h[1:])
				case strings.HasPrefix(h, "-"):
					oldSide = append(oldSide, h[1:])
				case strings.HasPrefix(h, " "):
					oldSide = append(oldSide, h[1:])
					newSide = append(newSide, h[1:])
				case h == "" && i == len(lines)-1:
					// trailing newline of the patch file
				case h == "":
					oldSide = append(oldSide, "")
					newSide = append(newSide, "")
				case strings.HasPrefix(h, "\\"):
				}
				i++
			}
			at := locate(cur, oldSide, oldStart-1)
			if at < 0 {
				return nil, fmt.Errorf("hunk @@ -%d does not apply to %s", oldStart, file)
			}
			next := append([]string{}, cur[:at]...)
			next = append(next, newSide...)
			next = append(next, cur[at+len(oldSide):]...)
			cur = next
		default:
			i++
		}
	}
	flush()
	if len(out) == 0 {
		return nil, fmt.Errorf("no file sections in %s", patchPath)
	}
	return out, nil
}

func locate(cur, old []string, want int) int {
	match := func(at int) bool {
		if at < 0 || at+len(old) > len(cur) {
			return false
		}
		for k := range old {
			if cur[at+k] != old[k] {
				return false
			}
		}
		return true
	}
	if match(want) {
		return want
	}
	for d := 1; d < len(cur); d++ {
		if match(want - d) {
			return want - d
		}
		if match(want + d) {
			return want + d
		}
	}
	return -1
}
