package core

import (
	"go/ast"
	"go/types"
)

// LockSpec exposes the lock/unlock fact generators of a mutex field:
// facts "W:<name>" (Lock held) and "R:<name>" (RLock held).
func LockSpec(mu *types.Var) *FlowSpec { return lockSpec(mu) }

// DerivedFromCall holds when the expression contains a call to one of callees,
// directly or through local variables all of whose definitions do (two levels).
func DerivedFromCall(callees ...string) ExprPred {
	direct := CallsAny(callees...)
	var rec func(c *Ctx, e ast.Node, depth int) bool
	rec = func(c *Ctx, e ast.Node, depth int) bool {
		if ex, ok := e.(ast.Expr); ok && direct(c, ex) {
			return true
		}
		if depth == 0 {
			return false
		}
		found := false
		InspectNode(e, func(x ast.Node) bool {
			id, ok := x.(*ast.Ident)
			if !ok || found {
				return true
			}
			v, ok := c.Info.Uses[id].(*types.Var)
			if !ok || v.IsField() || v.Pkg() == nil || v.Parent() == v.Pkg().Scope() {
				return true
			}
			defs := LiveDefs(c.DefsOf(v))
			if len(defs) == 0 {
				return true
			}
			all := true
			for _, d := range defs {
				if _, isDecl := d.Stmt.(*ast.ValueSpec); isDecl && d.Rhs == nil {
					continue // `var x T` zero-value declaration, assigned later
				}
				if d.Rhs == nil || !rec(c, d.Rhs, depth-1) {
					all = false
				}
			}
			if all {
				found = true
			}
			return true
		})
		return found
	}
	return func(c *Ctx, e ast.Expr) bool { return rec(c, e, 2) }
}
