package core

import (
	"encoding/json"
	"fmt"
	"os"
	"path/filepath"
	"sort"
	"strings"
	"time"
)

// Status of an obligation.
type Status string

const (
	SOK         Status = "discharged"
	SViolation  Status = "VIOLATION"
	SUnresolved Status = "UNRESOLVED"
	SKnown      Status = "known-finding"
)

// Obligation is one decided instance of a rule.
type Obligation struct {
	Rule      string `json:"rule"`
	Construct string `json:"construct"`
	Pos       string `json:"pos"`
	Status    Status `json:"decision"`
	Why       string `json:"why"`
}

func (o Obligation) Key() string { return o.Rule + " :: " + o.Construct }

// Rule is one rule of one property.
type Rule struct {
	ID    string
	Doc   string
	Floor int    // minimum number of obligations this rule must enumerate
	Tier  string // "" = both tiers, "thorough" = thorough only
	Run   func(r *Run)
}

// Property groups the rules that decide clauses of one property.
type Property struct {
	ID          string
	Title       string
	Packages    []string // short package paths to load with syntax (quick tier)
	Explanation string   // which clauses are decided and which are not
	NotCovered  string
	Assumptions []string
	Rules       []Rule
	Tech        string // a few words naming the deciding method
	// Hold, when non-empty, keeps the property out of MANIFEST.checks (it is
	// listed under not_applicable with this reason) until a firing rule has
	// been triaged as a genuine defect or a false alarm.
	Hold string
}

// Technique names the deciding method for MANIFEST.json.
func (p *Property) Technique() string {
	if p.Tech != "" {
		return p.Tech
	}
	return "static analysis: CFG must-fact dataflow, pairing and who-may-call rules over the type-resolved program"
}

// Run is the per-rule reporting context.
type Run struct {
	W       *World
	Prop    *Property
	Rule    *Rule
	Obls    []Obligation
	Stats   *Stats
	Tier    string
	current string
}

// Stats counts what was analysed.
type Stats struct {
	Functions  map[string]bool
	CFGNodes   int
	CallSites  int
	FlowRuns   int
	Exceptions []string
}

func (r *Run) add(st Status, construct, pos, why string) {
	r.Obls = append(r.Obls, Obligation{Rule: r.Rule.ID, Construct: construct, Pos: pos, Status: st, Why: why})
}

// OK records a discharged obligation.
func (r *Run) OK(construct, pos, why string) { r.add(SOK, construct, pos, why) }

// Fail records a violated obligation.
func (r *Run) Fail(construct, pos, why string) { r.add(SViolation, construct, pos, why) }

// Unresolved records an anchor that could not be resolved (fails the check).
func (r *Run) Unresolved(what string) {
	r.add(SUnresolved, "anchor "+what, "-", "anchor not found in the current tree; a silent pass would be vacuous")
}

// Exception records a frozen, reasoned exception that was applied.
func (r *Run) Exception(construct, reason string) {
	r.Stats.Exceptions = append(r.Stats.Exceptions, r.Rule.ID+" "+construct+": "+reason)
}

// Fn resolves a function or records it as unresolved.
func (r *Run) Fn(q string) *FuncInfo {
	f := r.W.Func(q)
	if f == nil {
		r.Unresolved(q)
		return nil
	}
	r.Touch(f)
	return f
}

// Touch counts a function as analysed.
func (r *Run) Touch(f *FuncInfo) {
	if f == nil {
		return
	}
	if !r.Stats.Functions[f.Name] {
		r.Stats.Functions[f.Name] = true
		r.Stats.CFGNodes += len(f.Graph().Nodes)
	}
}

// KnownFinding is an entry of /verif/known_findings.json.
type KnownFinding struct {
	Property  string `json:"property"`
	Rule      string `json:"rule"`
	Construct string `json:"construct"`
	WhatFails string `json:"what_fails"`
	Status    string `json:"status"` // known | fixed
	Commit    string `json:"commit,omitempty"`
}

// LoadKnown reads the known-findings file (read-only at run time).
func LoadKnown(path string) ([]KnownFinding, error) {
	b, err := os.ReadFile(path)
	if err != nil {
		if os.IsNotExist(err) {
			return nil, nil
		}
		return nil, err
	}
	var out struct {
		Findings []KnownFinding `json:"findings"`
	}
	if err := json.Unmarshal(b, &out); err != nil {
		return nil, err
	}
	return out.Findings, nil
}

// Result is the outcome of checking one property.
type Result struct {
	Prop       *Property
	Tier       string
	Obls       []Obligation
	Stats      *Stats
	World      *World
	Wall       float64
	FloorFails []string
	Known      []Obligation
	Sens       map[string]interface{}
}

// CheckProperty runs all rules of p against w.
func CheckProperty(w *World, p *Property, tier string, known []KnownFinding) *Result {
	t0 := time.Now()
	res := &Result{Prop: p, Tier: tier, World: w, Stats: &Stats{Functions: map[string]bool{}}}
	for i := range p.Rules {
		rule := &p.Rules[i]
		if rule.Tier == "thorough" && tier != "thorough" {
			continue
		}
		exec := func(inline bool, only map[*FuncInfo]bool) *Run {
			run := &Run{W: w, Prop: p, Rule: rule, Stats: res.Stats, Tier: tier}
			w.Inline, w.InlineFor = inline, only
			defer func() { w.Inline, w.InlineFor = false, nil }()
			func() {
				defer func() {
					if x := recover(); x != nil {
						run.add(SUnresolved, "analyzer panic", "-", fmt.Sprint(x))
					}
				}()
				rule.Run(run)
			}()
			return run
		}
		bad := func(run *Run) bool {
			if len(run.Obls) < rule.Floor {
				return true
			}
			for _, o := range run.Obls {
				if o.Status == SViolation || o.Status == SUnresolved {
					return true
				}
			}
			return false
		}
		run := exec(false, nil)
		if bad(run) && os.Getenv("VERIF_NOINLINE") == "" {
			// re-decide on the graphs with the package's unmentioned helpers
			// spliced in (inline.go); the plain verdict stands unless every
			// obligation is discharged there
			again := exec(true, failingFuncs(w, res.Stats, run, rule.Floor))
			if os.Getenv("VERIF_INLINE_DEBUG") != "" {
				for _, o := range again.Obls {
					if o.Status != SOK {
						fmt.Fprintf(os.Stderr, "inline-run %s: %s @ %s: %s\n", o.Rule, o.Construct, o.Pos, o.Why)
					}
				}
			}
			if !bad(again) {
				for i := range again.Obls {
					again.Obls[i].Why += " [decided with the package's unnamed helpers inlined]"
				}
				res.Stats.Exceptions = append(res.Stats.Exceptions, rule.ID+": decided on the helper-inlined graphs (the plain graphs did not discharge it)")
				run = again
			}
		}
		if len(run.Obls) < rule.Floor {
			res.FloorFails = append(res.FloorFails, fmt.Sprintf("%s: enumerated %d obligations, floor is %d (rule shrunk or anchors moved)", rule.ID, len(run.Obls), rule.Floor))
		}
		res.Obls = append(res.Obls, run.Obls...)
	}
	// known findings: match by rule + construct
	for i := range res.Obls {
		o := &res.Obls[i]
		if o.Status != SViolation {
			continue
		}
		for _, k := range known {
			if k.Status == "known" && k.Property == p.ID && k.Rule == o.Rule && k.Construct == o.Construct {
				o.Status = SKnown
				res.Known = append(res.Known, *o)
			}
		}
	}
	res.Wall = time.Since(t0).Seconds()
	return res
}

// Violations lists unlisted violations and unresolved anchors.
func (r *Result) Violations() []Obligation {
	var out []Obligation
	for _, o := range r.Obls {
		if o.Status == SViolation || o.Status == SUnresolved {
			out = append(out, o)
		}
	}
	return out
}

// WriteEvidence writes /verif/evidence/<id>.json.
func (r *Result) WriteEvidence(dir string, seed int64, totalWall float64) error {
	disc := 0
	ruleCount := map[string]int{}
	floors := map[string]int{}
	for _, o := range r.Obls {
		if o.Status == SOK {
			disc++
		}
		ruleCount[o.Rule]++
	}
	ruleDocs := map[string]string{}
	for _, ru := range r.Prop.Rules {
		floors[ru.ID] = ru.Floor
		ruleDocs[ru.ID] = ru.Doc
	}
	// samples: violations first, then a spread across rules
	var samples []Obligation
	for _, o := range r.Obls {
		if o.Status != SOK && len(samples) < 12 {
			samples = append(samples, o)
		}
	}
	seenRule := map[string]int{}
	for _, o := range r.Obls {
		if o.Status == SOK && seenRule[o.Rule] < 2 && len(samples) < 40 {
			seenRule[o.Rule]++
			samples = append(samples, o)
		}
	}
	var fns []string
	for f := range r.Stats.Functions {
		fns = append(fns, f)
	}
	sort.Strings(fns)
	var pk []string
	for p := range r.World.Pkgs {
		pk = append(pk, strings.TrimPrefix(p, Module+"/"))
	}
	sort.Strings(pk)
	if len(pk) > 40 {
		pk = append(pk[:40], fmt.Sprintf("... %d more", len(pk)-40))
	}
	distinct := map[string]bool{}
	for _, o := range r.Obls {
		distinct[o.Key()] = true
	}
	cov := map[string]interface{}{
		"explanation":         r.Prop.Explanation + " NOT decided by this check: " + r.Prop.NotCovered,
		"obligations":         len(r.Obls),
		"discharged":          disc,
		"evaluations":         len(r.Obls),
		"distinct_nontrivial": len(distinct),
		"rule":                "one obligation per (rule, resolved construct) enumerated from the current /repo source; distinct = distinct rule+construct keys; every obligation is non-trivial in that it names a concrete site/path of the analysed program",
		"samples":             samples,
		"rule_instances":      ruleCount,
		"floors":              floors,
		"rules":               ruleDocs,
		"floor_failures":      r.FloorFails,
		"analysed": map[string]interface{}{
			"load_mode":      r.World.Mode,
			"packages":       pk,
			"package_count":  len(r.World.Pkgs),
			"functions":      len(fns),
			"function_names": fns,
			"cfg_nodes":      r.Stats.CFGNodes,
			"load_seconds":   r.World.LoadS,
		},
		"exceptions_applied": r.Stats.Exceptions,
		"known_findings":     r.Known,
		"checker_cmd":        "/verif/bin/check " + r.Prop.ID + " " + r.Tier,
		"trusted_base":       []string{"go/types type checker", "golang.org/x/tools v0.29.0 go/packages, go/cfg", "hand-frozen idiom/exception tables in /verif/sa/props (each with a reason)"},
		"exhaustive":         true,
	}
	if r.Sens != nil {
		cov["sensitivity"] = r.Sens
	}
	ev := map[string]interface{}{
		"property_id": r.Prop.ID,
		"tier":        r.Tier,
		"seed":        seed,
		"level":       "other",
		"coverage":    cov,
		"assumptions": append([]string{
			"a renamed or deleted anchor function makes the obligation UNRESOLVED, which fails the check (deliberate: silence would be vacuous)",
			"variables whose address is taken and that are modified through the pointer are not tracked by the intra-procedural fact analysis",
		}, r.Prop.Assumptions...),
		"wall_s":     totalWall,
		"violations": len(r.Violations()) + len(r.FloorFails),
	}
	b, err := json.MarshalIndent(ev, "", " ")
	if err != nil {
		return err
	}
	if err := os.MkdirAll(dir, 0o755); err != nil {
		return err
	}
	return os.WriteFile(filepath.Join(dir, r.Prop.ID+".json"), b, 0o644)
}

// failingFuncs lists the analysed declared functions in which a failed
// obligation of run lies (nil = cannot tell: all functions).
func failingFuncs(w *World, st *Stats, run *Run, floor int) map[*FuncInfo]bool {
	if len(run.Obls) < floor {
		return nil
	}
	out := map[*FuncInfo]bool{}
	for _, o := range run.Obls {
		if o.Status != SViolation && o.Status != SUnresolved {
			continue
		}
		i := strings.LastIndex(o.Pos, ":")
		if i < 0 {
			return nil
		}
		file := o.Pos[:i]
		var line int
		fmt.Sscanf(o.Pos[i+1:], "%d", &line)
		found := false
		for name := range st.Functions {
			f := w.funcs[name]
			if f == nil {
				continue
			}
			for f.Encl != nil {
				f = f.Encl
			}
			a, b := w.Fset.Position(f.Node().Pos()), w.Fset.Position(f.Node().End())
			if strings.HasSuffix(a.Filename, "/"+file) && a.Line <= line && line <= b.Line {
				out[f] = true
				found = true
			}
		}
		if !found {
			return nil
		}
	}
	return out
}
