package core

import (
	"fmt"
	"go/ast"
	"go/token"
	"go/types"
)

// Hoisting (inline mode only).  A candidate helper can only be spliced where its
// call is a whole statement (`x := h(a)`, `h(a)`, `return h(a)`) or a whole
// condition.  A call nested in a larger expression — `return h(a), nil`,
// `ch <- h(a)`, `kvs = append(kvs, h(a)...)`, `bytes.Equal(x, h(a))` — is first
// hoisted: a node `t := h(a)` (t a fresh variable of the result type) is put in
// front of the statement and the statement is replaced by a copy that reads t.
// The AST of the program is never modified: only the spine from the statement
// to the call is copied.  Calls under `&&`/`||` or inside function literals are
// never hoisted (they may not be evaluated).

var hoistSeq int

// substCall returns a copy of n in which the expression old is replaced by repl
// (nil, false when old does not occur on a hoistable spine of n).
func substCall(info *types.Info, n ast.Node, old ast.Expr, repl ast.Expr) (ast.Node, bool) {
	var expr func(e ast.Expr) (ast.Expr, bool)
	exprs := func(es []ast.Expr) ([]ast.Expr, bool) {
		for i, e := range es {
			if ne, ok := expr(e); ok {
				out := append([]ast.Expr{}, es...)
				out[i] = ne
				return out, true
			}
		}
		return nil, false
	}
	keep := func(orig, cp ast.Expr) ast.Expr {
		if tv, ok := info.Types[orig]; ok {
			info.Types[cp] = tv
		}
		return cp
	}
	expr = func(e ast.Expr) (ast.Expr, bool) {
		if e == old {
			return repl, true
		}
		switch x := e.(type) {
		case *ast.ParenExpr:
			if ne, ok := expr(x.X); ok {
				cp := *x
				cp.X = ne
				return keep(x, &cp), true
			}
		case *ast.UnaryExpr:
			if x.Op == token.ARROW {
				return nil, false
			}
			if ne, ok := expr(x.X); ok {
				cp := *x
				cp.X = ne
				return keep(x, &cp), true
			}
		case *ast.BinaryExpr:
			if x.Op == token.LAND || x.Op == token.LOR {
				return nil, false
			}
			if ne, ok := expr(x.X); ok {
				cp := *x
				cp.X = ne
				return keep(x, &cp), true
			}
			if ne, ok := expr(x.Y); ok {
				cp := *x
				cp.Y = ne
				return keep(x, &cp), true
			}
		case *ast.CallExpr:
			if ne, ok := expr(x.Fun); ok {
				// only through a selector receiver: h(a).m(..)
				cp := *x
				cp.Fun = ne
				return keep(x, &cp), true
			}
			if na, ok := exprs(x.Args); ok {
				cp := *x
				cp.Args = na
				return keep(x, &cp), true
			}
		case *ast.SelectorExpr:
			if ne, ok := expr(x.X); ok {
				cp := *x
				cp.X = ne
				if s, ok := info.Selections[x]; ok {
					info.Selections[&cp] = s
				}
				return keep(x, &cp), true
			}
		case *ast.IndexExpr:
			if ne, ok := expr(x.X); ok {
				cp := *x
				cp.X = ne
				return keep(x, &cp), true
			}
			if ne, ok := expr(x.Index); ok {
				cp := *x
				cp.Index = ne
				return keep(x, &cp), true
			}
		case *ast.StarExpr:
			if ne, ok := expr(x.X); ok {
				cp := *x
				cp.X = ne
				return keep(x, &cp), true
			}
		case *ast.TypeAssertExpr:
			if ne, ok := expr(x.X); ok {
				cp := *x
				cp.X = ne
				return keep(x, &cp), true
			}
		case *ast.CompositeLit:
			for i, el := range x.Elts {
				if kv, isKV := el.(*ast.KeyValueExpr); isKV {
					if nv, ok := expr(kv.Value); ok {
						kcp := *kv
						kcp.Value = nv
						cp := *x
						cp.Elts = append([]ast.Expr{}, x.Elts...)
						cp.Elts[i] = &kcp
						return keep(x, &cp), true
					}
				} else if ne, ok := expr(el); ok {
					cp := *x
					cp.Elts = append([]ast.Expr{}, x.Elts...)
					cp.Elts[i] = ne
					return keep(x, &cp), true
				}
			}
		case *ast.SliceExpr:
			if ne, ok := expr(x.X); ok {
				cp := *x
				cp.X = ne
				return keep(x, &cp), true
			}
		}
		return nil, false
	}
	switch s := n.(type) {
	case *ast.ReturnStmt:
		if nr, ok := exprs(s.Results); ok {
			cp := *s
			cp.Results = nr
			return &cp, true
		}
	case *ast.SendStmt:
		if ne, ok := expr(s.Value); ok {
			cp := *s
			cp.Value = ne
			return &cp, true
		}
	case *ast.AssignStmt:
		if nr, ok := exprs(s.Rhs); ok {
			cp := *s
			cp.Rhs = nr
			return &cp, true
		}
	case *ast.ExprStmt:
		if ne, ok := expr(s.X); ok {
			cp := *s
			cp.X = ne
			return &cp, true
		}
	case ast.Expr:
		if ne, ok := expr(s); ok {
			return ne, true
		}
	}
	return nil, false
}

// hoistCalls puts every nested call to a candidate helper found in a plain
// statement or condition node of g in a node of its own in front of it.
func hoistCalls(g *Graph, f *FuncInfo, candidate func(*ast.CallExpr) bool) {
	info := f.Info()
	root := f
	for root.Encl != nil {
		root = root.Encl
	}
	for _, n := range append([]*GNode{}, g.Nodes...) {
		if n.Ast == nil || n.Defer || n.Go {
			continue
		}
		switch n.Ast.(type) {
		case *ast.ReturnStmt, *ast.SendStmt, *ast.AssignStmt, *ast.ExprStmt, ast.Expr:
		default:
			continue
		}
		if _, isId := n.Ast.(*ast.Ident); isId {
			continue
		}
		loopHead := false
		for _, se := range n.Succ {
			if se.LoopStmt != nil {
				loopHead = true
			}
		}
		if loopHead {
			continue
		}
		for round := 0; round < 4; round++ {
			whole, _, _, _ := inlinableCall(n.Ast)
			var target *ast.CallExpr
			InspectNode(n.Ast, func(x ast.Node) bool {
				if _, isLit := x.(*ast.FuncLit); isLit {
					return false
				}
				if call, ok := x.(*ast.CallExpr); ok && target == nil && call != whole && candidate(call) {
					if t := info.TypeOf(call); t != nil {
						if _, isTuple := t.(*types.Tuple); !isTuple {
							target = call
						}
					}
				}
				return target == nil
			})
			if target == nil {
				break
			}
			hoistSeq++
			v := types.NewVar(target.Pos(), f.Pkg.Types, fmt.Sprintf("inl%d", hoistSeq), info.TypeOf(target))
			use := &ast.Ident{Name: v.Name(), NamePos: target.Pos()}
			info.Uses[use] = v
			if tv, ok := info.Types[target]; ok {
				info.Types[use] = types.TypeAndValue{Type: tv.Type}
			}
			repl, ok := substCall(info, n.Ast, target, use)
			if !ok {
				break
			}
			def := &ast.Ident{Name: v.Name(), NamePos: target.Pos()}
			info.Defs[def] = v
			as := &ast.AssignStmt{Lhs: []ast.Expr{def}, Tok: token.DEFINE, TokPos: target.Pos(), Rhs: []ast.Expr{target}}
			pre := &GNode{ID: len(g.Nodes), Ast: as, Kind: KPlain, Block: n.Block}
			g.Nodes = append(g.Nodes, pre)
			g.byAst[as] = pre
			root.addInlined(as)
			// predecessors of n now enter pre
			for _, pe := range n.Pred {
				pe.To = pre
				pre.Pred = append(pre.Pred, pe)
			}
			n.Pred = nil
			e := &GEdge{From: pre, To: n}
			pre.Succ = []*GEdge{e}
			n.Pred = []*GEdge{e}
			if g.Entry == n {
				g.Entry = pre
			}
			// the statement now reads the variable
			old := n.Ast
			if g.byAst[old] == n {
				delete(g.byAst, old)
			}
			n.Ast = repl
			g.byAst[repl] = n
			for _, se := range n.Succ {
				if se.Cond == old {
					se.Cond, _ = repl.(ast.Expr)
				}
			}
			if st, isStmt := old.(ast.Stmt); isStmt {
				if root.replaced == nil {
					root.replaced = map[ast.Node]bool{}
				}
				if _, isAssign := st.(*ast.AssignStmt); isAssign {
					root.replaced[old] = true
					root.addInlined(repl)
				}
			}
		}
	}
}
