package core

import (
	"fmt"
	"go/ast"
	"go/types"
	"strings"
)

// CanonExpr renders an expression so that two sibling functions can be compared
// without depending on local names: parameters print as $0,$1.. (receiver
// $recv), a local variable with a single definition prints as its defining
// expression (two levels), other locals as their type.  Selectors, calls,
// literals and operators print structurally.
func CanonExpr(c *Ctx, e ast.Expr) string {
	return canon(c, e, 2)
}

func canon(c *Ctx, e ast.Expr, depth int) string {
	e = ast.Unparen(e)
	switch x := e.(type) {
	case nil:
		return ""
	case *ast.Ident:
		o := c.Info.ObjectOf(x)
		v, ok := o.(*types.Var)
		if !ok || v.IsField() || v.Pkg() == nil || v.Parent() == v.Pkg().Scope() {
			if o != nil && o.Pkg() != nil {
				return shortenPath(o.Pkg().Path()) + "." + x.Name
			}
			return x.Name
		}
		root := c.F
		for root.Encl != nil {
			root = root.Encl
		}
		if rv := root.Recv(); rv != nil && rv == v {
			return "$recv"
		}
		ps := root.Sig().Params()
		for i := 0; i < ps.Len(); i++ {
			if ps.At(i) == v {
				return fmt.Sprintf("$%d", i)
			}
		}
		defs := LiveDefs(c.DefsOf(v))
		if depth > 0 && len(defs) == 1 && defs[0].Rhs != nil {
			s := canon(c, defs[0].Rhs, depth-1)
			if defs[0].N > 1 {
				s += fmt.Sprintf("#%d", defs[0].Idx)
			}
			return "(" + s + ")"
		}
		if len(defs) == 1 {
			if rs, ok := defs[0].Stmt.(*ast.RangeStmt); ok {
				return fmt.Sprintf("range(%s)#%d", canon(c, rs.X, depth-1), defs[0].Idx)
			}
		}
		return "local:" + types.TypeString(v.Type(), func(p *types.Package) string { return p.Name() })
	case *ast.SelectorExpr:
		if _, isPkg := c.Info.ObjectOf(identOf(x.X)).(*types.PkgName); isPkg {
			if o := c.Info.ObjectOf(x.Sel); o != nil && o.Pkg() != nil {
				return shortenPath(o.Pkg().Path()) + "." + x.Sel.Name
			}
		}
		return canon(c, x.X, depth) + "." + x.Sel.Name
	case *ast.CallExpr:
		var args []string
		for _, a := range x.Args {
			args = append(args, canon(c, a, depth))
		}
		fn := ""
		if f := Callee(c.Info, x); f != nil {
			fn = ShortName(f)
			if sel, ok := ast.Unparen(x.Fun).(*ast.SelectorExpr); ok {
				if _, isPkg := c.Info.ObjectOf(identOf(sel.X)).(*types.PkgName); !isPkg {
					fn = canon(c, sel.X, depth) + "→" + fn
				}
			}
		} else {
			fn = canon(c, x.Fun, depth)
		}
		return fn + "(" + strings.Join(args, ",") + ")"
	case *ast.BasicLit:
		return x.Value
	case *ast.BinaryExpr:
		return canon(c, x.X, depth) + x.Op.String() + canon(c, x.Y, depth)
	case *ast.UnaryExpr:
		return x.Op.String() + canon(c, x.X, depth)
	case *ast.StarExpr:
		return "*" + canon(c, x.X, depth)
	case *ast.IndexExpr:
		return canon(c, x.X, depth) + "[" + canon(c, x.Index, depth) + "]"
	case *ast.SliceExpr:
		return canon(c, x.X, depth) + "[" + canon(c, x.Low, depth) + ":" + canon(c, x.High, depth) + "]"
	case *ast.CompositeLit:
		return "lit:" + types.ExprString(x.Type)
	}
	return types.ExprString(e)
}

func identOf(e ast.Expr) *ast.Ident {
	id, _ := ast.Unparen(e).(*ast.Ident)
	if id == nil {
		return &ast.Ident{Name: "_"}
	}
	return id
}
