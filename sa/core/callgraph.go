package core

import (
	"go/ast"
	"go/types"
	"sort"
)

// CallGraph is a type-resolved call graph over the packages loaded with
// syntax: static calls are resolved exactly; interface method calls are
// resolved to every method of a loaded named type that implements the
// interface (class-hierarchy analysis restricted to loaded packages); calls
// through function values are not followed (stated in evidence).
type CallGraph struct {
	W      *World
	callee map[*FuncInfo][]*FuncInfo
	named  []*types.Named
}

// NewCallGraph prepares the graph lazily.
func NewCallGraph(w *World) *CallGraph {
	cg := &CallGraph{W: w, callee: map[*FuncInfo][]*FuncInfo{}}
	for _, pkg := range w.Pkgs {
		sc := pkg.Types.Scope()
		for _, name := range sc.Names() {
			if tn, ok := sc.Lookup(name).(*types.TypeName); ok {
				if n, ok := tn.Type().(*types.Named); ok {
					if _, isIface := n.Underlying().(*types.Interface); !isIface {
						cg.named = append(cg.named, n)
					}
				}
			}
		}
	}
	sort.Slice(cg.named, func(i, j int) bool { return cg.named[i].Obj().Id() < cg.named[j].Obj().Id() })
	return cg
}

// Callees lists the functions with bodies that f (including its literals) may call.
func (cg *CallGraph) Callees(f *FuncInfo) []*FuncInfo {
	if out, ok := cg.callee[f]; ok {
		return out
	}
	seen := map[*FuncInfo]bool{}
	var out []*FuncInfo
	add := func(g *FuncInfo) {
		if g != nil && !seen[g] {
			seen[g] = true
			out = append(out, g)
		}
	}
	info := f.Info()
	ast.Inspect(f.Body(), func(x ast.Node) bool {
		call, ok := x.(*ast.CallExpr)
		if !ok {
			return true
		}
		fn := Callee(info, call)
		if fn == nil {
			return true
		}
		sig, _ := fn.Type().(*types.Signature)
		if sig != nil && sig.Recv() != nil {
			if iface, ok := sig.Recv().Type().Underlying().(*types.Interface); ok {
				for _, n := range cg.named {
					for _, t := range []types.Type{n, types.NewPointer(n)} {
						if !types.Implements(t, iface) {
							continue
						}
						obj, _, _ := types.LookupFieldOrMethod(t, true, n.Obj().Pkg(), fn.Name())
						if m, ok := obj.(*types.Func); ok {
							add(cg.W.FuncOf(m))
						}
						break
					}
				}
				return true
			}
		}
		add(cg.W.FuncOf(fn))
		return true
	})
	cg.callee[f] = out
	return out
}

// Reach computes the functions reachable from the entries; for each it keeps
// one call chain (entry → … → function) for diagnostics.  stop(f) prevents
// descending below f.
func (cg *CallGraph) Reach(entries []*FuncInfo, stop func(*FuncInfo) bool) map[*FuncInfo][]string {
	out := map[*FuncInfo][]string{}
	var work []*FuncInfo
	for _, e := range entries {
		if e != nil {
			if _, ok := out[e]; !ok {
				out[e] = []string{e.Name}
				work = append(work, e)
			}
		}
	}
	for len(work) > 0 {
		f := work[0]
		work = work[1:]
		if stop != nil && stop(f) {
			continue
		}
		for _, g := range cg.Callees(f) {
			if _, ok := out[g]; ok {
				continue
			}
			chain := append(append([]string{}, out[f]...), g.Name)
			out[g] = chain
			work = append(work, g)
		}
	}
	return out
}
