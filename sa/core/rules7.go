package core

import (
	"fmt"
	"go/ast"
	"go/token"
	"go/types"
	"sort"
)

// NoRetainedIterBuffer is an ownership rule for database iterators.  The byte
// slices returned by Sources (it.Key(), it.Value()) belong to the iterator and
// are overwritten by the next positioning call; inside a loop they may be
// read, copied or passed down, but a value that shares their memory must not
// be stored where it survives the iteration: appended to / assigned into a
// variable declared outside the loop, stored in a map, field or element of
// such a variable, put in a composite value that is so stored, or sent on a
// channel.  Sharing is tracked through locals, slicing, same-type conversions
// and module functions whose result shares the memory of an argument
// (summaries computed over the loaded packages); string conversion, the
// listed Copies and append onto a fresh slice produce independent memory.
type NoRetainedIterBuffer struct {
	Pkgs    []string
	Sources []string
	Copies  []string
	Exempt  map[string]string // function short name -> reason
	Min     int               // minimum number of loops that read a source
}

func (nb NoRetainedIterBuffer) aliasSummaries(r *Run) map[*types.Func]int {
	sum := map[*types.Func]int{}
	for changed := true; changed; {
		changed = false
		for _, pkg := range r.W.Pkgs {
			for _, f := range r.W.AllFuncs(pkg) {
				if f.Obj == nil || f.Lit != nil || f.Sig().Results().Len() == 0 {
					continue
				}
				if _, done := sum[f.Obj]; done {
					continue
				}
				res0 := f.Sig().Results().At(0)
				if _, isSlice := res0.Type().Underlying().(*types.Slice); !isSlice {
					continue
				}
				c := f.Ctx()
				paramIdx := func(o types.Object) int {
					for i := 0; ; i++ {
						p := f.Param(i)
						if p == nil {
							return -1
						}
						if types.Object(p) == o {
							return i
						}
					}
				}
				var shares func(e ast.Expr, depth int) int
				shares = func(e ast.Expr, depth int) int {
					e = ast.Unparen(e)
					switch x := e.(type) {
					case *ast.Ident:
						o := c.Info.ObjectOf(x)
						if i := paramIdx(o); i >= 0 {
							return i
						}
						if depth > 0 && o != nil {
							for _, d := range c.DefsOf(o) {
								if d.Rhs != nil {
									if i := shares(d.Rhs, depth-1); i >= 0 {
										return i
									}
								}
							}
						}
					case *ast.SliceExpr:
						return shares(x.X, depth)
					case *ast.CallExpr:
						if fn := Callee(c.Info, x); fn != nil {
							if i, ok := sum[fn.Origin()]; ok && i < len(x.Args) {
								return shares(x.Args[i], depth)
							}
						}
					}
					return -1
				}
				InspectBody(f, func(x ast.Node) bool {
					if _, isLit := x.(*ast.FuncLit); isLit {
						return false
					}
					ret, ok := x.(*ast.ReturnStmt)
					if !ok {
						return true
					}
					var e ast.Expr
					if len(ret.Results) > 0 {
						e = ret.Results[0]
					} else if res0.Name() != "" {
						// named result: look at its definitions
						for _, d := range c.DefsOf(res0) {
							if d.Rhs != nil {
								if i := shares(d.Rhs, 2); i >= 0 {
									if _, done := sum[f.Obj]; !done {
										sum[f.Obj] = i
										changed = true
									}
								}
							}
						}
						return true
					}
					if e != nil {
						if i := shares(e, 2); i >= 0 {
							if _, done := sum[f.Obj]; !done {
								sum[f.Obj] = i
								changed = true
							}
						}
					}
					return true
				})
			}
		}
	}
	return sum
}

func (nb NoRetainedIterBuffer) Check(r *Run) {
	sum := nb.aliasSummaries(r)
	srcs, copies := Names(nb.Sources...), Names(nb.Copies...)
	loops := 0
	for _, pp := range nb.Pkgs {
		pkg := r.W.Pkg(pp)
		if pkg == nil {
			r.Unresolved("package " + pp)
			continue
		}
		for _, decl := range r.W.AllFuncs(pkg) {
			if decl.Lit != nil {
				continue
			}
			for _, f := range append([]*FuncInfo{decl}, decl.Closures()...) {
				loops += nb.checkFunc(r, f, sum, srcs, copies)
			}
		}
	}
	var sn []string
	for fn, i := range sum {
		sn = append(sn, fmt.Sprintf("%s→arg%d", ShortName(fn), i))
	}
	sort.Strings(sn)
	label := "iterator-buffer ownership: loops reading an iterator's key/value buffer"
	if loops < nb.Min {
		r.Fail(label, "-", fmt.Sprintf("expected ≥%d such loops in %v, found %d", nb.Min, nb.Pkgs, loops))
	} else {
		if len(sn) > 12 {
			sn = append(sn[:12], "…")
		}
		r.OK(label, "-", fmt.Sprintf("%d loops examined; result-shares-argument summaries: %v", loops, sn))
	}
}

func (nb NoRetainedIterBuffer) checkFunc(r *Run, f *FuncInfo, sum map[*types.Func]int, srcs, copies NameSet) int {
	c := f.Ctx()
	n := 0
	for _, lp := range LoopsIn(f) {
		var body *ast.BlockStmt
		switch s := lp.(type) {
		case *ast.ForStmt:
			body = s.Body
		case *ast.RangeStmt:
			body = s.Body
		}
		inLoop := func(o types.Object) bool {
			return o != nil && o.Pos() >= lp.Pos() && o.Pos() <= lp.End()
		}
		// a source read counts for this loop when the iterator it is read from lives across the
		// iterations (declared outside the loop): it is that iterator's next move that overwrites
		// the buffer.  An iterator that is itself per-iteration (ranging over a list of iterators)
		// is positioned once per iteration and its buffer stays valid afterwards.
		isSource := func(call *ast.CallExpr) bool {
			if !srcs.Has(Callee(c.Info, call)) {
				return false
			}
			sel, ok := ast.Unparen(call.Fun).(*ast.SelectorExpr)
			if !ok {
				return true
			}
			if id, ok := ast.Unparen(sel.X).(*ast.Ident); ok && inLoop(c.Info.ObjectOf(id)) {
				return false
			}
			return true
		}
		reads := false
		ast.Inspect(body, func(x ast.Node) bool {
			if _, isLit := x.(*ast.FuncLit); isLit {
				return false
			}
			if call, ok := x.(*ast.CallExpr); ok && isSource(call) {
				reads = true
			}
			return true
		})
		if !reads {
			continue
		}
		n++
		// taint: locals declared in the loop that share the iterator's memory
		tainted := map[types.Object]bool{}
		var isTainted func(e ast.Expr) bool
		isTainted = func(e ast.Expr) bool {
			e = ast.Unparen(e)
			switch x := e.(type) {
			case *ast.Ident:
				return tainted[c.Info.ObjectOf(x)]
			case *ast.SliceExpr:
				return isTainted(x.X)
			case *ast.UnaryExpr:
				if x.Op == token.AND {
					return isTainted(x.X)
				}
			case *ast.CompositeLit:
				for _, el := range x.Elts {
					if kv, ok := el.(*ast.KeyValueExpr); ok {
						if isTainted(kv.Value) {
							return true
						}
					} else if isTainted(el) {
						return true
					}
				}
			case *ast.CallExpr:
				fn := Callee(c.Info, x)
				if fn != nil {
					if srcs.Has(fn) {
						return isSource(x)
					}
					if copies.Has(fn) {
						return false
					}
					if i, ok := sum[fn.Origin()]; ok && i < len(x.Args) {
						return isTainted(x.Args[i])
					}
					return false
				}
				// conversion T(x): shares memory unless it converts to string
				if tv, ok := c.Info.Types[x.Fun]; ok && tv.IsType() && len(x.Args) == 1 {
					if b, isB := tv.Type.Underlying().(*types.Basic); isB && b.Info()&types.IsString != 0 {
						return false
					}
					return isTainted(x.Args[0])
				}
				if IsBuiltinCall(c.Info, x, "append") && len(x.Args) >= 2 {
					// append(fresh, tainted...) copies the bytes; append(list, tainted) stores the slice header
					if x.Ellipsis.IsValid() {
						return isTainted(x.Args[0])
					}
					for _, a := range x.Args[1:] {
						if isTainted(a) {
							return true
						}
					}
					return isTainted(x.Args[0])
				}
			}
			return false
		}
		for changed := true; changed; {
			changed = false
			ast.Inspect(body, func(x ast.Node) bool {
				if _, isLit := x.(*ast.FuncLit); isLit {
					return false
				}
				as, ok := x.(*ast.AssignStmt)
				if !ok {
					return true
				}
				for i, l := range as.Lhs {
					id, ok := l.(*ast.Ident)
					if !ok || id.Name == "_" {
						continue
					}
					o := c.Info.ObjectOf(id)
					if o == nil || tainted[o] || !inLoop(o) {
						continue
					}
					var rhs ast.Expr
					if len(as.Rhs) == len(as.Lhs) {
						rhs = as.Rhs[i]
					} else if len(as.Rhs) == 1 && i == 0 {
						rhs = as.Rhs[0] // v, err := f(tainted): first result
					}
					if rhs != nil && isTainted(rhs) {
						tainted[o] = true
						changed = true
					}
				}
				return true
			})
		}
		// escapes
		rootOuter := func(e ast.Expr) (types.Object, bool) {
			e = ast.Unparen(e)
			for {
				switch x := e.(type) {
				case *ast.IndexExpr:
					e = ast.Unparen(x.X)
					continue
				case *ast.SelectorExpr:
					e = ast.Unparen(x.X)
					continue
				case *ast.StarExpr:
					e = ast.Unparen(x.X)
					continue
				}
				break
			}
			id, ok := e.(*ast.Ident)
			if !ok {
				return nil, false
			}
			o := c.Info.ObjectOf(id)
			if _, isVar := o.(*types.Var); !isVar {
				return nil, false
			}
			return o, !inLoop(o)
		}
		report := func(pos token.Pos, what string) {
			label := fmt.Sprintf("%s: %s", f.Name, what)
			if why, ok := nb.Exempt[f.Name]; ok {
				r.Exception(label, why)
				r.OK(label, r.W.Pos(pos), "frozen exception: "+why)
				return
			}
			r.Fail(label, r.W.Pos(pos), "a slice that shares the iterator's key/value buffer outlives the iteration; the next positioning call overwrites it (copy it first)")
		}
		clean := true
		ast.Inspect(body, func(x ast.Node) bool {
			if _, isLit := x.(*ast.FuncLit); isLit {
				return false
			}
			switch s := x.(type) {
			case *ast.AssignStmt:
				for i, l := range s.Lhs {
					var rhs ast.Expr
					if len(s.Rhs) == len(s.Lhs) {
						rhs = s.Rhs[i]
					}
					if rhs == nil || !isTainted(rhs) {
						continue
					}
					if o, outer := rootOuter(l); outer {
						// a plain outer variable that only holds the current position is fine when it is a
						// direct (re)assignment of the buffer itself and never appended: still retained — report
						clean = false
						report(s.Pos(), fmt.Sprintf("`%s` keeps iterator memory in %s, declared outside the loop", ExprStr(s), o.Name()))
					}
				}
			case *ast.SendStmt:
				if isTainted(s.Value) {
					clean = false
					report(s.Pos(), fmt.Sprintf("`%s` sends iterator memory on a channel", ExprStr(s)))
				}
			}
			return true
		})
		if clean {
			r.OK(fmt.Sprintf("%s: loop at %s keeps no reference to the iterator's buffers", f.Name, r.W.Pos(lp.Pos())), r.W.Pos(lp.Pos()), fmt.Sprintf("%d local(s) share the buffer inside the iteration only", len(tainted)))
		}
	}
	return n
}
