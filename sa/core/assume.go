package core

import (
	"go/ast"
	"go/constant"
	"go/token"
	"go/types"
)

// AssumeFn is the type of FlowSpec.Assume.
type AssumeFn = func(c *Ctx, e ast.Expr) Tri

// AssumeRel builds an assumption about a comparison: `L rel R` has truth value
// val.  An atom over (L, R), in any orientation, that follows from the assumed
// relation evaluates to True, one whose negation follows to False; all other
// expressions stay Unknown.
func AssumeRel(L ExprPred, rel token.Token, R ExprPred, val Tri) AssumeFn {
	if val == False {
		rel = negRel[rel]
	}
	return func(c *Ctx, e ast.Expr) Tri {
		if val == Unknown {
			return Unknown
		}
		op, ok := CmpAtom(c, e, L, R)
		if !ok {
			return Unknown
		}
		if implies(rel, op) {
			return True
		}
		if implies(rel, negRel[op]) {
			return False
		}
		return Unknown
	}
}

// AssumeAll combines assumptions; the first decided answer wins.
func AssumeAll(fs ...AssumeFn) AssumeFn {
	return func(c *Ctx, e ast.Expr) Tri {
		for _, f := range fs {
			if f == nil {
				continue
			}
			if t := f(c, e); t != Unknown {
				return t
			}
		}
		return Unknown
	}
}

// TypeShort renders a (pointer to a) named type as pkg.Name with the module
// prefix removed; other types as their String().
func TypeShort(t types.Type) string {
	if p, ok := t.(*types.Pointer); ok {
		t = p.Elem()
	}
	if n, ok := t.(*types.Named); ok {
		if n.Obj().Pkg() == nil {
			return n.Obj().Name()
		}
		return shortenPath(n.Obj().Pkg().Path()) + "." + n.Obj().Name()
	}
	return t.String()
}

// AssumeValue assumes that every expression recognised by L has the integer
// value v: a comparison of such an expression with an integer constant (any
// orientation) is decided by evaluating it.
func AssumeValue(L ExprPred, v int64) AssumeFn {
	isConst := func(c *Ctx, e ast.Expr) bool {
		tv, ok := c.Info.Types[e]
		return ok && tv.Value != nil && tv.Value.Kind() == constant.Int
	}
	return func(c *Ctx, e ast.Expr) Tri {
		op, ok := CmpAtom(c, e, L, isConst)
		if !ok {
			return Unknown
		}
		b := ast.Unparen(e).(*ast.BinaryExpr)
		ce := b.Y
		if !isConst(c, ce) || L(c, b.Y) && isConst(c, b.X) && !L(c, b.X) {
			ce = b.X
		}
		k, exact := constant.Int64Val(c.Info.Types[ce].Value)
		if !exact {
			return Unknown
		}
		switch op {
		case token.EQL:
			return triOf(v == k)
		case token.NEQ:
			return triOf(v != k)
		case token.LSS:
			return triOf(v < k)
		case token.LEQ:
			return triOf(v <= k)
		case token.GTR:
			return triOf(v > k)
		case token.GEQ:
			return triOf(v >= k)
		}
		return Unknown
	}
}

// HasAtom2 requires that fn contains a condition atom recognised by pred.
func HasAtom2(r *Run, fn, what string, pred ExprPred) {
	f := r.Fn(fn)
	if f == nil {
		return
	}
	c := f.Ctx()
	found := token.NoPos
	for _, n := range f.Graph().Nodes {
		if e, ok := n.Ast.(ast.Expr); ok {
			walkAtoms(e, func(a ast.Expr) {
				if pred(c, a) {
					found = a.Pos()
				}
			})
		}
	}
	label := f.Name + ": " + what
	if found != token.NoPos {
		r.OK(label, r.W.Pos(found), "condition present")
	} else {
		r.Fail(label, r.W.Pos(f.Node().Pos()), "no condition of the required form in the function")
	}
}

// Resolved lifts an operand predicate over single-definition locals: it holds
// for e when p holds for e, or when e is a local variable with exactly one
// definition whose right-hand side satisfies Resolved(p) (two levels).  It
// makes a rule indifferent to "introduce a local for a sub-expression".
func Resolved(p ExprPred) ExprPred {
	var rec func(c *Ctx, e ast.Expr, depth int) bool
	rec = func(c *Ctx, e ast.Expr, depth int) bool {
		if p(c, e) {
			return true
		}
		if depth == 0 {
			return false
		}
		id, ok := ast.Unparen(e).(*ast.Ident)
		if !ok {
			return false
		}
		v, ok := c.Info.ObjectOf(id).(*types.Var)
		if !ok || v.IsField() || v.Pkg() == nil || v.Parent() == v.Pkg().Scope() {
			return false
		}
		defs := LiveDefs(c.DefsOf(v))
		if len(defs) != 1 || defs[0].Rhs == nil {
			return false
		}
		return rec(c, defs[0].Rhs, depth-1)
	}
	return func(c *Ctx, e ast.Expr) bool { return rec(c, e, 2) }
}

// Establishes reports whether every live return of helper h is reached with
// fact established under spec (so a call to h can stand for the fact in its
// caller): used to follow an obligation into an extracted helper.
func Establishes(h *FuncInfo, spec *FlowSpec, fact Fact) bool {
	if h == nil {
		return false
	}
	fl := RunFlow(h, spec)
	n := 0
	for _, ret := range fl.G.Returns() {
		if !fl.Live(ret) {
			continue
		}
		n++
		if !fl.In[ret].Has(fact) {
			return false
		}
	}
	return n > 0
}

// HelpersEstablishing lists the declared functions of f's package that f calls
// and that establish fact on all their paths under spec.
func HelpersEstablishing(f *FuncInfo, spec *FlowSpec, fact Fact) []string {
	var out []string
	seen := map[*types.Func]bool{}
	ast.Inspect(f.Body(), func(x ast.Node) bool {
		call, ok := x.(*ast.CallExpr)
		if !ok {
			return true
		}
		fn := Callee(f.Info(), call)
		if fn == nil || seen[fn] || fn.Pkg() == nil || fn.Pkg() != f.Pkg.Types {
			return true
		}
		seen[fn] = true
		if h := f.W.FuncOf(fn); h != nil && h != f && Establishes(h, spec, fact) {
			out = append(out, ShortName(fn))
		}
		return true
	})
	return out
}
