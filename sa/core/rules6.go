package core

import (
	"fmt"
	"go/ast"
	"go/types"
	"sort"
	"strings"
)

// NoRangeMutation: a `for … range X` whose X mentions a struct field F of a
// map or slice type must not, in its body, call a same-package function that
// (directly or through same-package callees, bounded depth) stores to F
// (element store, re-assignment, delete) — Go evaluates a slice range
// expression once, so elements shift under the loop and are skipped, and
// deleting map entries other than the current one during a range is
// order-dependent.
type NoRangeMutation struct {
	Pkgs   []string
	Depth  int
	Min    int               // minimum number of range-over-field loops expected
	Exempt map[string]string // "func:field" -> reason
}

func fieldsWritten(w *World, f *FuncInfo, depth int, seen map[*FuncInfo]bool, out map[*types.Var]string) {
	if f == nil || seen[f] {
		return
	}
	seen[f] = true
	info := f.Info()
	fieldOf := func(e ast.Expr) *types.Var {
		var hit *types.Var
		ast.Inspect(e, func(x ast.Node) bool {
			if sel, ok := x.(*ast.SelectorExpr); ok && hit == nil {
				if v, ok := info.ObjectOf(sel.Sel).(*types.Var); ok && v.IsField() {
					switch v.Type().Underlying().(type) {
					case *types.Map, *types.Slice:
						hit = v
					}
				}
			}
			return true
		})
		return hit
	}
	InspectBody(f, func(x ast.Node) bool {
		switch s := x.(type) {
		case *ast.AssignStmt:
			for _, l := range s.Lhs {
				l = ast.Unparen(l)
				// F[...] = …, F[...][...] = …, F = …
				base := l
				for {
					if ix, ok := base.(*ast.IndexExpr); ok {
						base = ast.Unparen(ix.X)
						continue
					}
					break
				}
				if _, isSel := base.(*ast.SelectorExpr); isSel {
					if v := fieldOf(base); v != nil {
						out[v] = f.Name + " (" + w.Pos(s.Pos()) + ")"
					}
				}
			}
		case *ast.CallExpr:
			// delete(F, k) during a range over the map F is well defined in Go (entries not yet
			// reached are simply not produced), so map deletions are not counted as mutation
			if depth > 0 {
				if callee := w.FuncOf(Callee(info, s)); callee != nil && callee.Pkg == f.Pkg {
					fieldsWritten(w, callee, depth-1, seen, out)
				}
			}
		}
		return true
	})
}

func (nr NoRangeMutation) Check(r *Run) {
	depth := nr.Depth
	if depth == 0 {
		depth = 2
	}
	total := 0
	for _, pp := range nr.Pkgs {
		pkg := r.W.Pkg(pp)
		if pkg == nil {
			r.Unresolved("package " + pp)
			continue
		}
		for _, f := range r.W.AllFuncs(pkg) {
			info := f.Info()
			occ := 0
			InspectBody(f, func(x ast.Node) bool {
				rs, ok := x.(*ast.RangeStmt)
				if !ok {
					return true
				}
				var field *types.Var
				ast.Inspect(rs.X, func(y ast.Node) bool {
					if sel, ok := y.(*ast.SelectorExpr); ok && field == nil {
						if v, ok := info.ObjectOf(sel.Sel).(*types.Var); ok && v.IsField() {
							switch v.Type().Underlying().(type) {
							case *types.Map, *types.Slice:
								field = v
							}
						}
					}
					return true
				})
				if field == nil {
					return true
				}
				total++
				occ++
				r.Touch(f)
				label := fmt.Sprintf("%s: range #%d over %s is not mutated by the calls in its body", f.Name, occ, field.Name())
				if why, ok := nr.Exempt[f.Name+":"+field.Name()]; ok {
					r.Exception(label, why)
					r.OK(label, r.W.Pos(rs.Pos()), "frozen exception: "+why)
					return true
				}
				written := map[*types.Var]string{}
				ast.Inspect(rs.Body, func(y ast.Node) bool {
					if call, ok := y.(*ast.CallExpr); ok {
						if callee := r.W.FuncOf(Callee(info, call)); callee != nil && callee.Pkg == f.Pkg {
							fieldsWritten(r.W, callee, depth-1, map[*FuncInfo]bool{}, written)
						}
					}
					return true
				})
				if where, bad := written[field]; bad {
					r.Fail(label, r.W.Pos(rs.Pos()), fmt.Sprintf("the loop ranges over `%s` while its body reaches %s, which stores to / deletes from the same field: elements shift under the loop and some are never visited", ExprStr(rs.X), where))
				} else {
					var ws []string
					for v := range written {
						ws = append(ws, v.Name())
					}
					sort.Strings(ws)
					r.OK(label, r.W.Pos(rs.Pos()), "fields written by the body's callees: ["+strings.Join(ws, ",")+"]")
				}
				return true
			})
		}
	}
	if total < nr.Min {
		r.Fail("range loops over struct fields", "-", fmt.Sprintf("expected ≥%d, found %d", nr.Min, total))
	}
}
