package core

import (
	"go/ast"
	"go/token"
)

// InitFrom holds for a local variable identifier whose declaring definition
// (`:=` or `var`) has a right-hand side satisfying p; later updates (`+=`, `++`)
// do not matter.  It identifies accumulators by what they start from.
func InitFrom(p ExprPred) ExprPred {
	return func(c *Ctx, e ast.Expr) bool {
		id, ok := ast.Unparen(e).(*ast.Ident)
		if !ok {
			return false
		}
		o := c.Info.ObjectOf(id)
		if o == nil {
			return false
		}
		for _, d := range c.DefsOf(o) {
			if d.Rhs == nil {
				continue
			}
			switch s := d.Stmt.(type) {
			case *ast.AssignStmt:
				if s.Tok == token.DEFINE && p(c, d.Rhs) {
					return true
				}
			case *ast.ValueSpec:
				if p(c, d.Rhs) {
					return true
				}
			}
		}
		return false
	}
}
