package core

import (
	"fmt"
	"go/ast"
	"go/types"
	"sort"
	"strings"
)

// ---------------------------------------------------------------------------
// E3: lock guard

// LockGuard: accesses to guarded state of struct Type must happen with Mutex
// (a field of Type, sync.Mutex or sync.RWMutex) held.  An access in a function
// that does not hold the lock locally makes the function lock-requiring; the
// requirement is propagated to every caller in the loaded packages (Depth
// levels); an entry point (no callers, or a `go`/callback reference) reached
// without the lock is a violation.
type LockGuard struct {
	Type  string // e.g. system/mempool.Mempool
	Mutex string // field name
	// Access classifies a selector expression on a value of Type inside a
	// function: returns (guarded, needsWrite, label).  It sees the full AST path.
	Access func(c *Ctx, sel *ast.SelectorExpr, parents []ast.Node) (bool, bool, string)
	// Exempt functions (short names) with reasons: constructors, init-time code.
	Exempt map[string]string
	// ExemptAccess: frozen exceptions keyed by "func :: label".
	ExemptAccess map[string]string
	Depth        int
	Min          int
}

func lockFactW(m string) Fact { return Fact("W:" + m) }
func lockFactR(m string) Fact { return Fact("R:" + m) }

// lockSpec builds the node generators for one mutex field object.
func lockSpec(mu *types.Var) *FlowSpec {
	isOp := func(c *Ctx, n *GNode, names ...string) bool {
		if n.Ast == nil || n.Defer || n.Go {
			return false
		}
		for _, call := range CallsIn(n.Ast) {
			sel, ok := ast.Unparen(call.Fun).(*ast.SelectorExpr)
			if !ok {
				continue
			}
			hit := false
			for _, nm := range names {
				if sel.Sel.Name == nm {
					hit = true
				}
			}
			if !hit {
				continue
			}
			inner, ok := ast.Unparen(sel.X).(*ast.SelectorExpr)
			if ok && c.Info.ObjectOf(inner.Sel) == mu {
				return true
			}
			if id, ok := ast.Unparen(sel.X).(*ast.Ident); ok && c.Info.ObjectOf(id) == mu {
				return true
			}
		}
		return false
	}
	name := mu.Name()
	return &FlowSpec{Nodes: []NodeGen{
		{Fact: lockFactW(name), Gen: func(c *Ctx, n *GNode) bool { return isOp(c, n, "Lock") }, Kill: func(c *Ctx, n *GNode) bool { return isOp(c, n, "Unlock") }},
		{Fact: lockFactR(name), Gen: func(c *Ctx, n *GNode) bool { return isOp(c, n, "RLock") }, Kill: func(c *Ctx, n *GNode) bool { return isOp(c, n, "RUnlock") }},
	}}
}

type lockNeed struct {
	write bool
	label string
	pos   string
	chain []string
}

func (lg LockGuard) Check(r *Run) {
	tobj, _ := r.W.LookupObj(lg.Type).(*types.TypeName)
	if tobj == nil {
		r.Unresolved(lg.Type)
		return
	}
	mu, _ := r.W.LookupObj(lg.Type + "." + lg.Mutex).(*types.Var)
	if mu == nil {
		r.Unresolved(lg.Type + "." + lg.Mutex)
		return
	}
	pkg := r.W.Pkgs[tobj.Pkg().Path()]
	if pkg == nil {
		r.Unresolved("package of " + lg.Type)
		return
	}
	depth := lg.Depth
	if depth == 0 {
		depth = 4
	}
	spec := lockSpec(mu)
	flows := map[*FuncInfo]*Flow{}
	flowOf := func(f *FuncInfo) *Flow {
		if fl, ok := flows[f]; ok {
			return fl
		}
		fl := RunFlow(f, spec)
		flows[f] = fl
		return fl
	}
	isT := func(t types.Type) bool {
		if p, ok := t.(*types.Pointer); ok {
			t = p.Elem()
		}
		n, ok := t.(*types.Named)
		return ok && n.Obj() == tobj
	}
	// all function bodies of the package, including literals
	var bodies []*FuncInfo
	for _, f := range r.W.AllFuncs(pkg) {
		bodies = append(bodies, f)
		bodies = append(bodies, f.Closures()...)
	}
	// 1. local accesses
	needs := map[*FuncInfo][]lockNeed{}
	total := 0
	for _, f := range bodies {
		root := f
		for root.Encl != nil {
			root = root.Encl
		}
		if why, ok := lg.Exempt[root.Name]; ok {
			_ = why
			continue
		}
		fl := flowOf(f)
		c := fl.C
		for _, n := range fl.G.Nodes {
			if n.Ast == nil || !fl.Live(n) {
				continue
			}
			var stack []ast.Node
			ast.Inspect(n.Ast, func(x ast.Node) bool {
				if x == nil {
					stack = stack[:len(stack)-1]
					return true
				}
				if _, isLit := x.(*ast.FuncLit); isLit {
					stack = append(stack, x)
					return false
				}
				stack = append(stack, x)
				sel, ok := x.(*ast.SelectorExpr)
				if !ok {
					return true
				}
				if tv, ok := c.Info.Types[sel.X]; !ok || !isT(tv.Type) {
					return true
				}
				guarded, write, label := lg.Access(c, sel, stack[:len(stack)-1])
				if !guarded {
					return true
				}
				total++
				key := root.Name + " :: " + label
				if why, ok := lg.ExemptAccess[key]; ok {
					r.Exception(key, why)
					return true
				}
				st := fl.In[n]
				held := st.Has(lockFactW(mu.Name())) || (!write && st.Has(lockFactR(mu.Name())))
				if held {
					r.OK(fmt.Sprintf("%s accesses %s under %s", f.Name, label, lg.Mutex), r.W.Pos(sel.Pos()), "lock held on every path to the access")
				} else {
					needs[f] = append(needs[f], lockNeed{write: write, label: label, pos: r.W.Pos(sel.Pos())})
				}
				return true
			})
			// FuncLit nodes were pushed but Inspect does not call with nil for
			// children we refused: rebalance
			stack = stack[:0]
		}
	}
	// 2. propagate to callers
	type req struct {
		f     *FuncInfo
		need  lockNeed
		depth int
	}
	var work []req
	for f, ns := range needs {
		for _, n := range ns {
			n.chain = []string{f.Name}
			work = append(work, req{f, n, 0})
		}
	}
	sort.Slice(work, func(i, j int) bool {
		if work[i].f.Name != work[j].f.Name {
			return work[i].f.Name < work[j].f.Name
		}
		return work[i].need.label < work[j].need.label
	})
	reported := map[string]bool{}
	seen := map[string]bool{}
	for len(work) > 0 {
		q := work[0]
		work = work[1:]
		key := q.need.chain[0] + "|" + q.f.Name + "|" + q.need.label + "|" + fmt.Sprint(q.need.write)
		if seen[key] {
			continue
		}
		seen[key] = true
		fail := func(why string) {
			label := fmt.Sprintf("%s accesses %s without %s when entered from %s", q.need.chain[0], q.need.label, lg.Mutex, q.need.chain[len(q.need.chain)-1])
			if reported[label] {
				return
			}
			reported[label] = true
			r.Fail(label, q.need.pos, fmt.Sprintf("%s; call chain: %s", why, strings.Join(reverse(q.need.chain), " → ")))
		}
		// a literal: how is it used?  `go func(){}` / callback → treated as entry
		// unless it is invoked synchronously by its encloser (walk callbacks).
		if q.f.Lit != nil {
			encl := q.f.Encl
			fl := flowOf(encl)
			n := fl.G.NodeContaining(q.f.Lit.Pos())
			if n == nil || n.Go {
				fail("function literal runs in its own goroutine without the lock")
				continue
			}
			st := fl.In[n]
			held := st.Has(lockFactW(mu.Name())) || (!q.need.write && st.Has(lockFactR(mu.Name())))
			if held && !n.Defer {
				r.OK(fmt.Sprintf("%s accesses %s under %s held by its encloser", q.f.Name, q.need.label, lg.Mutex), q.need.pos, "the literal is created and used while the enclosing function holds the lock")
				continue
			}
			nn := q.need
			nn.chain = append(append([]string{}, q.need.chain...), encl.Name)
			work = append(work, req{encl, nn, q.depth})
			continue
		}
		if q.depth >= depth {
			fail("caller chain deeper than the analysis bound never acquires the lock")
			continue
		}
		// callers of q.f in the loaded packages
		var callers int
		for _, g := range bodies {
			fl := flowOf(g)
			for _, n := range fl.G.Nodes {
				if n.Ast == nil || !fl.Live(n) {
					continue
				}
				refs := false
				InspectNode(n.Ast, func(x ast.Node) bool {
					if id, ok := x.(*ast.Ident); ok {
						if fn, ok := fl.C.Info.Uses[id].(*types.Func); ok && fn.Origin() == q.f.Obj {
							refs = true
						}
					}
					return true
				})
				if !refs {
					continue
				}
				callers++
				root := g
				for root.Encl != nil {
					root = root.Encl
				}
				if _, ok := lg.Exempt[root.Name]; ok {
					continue
				}
				st := fl.In[n]
				held := st.Has(lockFactW(mu.Name())) || (!q.need.write && st.Has(lockFactR(mu.Name())))
				if held && !n.Go && !n.Defer {
					r.OK(fmt.Sprintf("%s calls %s (needs %s for %s) with the lock held", g.Name, q.f.Name, lg.Mutex, q.need.label), r.W.Pos(n.Ast.Pos()), "caller holds the lock at the call")
					continue
				}
				if n.Go {
					nn := q.need
					nn.chain = append(append([]string{}, q.need.chain...), g.Name+" (go)")
					q2 := q
					q2.need = nn
					label := fmt.Sprintf("%s accesses %s without %s when entered from %s", nn.chain[0], q.need.label, lg.Mutex, q.f.Name)
					if !reported[label] {
						reported[label] = true
						r.Fail(label, q.need.pos, "started as a goroutine without the lock; call chain: "+strings.Join(reverse(nn.chain), " → "))
					}
					continue
				}
				nn := q.need
				nn.chain = append(append([]string{}, q.need.chain...), g.Name)
				work = append(work, req{g, nn, q.depth + 1})
			}
		}
		if callers == 0 {
			fail("entry point (no caller in the package) does not hold the lock")
		}
	}
	if total < lg.Min {
		r.Fail("guarded accesses of "+lg.Type, "-", fmt.Sprintf("expected ≥%d guarded access sites, found %d", lg.Min, total))
	}
}

func reverse(s []string) []string {
	out := make([]string, len(s))
	for i, x := range s {
		out[len(s)-1-i] = x
	}
	return out
}

// ---------------------------------------------------------------------------

// UnreachableUnder: under the given assumptions no live node of Fn matches Sink;
// without the assumptions at least Min nodes do (so the rule is not vacuous).
type UnreachableUnder struct {
	Fn   string
	Spec *FlowSpec
	Sink SinkPred
	Name string
	Min  int
}

func (u UnreachableUnder) Check(r *Run) {
	f := r.Fn(u.Fn)
	if f == nil {
		return
	}
	base := RunFlow(f, &FlowSpec{})
	n := 0
	for _, nd := range base.G.Nodes {
		if base.Live(nd) && u.Sink.Match(base, nd) {
			n++
		}
	}
	label := fmt.Sprintf("%s: %s unreachable when %s", f.Name, u.Sink.Label, u.Name)
	if n < u.Min || n == 0 {
		r.Fail(label, r.W.Pos(f.Node().Pos()), fmt.Sprintf("expected ≥%d sink sites (%s) in the function, found %d", u.Min, u.Sink.Label, n))
		return
	}
	fl := RunFlow(f, u.Spec)
	r.Stats.FlowRuns++
	for _, nd := range fl.G.Nodes {
		if fl.Live(nd) && u.Sink.Match(fl, nd) {
			r.Fail(label, r.W.Pos(nd.Ast.Pos()), fmt.Sprintf("`%s` is still reachable under the assumption (%s): the exclusion test is missing, inverted or bypassed", sinkDesc(nd), u.Name))
			return
		}
	}
	r.OK(label, r.W.Pos(f.Node().Pos()), fmt.Sprintf("%d sink site(s), none reachable under the assumption", n))
}
