package core

import (
	"fmt"
	"go/ast"
	"go/constant"
	"go/token"
	"go/types"
	"os"
	"sort"
	"strings"
)

// Fact is a must-hold fact tracked by the forward analysis.
type Fact string

// Tri is three-valued truth.
type Tri int8

const (
	Unknown Tri = iota
	True
	False
)

func (t Tri) Not() Tri {
	switch t {
	case True:
		return False
	case False:
		return True
	}
	return Unknown
}

func triOf(b bool) Tri {
	if b {
		return True
	}
	return False
}

// Binding records that a local variable currently holds result #Idx of Call.
type Binding struct {
	Call *ast.CallExpr
	Idx  int
	N    int // number of results of the call
}

// State is the abstract state at a program point (must-information only).
type State struct {
	Facts map[Fact]bool
	Deps  map[Fact][]types.Object // variables whose reassignment invalidates the fact
	Bind  map[types.Object]Binding
	Val   map[types.Object]Tri // for bool variables: truth; for others: True = non-nil, False = nil
}

func newState() *State {
	return &State{Facts: map[Fact]bool{}, Deps: map[Fact][]types.Object{}, Bind: map[types.Object]Binding{}, Val: map[types.Object]Tri{}}
}

func (s *State) clone() *State {
	n := newState()
	for k, v := range s.Facts {
		n.Facts[k] = v
	}
	for k, v := range s.Deps {
		n.Deps[k] = v
	}
	for k, v := range s.Bind {
		n.Bind[k] = v
	}
	for k, v := range s.Val {
		n.Val[k] = v
	}
	return n
}

// meet intersects o into s; reports whether s changed.
func (s *State) meet(o *State) bool {
	ch := false
	for k := range s.Facts {
		if !o.Facts[k] {
			delete(s.Facts, k)
			delete(s.Deps, k)
			ch = true
		}
	}
	for k, v := range s.Bind {
		if ov, ok := o.Bind[k]; !ok || ov != v {
			delete(s.Bind, k)
			ch = true
		}
	}
	for k, v := range s.Val {
		if ov, ok := o.Val[k]; !ok || ov != v {
			delete(s.Val, k)
			ch = true
		}
	}
	return ch
}

// Has reports whether the fact holds.
func (s *State) Has(f Fact) bool { return s != nil && s.Facts[f] }

// FactList returns the sorted facts (for diagnostics).
func (s *State) FactList() []string {
	var out []string
	if s == nil {
		return out
	}
	for k := range s.Facts {
		out = append(out, string(k))
	}
	sort.Strings(out)
	return out
}

func (s *State) kill(o types.Object) {
	delete(s.Bind, o)
	delete(s.Val, o)
	for f, deps := range s.Deps {
		for _, d := range deps {
			if d == o {
				delete(s.Facts, f)
				delete(s.Deps, f)
				break
			}
		}
	}
}

func (s *State) gen(f Fact, deps []types.Object) {
	s.Facts[f] = true
	if len(deps) > 0 {
		s.Deps[f] = deps
	} else {
		delete(s.Deps, f)
	}
}

// Outcome is what is known about a call result on an edge.
type Outcome int

const (
	OCalled Outcome = iota // the call has returned (no polarity)
	OErrNil                // the designated result is nil
	OErrNonNil
	OTrue
	OFalse
)

// CallGuard generates Fact when a call to one of Callee is known to have the
// outcome Pass for its result number Idx (-1 = last result).
type CallGuard struct {
	Fact   Fact
	Callee NameSet
	Pass   Outcome
	Idx    int
	// ArgOK optionally restricts which calls count (e.g. by argument shape).
	ArgOK func(c *Ctx, call *ast.CallExpr) bool
	// NoArgDeps disables invalidation when an argument variable is reassigned.
	NoArgDeps bool
	// InDefer also accepts the call when it is deferred (for OCalled only).
	InDefer bool
}

// CondGuard generates Fact on edges where an atom recognised by Match has the
// truth value that Match reports as "pass".
type CondGuard struct {
	Fact  Fact
	Match func(c *Ctx, atom ast.Expr) (ok bool, passWhen bool)
}

// NodeGen generates/kills facts at nodes.
type NodeGen struct {
	Fact Fact
	Gen  func(c *Ctx, n *GNode) bool
	Kill func(c *Ctx, n *GNode) bool
}

// Ctx is the evaluation context of one function.
type Ctx struct {
	W    *World
	F    *FuncInfo
	Info *types.Info
}

func (f *FuncInfo) Ctx() *Ctx { return &Ctx{W: f.W, F: f, Info: f.Info()} }

// FlowSpec configures one run of the forward must-analysis.
type FlowSpec struct {
	Calls []CallGuard
	Conds []CondGuard
	Nodes []NodeGen
	// Assume answers the truth of an expression assumed by the rule (pruning).
	Assume func(c *Ctx, e ast.Expr) Tri
	// AssumeObj gives initial knowledge about parameters (true/non-nil etc).
	AssumeObj map[types.Object]Tri
	// Forall facts: generated on the normal exit edge of a loop whose every
	// iteration establishes Inner (see ForallGuard).
	Foralls []ForallGuard
	// FailCalls fixes the outcome of every call to the listed callees (used by
	// FailStops: "assume the check fails; the sink must be unreachable").
	FailCalls []FailCall
	// noExpand: helper summaries are not (again) added to this spec.
	noExpand bool
}

// FailCall assumes that result #Idx (-1 = last) of calls to Callee has Outcome.
type FailCall struct {
	Callee  NameSet
	Idx     int
	Outcome Outcome // OErrNonNil, OErrNil, OTrue or OFalse
	ArgOK   func(c *Ctx, call *ast.CallExpr) bool
}

func (fc *FailCall) val() Tri {
	switch fc.Outcome {
	case OErrNonNil, OTrue:
		return True
	}
	return False
}

// failOutcome returns the assumed value of result idx of call (Unknown if none).
func (spec *FlowSpec) failOutcome(c *Ctx, call *ast.CallExpr, idx, n int) Tri {
	if spec == nil {
		return Unknown
	}
	for i := range spec.FailCalls {
		fc := &spec.FailCalls[i]
		if !fc.Callee.HasCall(c.Info, call) {
			continue
		}
		if fc.ArgOK != nil && !fc.ArgOK(c, call) {
			continue
		}
		want := fc.Idx
		if want < 0 {
			want = n + want
		}
		if want == idx {
			return fc.val()
		}
	}
	return Unknown
}

// ForallGuard lifts a per-iteration fact to a post-loop fact.
type ForallGuard struct {
	Fact  Fact
	Inner Fact
	// Loop decides whether a loop statement is the intended one (ranges over the
	// whole intended collection); nil accepts every range/for loop.
	Loop func(c *Ctx, s ast.Stmt) bool
}

// Flow is the result of the analysis.
type Flow struct {
	G        *Graph
	C        *Ctx
	In       map[*GNode]*State
	Out      map[*GNode]*State
	EdgeIn   map[*GEdge]*State // state delivered along each feasible edge
	Spec     *FlowSpec
	forallOK map[ast.Stmt]map[Fact]bool
}

// Feasible reports whether the edge was ever taken by the analysis.
func (fl *Flow) Feasible(e *GEdge) bool { return fl.EdgeIn[e] != nil }

// Live reports whether a node is reachable under the assumptions.
func (fl *Flow) Live(n *GNode) bool { return fl.In[n] != nil }

// RunFlow runs the forward must-analysis over f.
func RunFlow(f *FuncInfo, spec *FlowSpec) *Flow {
	spec = expandSpec(f, spec)
	g := f.flowGraph()
	fl := &Flow{G: g, C: f.Ctx(), In: map[*GNode]*State{}, Out: map[*GNode]*State{}, EdgeIn: map[*GEdge]*State{}, Spec: spec,
		forallOK: map[ast.Stmt]map[Fact]bool{}}
	// Forall facts need a nested fixpoint: first run without them, then decide
	// which loops establish Inner on every back edge, then rerun generating the
	// lifted fact.  Iterate until stable (facts only grow).
	for iter := 0; iter < 4; iter++ {
		fl.run()
		if len(spec.Foralls) == 0 {
			break
		}
		changed := false
		for _, n := range g.Nodes {
			for _, e := range n.Succ {
				if e.LoopStmt == nil || e.Kind.String() == "" {
					continue
				}
				if !isLoopExitEdge(e) {
					continue
				}
				head := e.From
				for _, fg := range spec.Foralls {
					if fg.Loop != nil && !fg.Loop(fl.C, e.LoopStmt) {
						continue
					}
					ok := true
					for _, pe := range iterationEndEdges(g, head, e.LoopStmt) {
						if !fl.Feasible(pe) {
							continue
						}
						if !fl.EdgeIn[pe].Has(fg.Inner) {
							ok = false
						}
					}
					if ok {
						m := fl.forallOK[e.LoopStmt]
						if m == nil {
							m = map[Fact]bool{}
							fl.forallOK[e.LoopStmt] = m
						}
						if !m[fg.Fact] {
							m[fg.Fact] = true
							changed = true
						}
					} else if fl.forallOK[e.LoopStmt][fg.Fact] {
						delete(fl.forallOK[e.LoopStmt], fg.Fact)
						changed = true
					}
				}
			}
		}
		if !changed {
			break
		}
	}
	if dbg := os.Getenv("VERIF_DEBUG"); dbg != "" && dbg == f.Name {
		fmt.Fprintf(os.Stderr, "=== flow of %s (forallOK=%v)\n", f.Name, fl.forallOK)
		for _, n := range g.Nodes {
			live := fl.In[n] != nil
			var succ []string
			for _, e := range n.Succ {
				succ = append(succ, fmt.Sprintf("%d(%v,%s,feas=%v,facts=%v,cond=%v)", e.To.ID, e.Val, e.Kind, fl.Feasible(e), fl.EdgeIn[e].FactList(), e.Cond != nil))
			}
			fmt.Fprintf(os.Stderr, "  n%d kind=%d live=%v `%s` in=%v -> %v\n", n.ID, n.Kind, live, ExprStr(n.Ast), fl.In[n].FactList(), succ)
		}
	}
	return fl
}

func isLoopExitEdge(e *GEdge) bool {
	k := e.Kind.String()
	return k == "RangeDone" || k == "ForDone"
}

// iterationEndEdges returns the edges on which one iteration of the loop ends:
// for a `for` with a post statement the edges from the body into the post
// statement (so that the increment of the induction variable has not yet
// invalidated facts about this iteration's element), otherwise the back edges
// into the loop head.
func iterationEndEdges(g *Graph, head *GNode, loop ast.Stmt) []*GEdge {
	var out []*GEdge
	if fs, ok := loop.(*ast.ForStmt); ok && fs.Post != nil {
		inPost := func(n *GNode) bool {
			return n.Ast != nil && fs.Post.Pos() <= n.Ast.Pos() && n.Ast.End() <= fs.Post.End()
		}
		for _, n := range g.Nodes {
			if !inPost(n) {
				continue
			}
			for _, pe := range n.Pred {
				if !inPost(pe.From) {
					out = append(out, pe)
				}
			}
		}
		return out
	}
	for _, pe := range head.Pred {
		if isBackEdge(g, pe, loop) {
			out = append(out, pe)
		}
	}
	return out
}

// isBackEdge: an edge into the loop head that originates inside the loop statement.
func isBackEdge(g *Graph, e *GEdge, loop ast.Stmt) bool {
	from := e.From
	// position-based: the source node lies within the loop statement's body/post
	var body ast.Node
	var post ast.Stmt
	switch s := loop.(type) {
	case *ast.RangeStmt:
		body = s.Body
	case *ast.ForStmt:
		body = s.Body
		post = s.Post
	}
	if from.Ast != nil {
		p := from.Ast.Pos()
		if body != nil && body.Pos() <= p && p <= body.End() {
			return true
		}
		if post != nil && post.Pos() <= p && p <= post.End() {
			return true
		}
		return false
	}
	// empty block: decide by block kind / statement
	if from.Block != nil && from.Block.Stmt != nil {
		p := from.Block.Stmt.Pos()
		if body != nil && body.Pos() <= p && p <= body.End() {
			return true
		}
		if from.Block.Stmt == loop {
			k := from.Block.Kind.String()
			return k == "RangeBody" || k == "ForBody" || k == "ForPost"
		}
	}
	return false
}

func (fl *Flow) run() {
	g := fl.G
	fl.In = map[*GNode]*State{}
	fl.Out = map[*GNode]*State{}
	fl.EdgeIn = map[*GEdge]*State{}
	init := newState()
	for o, v := range fl.Spec.AssumeObj {
		init.Val[o] = v
	}
	fl.In[g.Entry] = init
	work := []*GNode{g.Entry}
	inWork := map[*GNode]bool{g.Entry: true}
	steps := 0
	for len(work) > 0 {
		n := work[0]
		work = work[1:]
		inWork[n] = false
		steps++
		if steps > 200000 {
			panic("flow: no fixpoint in " + fl.G.F.Name)
		}
		out := fl.In[n].clone()
		fl.transfer(n, out)
		fl.Out[n] = out
		for _, e := range n.Succ {
			es := out.clone()
			if !fl.refine(e, es) {
				continue // infeasible under what is known
			}
			fl.EdgeIn[e] = es
			to := e.To
			if cur := fl.In[to]; cur == nil {
				fl.In[to] = es.clone()
				if !inWork[to] {
					work = append(work, to)
					inWork[to] = true
				}
			} else if cur.meet(es) {
				if !inWork[to] {
					work = append(work, to)
					inWork[to] = true
				}
			}
		}
	}
	// EdgeIn must reflect the final Out of each source: recompute once.
	for _, n := range g.Nodes {
		if fl.Out[n] == nil {
			continue
		}
		for _, e := range n.Succ {
			es := fl.Out[n].clone()
			if fl.refine(e, es) {
				fl.EdgeIn[e] = es
			} else {
				delete(fl.EdgeIn, e)
			}
		}
	}
}

// assignedObjs lists local objects (re)assigned by a node.
func assignedObjs(info *types.Info, a ast.Node) []types.Object {
	var out []types.Object
	add := func(e ast.Expr) {
		if id, ok := ast.Unparen(e).(*ast.Ident); ok {
			if o := info.ObjectOf(id); o != nil {
				out = append(out, o)
			}
		}
	}
	switch s := a.(type) {
	case *ast.AssignStmt:
		for _, l := range s.Lhs {
			add(l)
		}
	case *ast.IncDecStmt:
		add(s.X)
	case *ast.ValueSpec:
		for _, n := range s.Names {
			add(n)
		}
	case *ast.Ident: // range key/value nodes, select recv lhs
		add(s)
	}
	// &x escapes are ignored (assumption recorded in evidence)
	return out
}

func (fl *Flow) transfer(n *GNode, st *State) {
	c := fl.C
	info := c.Info
	a := n.Ast
	if a == nil {
		return
	}
	// 1. kills from assignment, remembering bindings to create
	type newBind struct {
		o types.Object
		b Binding
	}
	var binds []newBind
	var copies [][2]types.Object
	var lits []struct {
		o types.Object
		v Tri
	}
	switch s := a.(type) {
	case *ast.AssignStmt:
		if len(s.Rhs) == 1 {
			if call, ok := ast.Unparen(s.Rhs[0]).(*ast.CallExpr); ok && s.Tok != token.ADD_ASSIGN {
				for i, l := range s.Lhs {
					if id, ok := l.(*ast.Ident); ok && id.Name != "_" {
						if o := info.ObjectOf(id); o != nil {
							binds = append(binds, newBind{o, Binding{call, i, len(s.Lhs)}})
						}
					}
				}
			}
		}
		if len(s.Lhs) == len(s.Rhs) {
			for i, l := range s.Lhs {
				id, ok := l.(*ast.Ident)
				if !ok {
					continue
				}
				o := info.ObjectOf(id)
				if o == nil {
					continue
				}
				if isBool(o.Type()) {
					// a bool local defined by an expression the state decides (e.g. under the
					// rule's assumptions): `on := a.x || a.y` is known when a.x is assumed
					if _, plain := ast.Unparen(s.Rhs[i]).(*ast.Ident); !plain {
						if t := eval3(c, fl.Spec, s.Rhs[i], st, nil); t != Unknown {
							lits = append(lits, struct {
								o types.Object
								v Tri
							}{o, t})
						}
					}
				}
				switch r := ast.Unparen(s.Rhs[i]).(type) {
				case *ast.Ident:
					if ro := info.ObjectOf(r); ro != nil {
						if _, isNil := ro.(*types.Nil); isNil {
							lits = append(lits, struct {
								o types.Object
								v Tri
							}{o, False})
						} else if r.Name == "true" || r.Name == "false" {
							if _, isC := ro.(*types.Const); isC {
								lits = append(lits, struct {
									o types.Object
									v Tri
								}{o, triOf(r.Name == "true")})
							}
						} else if rv, isV := ro.(*types.Var); isV {
							if rv.Pkg() != nil && rv.Parent() == rv.Pkg().Scope() && isErrorType(o.Type()) && isErrorType(rv.Type()) {
								// package-level sentinel error: non-nil
								lits = append(lits, struct {
									o types.Object
									v Tri
								}{o, True})
							} else {
								copies = append(copies, [2]types.Object{o, ro})
							}
						}
					}
				case *ast.SelectorExpr:
					if rv, ok := info.ObjectOf(r.Sel).(*types.Var); ok && !rv.IsField() && isErrorType(o.Type()) && isErrorType(rv.Type()) {
						lits = append(lits, struct {
							o types.Object
							v Tri
						}{o, True}) // pkg.ErrX
					}
				case *ast.CallExpr:
					if isErrorType(o.Type()) && errConstructors.Has(Callee(info, r)) {
						lits = append(lits, struct {
							o types.Object
							v Tri
						}{o, True})
					}
				}
			}
		}
	case *ast.ValueSpec:
		if len(s.Values) == 1 {
			if call, ok := ast.Unparen(s.Values[0]).(*ast.CallExpr); ok {
				for i, id := range s.Names {
					if o := info.ObjectOf(id); o != nil && id.Name != "_" {
						binds = append(binds, newBind{o, Binding{call, i, len(s.Names)}})
					}
				}
			}
		}
		if len(s.Values) == 0 {
			// zero value: error/pointer/interface nil, bool false
			for _, id := range s.Names {
				if o := info.ObjectOf(id); o != nil {
					switch u := o.Type().Underlying().(type) {
					case *types.Interface, *types.Pointer, *types.Slice, *types.Map:
						lits = append(lits, struct {
							o types.Object
							v Tri
						}{o, False})
					case *types.Basic:
						if u.Kind() == types.Bool {
							lits = append(lits, struct {
								o types.Object
								v Tri
							}{o, False})
						}
					}
				}
			}
		}
	}
	// value copies read the source before the kill
	type cp struct {
		dst types.Object
		b   Binding
		hb  bool
		v   Tri
		hv  bool
	}
	var cps []cp
	for _, pr := range copies {
		x := cp{dst: pr[0]}
		if b, ok := st.Bind[pr[1]]; ok {
			x.b, x.hb = b, true
		}
		if v, ok := st.Val[pr[1]]; ok {
			x.v, x.hv = v, true
		}
		cps = append(cps, x)
	}
	isRead := false
	if id, ok := a.(*ast.Ident); ok && !fl.G.AssignIdents[id] {
		isRead = true // a bare identifier used as condition / switch tag is a read, not a range/select assignment
	}
	if !isRead {
		for _, o := range assignedObjs(info, a) {
			st.kill(o)
		}
	}
	for _, b := range binds {
		st.Bind[b.o] = b.b
		if t := fl.Spec.failOutcome(c, b.b.Call, b.b.Idx, b.b.N); t != Unknown {
			st.Val[b.o] = t
		}
	}
	for _, l := range lits {
		st.Val[l.o] = l.v
	}
	for _, x := range cps {
		if x.hb {
			st.Bind[x.dst] = x.b
		}
		if x.hv {
			st.Val[x.dst] = x.v
		}
	}
	// 2. call guards with OCalled polarity, and node generators
	if len(fl.Spec.Calls) > 0 {
		var calls []*ast.CallExpr
		if n.Defer || n.Go {
			// only guards that accept deferred calls look at these
			calls = nil
			if n.Defer {
				for _, cg := range fl.Spec.Calls {
					if cg.InDefer && cg.Pass == OCalled {
						for _, call := range DeferredCalls(a) {
							if fl.callMatches(&cg, call) {
								st.gen(cg.Fact, nil)
							}
						}
					}
				}
			}
		} else {
			calls = CallsIn(a)
		}
		for _, call := range calls {
			for i := range fl.Spec.Calls {
				cg := &fl.Spec.Calls[i]
				if cg.Pass != OCalled {
					continue
				}
				if fl.callMatches(cg, call) {
					st.gen(cg.Fact, fl.argDeps(cg, call, a))
				}
			}
		}
	}
	for _, ng := range fl.Spec.Nodes {
		if ng.Kill != nil && ng.Kill(c, n) {
			delete(st.Facts, ng.Fact)
			delete(st.Deps, ng.Fact)
		}
		if ng.Gen != nil && ng.Gen(c, n) {
			st.gen(ng.Fact, nil)
		}
	}
}

// DeferredCalls returns the calls a defer statement will run: the deferred call
// itself and, for a deferred function literal, every call in its body.
func DeferredCalls(a ast.Node) []*ast.CallExpr {
	ds, ok := a.(*ast.DeferStmt)
	if !ok {
		return nil
	}
	out := []*ast.CallExpr{ds.Call}
	if lit, ok := ast.Unparen(ds.Call.Fun).(*ast.FuncLit); ok {
		ast.Inspect(lit.Body, func(x ast.Node) bool {
			if c, ok := x.(*ast.CallExpr); ok {
				out = append(out, c)
			}
			return true
		})
	}
	return out
}

func (fl *Flow) callMatches(cg *CallGuard, call *ast.CallExpr) bool {
	if !cg.Callee.HasCall(fl.C.Info, call) {
		return false
	}
	if cg.ArgOK != nil && !cg.ArgOK(fl.C, call) {
		return false
	}
	return true
}

func (fl *Flow) argDeps(cg *CallGuard, call *ast.CallExpr, stmt ast.Node) []types.Object {
	if cg.NoArgDeps {
		return nil
	}
	assigned := map[types.Object]bool{}
	for _, o := range assignedObjs(fl.C.Info, stmt) {
		assigned[o] = true
	}
	var deps []types.Object
	seen := map[types.Object]bool{}
	for _, arg := range call.Args {
		ast.Inspect(arg, func(x ast.Node) bool {
			if _, ok := x.(*ast.FuncLit); ok {
				return false
			}
			if id, ok := x.(*ast.Ident); ok {
				if v, ok := fl.C.Info.Uses[id].(*types.Var); ok && !v.IsField() && v.Pkg() != nil && v.Parent() != v.Pkg().Scope() {
					if !assigned[v] && !seen[v] {
						seen[v] = true
						deps = append(deps, v)
					}
				}
			}
			return true
		})
	}
	return deps
}

// Atom is an atomic condition with a truth value.
type Atom struct {
	E   ast.Expr
	Val bool
}

// Implied decomposes "e has value val" into atoms that must hold.
func Implied(e ast.Expr, val bool) []Atom {
	e = ast.Unparen(e)
	switch x := e.(type) {
	case *ast.UnaryExpr:
		if x.Op == token.NOT {
			return Implied(x.X, !val)
		}
	case *ast.BinaryExpr:
		if x.Op == token.LAND && val {
			return append(Implied(x.X, true), Implied(x.Y, true)...)
		}
		if x.Op == token.LOR && !val {
			return append(Implied(x.X, false), Implied(x.Y, false)...)
		}
	}
	return []Atom{{e, val}}
}

// Eval3 evaluates a condition under the state and the rule's assumptions.
func (fl *Flow) Eval3(e ast.Expr, st *State) Tri {
	return eval3(fl.C, fl.Spec, e, st, nil)
}

func eval3(c *Ctx, spec *FlowSpec, e ast.Expr, st *State, extra func(ast.Expr) Tri) Tri {
	e = ast.Unparen(e)
	if extra != nil {
		if t := extra(e); t != Unknown {
			return t
		}
	}
	if spec != nil && spec.Assume != nil {
		if t := spec.Assume(c, e); t != Unknown {
			return t
		}
	}
	if tv, ok := c.Info.Types[e]; ok && tv.Value != nil && tv.Value.Kind() == constant.Bool {
		return triOf(constant.BoolVal(tv.Value))
	}
	switch x := e.(type) {
	case *ast.CallExpr:
		if tv, ok := c.Info.Types[x]; ok && tv.Type != nil && isBool(tv.Type) {
			if t := spec.failOutcome(c, x, 0, 1); t != Unknown {
				return t
			}
		}
	case *ast.Ident:
		if o := c.Info.ObjectOf(x); o != nil && st != nil {
			if v, ok := st.Val[o]; ok && isBool(o.Type()) {
				return v
			}
		}
	case *ast.UnaryExpr:
		if x.Op == token.NOT {
			return eval3(c, spec, x.X, st, extra).Not()
		}
	case *ast.BinaryExpr:
		switch x.Op {
		case token.LAND:
			a, b := eval3(c, spec, x.X, st, extra), eval3(c, spec, x.Y, st, extra)
			if a == False || b == False {
				return False
			}
			if a == True && b == True {
				return True
			}
		case token.LOR:
			a, b := eval3(c, spec, x.X, st, extra), eval3(c, spec, x.Y, st, extra)
			if a == True || b == True {
				return True
			}
			if a == False && b == False {
				return False
			}
		case token.EQL, token.NEQ:
			var other ast.Expr
			if isNilExpr(c.Info, x.X) {
				other = x.Y
			} else if isNilExpr(c.Info, x.Y) {
				other = x.X
			}
			if other != nil {
				if call, ok := ast.Unparen(other).(*ast.CallExpr); ok {
					if t := spec.failOutcome(c, call, 0, 1); t != Unknown {
						isNil := t == False
						if x.Op == token.EQL {
							return triOf(isNil)
						}
						return triOf(!isNil)
					}
				}
			}
			if other != nil && st != nil {
				if id, ok := ast.Unparen(other).(*ast.Ident); ok {
					if o := c.Info.ObjectOf(id); o != nil {
						if v, ok := st.Val[o]; ok && !isBool(o.Type()) {
							// v True = non-nil
							isNil := v == False
							if x.Op == token.EQL {
								return triOf(isNil)
							}
							return triOf(!isNil)
						}
					}
				}
			}
		}
	}
	return Unknown
}

func isBool(t types.Type) bool {
	b, ok := t.Underlying().(*types.Basic)
	return ok && b.Info()&types.IsBoolean != 0
}

func isNilExpr(info *types.Info, e ast.Expr) bool {
	id, ok := ast.Unparen(e).(*ast.Ident)
	if !ok {
		return false
	}
	_, isNil := info.ObjectOf(id).(*types.Nil)
	return isNil
}

// refine applies the edge condition to st; returns false if the edge is infeasible.
func (fl *Flow) refine(e *GEdge, st *State) bool {
	c := fl.C
	// range body edge assigns key/value
	if rs, ok := e.LoopStmt.(*ast.RangeStmt); ok && e.Kind.String() == "RangeBody" {
		for _, kv := range []ast.Expr{rs.Key, rs.Value} {
			if id, ok := kv.(*ast.Ident); ok {
				if o := c.Info.ObjectOf(id); o != nil {
					st.kill(o)
				}
			}
		}
	}
	if isLoopExitEdge(e) && e.LoopStmt != nil {
		for f := range fl.forallOK[e.LoopStmt] {
			st.gen(f, nil)
		}
	}
	if e.Cond == nil {
		return true
	}
	cond := e.Cond
	if e.Tag != nil {
		cond = &ast.BinaryExpr{X: e.Tag, Op: token.EQL, Y: e.Cond}
		// tagged switch on a constant-valued case with known variable
	}
	t := eval3(c, fl.Spec, cond, st, nil)
	if e.Tag != nil && t == Unknown {
		t = fl.evalTagged(e, st)
	}
	if t != Unknown && (t == True) != e.Val {
		return false
	}
	for _, at := range fl.implied(cond, e.Val, st) {
		fl.learn(at, st)
	}
	return true
}

// implied is Implied refined by what is already known: on the false edge of
// `A && B` with A known true, B must be false (and symmetrically for ||).
func (fl *Flow) implied(e ast.Expr, val bool, st *State) []Atom {
	e = ast.Unparen(e)
	switch x := e.(type) {
	case *ast.UnaryExpr:
		if x.Op == token.NOT {
			return fl.implied(x.X, !val, st)
		}
	case *ast.BinaryExpr:
		if x.Op == token.LAND {
			if val {
				return append(fl.implied(x.X, true, st), fl.implied(x.Y, true, st)...)
			}
			if eval3(fl.C, fl.Spec, x.X, st, nil) == True {
				return fl.implied(x.Y, false, st)
			}
			if eval3(fl.C, fl.Spec, x.Y, st, nil) == True {
				return fl.implied(x.X, false, st)
			}
			return []Atom{{e, val}}
		}
		if x.Op == token.LOR {
			if !val {
				return append(fl.implied(x.X, false, st), fl.implied(x.Y, false, st)...)
			}
			if eval3(fl.C, fl.Spec, x.X, st, nil) == False {
				return fl.implied(x.Y, true, st)
			}
			if eval3(fl.C, fl.Spec, x.Y, st, nil) == False {
				return fl.implied(x.X, true, st)
			}
			return []Atom{{e, val}}
		}
	}
	return []Atom{{e, val}}
}

func (fl *Flow) evalTagged(e *GEdge, st *State) Tri {
	// switch err { case nil: } handled by eval3 through the synthesized ==.
	return Unknown
}

// bindingOf resolves an expression to a call result if it is a direct call or a
// variable currently bound to one.
func (fl *Flow) bindingOf(e ast.Expr, st *State) (Binding, bool) {
	e = ast.Unparen(e)
	switch x := e.(type) {
	case *ast.CallExpr:
		return Binding{x, 0, 1}, true
	case *ast.Ident:
		if o := fl.C.Info.ObjectOf(x); o != nil {
			b, ok := st.Bind[o]
			return b, ok
		}
	}
	return Binding{}, false
}

func (fl *Flow) learn(at Atom, st *State) {
	c := fl.C
	e := ast.Unparen(at.E)
	// condition guards
	for _, cg := range fl.Spec.Conds {
		if ok, pass := cg.Match(c, e); ok && pass == at.Val {
			// the fact is about the variables the atom reads: a later assignment to one of them ends it
			st.gen(cg.Fact, atomVars(c, e))
		}
	}
	// nil comparisons and boolean results
	var subject ast.Expr
	var oc Outcome
	switch x := e.(type) {
	case *ast.BinaryExpr:
		if x.Op == token.EQL || x.Op == token.NEQ {
			if isNilExpr(c.Info, x.Y) {
				subject = x.X
			} else if isNilExpr(c.Info, x.X) {
				subject = x.Y
			}
			if subject != nil {
				isNil := (x.Op == token.EQL) == at.Val
				if isNil {
					oc = OErrNil
				} else {
					oc = OErrNonNil
				}
			}
		}
	}
	if subject == nil {
		if t := c.Info.TypeOf(e); t != nil && isBool(t) {
			subject = e
			if at.Val {
				oc = OTrue
			} else {
				oc = OFalse
			}
		}
	}
	if subject == nil {
		return
	}
	// record variable knowledge
	if id, ok := ast.Unparen(subject).(*ast.Ident); ok {
		if o := c.Info.ObjectOf(id); o != nil {
			if _, isVar := o.(*types.Var); isVar {
				switch oc {
				case OErrNil, OFalse:
					st.Val[o] = False
				case OErrNonNil, OTrue:
					st.Val[o] = True
				}
			}
		}
	}
	b, ok := fl.bindingOf(subject, st)
	if !ok {
		return
	}
	for i := range fl.Spec.Calls {
		cg := &fl.Spec.Calls[i]
		if cg.Pass == OCalled || cg.Pass != oc {
			continue
		}
		idx := cg.Idx
		if idx < 0 {
			idx = b.N + idx
		}
		if idx != b.Idx {
			continue
		}
		if fl.callMatches(cg, b.Call) {
			st.gen(cg.Fact, fl.argDeps(cg, b.Call, nil))
		}
	}
}

// ExprStr renders an expression compactly (for diagnostics only, never for matching).
func ExprStr(e ast.Node) string {
	if e == nil {
		return ""
	}
	if x, ok := e.(ast.Expr); ok {
		return types.ExprString(x)
	}
	switch s := e.(type) {
	case *ast.AssignStmt:
		var l, r []string
		for _, x := range s.Lhs {
			l = append(l, types.ExprString(x))
		}
		for _, x := range s.Rhs {
			r = append(r, types.ExprString(x))
		}
		return strings.Join(l, ", ") + " " + s.Tok.String() + " " + strings.Join(r, ", ")
	case *ast.ExprStmt:
		return types.ExprString(s.X)
	case *ast.ReturnStmt:
		var r []string
		for _, x := range s.Results {
			r = append(r, types.ExprString(x))
		}
		return "return " + strings.Join(r, ", ")
	case *ast.DeferStmt:
		return "defer " + types.ExprString(s.Call)
	case *ast.GoStmt:
		return "go " + types.ExprString(s.Call)
	case *ast.IncDecStmt:
		return types.ExprString(s.X) + s.Tok.String()
	case *ast.SendStmt:
		return types.ExprString(s.Chan) + " <- " + types.ExprString(s.Value)
	}
	return ""
}

// atomVars lists the local variables and parameters read by a condition atom.
func atomVars(c *Ctx, e ast.Expr) []types.Object {
	var out []types.Object
	seen := map[types.Object]bool{}
	InspectNode(e, func(x ast.Node) bool {
		id, ok := x.(*ast.Ident)
		if !ok {
			return true
		}
		v, ok := c.Info.Uses[id].(*types.Var)
		if !ok || v.IsField() || v.Pkg() == nil || v.Parent() == v.Pkg().Scope() || seen[v] {
			return true
		}
		seen[v] = true
		out = append(out, v)
		return true
	})
	return out
}

func isErrorType(t types.Type) bool {
	return types.Identical(t, types.Universe.Lookup("error").Type())
}
