package core

import (
	"fmt"
	"go/ast"
	"go/constant"
	"go/token"
	"go/types"
)

// indexGuarded recognises the bounds guards of an index expression X[I]:
//
//	(g1) X[I] inside `for I := range X` / `for I, _ := range X` (same X, I the range index)
//	(g2) a dominating, passed comparison I < len(X) / len(X) > I (also for constants: len(X) > K)
//	(g3) a dominating, failed test len(X) == 0 for I == 0
func indexGuarded(r *Run, fl *Flow, e *ast.IndexExpr) (bool, string) {
	c := fl.C
	wantX := CanonExpr(c, e.X)
	// (g1)
	if id, ok := ast.Unparen(e.Index).(*ast.Ident); ok {
		io := c.Info.ObjectOf(id)
		for p := r.W.Parent(e); p != nil; p = r.W.Parent(p) {
			if rs, ok := p.(*ast.RangeStmt); ok {
				if k, ok := rs.Key.(*ast.Ident); ok && c.Info.ObjectOf(k) == io && CanonExpr(c, rs.X) == wantX {
					return true, "index is the range index over the same slice"
				}
			}
			if _, ok := p.(*ast.FuncDecl); ok {
				break
			}
			if _, ok := p.(*ast.FuncLit); ok {
				break
			}
		}
	}
	gn := fl.G.NodeContaining(e.Pos())
	if gn == nil {
		return false, ""
	}
	lenOf := func(c *Ctx, x ast.Expr) (string, bool) {
		call, ok := ast.Unparen(x).(*ast.CallExpr)
		if ok && IsBuiltinCall(c.Info, call, "len") && len(call.Args) == 1 {
			return CanonExpr(c, call.Args[0]), true
		}
		return "", false
	}
	// range index of an enclosing loop over some other slice Y
	rangeOver := func(idx ast.Expr) (string, bool) {
		id, ok := ast.Unparen(idx).(*ast.Ident)
		if !ok {
			return "", false
		}
		io := c.Info.ObjectOf(id)
		for p := r.W.Parent(e); p != nil; p = r.W.Parent(p) {
			if rs, ok := p.(*ast.RangeStmt); ok {
				if k, ok := rs.Key.(*ast.Ident); ok && c.Info.ObjectOf(k) == io {
					if _, isMap := c.Info.TypeOf(rs.X).Underlying().(*types.Map); !isMap {
						return CanonExpr(c, rs.X), true
					}
				}
			}
			switch p.(type) {
			case *ast.FuncDecl, *ast.FuncLit:
				return "", false
			}
		}
		return "", false
	}
	// (g4) I ranges over Y and len(X) == len(Y) was established
	if y, ok := rangeOver(e.Index); ok {
		eqLen := func(val bool) func(c *Ctx, a ast.Expr) bool {
			return func(c *Ctx, a ast.Expr) bool {
				b, ok := ast.Unparen(a).(*ast.BinaryExpr)
				if !ok {
					return false
				}
				l, okL := lenOf(c, b.X)
				rr, okR := lenOf(c, b.Y)
				if !okL || !okR || !((l == wantX && rr == y) || (l == y && rr == wantX)) {
					return false
				}
				return (val && b.Op == token.EQL) || (!val && b.Op == token.NEQ)
			}
		}
		if ControlledBy(fl, gn, eqLen(true), true) || ControlledBy(fl, gn, eqLen(false), false) {
			return true, fmt.Sprintf("index ranges over another slice whose length was tested to equal len(%s)", ExprStr(e.X))
		}
	}
	// (g6) I ranges over Y and len(X) >= len(Y) was established (the test `len(X) < len(Y)` failed)
	if y, ok := rangeOver(e.Index); ok {
		atLeast := func(val bool) func(c *Ctx, a ast.Expr) bool {
			return func(c *Ctx, a ast.Expr) bool {
				b, ok := ast.Unparen(a).(*ast.BinaryExpr)
				if !ok {
					return false
				}
				l, okL := lenOf(c, b.X)
				rr, okR := lenOf(c, b.Y)
				if !okL || !okR {
					return false
				}
				op := b.Op
				if l == y && rr == wantX {
					l, rr = rr, l
					switch op {
					case token.LSS:
						op = token.GTR
					case token.LEQ:
						op = token.GEQ
					case token.GTR:
						op = token.LSS
					case token.GEQ:
						op = token.LEQ
					}
				}
				if l != wantX || rr != y {
					return false
				}
				// len(X) op len(Y) has truth value val
				if val {
					return op == token.GEQ || op == token.GTR || op == token.EQL
				}
				return op == token.LSS || op == token.NEQ && false
			}
		}
		if ControlledBy(fl, gn, atLeast(true), true) || ControlledBy(fl, gn, atLeast(false), false) {
			return true, fmt.Sprintf("index ranges over another slice that was tested to be no longer than %s", ExprStr(e.X))
		}
	}
	// (g5) I = A + J, J ranges over G, and `A + len(G) > len(X)` was tested and failed
	if b, ok := ast.Unparen(e.Index).(*ast.BinaryExpr); ok && b.Op == token.ADD {
		for _, pr := range [][2]ast.Expr{{b.X, b.Y}, {b.Y, b.X}} {
			a, j := pr[0], pr[1]
			g, ok := rangeOver(j)
			if !ok {
				continue
			}
			wantA := CanonExpr(c, a)
			tooBig := func(c *Ctx, at ast.Expr) bool {
				cmp, ok := ast.Unparen(at).(*ast.BinaryExpr)
				if !ok || (cmp.Op != token.GTR && cmp.Op != token.GEQ) {
					return false
				}
				sum, ok := ast.Unparen(cmp.X).(*ast.BinaryExpr)
				if !ok || sum.Op != token.ADD {
					return false
				}
				lx, okx := lenOf(c, cmp.Y)
				if !okx || lx != wantX {
					return false
				}
				for _, q := range [][2]ast.Expr{{sum.X, sum.Y}, {sum.Y, sum.X}} {
					if lg, ok := lenOf(c, q[1]); ok && lg == g && CanonExpr(c, q[0]) == wantA {
						return cmp.Op == token.GTR // A+len(G) > len(X) false ⇒ A+len(G) <= len(X) ⇒ A+J < len(X)
					}
				}
				return false
			}
			if ControlledBy(fl, gn, tooBig, false) {
				return true, fmt.Sprintf("behind a failed test that %s + len(range) exceeds len(%s)", ExprStr(a), ExprStr(e.X))
			}
		}
	}
	isLenX := func(c *Ctx, x ast.Expr) bool {
		call, ok := ast.Unparen(x).(*ast.CallExpr)
		return ok && IsBuiltinCall(c.Info, call, "len") && len(call.Args) == 1 && CanonExpr(c, call.Args[0]) == wantX
	}
	wantI := CanonExpr(c, e.Index)
	isI := func(c *Ctx, x ast.Expr) bool { return CanonExpr(c, x) == wantI }
	var k int64 = -1
	if tv, ok := c.Info.Types[e.Index]; ok && tv.Value != nil && tv.Value.Kind() == constant.Int {
		k, _ = constant.Int64Val(tv.Value)
	}
	constOf := func(c *Ctx, x ast.Expr) (int64, bool) {
		if tv, ok := c.Info.Types[x]; ok && tv.Value != nil && tv.Value.Kind() == constant.Int {
			return constant.Int64Val(tv.Value)
		}
		return 0, false
	}
	// (g2)/(g3) as one predicate over atoms with a truth value
	pass := func(val bool) func(c *Ctx, a ast.Expr) bool {
		return func(c *Ctx, a ast.Expr) bool {
			b, ok := ast.Unparen(a).(*ast.BinaryExpr)
			if !ok {
				return false
			}
			l, rr, op := b.X, b.Y, b.Op
			if isLenX(c, rr) {
				l, rr = rr, l
				switch op {
				case token.LSS:
					op = token.GTR
				case token.LEQ:
					op = token.GEQ
				case token.GTR:
					op = token.LSS
				case token.GEQ:
					op = token.LEQ
				}
			}
			if !isLenX(c, l) {
				return false
			}
			if !val {
				// the atom is known false: negate the relation
				switch op {
				case token.LEQ:
					op = token.GTR
				case token.LSS:
					op = token.GEQ
				case token.EQL:
					op = token.NEQ
				case token.NEQ:
					op = token.EQL
				default:
					return false
				}
			}
			// now: len(X) op rr holds
			if k >= 0 {
				if v, ok := constOf(c, rr); ok {
					switch op {
					case token.GTR:
						return v >= k
					case token.GEQ:
						return v >= k+1
					case token.NEQ:
						return v == 0 && k == 0
					case token.EQL:
						return v > k // len(X) == v and the constant index is below v
					}
				}
				return false
			}
			if isI(c, rr) {
				return op == token.GTR
			}
			return false
		}
	}
	if ControlledBy(fl, gn, pass(true), true) {
		return true, fmt.Sprintf("behind a passed test that len(%s) exceeds the index", ExprStr(e.X))
	}
	if ControlledBy(fl, gn, pass(false), false) {
		return true, fmt.Sprintf("behind a failed test that len(%s) is too small for the index", ExprStr(e.X))
	}
	return false, ""
}

// sizeBounded: the allocation size is the length/capacity of an existing value
// (possibly plus constants), or a dominating comparison bounds it from above.
func sizeBounded(fl *Flow, mk *ast.CallExpr, sz ast.Expr) (bool, string) {
	c := fl.C
	// built from len()/cap() calls and constants only
	onlyLens := true
	ast.Inspect(sz, func(x ast.Node) bool {
		switch y := x.(type) {
		case *ast.CallExpr:
			if IsBuiltinCall(c.Info, y, "len") || IsBuiltinCall(c.Info, y, "cap") {
				return false
			}
			if tv, ok := c.Info.Types[y.Fun]; ok && tv.IsType() {
				return true // conversion
			}
			onlyLens = false
		case *ast.Ident:
			if tv, ok := c.Info.Types[y]; ok && tv.Value != nil {
				return true
			}
			if _, isConv := c.Info.Types[y]; isConv && c.Info.Types[y].IsType() {
				return true
			}
			// a local variable defined only from len()-expressions
			if o := c.Info.ObjectOf(y); o != nil {
				defs := c.DefsOf(o)
				if len(defs) == 0 {
					onlyLens = false
				}
				for _, d := range defs {
					if d.Rhs == nil {
						onlyLens = false
						continue
					}
					call, ok := ast.Unparen(d.Rhs).(*ast.CallExpr)
					if !ok || !(IsBuiltinCall(c.Info, call, "len") || IsBuiltinCall(c.Info, call, "cap")) {
						onlyLens = false
					}
				}
			}
		case *ast.SelectorExpr:
			onlyLens = false
			return false
		}
		return true
	})
	if onlyLens {
		return true, "the size is the length of a value that already exists"
	}
	gn := fl.G.NodeContaining(mk.Pos())
	if gn == nil {
		return false, ""
	}
	want := CanonExpr(c, sz)
	isSz := func(c *Ctx, x ast.Expr) bool { return CanonExpr(c, x) == want }
	upper := func(val bool) func(c *Ctx, a ast.Expr) bool {
		return func(c *Ctx, a ast.Expr) bool {
			b, ok := ast.Unparen(a).(*ast.BinaryExpr)
			if !ok {
				return false
			}
			l, rr, op := b.X, b.Y, b.Op
			if isSz(c, rr) {
				l, rr = rr, l
				switch op {
				case token.LSS:
					op = token.GTR
				case token.LEQ:
					op = token.GEQ
				case token.GTR:
					op = token.LSS
				case token.GEQ:
					op = token.LEQ
				}
			}
			if !isSz(c, l) {
				return false
			}
			if !val {
				switch op {
				case token.GTR:
					op = token.LEQ
				case token.GEQ:
					op = token.LSS
				case token.NEQ:
					op = token.EQL
				default:
					return false
				}
			}
			return op == token.LEQ || op == token.LSS || op == token.EQL
		}
	}
	if ControlledBy(fl, gn, upper(true), true) || ControlledBy(fl, gn, upper(false), false) {
		return true, "behind a test that bounds the size from above"
	}
	return false, ""
}
