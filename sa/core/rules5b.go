package core

import (
	"fmt"
	"go/ast"
	"go/token"
	"go/types"
)

// receiverNonNil: every call of method m from a function in scope passes a
// receiver that cannot be nil: the address of a value variable, a pointer
// assigned only from &T{…}/new(T), or a pointer listed in NonNil for the caller.
func (mp MayPanic) receiverNonNil(r *Run, m *FuncInfo, inScope map[string]bool) (bool, string) {
	sites, good := 0, 0
	bad := ""
	if recvBusy[m] {
		return false, "recursive receiver chain"
	}
	recvBusy[m] = true
	defer delete(recvBusy, m)
	for name := range inScope {
		g := r.W.Peek(name)
		if g == nil {
			continue
		}
		c := g.Ctx()
		ast.Inspect(g.Body(), func(x ast.Node) bool {
			call, ok := x.(*ast.CallExpr)
			if !ok {
				return true
			}
			fn := Callee(c.Info, call)
			if fn == nil || fn.Origin() != m.Obj {
				return true
			}
			sel, ok := ast.Unparen(call.Fun).(*ast.SelectorExpr)
			if !ok {
				return true
			}
			sites++
			t := c.Info.TypeOf(sel.X)
			if _, isPtr := t.Underlying().(*types.Pointer); !isPtr {
				good++ // method called on an addressable value: the receiver is its address
				return true
			}
			id, isID := ast.Unparen(sel.X).(*ast.Ident)
			if !isID {
				bad = fmt.Sprintf("%s: receiver `%s` is a pointer expression", r.W.Pos(call.Pos()), ExprStr(sel.X))
				return true
			}
			o := c.Info.ObjectOf(id)
			if _, ok := mp.nonNil(c, g.Name, o); ok {
				good++
				return true
			}
			if rv := g.Recv(); rv != nil && rv == o {
				// the caller passes its own receiver on: decided at the caller's call sites
				if ok, _ := mp.receiverNonNil(r, g, inScope); ok {
					good++
					return true
				}
			}
			all := o != nil
			for _, d := range c.DefsOf(o) {
				if d.Rhs == nil {
					all = false
					continue
				}
				rhs := ast.Unparen(d.Rhs)
				if u, ok := rhs.(*ast.UnaryExpr); ok && u.Op == token.AND {
					continue
				}
				if cl, ok := rhs.(*ast.CallExpr); ok && IsBuiltinCall(c.Info, cl, "new") {
					continue
				}
				all = false
			}
			if all && len(c.DefsOf(o)) > 0 {
				good++
			} else {
				bad = fmt.Sprintf("%s: receiver `%s` may be nil in %s", r.W.Pos(call.Pos()), id.Name, g.Name)
			}
			return true
		})
	}
	if sites == 0 {
		return false, "no call site of the method inside the analysed set: the receiver's origin is unknown"
	}
	if bad != "" {
		return false, bad
	}
	return true, fmt.Sprintf("receiver: all %d call site(s) inside the analysed set pass the address of a value or a pointer shown non-nil there", good)
}

var recvBusy = map[*FuncInfo]bool{}
