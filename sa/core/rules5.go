package core

import (
	"fmt"
	"go/ast"
	"go/constant"
	"go/token"
	"go/types"
	"os"
	"sort"
	"strings"
)

// MayPanic enumerates, in a fixed set of functions (the closure of an entry
// point that handles untrusted bytes), every construct that can panic at run
// time and requires each to be discharged by a dominating guard of a known
// shape.  What it looks at:
//
//	slice and index expressions on slices/arrays/strings
//	type assertions without comma-ok
//	calls of the builtin panic
//	integer division / remainder
//	field access and method calls through pointers that may be nil
//
// Calls that leave the function set must be listed in Trusted with a reason.
type MayPanic struct {
	Funcs   []string          // short names of the functions in scope
	Trusted map[string]string // callee short name (or "pkgpath.*") -> reason it cannot panic on these inputs
	// NonNil: "func:var" -> reason the pointer variable cannot be nil there.
	NonNil map[string]string
	// IndexOK: "func:expr" -> reason an index expression is in range.
	IndexOK map[string]string
	// CheckAlloc also treats make(T, n) with a non-constant n that is not the
	// length of an existing value as a site (unbounded allocation).
	CheckAlloc bool
	// Recovered: functions that only run below a recover() frame (a panic there
	// is caught and the input dropped); sites in them are listed but discharged.
	Recovered map[string]string
	// TrustFn decides callees by a rule instead of by name (e.g. generated getters).
	TrustFn func(r *Run, fn *types.Func) (string, bool)
	// SkipNilDeref leaves field access / dereference through pointers out (stated as not covered by the caller).
	SkipNilDeref bool
	// Known: functions decided by another instance of the rule (calls to them are fine).
	Known []string
	Min   int
}

// nonNil looks a variable up in the frozen NonNil table: by name
// ("func:var"), or by origin ("func:=callee": a variable all of whose
// definitions are the first result of a call to callee — independent of how
// the variable is called).
func (mp MayPanic) nonNil(c *Ctx, fname string, o types.Object) (string, bool) {
	if o == nil {
		return "", false
	}
	if why, ok := mp.NonNil[fname+":"+o.Name()]; ok {
		return why, true
	}
	root := c.F
	for root.Encl != nil {
		root = root.Encl
	}
	for i := 0; i < root.Sig().Params().Len(); i++ {
		if root.Sig().Params().At(i) == o {
			if why, ok := mp.NonNil[fmt.Sprintf("%s:#%d", fname, i)]; ok {
				return why, true
			}
		}
	}
	prefix := fname + ":="
	for k, why := range mp.NonNil {
		if !strings.HasPrefix(k, prefix) {
			continue
		}
		callee := strings.TrimPrefix(k, prefix)
		defs := LiveDefs(c.DefsOf(o))
		all := len(defs) > 0
		for _, d := range defs {
			call, ok := ast.Unparen(d.Rhs).(*ast.CallExpr)
			if d.Rhs == nil || !ok || d.Idx != 0 || ShortName(Callee(c.Info, call)) != callee {
				all = false
			}
		}
		if all {
			return why, true
		}
	}
	return "", false
}

// indexOK looks a site up in the frozen table, by its source text
// ("func:expr") or by its canonical form ("func:~canon", independent of the
// names of locals, parameters and the receiver).
func (mp MayPanic) indexOK(c *Ctx, f *FuncInfo, e ast.Node) (string, bool) {
	if why, ok := mp.IndexOK[f.Name+":"+ExprStr(e)]; ok {
		if os.Getenv("VERIF_CANON_SITES") != "" {
			if x, isExpr := e.(ast.Expr); isExpr {
				fmt.Fprintf(os.Stderr, "CANON %s:~%s\n", f.Name, CanonExpr(c, x))
			}
		}
		return why, true
	}
	if x, isExpr := e.(ast.Expr); isExpr {
		canon := CanonExpr(c, x)
		if why, ok := mp.IndexOK[f.Name+":~"+canon]; ok {
			return why, true
		}
		// a sub-expression held in a local is canonicalised with parentheses around
		// its definition: compare without them
		noParen := strings.NewReplacer("(", "", ")", "")
		want := noParen.Replace(f.Name + ":~" + canon)
		for k, why := range mp.IndexOK {
			if strings.Contains(k, ":~") && noParen.Replace(k) == want {
				return why, true
			}
		}
		// a site inside an unnamed helper that was taken into the scope from a
		// function of the table: the helper was extracted from that function
		root := f
		for root.Encl != nil {
			root = root.Encl
		}
		for from := mayPanicFrom[root.Name]; from != ""; from = mayPanicFrom[from] {
			if why, ok := mp.IndexOK[from+":~"+canon]; ok {
				return why + " (site now in the unnamed helper " + root.Name + ")", true
			}
		}
	}
	return "", false
}

// mayPanicFrom: unnamed helper -> the function of the scope it was first reached from.
var mayPanicFrom = map[string]string{}

func (mp MayPanic) trusted(name string) (string, bool) {
	if why, ok := mp.Trusted[name]; ok {
		return why, true
	}
	for k, why := range mp.Trusted {
		if strings.HasSuffix(k, ".*") && strings.HasPrefix(name, strings.TrimSuffix(k, "*")) {
			return why, true
		}
	}
	return "", false
}

func (mp MayPanic) Check(r *Run) {
	mayPanicPending = nil
	inScope := map[string]bool{}
	for _, f := range mp.Funcs {
		inScope[f] = true
	}
	for _, f := range mp.Known {
		inScope[f] = true
	}
	total := 0
	for _, name := range mp.Funcs {
		f := r.Fn(name)
		if f == nil {
			continue
		}
		total += mp.checkFunc(r, f, inScope)
		for _, cl := range f.Closures() {
			// literals run as part of their function (or as goroutines it starts): same scope, same frame assumptions
			startedAsGoroutine := false
			if call, ok := r.W.Parent(cl.Lit).(*ast.CallExpr); ok {
				if _, isGo := r.W.Parent(call).(*ast.GoStmt); isGo {
					startedAsGoroutine = true // a new goroutine is not under its creator's recover frame
				}
			}
			if rec, ok := mp.Recovered[f.Name]; ok && mp.Recovered[cl.Name] == "" && !startedAsGoroutine {
				if mp.Recovered == nil {
					mp.Recovered = map[string]string{}
				}
				mp.Recovered[cl.Name] = rec
			}
			total += mp.checkFunc(r, cl, inScope)
		}
	}
	for len(mayPanicPending) > 0 {
		h := mayPanicPending[0]
		mayPanicPending = mayPanicPending[1:]
		r.Touch(h)
		if rec, ok := mp.Recovered[h.Name]; !ok || rec == "" {
			// a helper only called from recovered functions runs under their frame
			_ = rec
		}
		total += mp.checkFunc(r, h, inScope)
	}
	if total < mp.Min {
		r.Fail("may-panic sites", "-", fmt.Sprintf("expected ≥%d sites in scope, found %d", mp.Min, total))
	}
}

// mayPanicPending: unnamed helpers met while a scope is analysed, to be analysed with it.
var mayPanicPending []*FuncInfo

// lenGuarded: is there, on every path to node n, a passed test len(X) > K or len(X) >= K' that makes X[len(X)-K:] safe?
func lenGuarded(fl *Flow, n *GNode, x ast.Expr, k int64) bool {
	c := fl.C
	want := CanonExpr(c, x)
	isLenX := func(c *Ctx, e ast.Expr) bool {
		call, ok := ast.Unparen(e).(*ast.CallExpr)
		return ok && IsBuiltinCall(c.Info, call, "len") && len(call.Args) == 1 && CanonExpr(c, call.Args[0]) == want
	}
	constVal := func(c *Ctx, e ast.Expr) (int64, bool) {
		tv, ok := c.Info.Types[e]
		if ok && tv.Value != nil && tv.Value.Kind() == constant.Int {
			v, exact := constant.Int64Val(tv.Value)
			return v, exact
		}
		// a local variable with a single constant-valued definition
		if id, ok := ast.Unparen(e).(*ast.Ident); ok {
			if o := c.Info.ObjectOf(id); o != nil {
				defs := c.DefsOf(o)
				if len(defs) == 1 && defs[0].Rhs != nil {
					if tv, ok := c.Info.Types[defs[0].Rhs]; ok && tv.Value != nil && tv.Value.Kind() == constant.Int {
						v, exact := constant.Int64Val(tv.Value)
						return v, exact
					}
					// or a package-level var initialised with a constant (sha256Len)
					if rid, ok := ast.Unparen(defs[0].Rhs).(*ast.Ident); ok {
						if pv, ok := c.Info.ObjectOf(rid).(*types.Var); ok && pv.Parent() == pv.Pkg().Scope() {
							return pkgVarConst(c.W, pv)
						}
					}
				}
			}
		}
		return 0, false
	}
	return ControlledBy(fl, n, func(c *Ctx, e ast.Expr) bool {
		b, ok := ast.Unparen(e).(*ast.BinaryExpr)
		if !ok {
			return false
		}
		l, rr, op := b.X, b.Y, b.Op
		if !isLenX(c, l) {
			if !isLenX(c, rr) {
				return false
			}
			l, rr = rr, l
			switch op {
			case token.LSS:
				op = token.GTR
			case token.LEQ:
				op = token.GEQ
			case token.GTR:
				op = token.LSS
			case token.GEQ:
				op = token.LEQ
			}
		}
		v, ok := constVal(c, rr)
		if !ok {
			return false
		}
		switch op {
		case token.GTR:
			return v >= k-1 && v >= 0
		case token.GEQ:
			return v >= k
		}
		return false
	}, true)
}

// pkgVarConst: value of a package-level `var x = <int const>` that is never assigned elsewhere in its package.
func pkgVarConst(w *World, pv *types.Var) (int64, bool) {
	pkg := w.Pkgs[pv.Pkg().Path()]
	if pkg == nil {
		return 0, false
	}
	var val int64
	found := false
	assigned := false
	for _, file := range pkg.Syntax {
		ast.Inspect(file, func(x ast.Node) bool {
			switch s := x.(type) {
			case *ast.ValueSpec:
				for i, id := range s.Names {
					if pkg.TypesInfo.Defs[id] == pv && i < len(s.Values) {
						if tv, ok := pkg.TypesInfo.Types[s.Values[i]]; ok && tv.Value != nil && tv.Value.Kind() == constant.Int {
							val, found = constant.Int64Val(tv.Value)
						}
					}
				}
			case *ast.AssignStmt:
				for _, l := range s.Lhs {
					if id, ok := ast.Unparen(l).(*ast.Ident); ok && pkg.TypesInfo.Uses[id] == pv {
						assigned = true
					}
				}
			case *ast.IncDecStmt:
				if id, ok := ast.Unparen(s.X).(*ast.Ident); ok && pkg.TypesInfo.Uses[id] == pv {
					assigned = true
				}
			case *ast.UnaryExpr:
				if s.Op == token.AND {
					if id, ok := ast.Unparen(s.X).(*ast.Ident); ok && pkg.TypesInfo.Uses[id] == pv {
						assigned = true
					}
				}
			}
			return true
		})
	}
	return val, found && !assigned
}

func (mp MayPanic) checkFunc(r *Run, f *FuncInfo, inScope map[string]bool) int {
	c := f.Ctx()
	fl := RunFlow(f, &FlowSpec{})
	r.Touch(f)
	n := 0
	occ := map[string]int{}
	report := func(kind string, x ast.Node, ok bool, why string) {
		n++
		occ[kind]++
		label := fmt.Sprintf("%s: %s #%d `%s` cannot panic", f.Name, kind, occ[kind], ExprStr(x))
		if fz, isFz := mp.indexOK(c, f, x); !ok && isFz {
			ok, why = true, "frozen: "+fz
			r.Exception(label, fz)
		}
		if rec, isRec := mp.Recovered[f.Name]; !ok && isRec && kind != "allocation" {
			ok, why = true, "a panic here is caught: "+rec+" (the input is dropped) — "+why
		}
		if ok {
			r.OK(label, r.W.Pos(x.Pos()), why)
		} else {
			r.Fail(label, r.W.Pos(x.Pos()), why)
		}
	}
	nodeOf := func(x ast.Node) *GNode { return fl.G.NodeContaining(x.Pos()) }
	// pointer variables proven non-nil
	nonNilVar := func(id *ast.Ident) (bool, string) {
		o, _ := c.Info.ObjectOf(id).(*types.Var)
		if o == nil {
			return false, ""
		}
		if why, ok := mp.nonNil(c, f.Name, o); ok {
			return true, "frozen: " + why
		}
		if rv := f.Recv(); rv != nil && rv == o {
			// receiver: decided at the call sites inside the scope
			ok, why := mp.receiverNonNil(r, f, inScope)
			return ok, why
		}
		defs := c.DefsOf(o)
		if len(defs) == 0 {
			return false, ""
		}
		for _, d := range defs {
			if d.Rhs == nil {
				return false, ""
			}
			rhs := ast.Unparen(d.Rhs)
			if u, ok := rhs.(*ast.UnaryExpr); ok && u.Op == token.AND {
				continue
			}
			if call, ok := rhs.(*ast.CallExpr); ok {
				if IsBuiltinCall(c.Info, call, "new") {
					continue
				}
			}
			return false, ""
		}
		return true, "assigned only from &T{…} / new(T)"
	}
	InspectNode(f.Body(), func(x ast.Node) bool {
		switch e := x.(type) {
		case *ast.SliceExpr:
			t := c.Info.TypeOf(e.X)
			if t == nil {
				return true
			}
			if e.High != nil && e.Low == nil && e.Max == nil {
				// x[:cap(x)] and x[:len(x)] are always in range
				if hc, ok := ast.Unparen(e.High).(*ast.CallExpr); ok && len(hc.Args) == 1 && CanonExpr(c, hc.Args[0]) == CanonExpr(c, e.X) &&
					(IsBuiltinCall(c.Info, hc, "cap") || IsBuiltinCall(c.Info, hc, "len")) {
					report("slice", e, true, "x[:cap(x)] / x[:len(x)] cannot be out of range")
					return true
				}
				// x[:0]
				if tv, ok := c.Info.Types[e.High]; ok && tv.Value != nil && constant.Sign(tv.Value) == 0 {
					report("slice", e, true, "x[:0]")
					return true
				}
			}
			if e.High != nil || e.Max != nil {
				report("slice", e, false, "slice expression with an upper bound: no guard shape recognised")
				return true
			}
			if e.Low == nil {
				report("slice", e, true, "x[:] cannot panic")
				return true
			}
			// x[len(x)-K:]
			if b, ok := ast.Unparen(e.Low).(*ast.BinaryExpr); ok && b.Op == token.SUB {
				if lc, ok := ast.Unparen(b.X).(*ast.CallExpr); ok && IsBuiltinCall(c.Info, lc, "len") && len(lc.Args) == 1 && CanonExpr(c, lc.Args[0]) == CanonExpr(c, e.X) {
					k, okK := int64(0), false
					if tv, has := c.Info.Types[b.Y]; has && tv.Value != nil && tv.Value.Kind() == constant.Int {
						k, okK = constant.Int64Val(tv.Value)
					} else if id, isID := ast.Unparen(b.Y).(*ast.Ident); isID {
						if o := c.Info.ObjectOf(id); o != nil {
							if defs := c.DefsOf(o); len(defs) == 1 && defs[0].Rhs != nil {
								if rid, ok := ast.Unparen(defs[0].Rhs).(*ast.Ident); ok {
									if pv, ok := c.Info.ObjectOf(rid).(*types.Var); ok && pv.Pkg() != nil && pv.Parent() == pv.Pkg().Scope() {
										k, okK = pkgVarConst(c.W, pv)
									}
								}
							}
						}
					}
					if gn := nodeOf(e); okK && gn != nil && lenGuarded(fl, gn, e.X, k) {
						report("slice", e, true, fmt.Sprintf("low bound len(x)-%d behind a passed test that len(x) is at least %d", k, k))
						return true
					}
				}
			}
			report("slice", e, false, "low bound is not of the form len(x)-K behind len(x) > K-1: a short input would make the bound negative")
		case *ast.IndexExpr:
			t := c.Info.TypeOf(e.X)
			if t == nil {
				return true
			}
			switch u := t.Underlying().(type) {
			case *types.Map:
				return true
			case *types.Signature:
				return true // generic instantiation
			case *types.Array:
				if tv, ok := c.Info.Types[e.Index]; ok && tv.Value != nil {
					if v, exact := constant.Int64Val(tv.Value); exact && v >= 0 && v < u.Len() {
						report("index", e, true, "constant index inside the array")
						return true
					}
				}
				report("index", e, false, "array index not a constant inside the bounds")
			default:
				if why, ok := mp.indexOK(c, f, e); ok {
					report("index", e, true, "frozen: "+why)
				} else if ok, why := indexGuarded(r, fl, e); ok {
					report("index", e, true, why)
				} else {
					report("index", e, false, "index into a slice/string without a recognised bounds guard (range over the same slice, or a dominating comparison of the index with its length)")
				}
			}
		case *ast.TypeAssertExpr:
			if e.Type == nil {
				return true // type switch
			}
			// comma-ok form?
			par := r.W.Parent(e)
			if as, ok := par.(*ast.AssignStmt); ok && len(as.Lhs) == 2 && len(as.Rhs) == 1 {
				return true
			}
			if vs, ok := par.(*ast.ValueSpec); ok && len(vs.Names) == 2 {
				return true
			}
			if why, ok := mp.indexOK(c, f, e); ok {
				report("type assertion", e, true, "frozen: "+why)
				return true
			}
			report("type assertion", e, false, "single-value type assertion panics on a mismatch")
		case *ast.BinaryExpr:
			if e.Op == token.QUO || e.Op == token.REM {
				if bt, ok := c.Info.TypeOf(e.X).Underlying().(*types.Basic); ok && bt.Info()&types.IsInteger != 0 {
					if tv, ok := c.Info.Types[e.Y]; ok && tv.Value != nil && constant.Sign(tv.Value) != 0 {
						report("division", e, true, "constant non-zero divisor")
					} else {
						report("division", e, false, "integer division by a value not known to be non-zero")
					}
				}
			}
		case *ast.CallExpr:
			if IsBuiltinCall(c.Info, e, "panic") {
				report("panic", e, false, "explicit panic reachable from the entry point")
				return true
			}
			if mp.CheckAlloc && IsBuiltinCall(c.Info, e, "make") && len(e.Args) >= 2 {
				for _, sz := range e.Args[1:] {
					if tv, ok := c.Info.Types[sz]; ok && tv.Value != nil {
						continue
					}
					if ok, why := sizeBounded(fl, e, sz); ok {
						report("allocation", e, true, why)
					} else {
						report("allocation", e, false, fmt.Sprintf("the size `%s` is neither the length of an existing value nor behind an upper-bound test: a count declared by a peer makes the runtime reserve that much memory (out-of-memory is fatal, recover() does not help)", ExprStr(sz)))
					}
				}
				return true
			}
			fn := Callee(c.Info, e)
			if fn == nil {
				// conversion or builtin or dynamic call
				if tv, ok := c.Info.Types[e.Fun]; ok && (tv.IsType() || tv.IsBuiltin()) {
					return true
				}
				// a function literal invoked in place (go func(){…}(), defer func(){…}()): its body is scanned as
				// a function of its own when it is in the analysed set
				if lit, ok := ast.Unparen(e.Fun).(*ast.FuncLit); ok {
					for _, cl := range f.Closures() {
						if cl.Lit == lit && inScope[cl.Name] {
							report("call", e, true, "function literal invoked in place; its body is scanned as "+cl.Name)
							return true
						}
					}
					root := f
					for root.Encl != nil {
						root = root.Encl
					}
					for _, cl := range root.Closures() {
						if cl.Lit == lit && (inScope[cl.Name] || inScope[f.Name]) {
							report("call", e, true, "function literal invoked in place; its body is scanned with "+f.Name)
							return true
						}
					}
				}
				// a local variable holding a function literal of this function (its body is scanned with it),
				// or a cancel function obtained from the context package
				if id, ok := ast.Unparen(e.Fun).(*ast.Ident); ok {
					if o := c.Info.ObjectOf(id); o != nil {
						defs := c.DefsOf(o)
						all := len(defs) > 0
						why := "local closure of this function (its body is scanned as part of it)"
						for _, d := range defs {
							if d.Rhs == nil {
								all = false
								continue
							}
							switch rhs := ast.Unparen(d.Rhs).(type) {
							case *ast.FuncLit:
							case *ast.CallExpr:
								if fn := Callee(c.Info, rhs); fn != nil && fn.Pkg() != nil && fn.Pkg().Path() == "context" {
									why = "cancel function returned by the context package"
								} else {
									all = false
								}
							default:
								all = false
							}
						}
						if all {
							report("call", e, true, why)
							return true
						}
					}
				}
				if why, ok := mp.indexOK(c, f, e); ok {
					report("call", e, true, "frozen: "+why)
					return true
				}
				report("call", e, false, "dynamic call: callee unknown")
				return true
			}
			name := ShortName(fn)
			if inScope[name] {
				return true
			}
			if why, ok := mp.trusted(name); ok {
				report("call", e, true, "trusted: "+why)
			} else if why, ok := func() (string, bool) {
				if mp.TrustFn == nil {
					return "", false
				}
				return mp.TrustFn(r, fn)
			}(); ok {
				report("call", e, true, "trusted: "+why)
			} else if h := r.W.FuncOf(fn); h != nil && h.Pkg == f.Pkg && h.Body() != nil && !mentioned[name] {
				// an unnamed helper of the package (typically extracted from a function in
				// scope): it is analysed as part of the scope instead of being trusted
				inScope[name] = true
				mayPanicPending = append(mayPanicPending, h)
				caller := f
				for caller.Encl != nil {
					caller = caller.Encl
				}
				if _, seen := mayPanicFrom[name]; !seen && caller.Name != name {
					mayPanicFrom[name] = caller.Name
				}
			} else {
				report("call", e, false, fmt.Sprintf("%s is outside the analysed set and not in the trusted table", name))
			}
		case *ast.SelectorExpr:
			// field access through a pointer variable
			sel := c.Info.Selections[e]
			if sel == nil || sel.Kind() != types.FieldVal || mp.SkipNilDeref {
				return true
			}
			if _, isPtr := c.Info.TypeOf(e.X).Underlying().(*types.Pointer); !isPtr {
				return true
			}
			id, ok := ast.Unparen(e.X).(*ast.Ident)
			if !ok {
				report("pointer field access", e, false, "field access through a pointer expression that is not a plain variable")
				return true
			}
			if ok, why := nonNilVar(id); ok {
				report("pointer field access", e, true, why)
			} else {
				report("pointer field access", e, false, fmt.Sprintf("`%s` may be nil here", id.Name))
			}
		case *ast.StarExpr:
			if _, isPtr := c.Info.TypeOf(e.X).(*types.Pointer); isPtr && !mp.SkipNilDeref {
				if tv, ok := c.Info.Types[e]; ok && tv.IsType() {
					return true
				}
				if id, ok := ast.Unparen(e.X).(*ast.Ident); ok {
					if ok, why := nonNilVar(id); ok {
						report("dereference", e, true, why)
						return true
					}
				}
				report("dereference", e, false, "explicit dereference of a pointer not known to be non-nil")
			}
		}
		return true
	})
	_ = sort.Strings
	return n
}
