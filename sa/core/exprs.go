package core

import (
	"fmt"
	"go/ast"
	"go/token"
	"go/types"
)

// Def is one definition of a local variable.
type Def struct {
	Rhs  ast.Expr // nil for range/declaration without value
	Idx  int      // result index when Rhs is a multi-value call
	N    int
	Stmt ast.Node
	// Superseded (inline mode): the statement is a call to a spliced helper; the
	// value it assigns is given precisely by the synthesized assignments of the
	// helper's returns, which are listed as well.  Predicates that ask "what is
	// this value" use LiveDefs; analyses that ask "what may influence this value"
	// keep the call.
	Superseded bool
}

// LiveDefs drops the superseded definitions.
func LiveDefs(defs []Def) []Def {
	out := defs[:0:0]
	for _, d := range defs {
		if !d.Superseded {
			out = append(out, d)
		}
	}
	return out
}

// DefsOf lists the assignments to a local variable in the function (including
// nested literals, which may capture and assign it).
func (c *Ctx) DefsOf(o types.Object) []Def {
	var out []Def
	root := c.F
	for root.Encl != nil {
		root = root.Encl
	}
	inl := root.inlineOn()
	if inl {
		root.Graph()
	}
	visit := func(x ast.Node) bool {
		sup := inl && root.replaced[x]
		switch s := x.(type) {
		case *ast.AssignStmt:
			for i, l := range s.Lhs {
				id, ok := ast.Unparen(l).(*ast.Ident)
				if !ok || c.Info.ObjectOf(id) != o {
					continue
				}
				if inl && root.retAssign[s] && failureZero(c.Info, s, i) {
					continue
				}
				if len(s.Rhs) == len(s.Lhs) {
					out = append(out, Def{Rhs: s.Rhs[i], Idx: 0, N: 1, Stmt: s, Superseded: sup})
				} else if len(s.Rhs) == 1 {
					out = append(out, Def{Rhs: s.Rhs[0], Idx: i, N: len(s.Lhs), Stmt: s, Superseded: sup})
				}
			}
		case *ast.ValueSpec:
			for i, id := range s.Names {
				if c.Info.ObjectOf(id) != o {
					continue
				}
				if len(s.Values) == len(s.Names) {
					out = append(out, Def{Rhs: s.Values[i], N: 1, Stmt: s})
				} else if len(s.Values) == 1 {
					out = append(out, Def{Rhs: s.Values[0], Idx: i, N: len(s.Names), Stmt: s})
				} else {
					out = append(out, Def{Stmt: s})
				}
			}
		case *ast.RangeStmt:
			for i, kv := range []ast.Expr{s.Key, s.Value} {
				if id, ok := kv.(*ast.Ident); ok && c.Info.ObjectOf(id) == o {
					out = append(out, Def{Rhs: nil, Idx: i, N: 2, Stmt: s})
				}
			}
		case *ast.IncDecStmt:
			if id, ok := ast.Unparen(s.X).(*ast.Ident); ok && c.Info.ObjectOf(id) == o {
				out = append(out, Def{Stmt: s})
			}
		}
		return true
	}
	ast.Inspect(root.Body(), visit)
	if inl {
		for _, extra := range root.inlined {
			ast.Inspect(extra, visit)
		}
	}
	return out
}

// FromCall holds for an expression that is result idx of a call to one of
// callees: either the call itself (idx 0 of a single-result call) or a local
// variable all of whose definitions are that result.  idx -1 = last result.
func FromCall(idx int, callees ...string) ExprPred {
	ns := Names(callees...)
	var rec func(c *Ctx, e ast.Expr, depth int) bool
	rec = func(c *Ctx, e ast.Expr, depth int) bool {
		e = c.Through(e)
		if call, ok := e.(*ast.CallExpr); ok {
			return ns.Has(Callee(c.Info, call))
		}
		id, ok := e.(*ast.Ident)
		if !ok {
			return false
		}
		o := c.Info.ObjectOf(id)
		if o == nil {
			return false
		}
		defs := LiveDefs(c.DefsOf(o))
		if len(defs) == 0 {
			return false
		}
		for _, d := range defs {
			if d.Rhs == nil {
				return false
			}
			call, ok := ast.Unparen(d.Rhs).(*ast.CallExpr)
			if !ok || !ns.Has(Callee(c.Info, call)) {
				// a plain copy of a variable that is itself the call result
				if src, isId := ast.Unparen(d.Rhs).(*ast.Ident); isId && d.N == 1 && depth > 0 && c.Info.ObjectOf(src) != o && rec(c, src, depth-1) {
					continue
				}
				return false
			}
			want := idx
			if want < 0 {
				want = d.N + want
			}
			if d.Idx != want {
				return false
			}
		}
		return true
	}
	return func(c *Ctx, e ast.Expr) bool { return rec(c, e, 3) }
}

// Through follows, in inline mode, an identifier that names a parameter or the
// receiver of a spliced helper to the expression bound to it at its single call
// site (and strips parentheses).
func (c *Ctx) Through(e ast.Expr) ast.Expr {
	e = ast.Unparen(e)
	root := c.F
	for root.Encl != nil {
		root = root.Encl
	}
	if !root.inlineOn() {
		return e
	}
	root.Graph()
	for i := 0; i < 4; i++ {
		id, ok := e.(*ast.Ident)
		if !ok {
			return e
		}
		o := c.Info.ObjectOf(id)
		if o == nil {
			return e
		}
		var bound ast.Expr
		n, same := 0, true
		for _, b := range root.binds {
			for j, l := range b.Lhs {
				if lid, ok := l.(*ast.Ident); ok && c.Info.Defs[lid] == o {
					// several call sites: followed only when all bind the same variable
					if n > 0 {
						a, aok := ast.Unparen(bound).(*ast.Ident)
						bb, bok := ast.Unparen(b.Rhs[j]).(*ast.Ident)
						if !aok || !bok || c.Info.ObjectOf(a) != c.Info.ObjectOf(bb) {
							same = false
						}
					}
					bound = b.Rhs[j]
					n++
				}
			}
		}
		if n == 0 || !same {
			return e
		}
		e = ast.Unparen(bound)
	}
	return e
}

// IsObj holds for an identifier/selector denoting exactly the named object
// ("param:N", "recv", qualified field or variable).
func IsObj(q string) ExprPred {
	return func(c *Ctx, e ast.Expr) bool {
		e = c.Through(e)
		switch x := e.(type) {
		case *ast.Ident:
			return mentionsQual(c, x, q)
		case *ast.SelectorExpr:
			return mentionsQual(c, x.Sel, q)
		}
		return false
	}
}

// CallAtomSym recognises a call to callee whose two arguments satisfy a and b
// in either order (for symmetric predicates such as bytes.Equal).
func CallAtomSym(callee string, a, b ExprPred) ExprPred {
	ns := Names(callee)
	return func(c *Ctx, e ast.Expr) bool {
		call, ok := ast.Unparen(e).(*ast.CallExpr)
		if !ok || !ns.Has(Callee(c.Info, call)) || len(call.Args) != 2 {
			return false
		}
		return (a(c, call.Args[0]) && b(c, call.Args[1])) || (a(c, call.Args[1]) && b(c, call.Args[0]))
	}
}

// CallAtom recognises a call to one of callees whose arguments satisfy the
// given predicates positionally (nil = any).
func CallAtom(callees []string, args ...ExprPred) ExprPred {
	ns := Names(callees...)
	return func(c *Ctx, e ast.Expr) bool {
		call, ok := ast.Unparen(e).(*ast.CallExpr)
		if !ok || !ns.Has(Callee(c.Info, call)) {
			return false
		}
		for i, p := range args {
			if p == nil {
				continue
			}
			if i >= len(call.Args) || !p(c, call.Args[i]) {
				return false
			}
		}
		return true
	}
}

// BoolGuard builds a CondGuard from an atom predicate and the truth value on
// which the guard passes.
func BoolGuard(f Fact, atom ExprPred, passWhen bool) CondGuard {
	return CondGuard{Fact: f, Match: func(c *Ctx, e ast.Expr) (bool, bool) {
		if atom(c, e) {
			return true, passWhen
		}
		return false, false
	}}
}

// EqAtom recognises `a == b` (any orientation); for `a != b` use passWhen=false.
func EqAtom(a, b ExprPred) ExprPred {
	return func(c *Ctx, e ast.Expr) bool {
		op, ok := CmpAtom(c, e, a, b)
		return ok && op == token.EQL
	}
}

// RelGuardEq is RelGuard for == with the fact passing when equality holds.
func RelGuardEq(f Fact, a, b ExprPred) CondGuard { return RelGuard(f, a, token.EQL, b) }

// CommaOK holds for a bool identifier defined as the second value of a map
// index, type assertion or channel receive whose operand satisfies src.
func CommaOK(src ExprPred) ExprPred {
	return func(c *Ctx, e ast.Expr) bool {
		id, ok := ast.Unparen(e).(*ast.Ident)
		if !ok {
			return false
		}
		o := c.Info.ObjectOf(id)
		if o == nil {
			return false
		}
		defs := c.DefsOf(o)
		if len(defs) == 0 {
			return false
		}
		for _, d := range defs {
			if d.Rhs == nil || d.Idx != 1 || d.N != 2 {
				return false
			}
			switch x := ast.Unparen(d.Rhs).(type) {
			case *ast.IndexExpr:
				if !src(c, x.X) {
					return false
				}
			case *ast.TypeAssertExpr:
				if !src(c, x.X) {
					return false
				}
			default:
				return false
			}
		}
		return true
	}
}

// RangesOver reports whether loop statement s is `for .. := range X` with X
// satisfying p.
func RangesOver(p ExprPred) func(c *Ctx, s ast.Stmt) bool {
	return func(c *Ctx, s ast.Stmt) bool {
		rs, ok := s.(*ast.RangeStmt)
		return ok && p(c, rs.X)
	}
}

// CountsOver recognises `for i := <start>; i < len(X); i++` (X satisfying p,
// start an integer constant equal to start) and `for .. range X`.
func CountsOver(p ExprPred, start int64) func(c *Ctx, s ast.Stmt) bool {
	return func(c *Ctx, s ast.Stmt) bool {
		if rs, ok := s.(*ast.RangeStmt); ok {
			return start == 0 && p(c, rs.X)
		}
		fs, ok := s.(*ast.ForStmt)
		if !ok || fs.Init == nil || fs.Cond == nil || fs.Post == nil {
			return false
		}
		as, ok := fs.Init.(*ast.AssignStmt)
		if !ok || len(as.Lhs) != 1 || len(as.Rhs) != 1 {
			return false
		}
		iv, ok := as.Lhs[0].(*ast.Ident)
		if !ok || !IsConstInt(start)(c, as.Rhs[0]) {
			return false
		}
		io := c.Info.ObjectOf(iv)
		isI := func(c *Ctx, e ast.Expr) bool {
			id, ok := ast.Unparen(e).(*ast.Ident)
			return ok && c.Info.ObjectOf(id) == io
		}
		isLen := func(c *Ctx, e ast.Expr) bool {
			call, ok := ast.Unparen(e).(*ast.CallExpr)
			if ok && IsBuiltinCall(c.Info, call, "len") && len(call.Args) == 1 {
				return p(c, call.Args[0])
			}
			// a variable holding len(X)
			if id, ok := ast.Unparen(e).(*ast.Ident); ok {
				if o := c.Info.ObjectOf(id); o != nil {
					defs := c.DefsOf(o)
					if len(defs) == 1 && defs[0].Rhs != nil {
						if call, ok := ast.Unparen(defs[0].Rhs).(*ast.CallExpr); ok && IsBuiltinCall(c.Info, call, "len") && len(call.Args) == 1 {
							return p(c, call.Args[0])
						}
					}
				}
			}
			return false
		}
		op, ok := CmpAtom(c, fs.Cond, isI, isLen)
		if !ok || op != token.LSS {
			return false
		}
		inc, ok := fs.Post.(*ast.IncDecStmt)
		if !ok || inc.Tok != token.INC || !isI(c, inc.X) {
			return false
		}
		// the induction variable is not assigned in the body
		bad := false
		ast.Inspect(fs.Body, func(x ast.Node) bool {
			switch s := x.(type) {
			case *ast.AssignStmt:
				for _, l := range s.Lhs {
					if isI(c, l) {
						bad = true
					}
				}
			case *ast.IncDecStmt:
				if isI(c, s.X) {
					bad = true
				}
			}
			return true
		})
		return !bad
	}
}

// MayBeFromCall is like FromCall but holds when at least one definition of the
// variable is the given call result (other definitions may exist).
func MayBeFromCall(idx int, callees ...string) ExprPred {
	ns := Names(callees...)
	var rec func(c *Ctx, e ast.Expr, depth int) bool
	rec = func(c *Ctx, e ast.Expr, depth int) bool {
		e = c.Through(e)
		if call, ok := e.(*ast.CallExpr); ok {
			return ns.Has(Callee(c.Info, call))
		}
		id, ok := e.(*ast.Ident)
		if !ok {
			return false
		}
		o := c.Info.ObjectOf(id)
		if o == nil {
			return false
		}
		for _, d := range LiveDefs(c.DefsOf(o)) {
			if d.Rhs == nil {
				continue
			}
			call, ok := ast.Unparen(d.Rhs).(*ast.CallExpr)
			if !ok || !ns.Has(Callee(c.Info, call)) {
				// a plain copy of a variable that may hold the call result
				if src, isId := ast.Unparen(d.Rhs).(*ast.Ident); isId && d.N == 1 && depth > 0 && c.Info.ObjectOf(src) != o && rec(c, src, depth-1) {
					return true
				}
				continue
			}
			want := idx
			if want < 0 {
				want = d.N + want
			}
			if d.Idx == want {
				return true
			}
		}
		return false
	}
	return func(c *Ctx, e ast.Expr) bool { return rec(c, e, 3) }
}

// DerivedFrom holds when the expression mentions q directly or through local
// variables all of whose definitions mention q (two levels); the variables of a
// range statement are defined by the ranged-over expression.
func DerivedFrom(q string) ExprPred {
	return func(c *Ctx, e ast.Expr) bool { return derivedQual(c, e, q, 2) }
}

func derivedQual(c *Ctx, e ast.Node, q string, depth int) bool {
	if mentionsQual(c, e, q) {
		return true
	}
	if depth == 0 {
		return false
	}
	found := false
	InspectNode(e, func(x ast.Node) bool {
		id, ok := x.(*ast.Ident)
		if !ok || found {
			return true
		}
		v, ok := c.Info.Uses[id].(*types.Var)
		if !ok || v.IsField() || v.Pkg() == nil || v.Parent() == v.Pkg().Scope() {
			return true
		}
		defs := LiveDefs(c.DefsOf(v))
		if len(defs) == 0 {
			return true
		}
		all, n := true, 0
		for _, d := range defs {
			if _, isDecl := d.Stmt.(*ast.ValueSpec); isDecl && d.Rhs == nil {
				continue // `var x T` zero-value declaration, assigned later
			}
			n++
			if rs, isRange := d.Stmt.(*ast.RangeStmt); isRange && d.Rhs == nil {
				if !derivedQual(c, rs.X, q, depth-1) {
					all = false
				}
				continue
			}
			if d.Rhs == nil || !derivedQual(c, d.Rhs, q, depth-1) {
				all = false
			}
		}
		if all && n > 0 {
			found = true
		}
		return true
	})
	return found
}

// Origin follows an identifier through plain copies (`a := b`, a defined once)
// and, in inline mode, through the parameter bindings of spliced helpers, to
// the expression the value comes from.
func Origin(c *Ctx, e ast.Expr) ast.Expr {
	for i := 0; i < 6; i++ {
		e = c.Through(e)
		id, ok := e.(*ast.Ident)
		if !ok {
			return e
		}
		o, ok := c.Info.ObjectOf(id).(*types.Var)
		if !ok || o.IsField() {
			return e
		}
		defs := LiveDefs(c.DefsOf(o))
		if len(defs) != 1 || defs[0].N != 1 || defs[0].Rhs == nil {
			return e
		}
		src, ok := ast.Unparen(defs[0].Rhs).(*ast.Ident)
		if !ok || c.Info.ObjectOf(src) == o {
			return e
		}
		if _, isVar := c.Info.ObjectOf(src).(*types.Var); !isVar {
			return e
		}
		e = src
	}
	return e
}

// ElemOf recognises an element of a collection satisfying p: `X[i]`, the value
// variable of `for _, v := range X`, or a local defined once as one of these.
// id identifies which element (the canonical index, or the range statement),
// so that two expressions can be tested for denoting the same element.
func ElemOf(c *Ctx, e ast.Expr, p ExprPred) (ok bool, id string) {
	for depth := 0; depth < 3; depth++ {
		e = c.Through(e)
		switch x := e.(type) {
		case *ast.IndexExpr:
			if p(c, x.X) {
				return true, "idx:" + CanonExpr(c, x.Index) + "@" + CanonExpr(c, x.X)
			}
			return false, ""
		case *ast.Ident:
			o := c.Info.ObjectOf(x)
			if o == nil {
				return false, ""
			}
			defs := LiveDefs(c.DefsOf(o))
			if len(defs) != 1 {
				return false, ""
			}
			if rs, isRange := defs[0].Stmt.(*ast.RangeStmt); isRange && defs[0].Rhs == nil {
				if defs[0].Idx == 1 && p(c, rs.X) {
					return true, fmt.Sprintf("range:%d@%s", rs.Pos(), CanonExpr(c, rs.X))
				}
				return false, ""
			}
			if defs[0].Rhs == nil || defs[0].N != 1 {
				return false, ""
			}
			e = defs[0].Rhs
		default:
			return false, ""
		}
	}
	return false, ""
}
