package core

import (
	"fmt"
	"go/ast"
	"go/token"
	"go/types"
	"sort"
	"strings"
)

// NotAfter: in Fn no call to one of Early is reachable from a call to one of
// Late (all Early work is finished before the first Late call).
type NotAfter struct {
	Fn    string
	Early []string
	Late  []string
	Name  string
	Min   int // minimum number of Late call sites
	// EarlyOK / LateOK optionally restrict which calls count (e.g. by receiver).
	EarlyOK, LateOK func(c *Ctx, call *ast.CallExpr) bool
}

func nodeCallsWhere(c *Ctx, n *GNode, ns NameSet, ok func(c *Ctx, call *ast.CallExpr) bool) bool {
	if n.Ast == nil || n.Go || n.Defer {
		return false
	}
	for _, call := range CallsIn(n.Ast) {
		if ns.Has(Callee(c.Info, call)) && (ok == nil || ok(c, call)) {
			return true
		}
	}
	return false
}

func (na NotAfter) Check(r *Run) {
	f := r.Fn(na.Fn)
	if f == nil {
		return
	}
	fl := RunFlow(f, &FlowSpec{})
	early, late := Names(na.Early...), Names(na.Late...)
	var lateNodes []*GNode
	for _, n := range fl.G.Nodes {
		if fl.Live(n) && nodeCallsWhere(fl.C, n, late, na.LateOK) {
			lateNodes = append(lateNodes, n)
		}
	}
	label := fmt.Sprintf("%s: %s", f.Name, na.Name)
	if len(lateNodes) < na.Min || len(lateNodes) == 0 {
		r.Fail(label, r.W.Pos(f.Node().Pos()), fmt.Sprintf("expected ≥%d calls of %v, found %d", na.Min, na.Late, len(lateNodes)))
		return
	}
	reach := fl.G.Reachable(lateNodes, func(e *GEdge) bool { return !fl.Feasible(e) }, nil)
	nEarly := 0
	for _, n := range fl.G.Nodes {
		if !fl.Live(n) || !nodeCallsWhere(fl.C, n, early, na.EarlyOK) {
			continue
		}
		nEarly++
		isLate := false
		for _, l := range lateNodes {
			if l == n {
				isLate = true
			}
		}
		if reach[n] && !isLate {
			r.Fail(label, r.W.Pos(n.Ast.Pos()), fmt.Sprintf("`%s` can run after a call of %v has already happened", ExprStr(n.Ast), na.Late))
			return
		}
	}
	if nEarly == 0 {
		r.Fail(label, r.W.Pos(f.Node().Pos()), fmt.Sprintf("no call of %v found", na.Early))
		return
	}
	r.OK(label, r.W.Pos(lateNodes[0].Ast.Pos()), fmt.Sprintf("%d early call site(s), none reachable from the %d late call site(s)", nEarly, len(lateNodes)))
}

// NoCallsIn: the bodies of Fns (declared functions, including their literals)
// contain no call to any of Forbidden.
type NoCallsIn struct {
	Fns       []string
	Forbidden []string
	Why       string
}

func (nc NoCallsIn) Check(r *Run) {
	forb := Names(nc.Forbidden...)
	for _, fn := range nc.Fns {
		f := r.Fn(fn)
		if f == nil {
			continue
		}
		info := f.Info()
		var bad *ast.CallExpr
		InspectBody(f, func(x ast.Node) bool {
			if call, ok := x.(*ast.CallExpr); ok && bad == nil && forb.Has(Callee(info, call)) {
				bad = call
			}
			return true
		})
		label := fmt.Sprintf("%s performs no direct durable write (%s)", f.Name, nc.Why)
		if bad == nil {
			r.OK(label, r.W.Pos(f.Node().Pos()), "no call of the forbidden set in its body")
		} else {
			r.Fail(label, r.W.Pos(bad.Pos()), fmt.Sprintf("`%s` bypasses the batch: %s", ExprStr(bad), nc.Why))
		}
	}
}

// NoDroppedError: in the listed packages every call of Callees has its error
// result consumed (assigned to a non-blank variable, returned, compared or
// passed on); a bare expression statement or an assignment to _ drops it.
type NoDroppedError struct {
	Pkgs    []string
	Callees []string
	Exempt  map[string]string // function short name -> reason
	Min     int
}

func (nd NoDroppedError) Check(r *Run) {
	ns := Names(nd.Callees...)
	total := 0
	for _, pp := range nd.Pkgs {
		pkg := r.W.Pkg(pp)
		if pkg == nil {
			r.Unresolved("package " + pp)
			continue
		}
		for _, f := range r.W.AllFuncs(pkg) {
			info := f.Info()
			occ := 0
			InspectBody(f, func(x ast.Node) bool {
				var call *ast.CallExpr
				dropped := false
				switch s := x.(type) {
				case *ast.ExprStmt:
					if c, ok := s.X.(*ast.CallExpr); ok {
						call, dropped = c, true
					}
				case *ast.AssignStmt:
					if len(s.Rhs) == 1 {
						if c, ok := s.Rhs[0].(*ast.CallExpr); ok {
							call = c
							last := s.Lhs[len(s.Lhs)-1]
							if id, ok := last.(*ast.Ident); ok && id.Name == "_" {
								dropped = true
							}
						}
					}
				case *ast.GoStmt:
					call, dropped = s.Call, true
				case *ast.DeferStmt:
					call, dropped = s.Call, true
				}
				if call == nil || !ns.Has(Callee(info, call)) {
					return true
				}
				total++
				occ++
				r.Touch(f)
				label := fmt.Sprintf("%s: error of %s#%d is consumed", f.Name, ShortName(Callee(info, call)), occ)
				if why, ok := nd.Exempt[f.Name]; ok && dropped {
					r.Exception(label, why)
					r.OK(label, r.W.Pos(call.Pos()), "frozen exception: "+why)
					return true
				}
				if dropped {
					r.Fail(label, r.W.Pos(call.Pos()), fmt.Sprintf("`%s` discards the error of a durable write: a failed write would go unnoticed and later state would be built on it", ExprStr(call)))
				} else {
					r.OK(label, r.W.Pos(call.Pos()), "result assigned to a variable / used")
				}
				return true
			})
		}
	}
	if total < nd.Min {
		r.Fail("calls of "+strings.Join(nd.Callees, "|"), "-", fmt.Sprintf("expected ≥%d call sites, found %d", nd.Min, total))
	}
}

// AnyComparison requires some comparison expression anywhere in Fn (conditions,
// assignments, returns) that tests exactly `L rel R` (or its complement).
type AnyComparison struct {
	Fn   string
	Name string
	L, R ExprPred
	Rel  token.Token
}

func (ac AnyComparison) Check(r *Run) {
	f := r.Fn(ac.Fn)
	if f == nil {
		return
	}
	c := f.Ctx()
	label := fmt.Sprintf("%s tests %s", f.Name, ac.Name)
	var near []string
	found := false
	var pos token.Pos
	InspectBody(f, func(x ast.Node) bool {
		b, ok := x.(*ast.BinaryExpr)
		if !ok || found {
			return true
		}
		op, ok := CmpAtom(c, b, ac.L, ac.R)
		if !ok {
			return true
		}
		if op == ac.Rel || negRel[op] == ac.Rel {
			found = true
			pos = b.Pos()
		} else {
			near = append(near, fmt.Sprintf("%s: `%s` tests %s/%s", r.W.Pos(b.Pos()), ExprStr(b), op, negRel[op]))
		}
		return true
	})
	if found {
		r.OK(label, r.W.Pos(pos), "comparison with the required boundary present")
		return
	}
	why := "no comparison between the required operands"
	if len(near) > 0 {
		sort.Strings(near)
		why = fmt.Sprintf("required boundary %s, found %s", ac.Rel, strings.Join(near, "; "))
	}
	r.Fail(label, r.W.Pos(f.Node().Pos()), why)
}

// SameBatchArg: every call in Fn to one of Callees passes, as argument #Arg, the
// same local variable, and that variable is the receiver of the Write call in
// Fn (all records of one block go into one atomic batch).
type SameBatchArg struct {
	Fn      string
	Callees []string
	Arg     int
	Write   []string // e.g. common/db.Batch.Write
	Min     int
}

func (sb SameBatchArg) Check(r *Run) {
	f := r.Fn(sb.Fn)
	if f == nil {
		return
	}
	info := f.Info()
	ns, ws := Names(sb.Callees...), Names(sb.Write...)
	var batch types.Object
	n := 0
	okAll := true
	var firstBad ast.Node
	var writeRecv types.Object
	InspectBody(f, func(x ast.Node) bool {
		call, ok := x.(*ast.CallExpr)
		if !ok {
			return true
		}
		fn := Callee(info, call)
		if ns.Has(fn) {
			n++
			argIdx := sb.Arg
			if argIdx < 0 {
				// the argument whose static type is the batch interface
				for i, a := range call.Args {
					if t := info.TypeOf(a); t != nil && strings.HasSuffix(t.String(), "common/db.Batch") {
						argIdx = i
					}
				}
			}
			if argIdx < 0 || argIdx >= len(call.Args) {
				okAll = false
				firstBad = call
				return true
			}
			id, ok := ast.Unparen(call.Args[argIdx]).(*ast.Ident)
			if !ok {
				okAll = false
				firstBad = call
				return true
			}
			o := info.ObjectOf(id)
			if batch == nil {
				batch = o
			} else if batch != o {
				okAll = false
				firstBad = call
			}
		}
		if ws.Has(fn) {
			if sel, ok := ast.Unparen(call.Fun).(*ast.SelectorExpr); ok {
				if id, ok := ast.Unparen(sel.X).(*ast.Ident); ok {
					writeRecv = info.ObjectOf(id)
				}
			}
		}
		return true
	})
	label := fmt.Sprintf("%s: all block records go into the one batch that is written", f.Name)
	switch {
	case n < sb.Min:
		r.Fail(label, r.W.Pos(f.Node().Pos()), fmt.Sprintf("expected ≥%d batch-filling calls (%v), found %d", sb.Min, sb.Callees, n))
	case !okAll:
		r.Fail(label, r.W.Pos(firstBad.Pos()), fmt.Sprintf("`%s` does not use the common batch variable", ExprStr(firstBad)))
	case writeRecv == nil || writeRecv != batch:
		r.Fail(label, r.W.Pos(f.Node().Pos()), "the batch that is written is not the one the records were added to")
	default:
		r.OK(label, r.W.Pos(f.Node().Pos()), fmt.Sprintf("%d calls share batch `%s`, which is the one written", n, batch.Name()))
	}
}
