package core

import (
	"fmt"
	"go/ast"
	"go/token"
	"go/types"
)

// NoSharedAcrossIterations: a reference-typed variable (pointer, map, slice of
// non-bytes) declared OUTSIDE a loop that the loop body both mutates through
// (p.f = …, p[i] = …, *p = …) and hands to something that keeps it per
// iteration (assigned into a field/element of another value, placed in a
// composite literal, appended to a list) makes all the per-iteration results
// share one object: every one of them ends up describing the last iteration.
type NoSharedAcrossIterations struct {
	Pkgs   []string
	Exempt map[string]string // function short name -> reason
	Min    int               // minimum number of loops examined
}

func (ns NoSharedAcrossIterations) Check(r *Run) {
	loops := 0
	for _, pp := range ns.Pkgs {
		pkg := r.W.Pkg(pp)
		if pkg == nil {
			r.Unresolved("package " + pp)
			continue
		}
		for _, decl := range r.W.AllFuncs(pkg) {
			if decl.Lit != nil {
				continue
			}
			for _, f := range append([]*FuncInfo{decl}, decl.Closures()...) {
				loops += ns.checkFunc(r, f)
			}
		}
	}
	label := "per-iteration results do not share an object created outside the loop"
	if loops < ns.Min {
		r.Fail(label, "-", fmt.Sprintf("expected ≥%d loops in %v, found %d", ns.Min, ns.Pkgs, loops))
	} else {
		r.OK(label, "-", fmt.Sprintf("%d loops examined in %v", loops, ns.Pkgs))
	}
}

func isRefType(t types.Type) bool {
	switch u := t.Underlying().(type) {
	case *types.Pointer:
		_, isStruct := u.Elem().Underlying().(*types.Struct)
		return isStruct
	case *types.Map:
		return true
	}
	return false
}

func (ns NoSharedAcrossIterations) checkFunc(r *Run, f *FuncInfo) int {
	c := f.Ctx()
	n := 0
	for _, lp := range LoopsIn(f) {
		n++
		var body *ast.BlockStmt
		switch s := lp.(type) {
		case *ast.ForStmt:
			body = s.Body
		case *ast.RangeStmt:
			body = s.Body
		}
		outer := func(e ast.Expr) types.Object {
			id, ok := ast.Unparen(e).(*ast.Ident)
			if !ok {
				return nil
			}
			v, ok := c.Info.ObjectOf(id).(*types.Var)
			if !ok || v.IsField() || v.Pkg() == nil || v.Parent() == v.Pkg().Scope() {
				return nil
			}
			if v.Pos() >= lp.Pos() && v.Pos() <= lp.End() {
				return nil
			}
			if !isRefType(v.Type()) {
				return nil
			}
			// parameters and receivers are shared on purpose (accumulators handed in by the caller)
			if f.Recv() == v {
				return nil
			}
			for i := 0; ; i++ {
				p := f.Param(i)
				if p == nil {
					break
				}
				if p == v {
					return nil
				}
			}
			return v
		}
		mutated := map[types.Object]token.Pos{}
		kept := map[types.Object]token.Pos{}
		reassigned := map[types.Object]bool{}
		ast.Inspect(body, func(x ast.Node) bool {
			if _, isLit := x.(*ast.FuncLit); isLit {
				return false
			}
			switch s := x.(type) {
			case *ast.AssignStmt:
				for i, l := range s.Lhs {
					l = ast.Unparen(l)
					// p = … inside the loop: a fresh object per iteration
					if o := outer(l); o != nil {
						reassigned[o] = true
					}
					switch lx := l.(type) {
					case *ast.SelectorExpr:
						if o := outer(lx.X); o != nil {
							if _, isPtr := o.Type().Underlying().(*types.Pointer); isPtr {
								mutated[o] = s.Pos()
							}
						}
					case *ast.StarExpr:
						if o := outer(lx.X); o != nil {
							mutated[o] = s.Pos()
						}
					}
					// keeping: <something>.f = p / <something>[k] = p
					if len(s.Rhs) == len(s.Lhs) {
						if o := outer(s.Rhs[i]); o != nil {
							switch l.(type) {
							case *ast.SelectorExpr, *ast.IndexExpr:
								kept[o] = s.Pos()
							}
						}
					}
				}
			case *ast.CompositeLit:
				for _, el := range s.Elts {
					v := el
					if kv, ok := el.(*ast.KeyValueExpr); ok {
						v = kv.Value
					}
					if o := outer(v); o != nil {
						kept[o] = s.Pos()
					}
				}
			case *ast.CallExpr:
				if IsBuiltinCall(c.Info, s, "append") && !s.Ellipsis.IsValid() {
					for _, a := range s.Args[1:] {
						if o := outer(a); o != nil {
							kept[o] = s.Pos()
						}
					}
				}
			}
			return true
		})
		for o, mpos := range mutated {
			kpos, isKept := kept[o]
			if !isKept || reassigned[o] {
				continue
			}
			label := fmt.Sprintf("%s: %s (declared outside the loop at %s) is modified and kept in every iteration", f.Name, o.Name(), r.W.Pos(lp.Pos()))
			if why, ok := ns.Exempt[f.Name]; ok {
				r.Exception(label, why)
				r.OK(label, r.W.Pos(kpos), "frozen exception: "+why)
				continue
			}
			r.Fail(label, r.W.Pos(kpos), fmt.Sprintf("the loop stores %s into a per-iteration result and also overwrites its fields (%s): all results share one object and describe the last iteration only; allocate it inside the loop", o.Name(), r.W.Pos(mpos)))
		}
	}
	return n
}
