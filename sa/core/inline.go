package core

import (
	"go/ast"
	"go/token"
	"go/types"
)

// Inline mode.  A rule is anchored on a function and names the calls,
// comparisons and stores it reasons about.  A behaviour-preserving refactoring
// that moves part of the anchored function into a new helper takes those
// constructs out of the anchored body.  In inline mode the graph of a function
// has the graph of every *unmentioned* helper of its package spliced in at the
// statement that calls it (parameters bound by a synthesized assignment, every
// return of the helper turned into the assignment of its results followed by
// the statement's successors), so the rule sees the same statements it saw
// before the extraction.  A helper is unmentioned when no rule of the run has
// named it (as an anchor, callee, sink or exception): named functions keep
// their call sites, because rules count and constrain those.
//
// CheckProperty uses inline mode only to re-decide a rule that failed on the
// plain graphs; the plain verdict stands unless the inlined run discharges every
// obligation.  Inlining only adds paths and statements that really execute
// (helpers with defer statements, variadic helpers and recursive calls are left
// opaque), so a fact established on the inlined graph holds in the program.

var mentioned = map[string]bool{}

const inlineBudget = 4000

func hasDefer(body *ast.BlockStmt) bool {
	found := false
	ast.Inspect(body, func(x ast.Node) bool {
		switch x.(type) {
		case *ast.FuncLit:
			return false
		case *ast.DeferStmt:
			found = true
		}
		return !found
	})
	return found
}

// inlinableCall returns the call a statement node consists of, when the node
// has one of the statement forms that can be spliced.
func inlinableCall(a ast.Node) (call *ast.CallExpr, lhs []ast.Expr, tok token.Token, isReturn bool) {
	switch s := a.(type) {
	case *ast.ExprStmt:
		if c, ok := ast.Unparen(s.X).(*ast.CallExpr); ok {
			return c, nil, token.ASSIGN, false
		}
	case *ast.AssignStmt:
		if len(s.Rhs) == 1 && (s.Tok == token.DEFINE || s.Tok == token.ASSIGN) {
			if c, ok := ast.Unparen(s.Rhs[0]).(*ast.CallExpr); ok {
				return c, s.Lhs, s.Tok, false
			}
		}
	case *ast.ReturnStmt:
		if len(s.Results) == 1 {
			if c, ok := ast.Unparen(s.Results[0]).(*ast.CallExpr); ok {
				return c, nil, token.ASSIGN, true
			}
		}
	case *ast.CallExpr:
		// a call that is a whole (short-circuit decomposed) condition
		return s, nil, token.LAND, false
	case *ast.ParenExpr:
		if c, ok := ast.Unparen(s).(*ast.CallExpr); ok {
			return c, nil, token.LAND, false
		}
	}
	return nil, nil, 0, false
}

func inlineHelpers(g *Graph, f *FuncInfo, depth int, stack map[*FuncInfo]bool) {
	if depth == 0 || f.Body() == nil {
		return
	}
	root := f
	for root.Encl != nil {
		root = root.Encl
	}
	info := f.Info()
	candidate := func(call *ast.CallExpr) bool {
		fn := Callee(info, call)
		if fn == nil || fn.Pkg() == nil || fn.Pkg() != f.Pkg.Types || mentioned[ShortName(fn)] {
			return false
		}
		h := f.W.FuncOf(fn)
		return h != nil && h.Body() != nil && !stack[h]
	}
	// go/cfg keeps a compound condition as one node: split the ones that call a
	// candidate helper into their short-circuit steps, so the call is a node
	for _, n := range append([]*GNode{}, g.Nodes...) {
		if cond, ok := n.Ast.(ast.Expr); ok && n.Kind == KPlain && len(n.Succ) == 2 {
			has := false
			for _, call := range CallsIn(cond) {
				if candidate(call) {
					has = true
				}
			}
			if has {
				splitCond(g, n)
			}
		}
	}
	hoistCalls(g, f, func(call *ast.CallExpr) bool {
		if !candidate(call) {
			return false
		}
		h := f.W.FuncOf(Callee(info, call))
		sig := h.Sig()
		return !hasDefer(h.Body()) && !sig.Variadic() && sig.Params().Len() == len(call.Args) && sig.TypeParams().Len() == 0 && sig.RecvTypeParams().Len() == 0 && sig.Results().Len() == 1
	})
	snapshot := append([]*GNode{}, g.Nodes...)
	for _, n := range snapshot {
		if n.Ast == nil || n.Defer || n.Go || len(g.Nodes) > inlineBudget {
			continue
		}
		call, lhs, tok, isRet := inlinableCall(n.Ast)
		if call == nil {
			continue
		}
		fn := Callee(info, call)
		if fn == nil || fn.Pkg() == nil || fn.Pkg() != f.Pkg.Types || mentioned[ShortName(fn)] {
			continue
		}
		h := f.W.FuncOf(fn)
		if h == nil || h.Body() == nil || stack[h] || hasDefer(h.Body()) {
			continue
		}
		sig := h.Sig()
		if sig.Variadic() || sig.Params().Len() != len(call.Args) || sig.TypeParams().Len() > 0 || sig.RecvTypeParams().Len() > 0 {
			continue
		}
		var recvExpr ast.Expr
		if sig.Recv() != nil {
			sel, ok := ast.Unparen(call.Fun).(*ast.SelectorExpr)
			if !ok {
				continue
			}
			if s := info.Selections[sel]; s == nil || s.Kind() != types.MethodVal {
				continue
			}
			recvExpr = sel.X
		}
		if tok == token.LAND {
			// condition node: a bool helper deciding a two-way branch that is not a loop head
			if sig.Results().Len() != 1 || !isBool(sig.Results().At(0).Type()) || len(n.Succ) != 2 {
				continue
			}
			okc := true
			for _, e := range n.Succ {
				if e.Cond != n.Ast || e.Tag != nil || e.LoopStmt != nil {
					okc = false
				}
			}
			if !okc {
				continue
			}
		}
		if isRet {
			fs := f.Sig()
			if fs.Results().Len() != sig.Results().Len() {
				continue
			}
		} else if len(lhs) != 0 && len(lhs) != sig.Results().Len() {
			continue
		}
		hg := buildGraph(h)
		stack[h] = true
		keep, keepB := h.inlined, h.binds
		h.inlined, h.binds = nil, nil
		inlineHelpers(hg, h, depth-1, stack)
		sub, subB := h.inlined, h.binds
		h.inlined, h.binds = keep, keepB
		delete(stack, h)
		if len(hg.Nodes) > 600 {
			continue
		}
		splice(g, n, call, lhs, tok, isRet, recvExpr, h, hg, info)
		root.addInlined(h.Body())
		for _, x := range sub {
			root.addInlined(x)
		}
		root.binds = append(root.binds, subB...)
		if !isRet {
			if root.replaced == nil {
				root.replaced = map[ast.Node]bool{}
			}
			root.replaced[n.Ast] = true
		}
	}
}

func newIdent(info *types.Info, v *types.Var, pos token.Pos, def bool) *ast.Ident {
	id := &ast.Ident{Name: v.Name(), NamePos: pos}
	if def {
		info.Defs[id] = v
	} else {
		info.Uses[id] = v
	}
	return id
}

func splice(g *Graph, n *GNode, call *ast.CallExpr, lhs []ast.Expr, tok token.Token, isRet bool, recvExpr ast.Expr, h *FuncInfo, hg *Graph, info *types.Info) {
	root := g.F
	for root.Encl != nil {
		root = root.Encl
	}
	add := func(m *GNode) {
		m.ID = len(g.Nodes)
		g.Nodes = append(g.Nodes, m)
		if m.Ast != nil {
			g.byAst[m.Ast] = m
		}
	}
	link := func(from, to *GNode, like *GEdge) {
		e := &GEdge{From: from, To: to}
		if like != nil {
			e.Kind, e.Cond, e.Tag, e.Val, e.LoopStmt = like.Kind, like.Cond, like.Tag, like.Val, like.LoopStmt
		}
		from.Succ = append(from.Succ, e)
		to.Pred = append(to.Pred, e)
	}
	// 1. parameter binding
	sig := h.Sig()
	bind := &ast.AssignStmt{Tok: token.DEFINE, TokPos: call.Pos()}
	if recvExpr != nil {
		rv := sig.Recv()
		if rv.Name() == "" || rv.Name() == "_" {
			bind.Lhs = append(bind.Lhs, &ast.Ident{Name: "_", NamePos: call.Pos()})
		} else {
			bind.Lhs = append(bind.Lhs, newIdent(info, rv, call.Pos(), true))
		}
		bind.Rhs = append(bind.Rhs, recvExpr)
	}
	for i := 0; i < sig.Params().Len(); i++ {
		p := sig.Params().At(i)
		if p.Name() == "" || p.Name() == "_" {
			bind.Lhs = append(bind.Lhs, &ast.Ident{Name: "_", NamePos: call.Pos()})
		} else {
			bind.Lhs = append(bind.Lhs, newIdent(info, p, call.Pos(), true))
		}
		bind.Rhs = append(bind.Rhs, call.Args[i])
	}
	var P *GNode
	if len(bind.Lhs) > 0 {
		P = &GNode{Ast: bind, Kind: KPlain, Block: n.Block}
		root.addInlined(bind)
		root.binds = append(root.binds, bind)
	} else {
		P = &GNode{Kind: KNop, Block: n.Block}
	}
	add(P)
	// 2. the helper's nodes
	for _, m := range hg.Nodes {
		add(m)
	}
	for k, v := range hg.caseOf {
		g.caseOf[k] = v
	}
	for k, v := range hg.AssignIdents {
		g.AssignIdents[k] = v
	}
	link(P, hg.Entry, nil)
	// 3. entry and exits
	if isRet {
		for _, pe := range n.Pred {
			pe.To = P
			P.Pred = append(P.Pred, pe)
		}
		n.Pred = nil
		if g.Entry == n {
			g.Entry = P
		}
		// n leaves the graph; the helper's returns are the function's returns
		out := g.Nodes[:0]
		for _, m := range g.Nodes {
			if m != n {
				m.ID = len(out)
				out = append(out, m)
			}
		}
		g.Nodes = out
		delete(g.byAst, n.Ast)
		for _, r := range hg.Returns() {
			materialise(info, r, sig)
		}
		return
	}
	saved := n.Succ
	if tok == token.LAND {
		// every return of the helper becomes a test of the returned expression
		// branching to the targets of the original test
		for _, e := range saved {
			preds := e.To.Pred[:0]
			for _, pe := range e.To.Pred {
				if pe != e {
					preds = append(preds, pe)
				}
			}
			e.To.Pred = preds
		}
		n.Succ = nil
		link(n, P, nil)
		multi := len(hg.Returns()) > 1
		for _, r := range hg.Returns() {
			materialise(info, r, sig)
			rs, _ := r.Ast.(*ast.ReturnStmt)
			if rs == nil || len(rs.Results) != 1 {
				r.Kind, r.Ast = KPanic, nil // cannot happen for a bool helper; keep the path closed
				continue
			}
			r.Kind, r.Ast = KPlain, rs.Results[0]
			g.byAst[r.Ast] = r
			for _, e := range saved {
				to := e.To
				if multi && to.Kind == KReturn && len(to.Succ) == 0 {
					// own copy of the return the test leads to, so that what is known
					// on this path is not merged with the helper's other returns
					cl := &GNode{Ast: to.Ast, Kind: KReturn, Block: to.Block}
					keep := g.byAst[to.Ast]
					add(cl)
					g.byAst[to.Ast] = keep
					to = cl
				}
				ne := &GEdge{From: r, To: to, Cond: rs.Results[0], Val: e.Val, Kind: e.Kind}
				r.Succ = append(r.Succ, ne)
				to.Pred = append(to.Pred, ne)
			}
		}
		return
	}
	for _, e := range saved {
		// unlink from the successor
		preds := e.To.Pred[:0]
		for _, pe := range e.To.Pred {
			if pe != e {
				preds = append(preds, pe)
			}
		}
		e.To.Pred = preds
	}
	n.Succ = nil
	link(n, P, nil)
	multi := len(hg.Returns()) > 1
	at := n.Ast
	for _, r := range hg.Returns() {
		materialise(info, r, sig)
		rs, _ := r.Ast.(*ast.ReturnStmt)
		r.Kind = KPlain
		switch {
		case rs == nil || len(rs.Results) == 0:
			r.Kind, r.Ast = KNop, nil
		case len(lhs) == 0:
			as := &ast.AssignStmt{Tok: token.ASSIGN, TokPos: at.Pos()}
			for range rs.Results {
				as.Lhs = append(as.Lhs, &ast.Ident{Name: "_", NamePos: at.Pos()})
			}
			as.Rhs = located(rs.Results, at)
			r.Ast = as
		default:
			r.Ast = &ast.AssignStmt{Lhs: lhs, Tok: tok, TokPos: at.Pos(), Rhs: located(rs.Results, at)}
			root.addInlined(r.Ast)
			if root.retAssign == nil {
				root.retAssign = map[ast.Node]bool{}
			}
			root.retAssign[r.Ast] = true
		}
		if r.Ast != nil {
			g.byAst[r.Ast] = r
		}
		for _, e := range saved {
			to := e.To
			if !multi {
				link(r, to, e)
				continue
			}
			if c := cloneCond(g, to, add); c != nil {
				// the statement is followed by a test (typically of the value just
				// returned): give this return its own copy of the test, so that the
				// outcome known on this path is not merged with the other returns'
				to = c
			}
			link(r, to, e)
		}
	}
}

// cloneCond copies a pure condition node (not a loop head) with its out-edges.
func cloneCond(g *Graph, s *GNode, add func(*GNode)) *GNode {
	if s == nil || s.Kind != KPlain || s.Defer || s.Go || len(s.Succ) != 2 {
		return nil
	}
	cond, ok := s.Ast.(ast.Expr)
	if !ok {
		return nil
	}
	for _, e := range s.Succ {
		if e.Cond != cond || e.Tag != nil || e.LoopStmt != nil {
			return nil
		}
	}
	for _, pe := range s.Pred {
		if pe.LoopStmt != nil {
			return nil
		}
	}
	c := &GNode{Ast: s.Ast, Kind: KPlain, Block: s.Block}
	keep := g.byAst[s.Ast]
	add(c)
	if keep != nil {
		g.byAst[s.Ast] = keep
	}
	for _, e := range s.Succ {
		ne := &GEdge{From: c, To: e.To, Cond: e.Cond, Val: e.Val, Kind: e.Kind}
		c.Succ = append(c.Succ, ne)
		e.To.Pred = append(e.To.Pred, ne)
	}
	return c
}

// materialise turns a bare return of a function with named results into an
// explicit one.
func materialise(info *types.Info, r *GNode, sig *types.Signature) {
	rs, ok := r.Ast.(*ast.ReturnStmt)
	if r.Ast != nil && !ok {
		return
	}
	if rs != nil && len(rs.Results) > 0 {
		return
	}
	if sig.Results().Len() == 0 {
		return
	}
	pos := token.NoPos
	if rs != nil {
		pos = rs.Pos()
	}
	out := &ast.ReturnStmt{Return: pos}
	for i := 0; i < sig.Results().Len(); i++ {
		v := sig.Results().At(i)
		if v.Name() == "" || v.Name() == "_" {
			return
		}
		out.Results = append(out.Results, newIdent(info, v, pos, false))
	}
	r.Ast = out
}

func (f *FuncInfo) addInlined(x ast.Node) {
	for _, y := range f.inlined {
		if y == x {
			return
		}
	}
	f.inlined = append(f.inlined, x)
}

// Bodies lists the statement trees a rule anchored on f should look at: the
// body of f and, in inline mode, the helper bodies spliced into its graph.
func (f *FuncInfo) Bodies() []ast.Node {
	out := []ast.Node{f.Body()}
	if f.inlineOn() {
		f.Graph()
		root := f
		for root.Encl != nil {
			root = root.Encl
		}
		// (for a literal: the helpers spliced anywhere in the enclosing function)
		for _, x := range root.inlined {
			if _, ok := x.(*ast.BlockStmt); ok {
				out = append(out, x)
			}
		}
	}
	return out
}

// InspectBody walks the body of f and, in inline mode, the helper bodies
// spliced into its graph.
func InspectBody(f *FuncInfo, fn func(ast.Node) bool) {
	for _, b := range f.Bodies() {
		ast.Inspect(b, fn)
	}
}

// inlineOn reports whether f is analysed on its helper-inlined graph: inline
// mode is on and f (its enclosing declared function) is one of the functions
// the failed obligations of the plain run lie in.
func (f *FuncInfo) inlineOn() bool {
	if f.W == nil || !f.W.Inline {
		return false
	}
	if f.W.InlineFor == nil {
		return true
	}
	root := f
	for root.Encl != nil {
		root = root.Encl
	}
	return f.W.InlineFor[root]
}

// splitCond decomposes the compound condition of a two-way branch node (not a
// loop head) into one node per short-circuit step.
func splitCond(g *Graph, n *GNode) {
	cond, ok := n.Ast.(ast.Expr)
	if !ok || len(n.Succ) != 2 {
		return
	}
	var t, f *GEdge
	for _, e := range n.Succ {
		if e.Cond != cond || e.Tag != nil || e.LoopStmt != nil {
			return
		}
		if e.Val {
			t = e
		} else {
			f = e
		}
	}
	if t == nil || f == nil {
		return
	}
	setAst := func(m *GNode, a ast.Expr) {
		if g.byAst[m.Ast] == m {
			delete(g.byAst, m.Ast)
		}
		m.Ast = a
		g.byAst[a] = m
		for _, e := range m.Succ {
			e.Cond = a
		}
	}
	retarget := func(e *GEdge, to *GNode) {
		preds := e.To.Pred[:0]
		for _, pe := range e.To.Pred {
			if pe != e {
				preds = append(preds, pe)
			}
		}
		e.To.Pred = preds
		e.To = to
		to.Pred = append(to.Pred, e)
	}
	switch x := cond.(type) {
	case *ast.ParenExpr:
		setAst(n, x.X)
		splitCond(g, n)
	case *ast.UnaryExpr:
		if x.Op != token.NOT {
			return
		}
		setAst(n, x.X)
		t.Val, f.Val = false, true
		splitCond(g, n)
	case *ast.BinaryExpr:
		if x.Op != token.LAND && x.Op != token.LOR {
			return
		}
		nb := &GNode{ID: len(g.Nodes), Ast: x.Y, Kind: KPlain, Block: n.Block}
		g.Nodes = append(g.Nodes, nb)
		g.byAst[x.Y] = nb
		for _, e := range []*GEdge{t, f} {
			ne := &GEdge{From: nb, To: e.To, Cond: x.Y, Val: e.Val, Kind: e.Kind}
			nb.Succ = append(nb.Succ, ne)
			e.To.Pred = append(e.To.Pred, ne)
		}
		setAst(n, x.X)
		if x.Op == token.LAND {
			retarget(t, nb) // X true: evaluate Y; X false: the false target
		} else {
			retarget(f, nb) // X false: evaluate Y; X true: the true target
		}
		splitCond(g, n)
		splitCond(g, nb)
	}
}

// located wraps the returned expressions of a helper in parentheses positioned
// at the call statement, so that the synthesized assignment lies, for every
// position-based test, where the call statement is.
func located(es []ast.Expr, at ast.Node) []ast.Expr {
	out := make([]ast.Expr, len(es))
	for i, e := range es {
		out[i] = &ast.ParenExpr{Lparen: at.Pos(), X: e, Rparen: at.End() - 1}
	}
	return out
}

// failureZero: in the synthesized assignment of a helper's failing return
// (`v, err = nil, e`), the zero value given to a non-error result is not a
// source of that variable's value: callers use it only after testing err.
func failureZero(info *types.Info, as *ast.AssignStmt, i int) bool {
	if len(as.Lhs) != len(as.Rhs) || !isZeroLit(info, as.Rhs[i]) {
		return false
	}
	for j, l := range as.Lhs {
		if j == i {
			continue
		}
		if t := info.TypeOf(l); t != nil && isErrorType(t) && !isNilExpr(info, ast.Unparen(as.Rhs[j])) {
			return true
		}
	}
	return false
}

func isZeroLit(info *types.Info, e ast.Expr) bool {
	e = ast.Unparen(e)
	if isNilExpr(info, e) {
		return true
	}
	if tv, ok := info.Types[e]; ok && tv.Value != nil {
		s := tv.Value.ExactString()
		return s == "0" || s == "false" || s == `""`
	}
	return false
}

// IsMentioned reports whether a rule of this run has named the function.
func IsMentioned(name string) bool { return mentioned[name] }

// splitBoolReturns turns `return a || b` (and &&, !) of a function with a single
// bool result into the tests it abbreviates — `if a { return true }; return b`
// — so that rules written over conditions and returns see the same atoms whether
// the verdict is computed by branches or by one expression.
func splitBoolReturns(g *Graph, f *FuncInfo) {
	sig := f.Sig()
	if sig.Results().Len() != 1 || !isBool(sig.Results().At(0).Type()) {
		return
	}
	info := f.Info()
	lit := func(v bool, pos token.Pos) *GNode {
		name := "false"
		if v {
			name = "true"
		}
		id := &ast.Ident{Name: name, NamePos: pos}
		obj := types.Universe.Lookup(name)
		info.Uses[id] = obj
		if c, ok := obj.(*types.Const); ok {
			info.Types[id] = types.TypeAndValue{Type: c.Type(), Value: c.Val()}
		}
		n := &GNode{ID: len(g.Nodes), Ast: &ast.ReturnStmt{Return: pos, Results: []ast.Expr{id}}, Kind: KReturn}
		g.Nodes = append(g.Nodes, n)
		g.byAst[n.Ast] = n
		return n
	}
	for _, n := range append([]*GNode{}, g.Nodes...) {
		rs, ok := n.Ast.(*ast.ReturnStmt)
		if !ok || n.Kind != KReturn || len(rs.Results) != 1 {
			continue
		}
		compound := false
		switch x := ast.Unparen(rs.Results[0]).(type) {
		case *ast.BinaryExpr:
			compound = x.Op == token.LAND || x.Op == token.LOR
		case *ast.UnaryExpr:
			compound = x.Op == token.NOT
		}
		if !compound {
			continue
		}
		cond := rs.Results[0]
		if g.byAst[n.Ast] == n {
			delete(g.byAst, n.Ast)
		}
		n.Kind, n.Ast = KPlain, cond
		g.byAst[cond] = n
		rt, rf := lit(true, rs.Pos()), lit(false, rs.Pos())
		rt.Block, rf.Block = n.Block, n.Block
		for _, p := range []struct {
			to  *GNode
			val bool
		}{{rt, true}, {rf, false}} {
			e := &GEdge{From: n, To: p.to, Cond: cond, Val: p.val}
			n.Succ = append(n.Succ, e)
			p.to.Pred = append(p.to.Pred, e)
		}
		splitCond(g, n)
	}
}
