package core

import (
	"fmt"
	"go/ast"
	"go/types"
	"sort"
)

// NoUseAfterRelease is a small typestate rule: once a value has been handed
// back to a pool (Release callee, argument positions), neither it nor memory
// obtained from it (alias summaries) is touched again on any path, unless the
// variable has been re-assigned in between.
type NoUseAfterRelease struct {
	Pkgs []string
	// Release: callee short name -> argument indexes that are released (-1: every argument).
	Release map[string][]int
	// AliasBase: callee short name -> argument index whose memory the result shares (-1: receiver).
	AliasBase map[string]int
	Min       int
}

type aliasSummary map[*types.Func]int // function -> parameter index whose memory the (first) result shares; -1 receiver

func (nr NoUseAfterRelease) summaries(r *Run) aliasSummary {
	sum := aliasSummary{}
	base := map[string]int{}
	for k, v := range nr.AliasBase {
		base[k] = v
	}
	aliasOf := func(c *Ctx, call *ast.CallExpr) (ast.Expr, bool) {
		fn := Callee(c.Info, call)
		if fn == nil {
			return nil, false
		}
		idx, ok := base[ShortName(fn)]
		if !ok {
			idx, ok = sum[fn.Origin()]
		}
		if !ok {
			return nil, false
		}
		if idx < 0 {
			if sel, isSel := ast.Unparen(call.Fun).(*ast.SelectorExpr); isSel {
				return sel.X, true
			}
			return nil, false
		}
		if idx < len(call.Args) {
			return call.Args[idx], true
		}
		return nil, false
	}
	for changed := true; changed; {
		changed = false
		for _, pp := range nr.Pkgs {
			pkg := r.W.Pkg(pp)
			if pkg == nil {
				continue
			}
			for _, f := range r.W.AllFuncs(pkg) {
				if _, done := sum[f.Obj]; done || f.Sig().Results().Len() == 0 {
					continue
				}
				c := f.Ctx()
				InspectBody(f, func(x ast.Node) bool {
					if _, isLit := x.(*ast.FuncLit); isLit {
						return false
					}
					ret, ok := x.(*ast.ReturnStmt)
					if !ok || len(ret.Results) == 0 {
						return true
					}
					call, ok := ast.Unparen(ret.Results[0]).(*ast.CallExpr)
					if !ok {
						return true
					}
					src, ok := aliasOf(c, call)
					if !ok {
						return true
					}
					id, ok := ast.Unparen(src).(*ast.Ident)
					if !ok {
						return true
					}
					o := c.Info.ObjectOf(id)
					for i := 0; ; i++ {
						p := f.Param(i)
						if p == nil {
							break
						}
						if p == o {
							sum[f.Obj] = i
							changed = true
						}
					}
					if rv := f.Recv(); rv != nil && rv == o {
						sum[f.Obj] = -1
						changed = true
					}
					return true
				})
			}
		}
	}
	return sum
}

func (nr NoUseAfterRelease) Check(r *Run) {
	sum := nr.summaries(r)
	var sumNames []string
	for fn, i := range sum {
		sumNames = append(sumNames, fmt.Sprintf("%s→arg%d", ShortName(fn), i))
	}
	sort.Strings(sumNames)
	total := 0
	for _, pp := range nr.Pkgs {
		pkg := r.W.Pkg(pp)
		if pkg == nil {
			r.Unresolved("package " + pp)
			continue
		}
		for _, decl := range r.W.AllFuncs(pkg) {
			for _, f := range append([]*FuncInfo{decl}, decl.Closures()...) {
				total += nr.checkFunc(r, f, sum)
			}
		}
	}
	if total < nr.Min {
		r.Fail("release sites", "-", fmt.Sprintf("expected ≥%d release sites, found %d (alias summaries: %v)", nr.Min, total, sumNames))
	}
}

func (nr NoUseAfterRelease) checkFunc(r *Run, f *FuncInfo, sum aliasSummary) int {
	c := f.Ctx()
	g := f.Graph()
	n := 0
	occ := 0
	for _, nd := range g.Nodes {
		if nd.Ast == nil || nd.Defer || nd.Go {
			continue
		}
		for _, call := range CallsIn(nd.Ast) {
			fn := Callee(c.Info, call)
			if fn == nil {
				continue
			}
			idxs, ok := nr.Release[ShortName(fn)]
			if !ok {
				continue
			}
			var released []types.Object
			for i, a := range call.Args {
				want := false
				for _, k := range idxs {
					if k == -1 || k == i {
						want = true
					}
				}
				if !want {
					continue
				}
				if id, ok := ast.Unparen(a).(*ast.Ident); ok {
					if o, ok := c.Info.ObjectOf(id).(*types.Var); ok {
						released = append(released, o)
					}
				}
			}
			for _, o := range released {
				n++
				occ++
				r.Touch(f)
				label := fmt.Sprintf("%s: `%s` is not touched after release #%d (%s)", f.Name, o.Name(), occ, ShortName(fn))
				tracked := nr.aliases(c, f, o, sum)
				if bad, who := useAfter(c, g, nd, tracked); bad != nil {
					r.Fail(label, r.W.Pos(bad.Ast.Pos()), fmt.Sprintf("after `%s` the statement `%s` still uses `%s`, which is (or shares memory with) the released value: another goroutine may already have taken it from the pool and be overwriting it", ExprStr(call), ExprStr(bad.Ast), who))
				} else {
					var names []string
					for t := range tracked {
						names = append(names, t.Name())
					}
					sort.Strings(names)
					r.OK(label, r.W.Pos(call.Pos()), fmt.Sprintf("no path from the release reaches a use of %v before re-assignment", names))
				}
			}
		}
	}
	return n
}

// aliases: o plus local variables defined from a call whose result shares memory with a tracked variable.
func (nr NoUseAfterRelease) aliases(c *Ctx, f *FuncInfo, o types.Object, sum aliasSummary) map[types.Object]bool {
	tracked := map[types.Object]bool{o: true}
	for changed := true; changed; {
		changed = false
		InspectBody(f, func(x ast.Node) bool {
			var lhs []ast.Expr
			var rhs []ast.Expr
			switch s := x.(type) {
			case *ast.AssignStmt:
				lhs, rhs = s.Lhs, s.Rhs
			case *ast.ValueSpec:
				for _, nm := range s.Names {
					lhs = append(lhs, nm)
				}
				rhs = s.Values
			default:
				return true
			}
			if len(rhs) != 1 || len(lhs) == 0 {
				return true
			}
			id, ok := ast.Unparen(lhs[0]).(*ast.Ident)
			if !ok {
				return true
			}
			lo := c.Info.ObjectOf(id)
			if lo == nil || tracked[lo] {
				return true
			}
			src := ast.Unparen(rhs[0])
			// plain copy of a tracked reference
			if sid, ok := src.(*ast.Ident); ok && tracked[c.Info.ObjectOf(sid)] {
				tracked[lo] = true
				changed = true
				return true
			}
			call, ok := src.(*ast.CallExpr)
			if !ok {
				return true
			}
			fn := Callee(c.Info, call)
			if fn == nil {
				return true
			}
			idx, ok := nr.AliasBase[ShortName(fn)]
			if !ok {
				idx, ok = sum[fn.Origin()]
			}
			if !ok {
				return true
			}
			var a ast.Expr
			if idx < 0 {
				if sel, isSel := ast.Unparen(call.Fun).(*ast.SelectorExpr); isSel {
					a = sel.X
				}
			} else if idx < len(call.Args) {
				a = call.Args[idx]
			}
			if aid, ok := a.(*ast.Ident); ok && tracked[c.Info.ObjectOf(aid)] {
				tracked[lo] = true
				changed = true
			}
			return true
		})
	}
	return tracked
}

// useAfter searches forward from the release node for a node that uses a
// tracked object; a path ends where the object is re-assigned.
func useAfter(c *Ctx, g *Graph, from *GNode, tracked map[types.Object]bool) (*GNode, string) {
	for o := range tracked {
		seen := map[*GNode]bool{}
		var work []*GNode
		for _, e := range from.Succ {
			work = append(work, e.To)
		}
		for len(work) > 0 {
			nd := work[len(work)-1]
			work = work[:len(work)-1]
			if seen[nd] {
				continue
			}
			seen[nd] = true
			stop := false
			if nd.Ast != nil {
				defines := false
				for _, d := range assignedObjs(c.Info, nd.Ast) {
					if d == o {
						defines = true
					}
				}
				usesRhs := false
				switch s := nd.Ast.(type) {
				case *ast.AssignStmt:
					for _, rh := range s.Rhs {
						if mentionsObj(c.Info, rh, o) {
							usesRhs = true
						}
					}
					for _, lh := range s.Lhs {
						if _, isID := ast.Unparen(lh).(*ast.Ident); !isID && mentionsObj(c.Info, lh, o) {
							usesRhs = true // store through the released value
						}
					}
				default:
					if !defines && mentionsObj(c.Info, nd.Ast, o) {
						usesRhs = true
					}
				}
				if usesRhs {
					return nd, o.Name()
				}
				if defines {
					stop = true
				}
			}
			if stop {
				continue
			}
			for _, e := range nd.Succ {
				// entering a range body assigns the key/value variables
				if rs, ok := e.LoopStmt.(*ast.RangeStmt); ok && e.Kind.String() == "RangeBody" {
					redefined := false
					for _, kv := range []ast.Expr{rs.Key, rs.Value} {
						if id, ok := kv.(*ast.Ident); ok && c.Info.ObjectOf(id) == o {
							redefined = true
						}
					}
					if redefined {
						continue
					}
				}
				work = append(work, e.To)
			}
		}
	}
	return nil, ""
}
