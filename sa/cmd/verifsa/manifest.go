package main

import (
	"encoding/json"
	"fmt"
	"os"
	"sort"

	"verif/sa/props"
)

func manifest(out string) int {
	type lvl struct {
		Category  string `json:"category"`
		Text      string `json:"text"`
		DesignRef string `json:"design_ref"`
	}
	type chk struct {
		PropertyID string `json:"property_id"`
		Quick      string `json:"quick_cmd"`
		Thorough   string `json:"thorough_cmd"`
		Evidence   string `json:"evidence_file"`
		Replay     string `json:"replay_cmd_template"`
		Engine     string `json:"engine"`
		Level      lvl    `json:"level_claimed"`
		Note       string `json:"level_note"`
		Technique  string `json:"technique"`
	}
	type na struct {
		PropertyID string `json:"property_id"`
		Reason     string `json:"reason"`
	}
	var checks []chk
	claimed := map[string]bool{}
	for _, id := range props.IDs() {
		p := props.Get(id)
		if p.Hold != "" {
			continue
		}
		claimed[id] = true
		checks = append(checks, chk{
			PropertyID: id,
			Quick:      "/verif/bin/check " + id + " quick",
			Thorough:   "/verif/bin/check " + id + " thorough",
			Evidence:   "/verif/evidence/" + id + ".json",
			Replay:     "/verif/bin/verifsa explain {path}",
			Engine:     "verifsa",
			Level: lvl{Category: "other", DesignRef: "DESIGN.md §4 D-" + id,
				Text: "Static analysis of /repo's current source (type-checked AST, go/cfg control-flow facts, resolved call sites): decides on every path of the anchored functions the structural necessary conditions listed for " + id + " — " + p.Explanation + " It does NOT decide: " + p.NotCovered},
			Note:      "Trusted: Go type checker, x/tools v0.29.0 go/packages+go/cfg, the hand-frozen idiom/exception tables in /verif/sa/props (each exception carries a reason and is printed in evidence). No chain33 code is executed. A renamed/deleted anchor makes the obligation UNRESOLVED and fails the check by design.",
			Technique: p.Technique(),
		})
	}
	nas := []na{}
	for id, why := range props.NotApplicable {
		if !claimed[id] {
			nas = append(nas, na{id, why})
		}
	}
	for _, id := range props.IDs() {
		if p := props.Get(id); p.Hold != "" {
			nas = append(nas, na{id, "Check built but withheld: " + p.Hold})
			claimed[id] = true
		}
	}
	for _, id := range props.Pending {
		if !claimed[id] {
			if _, dup := props.NotApplicable[id]; !dup {
				nas = append(nas, na{id, "No static check has been built for this property yet (rule table designed in DESIGN.md §4, not implemented); nothing is claimed."})
			}
		}
	}
	sort.Slice(nas, func(i, j int) bool { return nas[i].PropertyID < nas[j].PropertyID })
	m := map[string]interface{}{
		"version":   1,
		"setup_cmd": "cd /verif/sa && GOFLAGS=-mod=mod GOPROXY=off GOSUMDB=off GOTOOLCHAIN=local go build -o /verif/bin/verifsa ./cmd/verifsa",
		"hooks": map[string]interface{}{
			"guard":            "verif",
			"enable":           "none needed: static analysis instruments nothing; checks read /repo's working tree as it is",
			"baseline_off_cmd": "cd /repo && GOFLAGS=-mod=mod GOPROXY=off GOSUMDB=off go test -vet=off -count=1 -timeout 25m ./...",
			"source_commits":   []string{},
			"add_only":         true,
		},
		"engines": []map[string]interface{}{{
			"name": "verifsa", "path": "/verif/sa", "serves_properties": props.IDs(),
			"kind_free_text": "repository-specific static analyser (go/packages + go/types + go/cfg facts dataflow + resolved call sites); rule tables in /verif/sa/props",
		}},
		"checks":         checks,
		"not_applicable": nas,
		"notes":          "All claims are level 'other': structural necessary conditions decided statically on every path; value-level clauses are explicitly not decided (see each level_claimed.text and DESIGN.md). Genuine defects found are in /verif/known_findings.json (fixed: entries name the fix: commit in /repo).",
	}
	b, _ := json.MarshalIndent(m, "", " ")
	if err := os.WriteFile(out, append(b, '\n'), 0o644); err != nil {
		fmt.Fprintln(os.Stderr, err)
		return 1
	}
	fmt.Printf("wrote %s: %d checks, %d not_applicable\n", out, len(checks), len(nas))
	return 0
}
