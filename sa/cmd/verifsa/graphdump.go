package main

import (
	"fmt"
	"os"

	"verif/sa/core"
)

// graph: debugging aid — prints the node-level CFG of one function.
// usage: verifsa graph <short pkg path> <function> [inline]
func graphDump(args []string) int {
	if len(args) < 2 {
		fmt.Fprintln(os.Stderr, "usage: verifsa graph <pkg> <function> [inline]")
		return 2
	}
	w, err := core.Load(false, nil, args[0])
	if err != nil {
		fmt.Println(err)
		return 1
	}
	f := w.Func(args[1])
	if f == nil {
		fmt.Println("not found")
		return 1
	}
	w.Inline = len(args) > 2
	g := f.Graph()
	for _, n := range g.Nodes {
		pos := "-"
		if n.Ast != nil {
			pos = w.Pos(n.Ast.Pos())
		}
		fmt.Printf("%3d k=%d %-24s %s\n", n.ID, n.Kind, pos, core.ExprStr(n.Ast))
		for _, e := range n.Succ {
			c := ""
			if e.Cond != nil {
				c = fmt.Sprintf(" [%s]=%v", core.ExprStr(e.Cond), e.Val)
			}
			fmt.Printf("        -> %d%s %v\n", e.To.ID, c, e.Kind)
		}
	}
	return 0
}
