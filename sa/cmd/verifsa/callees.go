package main

import (
	"fmt"
	"go/ast"
	"os"
	"sort"

	"verif/sa/core"
)

// callees: debugging aid — prints the resolved short names of every callee in
// the functions of a package whose name contains a substring.
// usage: verifsa callees <short pkg path> <substring>
func callees(args []string) int {
	if len(args) < 2 {
		fmt.Fprintln(os.Stderr, "usage: verifsa callees <pkg> <substring>")
		return 2
	}
	w, err := core.Load(false, nil, args[0])
	if err != nil {
		fmt.Println(err)
		return 1
	}
	pkg := w.Pkg(args[0])
	for _, f := range w.AllFuncs(pkg) {
		if f.Lit != nil || !contains(f.Name, args[1]) {
			continue
		}
		set := map[string]bool{}
		ast.Inspect(f.Body(), func(x ast.Node) bool {
			if call, ok := x.(*ast.CallExpr); ok {
				if fn := core.Callee(f.Info(), call); fn != nil {
					set[core.ShortName(fn)] = true
				}
			}
			return true
		})
		var names []string
		for n := range set {
			names = append(names, n)
		}
		sort.Strings(names)
		fmt.Println(f.Name)
		for _, n := range names {
			fmt.Println("    ", n)
		}
	}
	return 0
}

func contains(s, sub string) bool {
	for i := 0; i+len(sub) <= len(s); i++ {
		if s[i:i+len(sub)] == sub {
			return true
		}
	}
	return false
}
