// verifsa decides the structural clauses of the chain33 properties from the
// source of /repo.  It never runs chain33 code.
package main

import (
	"flag"
	"fmt"
	"os"
	"sort"
	"strconv"
	"strings"
	"time"

	"verif/sa/core"
	"verif/sa/props"
)

func main() {
	if len(os.Args) < 2 {
		fmt.Fprintln(os.Stderr, "usage: verifsa check|list|explain ...")
		os.Exit(2)
	}
	switch os.Args[1] {
	case "packages":
		// <id> <short package paths loaded by the quick tier>
		for _, id := range props.IDs() {
			fmt.Printf("%s %s\n", id, strings.Join(props.Get(id).Packages, " "))
		}
	case "list":
		for _, id := range props.IDs() {
			p := props.Get(id)
			fmt.Printf("%s %d rules  %s\n", id, len(p.Rules), p.Title)
		}
	case "check":
		os.Exit(check(os.Args[2:]))
	case "manifest":
		out := "/verif/MANIFEST.json"
		if len(os.Args) > 2 {
			out = os.Args[2]
		}
		os.Exit(manifest(out))
	case "explain":
		os.Exit(explain(os.Args[2:]))
	case "callees":
		os.Exit(callees(os.Args[2:]))
	case "graph":
		os.Exit(graphDump(os.Args[2:]))
	default:
		fmt.Fprintln(os.Stderr, "unknown command", os.Args[1])
		os.Exit(2)
	}
}

func check(args []string) int {
	fs := flag.NewFlagSet("check", flag.ExitOnError)
	pid := fs.String("p", "", "property id")
	tier := fs.String("tier", "quick", "quick|thorough")
	evdir := fs.String("evidence", "/verif/evidence", "evidence directory")
	knownPath := fs.String("known", "/verif/known_findings.json", "known findings file")
	verbose := fs.Bool("v", false, "print every obligation")
	seedPatch := fs.String("seedpatch", "", "decide the property on the current tree with this unified diff applied in memory (sensitivity runs; never used by a registered command)")
	fs.Parse(args)
	t0 := time.Now()
	p := props.Get(*pid)
	if p == nil {
		fmt.Printf("VIOLATION property=%s replay=- (no rule table registered)\n", *pid)
		return 1
	}
	seed := int64(0)
	if s := os.Getenv("VERIF_SEED"); s != "" {
		seed, _ = strconv.ParseInt(s, 10, 64)
	}
	known, err := core.LoadKnown(*knownPath)
	if err != nil {
		fmt.Printf("VIOLATION property=%s replay=- (cannot read known findings: %v)\n", *pid, err)
		return 1
	}
	var w *core.World
	var overlay map[string][]byte
	if *seedPatch != "" {
		overlay, err = core.OverlayFromPatch(core.RepoDir, *seedPatch)
		if err != nil {
			fmt.Printf("SEED-NOT-APPLICABLE property=%s %v\n", *pid, err)
			return 3
		}
	}
	if *tier == "thorough" {
		w, err = core.Load(true, overlay, "./...")
	} else {
		w, err = core.Load(false, overlay, p.Packages...)
	}
	if err != nil {
		fmt.Printf("VIOLATION property=%s replay=- (load failed: %v)\n", *pid, err)
		return 1
	}
	res := core.CheckProperty(w, p, *tier, known)
	if *tier == "thorough" && *seedPatch == "" {
		res.Sens = props.Sensitivity(p, seed)
	}
	if err := res.WriteEvidence(*evdir, seed, time.Since(t0).Seconds()); err != nil {
		fmt.Printf("VIOLATION property=%s replay=- (cannot write evidence: %v)\n", *pid, err)
		return 1
	}
	obls := res.Obls
	sort.SliceStable(obls, func(i, j int) bool { return obls[i].Rule < obls[j].Rule })
	nOK := 0
	for _, o := range obls {
		if o.Status == core.SOK {
			nOK++
			if *verbose {
				fmt.Printf("ok        %-6s %s  [%s] %s\n", o.Rule, o.Construct, o.Pos, o.Why)
			}
		}
	}
	for _, k := range res.Known {
		fmt.Printf("KNOWN-FINDING: property=%s %s %s (%s)\n", p.ID, k.Rule, k.Construct, k.Pos)
	}
	fmt.Printf("%s %s: %d obligations, %d discharged, %d known findings, %d functions, load %.1fs (%s, %d pkgs), total %.1fs\n",
		p.ID, *tier, len(obls), nOK, len(res.Known), len(res.Stats.Functions), w.LoadS, w.Mode, len(w.Pkgs), time.Since(t0).Seconds())
	rc := 0
	for _, v := range res.Violations() {
		rc = 1
		fmt.Printf("VIOLATION property=%s replay=%s/%s.json#%s\n", p.ID, *evdir, p.ID, strings.ReplaceAll(v.Key(), " ", "_"))
		fmt.Printf("  %s: rule %s, instance %s: %s\n", v.Pos, v.Rule, v.Construct, v.Why)
	}
	for _, ff := range res.FloorFails {
		rc = 1
		fmt.Printf("VIOLATION property=%s replay=%s/%s.json#floor\n  %s\n", p.ID, *evdir, p.ID, ff)
	}
	return rc
}

func explain(args []string) int {
	if len(args) < 1 {
		fmt.Fprintln(os.Stderr, "usage: verifsa explain <evidence.json#obligation>")
		return 2
	}
	path := args[0]
	key := ""
	if i := strings.Index(path, "#"); i >= 0 {
		path, key = path[:i], path[i+1:]
	}
	base := path[strings.LastIndex(path, "/")+1:]
	id := strings.TrimSuffix(base, ".json")
	rc := check([]string{"-p", id, "-tier", "quick", "-v"})
	fmt.Println("replayed obligation key:", key)
	return rc
}
