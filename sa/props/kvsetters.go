package props

import (
	"go/ast"

	"verif/sa/core"
)

// kvSetters lists the package-level functions of common/db that write a
// key/value through the database handed to them as their first parameter
// (today: setdb2).  Rules that care where LocalDB.Set sends a write name them
// by this structure rather than by their identifier, so renaming the helper
// does not change the verdict.
func kvSetters(r *Run) []string {
	var out []string
	pkg := r.W.Pkg("common/db")
	if pkg == nil {
		return nil
	}
	sets := core.Names("common/db.KV.Set", "common/db.DB.Set", "common/db.KVDB.Set")
	for _, f := range r.W.AllFuncs(pkg) {
		if f.Lit != nil || f.Obj == nil || f.Sig().Recv() != nil || f.Sig().Params().Len() != 3 {
			continue
		}
		c := f.Ctx()
		hit := false
		ast.Inspect(f.Body(), func(x ast.Node) bool {
			if call, ok := x.(*ast.CallExpr); ok && sets.Has(core.Callee(c.Info, call)) {
				if sel, ok := ast.Unparen(call.Fun).(*ast.SelectorExpr); ok && core.IsObj("param:0")(c, sel.X) {
					hit = true
				}
			}
			return !hit
		})
		if hit {
			out = append(out, f.Name)
		}
	}
	return out
}
