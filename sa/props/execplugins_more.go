package props

import (
	"fmt"
	"go/ast"
	"go/types"
	"strings"

	"verif/sa/core"
)

// statusFilterIn: does f (or a same-receiver helper it calls directly) compare the
// receipt's type with types.ExecOk?
func statusFilterIn(r *Run, f *core.FuncInfo, depth int) bool {
	if f == nil {
		return false
	}
	c := f.Ctx()
	okObj := r.W.LookupObj("types.ExecOk")
	found := false
	core.InspectBody(f, func(x ast.Node) bool {
		b, ok := x.(*ast.BinaryExpr)
		if !ok || found {
			return true
		}
		mentionsOk := func(e ast.Expr) bool {
			hit := false
			ast.Inspect(e, func(y ast.Node) bool {
				if id, ok := y.(*ast.Ident); ok && c.Info.Uses[id] == okObj {
					hit = true
				}
				return true
			})
			return hit
		}
		isTy := func(e ast.Expr) bool {
			return core.CallsAny("types.(*ReceiptData).GetTy")(c, e) || core.Mentions("types.ReceiptData.Ty")(c, e)
		}
		if (mentionsOk(b.X) && isTy(b.Y)) || (mentionsOk(b.Y) && isTy(b.X)) {
			found = true
		}
		return true
	})
	if found || depth == 0 {
		return found
	}
	// helpers on the same receiver
	var helpers []*core.FuncInfo
	core.InspectBody(f, func(x ast.Node) bool {
		if call, ok := x.(*ast.CallExpr); ok {
			if fn := core.Callee(c.Info, call); fn != nil && f.Obj != nil {
				if s1, s2 := fn.Type().(*types.Signature).Recv(), f.Obj.Type().(*types.Signature).Recv(); s1 != nil && s2 != nil && types.Identical(s1.Type(), s2.Type()) {
					if h := r.W.FuncOf(fn); h != nil {
						helpers = append(helpers, h)
					}
				}
			}
		}
		return true
	})
	for _, h := range helpers {
		if !strings.HasPrefix(h.Obj.Name(), "ExecLocal_") && !strings.HasPrefix(h.Obj.Name(), "ExecDelLocal_") && statusFilterIn(r, h, depth-1) {
			return true
		}
	}
	return false
}

func init() {
	extend("C14", "R14f (added after a seeded change was missed): the per-address transaction counter is a read-modify-write on the block's local cache; the new value is written back before it is returned on both polarities, so that several occurrences of one address inside a block see each other's updates when the block is removed as well as when it is added.",
		rule("R14f", "counter updates are written back to the cache on add and on remove", 1, func(r *Run) {
			fn := "executor.updateAddrTxsCount"
			core.Dominated{Fn: fn, Spec: &core.FlowSpec{Calls: []core.CallGuard{{Fact: "written-back", Callee: core.Names("executor.setAddrTxsCount"), Pass: core.OErrNil, Idx: -1, NoArgDeps: true,
				ArgOK: func(c *core.Ctx, call *ast.CallExpr) bool {
					return len(call.Args) == 3 && core.IsObj("param:1")(c, call.Args[0]) && core.IsObj("param:2")(c, call.Args[1])
				}}}}, Sink: core.SuccessReturn(-1), Need: []core.Fact{"written-back"}, Min: 1}.Check(r)
		}))
	extend("C14", "R14e (added after a defect report from a seeding run): the add side and the remove side of a built-in executor skip the same transactions — when an executor replaces only one of ExecLocal / ExecDelLocal, the replacement applies the receipt-status filter of the generic dispatcher (callLocal: non-ExecOk receipts produce no local records) that the other side still goes through.",
		rule("R14e", "add and remove side apply the same receipt-status filter", 3, func(r *Run) {
			base := r.Fn("system/dapp.(*DriverBase).callLocal")
			label0 := "system/dapp.(*DriverBase).callLocal skips receipts that are not ExecOk when the executor asks for it"
			if base == nil {
				return
			}
			if statusFilterIn(r, base, 0) {
				r.OK(label0, r.W.Pos(base.Node().Pos()), "generic dispatcher compares receipt.GetTy() with types.ExecOk")
			} else {
				r.Fail(label0, r.W.Pos(base.Node().Pos()), "the generic status filter is gone: the reference for the sibling comparison changed")
				return
			}
			for _, t := range []struct{ pkg, typ string }{{"system/dapp/coins/executor", "Coins"}, {"system/dapp/manage/executor", "Manage"}} {
				pkg := r.W.Pkg(t.pkg)
				if pkg == nil {
					r.Unresolved(t.pkg)
					continue
				}
				tn, _ := pkg.Types.Scope().Lookup(t.typ).(*types.TypeName)
				if tn == nil {
					r.Unresolved(t.pkg + "." + t.typ)
					continue
				}
				own := func(name string) *core.FuncInfo {
					o, _, _ := types.LookupFieldOrMethod(types.NewPointer(tn.Type()), true, pkg.Types, name)
					fn, _ := o.(*types.Func)
					if fn == nil {
						return nil
					}
					recv := fn.Type().(*types.Signature).Recv()
					if recv == nil {
						return nil
					}
					rt := recv.Type()
					if p, ok := rt.(*types.Pointer); ok {
						rt = p.Elem()
					}
					if nt, ok := rt.(*types.Named); !ok || nt.Obj() != tn {
						return nil // promoted from the embedded DriverBase
					}
					return r.W.FuncOf(fn)
				}
				add, del := own("ExecLocal"), own("ExecDelLocal")
				label := fmt.Sprintf("%s.%s: ExecLocal and ExecDelLocal skip the same (failed) transactions", t.pkg, t.typ)
				pos := r.W.Pos(tn.Pos())
				// does this executor ask for the filter?
				wants := true
				if f := own("CheckReceiptExecOk"); f != nil {
					for _, ret := range f.Graph().Returns() {
						if rs, ok := ret.Ast.(*ast.ReturnStmt); ok && len(rs.Results) == 1 {
							if id, ok := rs.Results[0].(*ast.Ident); ok && id.Name == "false" {
								wants = false
							}
						}
					}
				} else {
					wants = false // DriverBase default: no filter
				}
				switch {
				case add == nil && del == nil:
					r.OK(label, pos, "both sides use the generic dispatcher")
				case !wants && (add == nil || del == nil):
					r.OK(label, pos, "the executor does not filter by receipt status on either side")
				case add != nil && del == nil:
					r.Touch(add)
					if statusFilterIn(r, add, 1) {
						r.OK(label, r.W.Pos(add.Node().Pos()), "the replaced ExecLocal applies the ExecOk filter itself")
					} else {
						r.Fail(label, r.W.Pos(add.Node().Pos()), fmt.Sprintf("%s replaces the generic dispatcher without its receipt-status filter, while removal still goes through callLocal, which ignores receipts that are not ExecOk: a packed-but-failed transaction leaves local records on add that removal never takes back", add.Name))
					}
				case add == nil && del != nil:
					r.Touch(del)
					recordDriven := false
					for _, g := range append([]*core.FuncInfo{del}, func() []*core.FuncInfo {
						var hs []*core.FuncInfo
						core.InspectBody(del, func(x ast.Node) bool {
							if call, ok := x.(*ast.CallExpr); ok {
								if h := r.W.FuncOf(core.Callee(del.Info(), call)); h != nil {
									hs = append(hs, h)
								}
							}
							return true
						})
						return hs
					}()...) {
						core.InspectBody(g, func(x ast.Node) bool {
							if call, ok := x.(*ast.CallExpr); ok {
								if fn := core.Callee(g.Info(), call); fn != nil && core.ShortName(fn) == "system/dapp.(*DriverBase).DelRollbackKV" {
									recordDriven = true
								}
							}
							return true
						})
					}
					if recordDriven {
						r.OK(label, r.W.Pos(del.Node().Pos()), "removal is record-driven: it restores exactly what the add side logged for this transaction (DelRollbackKV); nothing logged, nothing undone")
					} else if statusFilterIn(r, del, 1) {
						r.OK(label, r.W.Pos(del.Node().Pos()), "the replaced ExecDelLocal applies the ExecOk filter itself")
					} else {
						r.Fail(label, r.W.Pos(del.Node().Pos()), fmt.Sprintf("%s replaces the generic dispatcher without its receipt-status filter, while addition still goes through callLocal", del.Name))
					}
				default:
					a, d := statusFilterIn(r, add, 1), statusFilterIn(r, del, 1)
					if a == d {
						r.OK(label, pos, fmt.Sprintf("both sides replaced; status filter on add=%v, on remove=%v", a, d))
					} else {
						r.Fail(label, pos, fmt.Sprintf("both sides replaced but only one filters by receipt status (add=%v, remove=%v)", a, d))
					}
				}
			}
		}),
	)
}
