package props

import (
	"fmt"
	"go/ast"
	"go/token"
	"go/types"
	"sort"
	"strings"

	"verif/sa/core"
)

// applySpec: the canonical "apply an ordered write list to a committed root"
// sequence on one tree variable.
func applySpec() *core.FlowSpec {
	// <element of X.KV>.<field>, the element being KV[i] or the value variable of a range over KV
	elem := func(c *core.Ctx, e ast.Expr, field string) (bool, string) {
		sel, ok := ast.Unparen(e).(*ast.SelectorExpr)
		if !ok || sel.Sel.Name != field {
			return false, ""
		}
		return core.ElemOf(c, sel.X, core.IsObj("types.StoreSet.KV"))
	}
	kvField := func(field string) core.ExprPred {
		return func(c *core.Ctx, e ast.Expr) bool { ok, _ := elem(c, e, field); return ok }
	}
	sameIndex := func(c *core.Ctx, a, b ast.Expr) bool {
		_, ia := elem(c, a, "Key")
		_, ib := elem(c, b, "Value")
		return ia != "" && ia == ib
	}
	return &core.FlowSpec{
		Assume: func(c *core.Ctx, e ast.Expr) core.Tri {
			// the empty write list is handled separately (the root does not change)
			if op, ok := core.CmpAtom(c, e, lenOf(core.IsObj("types.StoreSet.KV")), core.IsConstInt(0)); ok {
				switch op {
				case token.EQL:
					return core.False
				case token.NEQ, token.GTR:
					return core.True
				}
			}
			return core.Unknown
		},
		Calls: []core.CallGuard{
			{Fact: "height-set", Callee: core.Names(mdbT + "SetBlockHeight"), Pass: core.OCalled, NoArgDeps: true,
				ArgOK: func(c *core.Ctx, call *ast.CallExpr) bool { return len(call.Args) == 1 && core.IsObj("types.StoreSet.Height")(c, call.Args[0]) }},
			{Fact: "parent-loaded", Callee: core.Names(mdbT + "Load"), Pass: core.OErrNil, Idx: -1, NoArgDeps: true,
				ArgOK: func(c *core.Ctx, call *ast.CallExpr) bool { return len(call.Args) == 1 && core.IsObj("types.StoreSet.StateHash")(c, call.Args[0]) }},
			{Fact: "kv-applied", Callee: core.Names(mdbT + "Set"), Pass: core.OCalled,
				ArgOK: func(c *core.Ctx, call *ast.CallExpr) bool {
					return len(call.Args) == 2 && kvField("Key")(c, call.Args[0]) && kvField("Value")(c, call.Args[1]) && sameIndex(c, call.Args[0], call.Args[1])
				}},
		},
		Foralls: []core.ForallGuard{{Fact: "all-kv-applied-in-order", Inner: "kv-applied", Loop: core.CountsOver(core.IsObj("types.StoreSet.KV"), 0)}},
	}
}

// oneTree: all tree operations of f go to the single tree created by NewTree; returns the variable.
func oneTree(r *Run, f *core.FuncInfo, label string) types.Object {
	c := f.Ctx()
	var tree types.Object
	nNew := 0
	core.InspectBody(f, func(x ast.Node) bool {
		as, ok := x.(*ast.AssignStmt)
		if !ok || len(as.Rhs) != 1 || len(as.Lhs) != 1 {
			return true
		}
		if call, ok := ast.Unparen(as.Rhs[0]).(*ast.CallExpr); ok {
			if fn := core.Callee(c.Info, call); fn != nil && core.ShortName(fn) == mdb+"NewTree" {
				nNew++
				if id, ok := as.Lhs[0].(*ast.Ident); ok {
					tree = c.Info.ObjectOf(id)
				}
			}
		}
		return true
	})
	bad := ""
	nOps := 0
	core.InspectBody(f, func(x ast.Node) bool {
		call, ok := x.(*ast.CallExpr)
		if !ok {
			return true
		}
		fn := core.Callee(c.Info, call)
		if fn == nil || !strings.HasPrefix(core.ShortName(fn), mdbT) {
			return true
		}
		nOps++
		sel, _ := ast.Unparen(call.Fun).(*ast.SelectorExpr)
		if sel == nil {
			return true
		}
		id, ok := ast.Unparen(sel.X).(*ast.Ident)
		if !ok || c.Info.ObjectOf(id) != tree {
			bad = core.ExprStr(call)
		}
		return true
	})
	switch {
	case nNew != 1 || tree == nil:
		r.Fail(label, r.W.Pos(f.Node().Pos()), fmt.Sprintf("expected exactly one NewTree assigned to a variable, found %d", nNew))
		return nil
	case bad != "":
		r.Fail(label, r.W.Pos(f.Node().Pos()), fmt.Sprintf("`%s` operates on another tree than the one created here", bad))
		return nil
	case len(c.DefsOf(tree)) != 1:
		r.Fail(label, r.W.Pos(f.Node().Pos()), "the tree variable is re-assigned")
		return nil
	}
	r.OK(label, r.W.Pos(f.Node().Pos()), fmt.Sprintf("%d tree operations, all on the tree created by the one NewTree", nOps))
	return tree
}

func init() {
	// ------------------------------------------------------------------ C02
	register(&core.Property{
		ID:       "C02",
		Title:    "State root depends only on prior root and ordered writes",
		Packages: []string{"system/store/mavl/db", "system/store/mavl", "types"},
		Explanation: "Decides two structural necessary conditions, R02a-R02b: (a) the direct path (SetKVPair) and the pending paths (MemSet, MemSetUpgrade) perform the same canonical sequence on one fresh tree — SetBlockHeight(request height), Load(request parent root) with its error tested, Set(KV[i].Key, KV[i].Value) for every i in ascending order — and report Hash()/Save() of that tree; MemSet files the tree under that very hash, Commit saves the tree filed under the requested hash; " +
			"(b) in Node.Hash the content hash of a node is computed from the node's own fields only and is not control-dependent on the storage configuration: configuration only decides what is appended to the key afterwards.",
		NotCovered: "equality of the roots themselves across configurations/histories (a property of hash values); that InnerNode.Hash neutralises configuration-dependent child keys by hashing their last 32 bytes (value argument); collisions of the 64-bit keys of the global node cache.",
		Rules: []core.Rule{
			rule("R02a", "direct and pending application perform the same ordered sequence on one tree", 12, func(r *Run) {
				for _, fn := range []string{mdb + "SetKVPair", mst + "MemSet", mst + "MemSetUpgrade"} {
					f := r.Fn(fn)
					if f == nil {
						continue
					}
					core.Dominated{Fn: fn, Spec: applySpec(), Sink: core.SuccessReturn(-1), Need: []Fact{"height-set", "parent-loaded", "all-kv-applied-in-order"}, Min: 1}.Check(r)
					tree := oneTree(r, f, fn+": one tree carries the whole update")
					if tree == nil {
						continue
					}
					// the reported root is Hash()/Save() of that tree
					c := f.Ctx()
					label := fn + ": the reported root is the hash of the tree the writes were applied to"
					okRet := false
					fl := core.RunFlow(f, applySpec())
					for _, ret := range fl.G.Returns() {
						rs, ok := ret.Ast.(*ast.ReturnStmt)
						if !ok || !fl.Live(ret) || len(rs.Results) != 2 || !isNilLit(c, rs.Results[1]) {
							continue
						}
						e := rs.Results[0]
						var call *ast.CallExpr
						if cc, ok := ast.Unparen(e).(*ast.CallExpr); ok {
							call = cc
						} else {
							call = singleDefCall(c, e, 0, mdbT+"Hash", mdbT+"Save")
						}
						if call != nil {
							if fnc := core.Callee(c.Info, call); fnc != nil && (core.ShortName(fnc) == mdbT+"Hash" || core.ShortName(fnc) == mdbT+"Save") {
								if sel, ok := ast.Unparen(call.Fun).(*ast.SelectorExpr); ok {
									if id, ok := ast.Unparen(sel.X).(*ast.Ident); ok && c.Info.ObjectOf(id) == tree {
										okRet = true
										continue
									}
								}
							}
						}
						okRet = false
						r.Fail(label, r.W.Pos(rs.Pos()), fmt.Sprintf("`%s` does not return Hash()/Save() of the tree", core.ExprStr(rs)))
						break
					}
					if okRet {
						r.OK(label, r.W.Pos(f.Node().Pos()), "every success return yields tree.Hash()/tree.Save()")
					}
				}
				// MemSet files the tree under its own hash
				if f := r.Fn(mst + "MemSet"); f != nil {
					c := f.Ctx()
					n := 0
					core.InspectBody(f, func(x ast.Node) bool {
						call, ok := x.(*ast.CallExpr)
						if !ok {
							return true
						}
						if fn := core.Callee(c.Info, call); fn == nil || core.ShortName(fn) != "sync.(*Map).Store" || len(call.Args) != 2 {
							return true
						}
						n++
						label := fmt.Sprintf("%s: pending entry #%d is filed under the root it stands for", f.Name, n)
						key, val := call.Args[0], call.Args[1]
						switch {
						case isNilLit(c, val) && core.Mentions("types.StoreSet.StateHash")(c, key):
							r.OK(label, r.W.Pos(call.Pos()), "empty write list: nil marker under the unchanged parent root")
						case !isNilLit(c, val) && core.DerivedFromCall(mdbT+"Hash")(c, key) && !core.Mentions("types.StoreSet.StateHash")(c, key):
							r.OK(label, r.W.Pos(call.Pos()), "the tree is filed under tree.Hash()")
						default:
							r.Fail(label, r.W.Pos(call.Pos()), fmt.Sprintf("`%s`: a pending tree must be filed under its own Hash() (a nil marker under the parent root): Commit(root) would otherwise save another update or none", core.ExprStr(call)))
						}
						return true
					})
					if n < 2 {
						r.Fail(f.Name+": pending entries", r.W.Pos(f.Node().Pos()), fmt.Sprintf("expected 2 trees.Store calls, found %d", n))
					}
				}
				// Commit saves the tree found under the requested hash and forgets it only after a successful save
				core.Dominated{Fn: mst + "Commit", Spec: &core.FlowSpec{Calls: []core.CallGuard{{Fact: "found", Callee: core.Names("sync.(*Map).Load"), Pass: core.OTrue, Idx: 1,
					ArgOK: func(c *core.Ctx, call *ast.CallExpr) bool { return len(call.Args) == 1 && core.Mentions("types.ReqHash.Hash")(c, call.Args[0]) }}}},
					Sink: core.CallSink(mdbT + "Save"), Need: []Fact{"found"}, Min: 1}.Check(r)
				if f := r.Fn(mst + "Commit"); f != nil {
					c := f.Ctx()
					label := mst + "Commit saves the tree that was loaded under the requested hash"
					ok := false
					core.InspectBody(f, func(x ast.Node) bool {
						call, isCall := x.(*ast.CallExpr)
						if !isCall {
							return true
						}
						if fn := core.Callee(c.Info, call); fn != nil && core.ShortName(fn) == mdbT+"Save" {
							if sel, isSel := ast.Unparen(call.Fun).(*ast.SelectorExpr); isSel {
								recv := ast.Unparen(sel.X)
								if ta, isTA := recv.(*ast.TypeAssertExpr); isTA {
									recv = ast.Unparen(ta.X)
								}
								if singleDefCall(c, recv, 0, "sync.(*Map).Load") != nil {
									ok = true
								}
							}
						}
						return true
					})
					if ok {
						r.OK(label, r.W.Pos(f.Node().Pos()), "Save's receiver is the value returned by trees.Load(req.Hash)")
					} else {
						r.Fail(label, r.W.Pos(f.Node().Pos()), "Save is not called on the tree loaded under the requested hash")
					}
				}
			}),
			rule("R02b", "a node's content hash uses the node's own fields and is taken before the configuration is consulted", 8, func(r *Run) {
				f := r.Fn(mdbN + "Hash")
				if f == nil {
					return
				}
				c := f.Ctx()
				fl := core.RunFlow(f, &core.FlowSpec{})
				isCfg := func(c *core.Ctx, e ast.Expr) bool {
					return core.MentionsAny(mdb+"Tree.config", mdb+"Tree.blockHeight", mdb+"memTree", mdb+"tkCloseCache")(c, e)
				}
				n := 0
				for _, gn := range fl.G.Nodes {
					if gn.Ast == nil || !fl.Live(gn) {
						continue
					}
					for _, call := range core.CallsIn(gn.Ast) {
						fn := core.Callee(c.Info, call)
						if fn == nil {
							continue
						}
						name := core.ShortName(fn)
						if name != "types.(*LeafNode).Hash" && name != "types.(*InnerNode).Hash" {
							continue
						}
						n++
						label := fmt.Sprintf("%s: content hash #%d (%s) does not depend on the storage configuration", f.Name, n, name)
						if core.ControlledBy(fl, gn, isCfg, true) || core.ControlledBy(fl, gn, isCfg, false) {
							r.Fail(label, r.W.Pos(call.Pos()), "the content hash is only computed under a test of the tree configuration / block height / global caches")
						} else {
							r.OK(label, r.W.Pos(call.Pos()), "not control-dependent on t.config, t.blockHeight or the global caches")
						}
					}
				}
				if n < 2 {
					r.Fail(f.Name+": content hashes", r.W.Pos(f.Node().Pos()), fmt.Sprintf("expected the leaf and the inner-node hash call, found %d", n))
				}
				// operands: every field of the hashed record is copied from the receiver's fields
				recv := f.Recv()
				m := 0
				core.InspectBody(f, func(x ast.Node) bool {
					as, ok := x.(*ast.AssignStmt)
					if !ok || len(as.Lhs) != 1 || len(as.Rhs) != 1 {
						return true
					}
					sel, ok := ast.Unparen(as.Lhs[0]).(*ast.SelectorExpr)
					if !ok {
						return true
					}
					ts := types.TypeString(c.Info.TypeOf(sel.X), nil)
					if !strings.HasSuffix(ts, "types.LeafNode") && !strings.HasSuffix(ts, "types.InnerNode") {
						return true
					}
					m++
					label := fmt.Sprintf("%s: hashed field %s is copied from the node itself", f.Name, core.ExprStr(as.Lhs[0]))
					rs, ok := ast.Unparen(as.Rhs[0]).(*ast.SelectorExpr)
					if id, isID := func() (*ast.Ident, bool) {
						if !ok {
							return nil, false
						}
						id, isID := ast.Unparen(rs.X).(*ast.Ident)
						return id, isID
					}(); isID && c.Info.ObjectOf(id) == recv {
						r.OK(label, r.W.Pos(as.Pos()), "= "+core.ExprStr(as.Rhs[0]))
					} else {
						r.Fail(label, r.W.Pos(as.Pos()), fmt.Sprintf("`%s`: the hashed record takes a value that is not a field of the node (configuration or process state could reach the root)", core.ExprStr(as)))
					}
					return true
				})
				if m < 6 {
					r.Fail(f.Name+": hashed record fields", r.W.Pos(f.Node().Pos()), fmt.Sprintf("expected ≥6 field copies, found %d", m))
				}
			}),
		},
	})

	// ------------------------------------------------------------------ C03
	register(&core.Property{
		ID:       "C03",
		Title:    "State proofs are complete, sound and crash-free",
		Packages: []string{"system/store/mavl/db", "types"},
		Explanation: "Decides the crash-freedom clause and the shape of rejection, R03a-R03b: every construct that can panic (slice/index expressions, single-value type assertions, explicit panics, integer division, field access through possibly-nil pointers, calls leaving the analysed set) in VerifyKVPairProof → ReadProof → Proof.Verify → InnerNodeProofHash → LeafNode.Hash/InnerNode.Hash is enumerated and discharged by a dominating guard or a listed, reasoned trust entry; " +
			"ReadProof's error is tested before the proof is used; Verify has live rejections for a root mismatch and a leaf-hash mismatch and its final verdict is the comparison of the recomputed hash with the proof's root.",
		NotCovered:  "completeness and soundness of proofs (equalities between hash values) are not decided.",
		Assumptions: []string{"proto.Unmarshal never leaves nil elements in a repeated message field (InnerNodes)", "types.Encode cannot fail for LeafNode/InnerNode (only bytes and int32 fields), so its internal panic is unreachable"},
		Rules: []core.Rule{
			rule("R03a", "no reachable panic site on arbitrary proof bytes", 20, func(r *Run) {
				core.MayPanic{
					Funcs: []string{mdb + "VerifyKVPairProof", mdb + "ReadProof", mdb + "(*Proof).Verify", mdb + "InnerNodeProofHash", "types.(*LeafNode).Hash", "types.(*InnerNode).Hash"},
					Trusted: map[string]string{
						"types.Encode":                                   "deterministic protobuf encoding of a message with only bytes/int32 fields cannot fail (assumption)",
						"common.Sha256":                                  "hash of a byte slice",
						"bytes.Equal":                                    "total on any two slices",
						"github.com/golang/protobuf/proto.Unmarshal":     "returns an error on malformed input; the error is tested (R03b)",
						"types.(*KeyValue).GetKey":                       "generated getter, nil-safe",
						"types.(*KeyValue).GetValue":                     "generated getter, nil-safe",
						"github.com/33cn/chain33/common/log/log15.*":     "logger",
						"common/log/log15.*":                             "logger",
						"github.com/inconshreveable/log15.*":             "logger",
						"common/log/log15.Logger.Info":                   "logger",
						"common/log/log15.Logger.Error":                  "logger",
						"common/log/log15.Logger.Debug":                  "logger",
						"types.(*MAVLProof).GetInnerNodes":               "generated getter",
					},
					NonNil: map[string]string{
						mdb + "InnerNodeProofHash:#1": "element of the repeated field InnerNodes filled by proto.Unmarshal (assumption: no nil elements)",
						mdb + "VerifyKVPairProof:=" + mdb + "ReadProof": "result of ReadProof whose error was tested first (R03b)",
					},
					Min: 20,
				}.Check(r)
			}),
			rule("R03b", "undecodable proofs are rejected before use; Verify's verdict is the root comparison", 5, func(r *Run) {
				core.FailStops{Fn: mdb + "VerifyKVPairProof", Callee: []string{mdb + "ReadProof"}, Fail: core.OErrNonNil, Idx: -1, Forbidden: core.CallSink(mdb + "(*Proof).Verify"), Min: 1, Name: "proof bytes undecodable"}.Check(r)
				core.FailStops{Fn: mdb + "ReadProof", Callee: []string{"github.com/golang/protobuf/proto.Unmarshal"}, Fail: core.OErrNonNil, Idx: -1, Forbidden: core.CertainSuccessReturn(-1), Min: 1, Name: "unmarshal error"}.Check(r)
				vf := mdb + "(*Proof).Verify"
				core.RejectWhen{Fn: vf, Name: "root mismatch", BoolAtom: core.CallAtomSym("bytes.Equal", core.IsObj(mdb+"Proof.RootHash"), core.IsObj("param:2")), RejectVal: false}.Check(r)
				core.RejectWhen{Fn: vf, Name: "leaf hash mismatch", BoolAtom: core.CallAtomSym("bytes.Equal", core.DerivedFromCall("types.(*LeafNode).Hash"), core.IsObj(mdb+"Proof.LeafHash")), RejectVal: false}.Check(r)
				// the final verdict
				if f := r.Fn(vf); f != nil {
					c := f.Ctx()
					label := vf + ": the accepting return is bytes.Equal(proof.RootHash, recomputed hash)"
					good, bad := 0, ""
					for _, ret := range f.Graph().Returns() {
						rs, ok := ret.Ast.(*ast.ReturnStmt)
						if !ok || len(rs.Results) != 1 {
							continue
						}
						if id, isID := ast.Unparen(rs.Results[0]).(*ast.Ident); isID && id.Name == "false" {
							continue
						}
						if core.CallAtomSym("bytes.Equal", core.IsObj(mdb+"Proof.RootHash"), core.MayBeFromCall(0, mdb+"InnerNodeProofHash"))(c, rs.Results[0]) {
							good++
						} else {
							bad = core.ExprStr(rs)
						}
					}
					if good == 1 && bad == "" {
						r.OK(label, r.W.Pos(f.Node().Pos()), "one accepting return, of the required shape")
					} else {
						r.Fail(label, r.W.Pos(f.Node().Pos()), fmt.Sprintf("accepting returns of the required shape: %d; other non-false return: %s", good, bad))
					}
				}
			}),
		},
	})

	// ------------------------------------------------------------------ C04
	durable := []string{"common/db.DB.Set", "common/db.DB.SetSync", "common/db.DB.Delete", "common/db.DB.DeleteSync", "common/db.Batch.Write", "common/db.MustWrite", "common/db.KV.Set", "common/db.KVDB.Set"}
	pruneSet := map[string]string{
		mdb + "deleteNode":                   "first-level pruning (background pruner)",
		mdb + "deleteOldNode":                "second-level pruning (background pruner)",
		mdb + "addLeafCountKeyToSecondLevel": "moves version-index entries to the second level (background pruner)",
		mdb + "(*Tree).RemoveLeafCountKey":   "drops stale version-index entries of a re-committed height (only reached from Save under EnableMavlPrune)",
		mdb + "setSecLvlPruningHeight":       "pruner progress marker",
	}
	register(&core.Property{
		ID:       "C04",
		Title:    "Pending state updates never leak into committed state",
		Packages: []string{"system/store/mavl/db", "system/store/mavl", "system/store"},
		Explanation: "Decides R04a-R04d: (a) computing, reading, iterating or rolling back a pending update reaches no durable write (call-graph closure of MemSet, MemSetUpgrade, Rollback, Get, IterateRangeByStateHash inside the store packages), and Commit reaches durable writes only below Tree.Save; " +
			"(b) every delete of database records in the mavl packages sits in the frozen set of pruning functions, which Save can only reach behind the EnableMavlPrune test; removeOrphan/RemoveNode only touch memory; (c) the process-global height is only accessed under its mutex, the pending-tree table only through sync.Map methods, the node cache/orphan table only under the nodeDB mutex; " +
			"(d) every request branch of the store's message loop runs in its own goroutine bracketed by the wait group.",
		NotCovered: "that a committed root returns exactly its content (value clause); interleavings beyond the lock discipline.",
		Rules: []core.Rule{
			rule("R04a", "pending computation is memory-only; Commit writes only through Tree.Save", 6, func(r *Run) {
				cg := core.NewCallGraph(r.W)
				inStore := func(f *core.FuncInfo) bool { return f.Pkg != nil && strings.Contains(f.Pkg.PkgPath, "chain33/system/store") }
				forb := core.Names(durable...)
				writesIn := func(f *core.FuncInfo) *ast.CallExpr {
					var hit *ast.CallExpr
					core.InspectBody(f, func(x ast.Node) bool {
						if call, ok := x.(*ast.CallExpr); ok && hit == nil && forb.Has(core.Callee(f.Info(), call)) {
							hit = call
						}
						return true
					})
					return hit
				}
				for _, entry := range []string{mst + "MemSet", mst + "MemSetUpgrade", mst + "Rollback", mst + "Get", mst + "IterateRangeByStateHash"} {
					f := r.Fn(entry)
					if f == nil {
						continue
					}
					label := entry + " reaches no durable write"
					reach := cg.Reach([]*core.FuncInfo{f}, func(g *core.FuncInfo) bool { return !inStore(g) })
					bad := ""
					var names []string
					for g, chain := range reach {
						if !inStore(g) {
							continue
						}
						names = append(names, g.Name)
						if call := writesIn(g); call != nil && bad == "" {
							bad = fmt.Sprintf("%s: `%s` reached through %s", r.W.Pos(call.Pos()), core.ExprStr(call), strings.Join(chain, " → "))
						}
					}
					sort.Strings(names)
					if bad != "" {
						r.Fail(label, r.W.Pos(f.Node().Pos()), "a pending/read-only operation makes something durable: "+bad)
					} else {
						r.OK(label, r.W.Pos(f.Node().Pos()), fmt.Sprintf("%d store functions in the closure, none writes", len(names)))
					}
				}
				// Commit: every durable write in its closure lies below Tree.Save
				if f := r.Fn(mst + "Commit"); f != nil {
					label := mst + "Commit reaches durable writes only through Tree.Save"
					save := r.Fn(mdbT + "Save")
					reach := cg.Reach([]*core.FuncInfo{f}, func(g *core.FuncInfo) bool { return !inStore(g) || g == save })
					bad := ""
					for g := range reach {
						if g == save || !inStore(g) {
							continue
						}
						if call := writesIn(g); call != nil {
							bad = fmt.Sprintf("%s: `%s` in %s", r.W.Pos(call.Pos()), core.ExprStr(call), g.Name)
						}
					}
					_, viaSave := reach[save]
					if bad != "" || !viaSave {
						r.Fail(label, r.W.Pos(f.Node().Pos()), fmt.Sprintf("reachesSave=%v other write: %s", viaSave, bad))
					} else {
						r.OK(label, r.W.Pos(f.Node().Pos()), "Tree.Save is reached; no other function in the closure writes")
					}
				}
			}),
			rule("R04b", "node records are deleted only by the pruner, and only with pruning enabled", 8, func(r *Run) {
				dels := core.Names("common/db.Batch.Delete", "common/db.DB.Delete", "common/db.DB.DeleteSync")
				pruneNames := map[string]bool{}
				for k := range pruneSet {
					pruneNames[k] = true
				}
				n := 0
				for _, pp := range []string{"system/store/mavl/db", "system/store/mavl"} {
					pkg := r.W.Pkg(pp)
					if pkg == nil {
						r.Unresolved(pp)
						continue
					}
					for _, f := range r.W.AllFuncs(pkg) {
						occ := 0
						core.InspectBody(f, func(x ast.Node) bool {
							call, ok := x.(*ast.CallExpr)
							if !ok || !dels.Has(core.Callee(f.Info(), call)) {
								return true
							}
							n++
							occ++
							r.Touch(f)
							label := fmt.Sprintf("%s: delete #%d of a database record is pruning", f.Name, occ)
							if why, ok := pruneSet[f.Name]; ok {
								r.OK(label, r.W.Pos(call.Pos()), "in the frozen pruning set: "+why)
							} else if via := core.OnlyUsedBy(r, f, pruneNames); via != "" {
								r.OK(label, r.W.Pos(call.Pos()), "unexported helper used only by the pruning function(s) "+via)
							} else {
								r.Fail(label, r.W.Pos(call.Pos()), fmt.Sprintf("`%s` deletes persisted records outside the pruning functions: an older committed root may lose nodes", core.ExprStr(call)))
							}
							return true
						})
					}
				}
				if n < 8 {
					r.Fail("database deletes in the mavl packages", "-", fmt.Sprintf("expected ≥8, found %d", n))
				}
				// Save reaches the pruning set only behind EnableMavlPrune
				prune := core.BoolGuard("prune-enabled", core.Mentions(mdb+"TreeConfig.EnableMavlPrune"), true)
				core.Dominated{Fn: mdbT + "Save", Spec: &core.FlowSpec{Conds: []core.CondGuard{prune}}, Sink: core.OrSink(core.CallSink(mdb+"DelLeafCountKV"), core.GoSink(mdb+"pruning")), Need: []Fact{"prune-enabled"}, Min: 2}.Check(r)
				// orphan bookkeeping is memory-only
				core.NoCallsIn{Fns: []string{mdb + "removeOrphan", mdbD + "RemoveNode"}, Forbidden: append(append([]string{}, durable...), "common/db.Batch.Delete", "common/db.Batch.Set"), Why: "orphan bookkeeping must not touch persisted nodes"}.Check(r)
			}),
			rule("R04f", "a read at a root with no pending tree (absent entry, or the nil marker of an empty update) is served from the database", 3, func(r *Run) {
				fn := mst + "Get"
				load := "system/store/mavl/db.(*Tree).Load"
				noPending := func(c *core.Ctx, e ast.Expr) core.Tri {
					// the value found under the root is nil
					if op, ok := core.CmpAtom(c, e, core.FromCall(0, "sync.(*Map).Load"), isNilLit); ok {
						return map[bool]core.Tri{true: core.True, false: core.False}[op == token.EQL]
					}
					return core.Unknown
				}
				absent := func(c *core.Ctx, e ast.Expr) core.Tri {
					if id, ok := ast.Unparen(e).(*ast.Ident); ok && core.FromCall(1, "sync.(*Map).Load")(c, id) {
						return core.False
					}
					return core.Unknown
				}
				for _, x := range []struct {
					as   core.AssumeFn
					what string
				}{{noPending, "the entry under the root is the nil marker"}, {absent, "no entry under the root"}} {
					core.Dominated{Fn: fn, Spec: &core.FlowSpec{Assume: x.as, Calls: []core.CallGuard{called("loaded-from-db:"+core.Fact(x.what), load)}}, Sink: core.AnyReturn(),
						Need: []Fact{"loaded-from-db:" + core.Fact(x.what)}, Min: 1}.Check(r)
				}
				core.CallArgs{Fn: fn, Callee: []string{load}, What: "loads the requested root", Args: map[int]core.ExprPred{0: core.Mentions("types.StoreGet.StateHash")}, Min: 1}.Check(r)
			}),
			iterBufferRule("R04e", 3, "system/store/mavl/db"),
			rule("R04c", "shared process state is accessed under its lock", 6, func(r *Run) {
				underLock(r, mdb+"maxBlockHeight", mdb+"heightMtx", 3, nil)
				underLock(r, mdb+"nodeDB.orphans", mdb+"nodeDB.mtx", 3, map[string]string{mdb + "newNodeDB": "constructor: the value is not shared yet"})
				// every Lock in the package is released on every path
				if pkg := r.W.Pkg("system/store/mavl/db"); pkg != nil {
					for _, f := range r.W.AllFuncs(pkg) {
						has := false
						core.InspectBody(f, func(x ast.Node) bool {
							if call, ok := x.(*ast.CallExpr); ok {
								if fn := core.Callee(f.Info(), call); fn != nil && core.ShortName(fn) == "sync.(*Mutex).Lock" {
									has = true
								}
							}
							return true
						})
						if has {
							core.Paired{Fn: f.Name, Open: core.Names("sync.(*Mutex).Lock"), Close: core.Names("sync.(*Mutex).Unlock"), MinOpen: 1}.Check(r)
						}
					}
				}
				// the pending-tree table is a *sync.Map used only through its methods
				if v := fieldObj(r.W, "system/store/mavl.Store.trees"); v != nil {
					label := "system/store/mavl.Store.trees is a *sync.Map"
					if types.TypeString(v.Type(), nil) == "*sync.Map" {
						r.OK(label, r.W.Pos(v.Pos()), "concurrent map; every use is a method call by construction of the type")
					} else {
						r.Fail(label, r.W.Pos(v.Pos()), "type is "+types.TypeString(v.Type(), nil)+": concurrent MemSet/Commit/Rollback/Get would race")
					}
				} else {
					r.Unresolved("system/store/mavl.Store.trees")
				}
			}),
			rule("R04d", "each store request runs in its own goroutine inside the wait group", 8, func(r *Run) {
				f := r.Fn("system/store.(*BaseStore).processMessage")
				if f == nil {
					return
				}
				c := f.Ctx()
				n := 0
				core.InspectBody(f, func(x ast.Node) bool {
					gs, ok := x.(*ast.GoStmt)
					if !ok {
						return true
					}
					n++
					label := fmt.Sprintf("%s: request goroutine #%d is bracketed by the wait group", f.Name, n)
					lit, ok := ast.Unparen(gs.Call.Fun).(*ast.FuncLit)
					done := false
					if ok {
						ast.Inspect(lit.Body, func(y ast.Node) bool {
							if call, isCall := y.(*ast.CallExpr); isCall {
								if fn := core.Callee(c.Info, call); fn != nil && core.ShortName(fn) == "sync.(*WaitGroup).Done" {
									done = true
								}
							}
							return true
						})
					}
					// wg.Add(1) is the statement before the go statement
					added := false
					if blk, isBlk := r.W.Parent(gs).(*ast.BlockStmt); isBlk {
						for i, s := range blk.List {
							if s == ast.Stmt(gs) && i > 0 {
								if es, isES := blk.List[i-1].(*ast.ExprStmt); isES {
									if call, isCall := es.X.(*ast.CallExpr); isCall {
										if fn := core.Callee(c.Info, call); fn != nil && core.ShortName(fn) == "sync.(*WaitGroup).Add" {
											added = true
										}
									}
								}
							}
						}
					} else if cc, isCC := r.W.Parent(gs).(*ast.CaseClause); isCC {
						for i, s := range cc.Body {
							if s == ast.Stmt(gs) && i > 0 {
								if es, isES := cc.Body[i-1].(*ast.ExprStmt); isES {
									if call, isCall := es.X.(*ast.CallExpr); isCall {
										if fn := core.Callee(c.Info, call); fn != nil && core.ShortName(fn) == "sync.(*WaitGroup).Add" {
											added = true
										}
									}
								}
							}
						}
					}
					if done && added {
						r.OK(label, r.W.Pos(gs.Pos()), "wg.Add(1) immediately before, wg.Done() inside")
					} else {
						r.Fail(label, r.W.Pos(gs.Pos()), fmt.Sprintf("wg.Add before=%v, wg.Done inside=%v: Close could return while the request still uses the database", added, done))
					}
					return false // goroutines started inside a request goroutine (error reporting) are not request handlers
				})
				if n < 8 {
					r.Fail(f.Name+": request goroutines", r.W.Pos(f.Node().Pos()), fmt.Sprintf("expected ≥8 go statements, found %d", n))
				}
			}),
		},
	})

	// ------------------------------------------------------------------ C05
	register(&core.Property{
		ID:       "C05",
		Title:    "State pruning never deletes live state",
		Packages: []string{"system/store/mavl/db"},
		Explanation: "Decides three ordering/ownership conditions, R05a-R05c: when a height is being re-committed, the stale per-leaf version-index entries of that height are dropped before the new tree's nodes and index entries are queued and committed (otherwise a later pruning run deletes a live leaf through a stale entry); " +
			"the background pruner is started only when none is running and only from Save, and the deleting functions are reachable only from the pruner (no second deleter); the global maximum height that drives the re-commit test is read and written under its mutex.",
		NotCovered: "which versions are live — the keep-the-newest-older-than-the-interval logic of deleteNode/deleteOldNode is a function of runtime heights and not decided.",
		Rules: []core.Rule{
			rule("R05a", "stale version-index entries are dropped before the re-committed height is saved", 5, func(r *Run) {
				fn := mdbT + "Save"
				core.NotAfter{Fn: fn, Early: []string{mdb + "DelLeafCountKV"}, Late: []string{mdbN + "save", mdbD + "Commit"}, Name: "DelLeafCountKV precedes root.save and Commit", Min: 2}.Check(r)
				// and it does run whenever the height is a re-commit (under pruning)
				core.Dominated{Fn: fn, Spec: &core.FlowSpec{
					Calls: []core.CallGuard{{Fact: "stale-dropped", Callee: core.Names(mdb + "DelLeafCountKV"), Pass: core.OCalled, NoArgDeps: true,
						ArgOK: func(c *core.Ctx, call *ast.CallExpr) bool { return len(call.Args) == 3 && core.Mentions(mdb + "Tree.blockHeight")(c, call.Args[1]) }}},
					Assume: func(c *core.Ctx, e ast.Expr) core.Tri {
						if core.Mentions(mdb+"TreeConfig.EnableMavlPrune")(c, e) {
							if _, isSel := ast.Unparen(e).(*ast.SelectorExpr); isSel {
								return core.True
							}
						}
						if callTo(mdbT+"isRemoveLeafCountKey")(c, e) {
							return core.True
						}
						if op, ok := core.CmpAtom(c, e, core.Mentions(mdb+"Tree.config"), func(c *core.Ctx, e ast.Expr) bool { return isNilLit(c, e) }); ok {
							return core.Tri(map[token.Token]int8{token.NEQ: int8(core.True), token.EQL: int8(core.False)}[op])
						}
						if op, ok := core.CmpAtom(c, e, core.Mentions(mdb+"Tree.ndb"), func(c *core.Ctx, e ast.Expr) bool { return isNilLit(c, e) }); ok {
							return core.Tri(map[token.Token]int8{token.NEQ: int8(core.True), token.EQL: int8(core.False)}[op])
						}
						return core.Unknown
					}}, Sink: core.CallSink(mdbN + "save"), Need: []Fact{"stale-dropped"}, Min: 1}.Check(r)
				// no path hands out a root (non-nil result) of a database-backed tree under pruning without having
				// dropped the stale index entries, queued the nodes and recorded the height's root hash — an
				// "unchanged tree" shortcut would leave the losing branch's index entries behind
				prune := func(c *core.Ctx, e ast.Expr) core.Tri {
					if core.Mentions(mdb+"TreeConfig.EnableMavlPrune")(c, e) {
						if _, isSel := ast.Unparen(e).(*ast.SelectorExpr); isSel {
							return core.True
						}
					}
					if callTo(mdbT+"isRemoveLeafCountKey")(c, e) {
						return core.True
					}
					for _, fld := range []string{"config", "ndb", "root"} {
						if op, ok := core.CmpAtom(c, e, core.IsObj(mdb+"Tree."+fld), isNilLit); ok {
							return map[bool]core.Tri{true: core.True, false: core.False}[op == token.NEQ]
						}
					}
					return core.Unknown
				}
				core.Dominated{Fn: fn, Spec: &core.FlowSpec{Assume: prune, Calls: []core.CallGuard{
					called("stale-dropped", mdb+"DelLeafCountKV"), called("nodes-queued", mdbN+"save"), called("root-hash-recorded", mdbN+"saveRootHash")}},
					Sink: core.SinkPred{Label: "return of a root hash", Match: func(fl *core.Flow, n *core.GNode) bool {
						rs, ok := n.Ast.(*ast.ReturnStmt)
						return ok && len(rs.Results) == 1 && !isNilLit(fl.C, rs.Results[0])
					}}, Need: []Fact{"stale-dropped", "nodes-queued", "root-hash-recorded"}, Min: 1}.Check(r)
			}),
			rule("R05b", "one pruner at a time, started only from Save; deleters reachable only from the pruner", 6, func(r *Run) {
				notRunning := core.CondGuard{Fact: "no-pruner-running", Match: func(c *core.Ctx, atom ast.Expr) (bool, bool) {
					if callTo(mdb+"isPruning")(c, atom) {
						return true, false
					}
					return false, false
				}}
				core.Dominated{Fn: mdbT + "Save", Spec: &core.FlowSpec{Conds: []core.CondGuard{notRunning}}, Sink: core.GoSink(mdb + "pruning"), Need: []Fact{"no-pruner-running"}, Min: 1}.Check(r)
				core.WhoMayCall{Targets: []string{mdb + "pruning"}, Allowed: []string{mdbT + "Save"}, Min: 1}.Check(r)
				core.WhoMayCall{Targets: []string{mdb + "deleteNode"}, Allowed: []string{mdb + "pruningFirstLevelNode"}, Min: 1}.Check(r)
				core.WhoMayCall{Targets: []string{mdb + "deleteOldNode"}, Allowed: []string{mdb + "pruningSecondLevelNode"}, Min: 1}.Check(r)
				core.WhoMayCall{Targets: []string{mdb + "pruningFirstLevelNode", mdb + "pruningSecondLevelNode", mdb + "pruningFirstLevel", mdb + "pruningSecondLevel"},
					Allowed: []string{mdb + "pruningFirstLevel", mdb + "pruningSecondLevel", mdb + "pruningTree"}, Min: 4}.Check(r)
				core.WhoMayCall{Targets: []string{mdb + "pruningTree"}, Allowed: []string{mdb + "pruning", mdb + "PruningTree"}, Min: 1}.Check(r)
			}),
			iterBufferRule("R05d", 3, "system/store/mavl/db"),
			rule("R05c", "the global maximum height is read and written under its mutex", 3, func(r *Run) {
				underLock(r, mdb+"maxBlockHeight", mdb+"heightMtx", 3, nil)
			}),
		},
	})
}
