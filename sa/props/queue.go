package props

import (
	"fmt"
	"go/ast"
	"go/token"
	"go/types"
	"strings"

	"verif/sa/core"
)

// chanOp is one channel operation with its syntactic context.
type chanOp struct {
	f       *core.FuncInfo // outermost function
	pos     token.Pos
	send    bool
	ch      ast.Expr
	sel     *ast.SelectStmt // enclosing select if the op is a comm clause
	escapes []string        // other arms of the select: "default", "recv <expr>"
}

func chanOpsIn(w *core.World, f *core.FuncInfo) []chanOp {
	var out []chanOp
	info := f.Info()
	var stack []ast.Node
	core.InspectBody(f, func(x ast.Node) bool {
		if x == nil {
			stack = stack[:len(stack)-1]
			return true
		}
		stack = append(stack, x)
		var op *chanOp
		switch s := x.(type) {
		case *ast.SendStmt:
			op = &chanOp{f: f, pos: s.Pos(), send: true, ch: s.Chan}
		case *ast.UnaryExpr:
			if s.Op == token.ARROW {
				op = &chanOp{f: f, pos: s.Pos(), ch: s.X}
			}
		case *ast.RangeStmt:
			if t := info.TypeOf(s.X); t != nil {
				if _, isChan := t.Underlying().(*types.Chan); isChan {
					op = &chanOp{f: f, pos: s.Pos(), ch: s.X}
				}
			}
		}
		if op == nil {
			return true
		}
		// is the op the communication of a CommClause?
		for i := len(stack) - 2; i >= 0 && i >= len(stack)-4; i-- {
			cc, ok := stack[i].(*ast.CommClause)
			if !ok {
				continue
			}
			inComm := cc.Comm != nil && cc.Comm.Pos() <= op.pos && op.pos < cc.Comm.End()
			if !inComm {
				break
			}
			if i >= 2 {
				if sel, ok := stack[i-2].(*ast.SelectStmt); ok {
					op.sel = sel
					for _, cl := range sel.Body.List {
						o := cl.(*ast.CommClause)
						if o == cc {
							continue
						}
						if o.Comm == nil {
							op.escapes = append(op.escapes, "default")
							continue
						}
						desc := "send"
						ast.Inspect(o.Comm, func(y ast.Node) bool {
							if u, ok := y.(*ast.UnaryExpr); ok && u.Op == token.ARROW {
								desc = "recv " + core.CanonExpr(f.Ctx(), u.X)
							}
							return true
						})
						op.escapes = append(op.escapes, desc)
					}
				}
			}
			break
		}
		out = append(out, *op)
		return true
	})
	return out
}

func init() {
	qc := "queue.(*client)."
	qq := "queue.(*queue)."
	register(&core.Property{
		ID:       "C36",
		Title:    "Message bus delivers each reply to its own request",
		Packages: []string{"queue", "util", "executor", "client", "system/mempool"},
		Explanation: "Decides R36a-R36d: every send to a topic channel and every wait for a reply that can block sits in a select with a close/done arm, a timer or a default; a request message is handed back to the pool only after its reply was consumed by a successful wait; " +
			"every close of a channel in the bus is protected against a second close (sync.Once, compare-and-swap, or a flag tested and set under one mutex); the send paths test the closed state before they can block.",
		NotCovered:  "absence of cross-talk between requests as such (a property of schedules); the subscriber pump's sends to the client's receive channel (the consumer drains it until Close closes it — assumption).",
		Assumptions: []string{"reply channels are buffered with capacity 1 by construction (NewMessage, msgPool.New) and receive one reply per request"},
		Rules: []core.Rule{
			rule("R36a", "blocking operations on topic and reply channels have an escape", 8, func(r *Run) {
				pkg := r.W.Pkg("queue")
				if pkg == nil {
					r.Unresolved("queue")
					return
				}
				topic := func(c *core.Ctx, e ast.Expr) string {
					switch {
					case core.IsObj("queue.chanSub.high")(c, e):
						return "sub.high"
					case core.IsObj("queue.chanSub.low")(c, e):
						return "sub.low"
					case core.IsObj("queue.Message.chReply")(c, e):
						return "chReply"
					}
					return ""
				}
				n := 0
				for _, f := range r.W.AllFuncs(pkg) {
					c := f.Ctx()
					occ := map[string]int{}
					for _, op := range chanOpsIn(r.W, f) {
						which := topic(c, op.ch)
						if which == "" {
							continue
						}
						kind := "receive from"
						if op.send {
							kind = "send to"
						}
						occ[kind+which]++
						label := fmt.Sprintf("%s: %s %s #%d cannot block for ever", f.Name, kind, which, occ[kind+which])
						n++
						r.Touch(f)
						if which == "chReply" && op.send {
							r.Exception(label, "reply channel buffered(1) by construction, one reply per request")
							r.OK(label, r.W.Pos(op.pos), "frozen exception: buffered reply channel")
							continue
						}
						hasEscape := false
						for _, e := range op.escapes {
							if e == "default" || e == "recv $recv.done" || len(e) > 5 && e[:5] == "recv " {
								hasEscape = true
							}
						}
						if op.sel != nil && hasEscape {
							r.OK(label, r.W.Pos(op.pos), fmt.Sprintf("select with escape arm(s) %v", op.escapes))
						} else {
							r.Fail(label, r.W.Pos(op.pos), "bare channel operation: if the subscriber is gone (topic or client closed after the channel was looked up) and the buffer is full, the caller blocks for ever instead of getting an error")
						}
					}
				}
				if n < 8 {
					r.Fail("channel operations on topic/reply channels", "-", fmt.Sprintf("expected ≥8, found %d", n))
				}
			}),
			rule("R36b", "a message is recycled only after its reply was consumed", 4, func(r *Run) {
				free := []string{"queue.Client.FreeMessage", "queue.(*client).FreeMessage"}
				// client.(*QueueProtocol).send is the send+wait wrapper: its success means the reply was consumed
				wait := []string{"queue.Client.Wait", "queue.Client.WaitTimeout", "client.(*QueueProtocol).send"}
				n := 0
				// (package queue itself is included: the bus must never recycle a request on behalf of the requester,
				// e.g. on a timeout, while a responder may still hold it)
				for _, pp := range []string{"queue", "util", "executor", "client", "system/mempool"} {
					pkg := r.W.Pkg(pp)
					if pkg == nil {
						r.Unresolved("package " + pp)
						continue
					}
					for _, f := range r.W.AllFuncs(pkg) {
						has := false
						core.InspectBody(f, func(x ast.Node) bool {
							if call, ok := x.(*ast.CallExpr); ok && core.Names(free...).Has(core.Callee(f.Info(), call)) {
								has = true
							}
							return true
						})
						if !has {
							continue
						}
						n++
						// deferred frees run at exit: the defer statement itself must be behind the successful wait
						core.Dominated{Fn: f.Name, Spec: spec(errNil("reply-consumed", wait...)), Sink: core.SinkPred{Label: "FreeMessage", Match: func(fl *core.Flow, nd *core.GNode) bool {
							if nd.Ast == nil || nd.Go {
								return false
							}
							calls := core.CallsIn(nd.Ast)
							if nd.Defer {
								calls = core.DeferredCalls(nd.Ast)
							}
							for _, call := range calls {
								if core.Names(free...).Has(core.Callee(fl.C.Info, call)) {
									return true
								}
							}
							return false
						}}, Need: []Fact{"reply-consumed"}, Min: 1}.Check(r)
					}
				}
				if n < 4 {
					r.Fail("functions that recycle messages", "-", fmt.Sprintf("expected ≥4, found %d", n))
				}
				// FreeMessage itself never pools a message without a reply channel and clears the payload
				core.Dominated{Fn: qc + "FreeMessage", Spec: &core.FlowSpec{Conds: []core.CondGuard{core.RelGuard("has-reply-chan", core.Mentions("queue.Message.chReply"), token.NEQ, isNilLit)}},
					Sink: core.CallSink("sync.(*Pool).Put"), Need: []Fact{"has-reply-chan"}, Min: 1}.Check(r)
			}),
			rule("R36c", "no channel of the bus can be closed twice", 4, func(r *Run) {
				pkg := r.W.Pkg("queue")
				if pkg == nil {
					return
				}
				n := 0
				for _, f := range append(r.W.AllFuncs(pkg)) {
					bodies := append([]*core.FuncInfo{f}, f.Closures()...)
					for _, b := range bodies {
						c := b.Ctx()
						fl := core.RunFlow(b, &core.FlowSpec{})
						_ = fl
						var stack []ast.Node
						core.InspectBody(b, func(x ast.Node) bool {
							if x == nil {
								stack = stack[:len(stack)-1]
								return true
							}
							stack = append(stack, x)
							if _, isLit := x.(*ast.FuncLit); isLit && x != ast.Node(b.Lit) {
								stack = stack[:len(stack)-1]
								return false
							}
							call, ok := x.(*ast.CallExpr)
							if !ok || !core.IsBuiltinCall(c.Info, call, "close") {
								return true
							}
							n++
							r.Touch(f)
							label := fmt.Sprintf("%s: close(%s) happens at most once", f.Name, core.CanonExpr(c, call.Args[0]))
							// (1) inside a closure passed to sync.Once.Do
							once := false
							if b.Lit != nil {
								if p, ok := r.W.Parent(b.Lit).(*ast.CallExpr); ok && core.ShortName(core.Callee(b.Encl.Info(), p)) == "sync.(*Once).Do" {
									once = true
								}
							}
							// (2) under a mutex held by the function, with a flag tested earlier in the function
							lockedFlag := false
							root := b
							for root.Encl != nil {
								root = root.Encl
							}
							hasLock, hasFlagTest := false, false
							core.InspectBody(root, func(y ast.Node) bool {
								switch s := y.(type) {
								case *ast.CallExpr:
									if nm := core.ShortName(core.Callee(root.Info(), s)); nm == "sync.(*Mutex).Lock" || nm == "sync.(*RWMutex).Lock" {
										hasLock = true
									}
								case *ast.BinaryExpr:
									if core.Mentions("queue.chanSub.isClose")(root.Ctx(), s) && s.Pos() < call.Pos() {
										hasFlagTest = true
									}
								}
								return true
							})
							lockedFlag = hasLock && hasFlagTest
							// (3) compare-and-swap gate dominating the close
							cas := false
							flc := core.RunFlow(b, spec(isTrue("won-cas", "sync/atomic.CompareAndSwapInt32")))
							if nd := flc.G.NodeContaining(call.Pos()); nd != nil && flc.In[nd].Has("won-cas") {
								cas = true
							}
							// (4) a deferred close of a channel created in the same function (owner closes once)
							owner := false
							if id, ok := ast.Unparen(call.Args[0]).(*ast.Ident); ok {
								for _, d := range c.DefsOf(c.Info.ObjectOf(id)) {
									if mk, ok := ast.Unparen(d.Rhs).(*ast.CallExpr); ok && d.Rhs != nil && core.IsBuiltinCall(c.Info, mk, "make") {
										owner = true
									}
								}
							}
							switch {
							case once:
								r.OK(label, r.W.Pos(call.Pos()), "inside sync.Once.Do")
							case lockedFlag:
								r.OK(label, r.W.Pos(call.Pos()), "closed flag tested and the entry replaced under the queue mutex")
							case cas:
								r.OK(label, r.W.Pos(call.Pos()), "behind a successful compare-and-swap")
							case owner:
								r.OK(label, r.W.Pos(call.Pos()), "channel created and closed by the same function activation")
							default:
								r.Fail(label, r.W.Pos(call.Pos()), "the close is only guarded by a non-atomic test of a flag that is set later: two concurrent callers both pass the test and the second close panics")
							}
							return true
						})
					}
				}
				if n < 4 {
					r.Fail("close() calls in package queue", "-", fmt.Sprintf("expected ≥4, found %d", n))
				}
			}),
			rule("R36d", "the closed state is tested before a send can block; waits see both close signals", 8, func(r *Run) {
				for _, fn := range []string{qq + "send", qq + "sendAsyn", qq + "sendLowTimeout"} {
					core.FailStops{Fn: fn, Callee: []string{qq + "isClosed"}, Fail: core.OTrue, Idx: -1, Forbidden: core.CallSink(qq + "chanSub"), Min: 1, Name: "queue closed"}.Check(r)
					core.RejectWhen{Fn: fn, Name: "topic closed", L: core.Mentions("queue.chanSub.isClose"), R: core.IsConstInt(1), Rel: token.EQL, Sentinel: "types.ErrChannelClosed"}.Check(r)
				}
				core.FailStops{Fn: qc + "SendTimeout", Callee: []string{qc + "isClose"}, Fail: core.OTrue, Idx: -1, Forbidden: core.CallSink(qq+"send", qq+"sendLowTimeout"), Min: 1, Name: "client closed"}.Check(r)
				core.LiveReturn{Fn: qc + "SendTimeout", Sentinels: []string{"queue.ErrIsQueueClosed"}}.Check(r)
				// WaitTimeout: the reply wait has arms for topic close and client close
				f := r.Fn(qc + "WaitTimeout")
				if f != nil {
					c := f.Ctx()
					for _, op := range chanOpsIn(r.W, f) {
						if !core.IsObj("queue.Message.chReply")(c, op.ch) || op.send {
							continue
						}
						want := map[string]bool{"topic close (sub.done)": false, "client close (client.done)": false}
						for _, e := range op.escapes {
							if e == "recv $recv.done" {
								want["client close (client.done)"] = true
							}
							if strings.Contains(e, "chanSub(") && strings.HasSuffix(e, ".done") {
								want["topic close (sub.done)"] = true
							}
						}
						label := qc + "WaitTimeout: the reply wait is woken by topic close and by client close"
						missing := ""
						for k, v := range want {
							if !v {
								missing += " [" + k + "]"
							}
						}
						if missing == "" {
							r.OK(label, r.W.Pos(op.pos), fmt.Sprint(op.escapes))
						} else {
							r.Fail(label, r.W.Pos(op.pos), "missing wake-up arm(s):"+missing+fmt.Sprintf(" (found %v)", op.escapes))
						}
					}
					core.LiveReturn{Fn: qc + "WaitTimeout", Sentinels: []string{"types.ErrChannelClosed", "queue.ErrIsQueueClosed", "queue.ErrQueueTimeout"}}.Check(r)
				}
			}),
		},
	})
}
