package props

import (
	"fmt"
	"go/ast"
	"go/token"
	"go/types"
	"strings"

	"verif/sa/core"
)

const (
	ldbIt  = "common/db.(*goLevelDBIt)."
	bdgIt  = "common/db.(*goBadgerDBIt)."
	lvlIt  = "github.com/syndtr/goleveldb/leveldb/iterator."
	bdg    = "github.com/dgraph-io/badger."
	memB   = "common/db.(*memBatch)."
	lvlB   = "common/db.(*goLevelDBBatch)."
	bdgB   = "common/db.(*GoBadgerDBBatch)."
	itBase = "common/db.itBase"
)

// conjuncts splits a && b && c.
func conjuncts(e ast.Expr) []ast.Expr {
	e = ast.Unparen(e)
	if b, ok := e.(*ast.BinaryExpr); ok && b.Op == token.LAND {
		return append(conjuncts(b.X), conjuncts(b.Y)...)
	}
	return []ast.Expr{e}
}

// everyBoolReturnHas: every return of fn whose (single) result is not a
// constant has, among its top-level conjuncts, one satisfying each pred.  A
// result that is a plain local variable is resolved through its definitions.
func everyBoolReturnHas(r *Run, fn, what string, exempt func(c *core.Ctx, res ast.Expr) (bool, string), preds ...core.ExprPred) {
	f := r.Fn(fn)
	if f == nil {
		return
	}
	c := f.Ctx()
	n := 0
	for _, ret := range f.Graph().Returns() {
		rs, ok := ret.Ast.(*ast.ReturnStmt)
		if !ok || len(rs.Results) != 1 {
			continue
		}
		n++
		res := ast.Unparen(rs.Results[0])
		label := fmt.Sprintf("%s return#%d %s", f.Name, n, what)
		if tv, isC := c.Info.Types[res]; isC && tv.Value != nil {
			r.OK(label, r.W.Pos(rs.Pos()), "constant result")
			continue
		}
		if exempt != nil {
			if ok, why := exempt(c, res); ok {
				r.Exception(label, why)
				r.OK(label, r.W.Pos(rs.Pos()), "frozen exception: "+why)
				continue
			}
		}
		exprs := []ast.Expr{res}
		if id, isId := res.(*ast.Ident); isId {
			if defs := c.DefsOf(c.Info.ObjectOf(id)); len(defs) > 0 {
				exprs = nil
				for _, d := range defs {
					if d.Rhs != nil {
						exprs = append(exprs, d.Rhs)
					}
				}
			}
		}
		good := len(exprs) > 0
		for _, ex := range exprs {
			cs := conjuncts(ex)
			for _, p := range preds {
				found := false
				for _, cj := range cs {
					if p(c, cj) {
						found = true
					}
				}
				if !found {
					good = false
				}
			}
		}
		if good {
			r.OK(label, r.W.Pos(rs.Pos()), core.ExprStr(res))
		} else {
			r.Fail(label, r.W.Pos(rs.Pos()), fmt.Sprintf("`%s` is not a conjunction containing the required test(s)", core.ExprStr(res)))
		}
	}
	if n == 0 {
		r.Fail(fmt.Sprintf("%s %s", f.Name, what), r.W.Pos(f.Node().Pos()), "no return with a result found")
	}
}

// mayDeriveFrom holds for an expression that mentions q, or for a local variable
// at least one of whose definitions mentions q (a flag initialised to a default
// and overwritten by the test).
func mayDeriveFrom(q string) core.ExprPred {
	return func(c *core.Ctx, e ast.Expr) bool {
		if core.Mentions(q)(c, e) {
			return true
		}
		id, ok := ast.Unparen(e).(*ast.Ident)
		if !ok {
			return false
		}
		for _, d := range c.DefsOf(c.Info.ObjectOf(id)) {
			if d.Rhs != nil && core.Mentions(q)(c, d.Rhs) {
				return true
			}
		}
		return false
	}
}

// compareAtom recognises the comparison of bytes.Compare(a, b) with 0 and
// returns the relation that holds between a and b when the atom is true.
func compareAtom(c *core.Ctx, e ast.Expr, a, b core.ExprPred) (token.Token, bool) {
	isCmp := func(x, y core.ExprPred) core.ExprPred {
		return func(c *core.Ctx, e ast.Expr) bool {
			call, ok := ast.Unparen(e).(*ast.CallExpr)
			if !ok || len(call.Args) != 2 {
				return false
			}
			fn := core.Callee(c.Info, call)
			return fn != nil && core.ShortName(fn) == "bytes.Compare" && x(c, call.Args[0]) && y(c, call.Args[1])
		}
	}
	if op, ok := core.CmpAtom(c, e, isCmp(a, b), core.IsConstInt(0)); ok {
		return op, true
	}
	if op, ok := core.CmpAtom(c, e, isCmp(b, a), core.IsConstInt(0)); ok {
		// Compare(b,a) op 0  ⇔  a mirror(op) b
		m := map[token.Token]token.Token{token.LSS: token.GTR, token.LEQ: token.GEQ, token.GTR: token.LSS, token.GEQ: token.LEQ, token.EQL: token.EQL, token.NEQ: token.NEQ}
		return m[op], true
	}
	return 0, false
}

// boundAtom requires that fn contains exactly the comparison `key rel bound`
// (through bytes.Compare, any orientation, a negated complementary test is the
// same test).
func boundAtom(r *Run, fn string, key, bound core.ExprPred, rel token.Token, what string) {
	f := r.Fn(fn)
	if f == nil {
		return
	}
	c := f.Ctx()
	neg := map[token.Token]token.Token{token.LSS: token.GEQ, token.LEQ: token.GTR, token.GTR: token.LEQ, token.GEQ: token.LSS, token.EQL: token.NEQ, token.NEQ: token.EQL}
	label := fmt.Sprintf("%s: %s", f.Name, what)
	var seen []string
	okPos := token.NoPos
	core.InspectBody(f, func(x ast.Node) bool {
		e, isE := x.(ast.Expr)
		if !isE {
			return true
		}
		if op, ok := compareAtom(c, e, key, bound); ok {
			seen = append(seen, core.ExprStr(e))
			if op == rel || neg[op] == rel {
				okPos = e.Pos()
			}
			return false
		}
		return true
	})
	if okPos != token.NoPos {
		r.OK(label, r.W.Pos(okPos), strings.Join(seen, "; "))
	} else {
		r.Fail(label, r.W.Pos(f.Node().Pos()), fmt.Sprintf("required comparison `key %s bound` not found; comparisons of these operands found: %v", rel, seen))
	}
}

func init() {
	iterFns := []string{"common/db.(*GoLevelDB).Iterator", "common/db.(*goLevelDBTx).Iterator", "common/db.(*GoMemDB).Iterator", "common/db.(*GoBadgerDB).Iterator"}
	recvField := func(name string) core.ExprPred {
		return func(c *core.Ctx, e ast.Expr) bool {
			sel, ok := ast.Unparen(e).(*ast.SelectorExpr)
			if !ok || sel.Sel.Name != name {
				return false
			}
			v, ok := c.Info.ObjectOf(sel.Sel).(*types.Var)
			return ok && v.IsField()
		}
	}
	register(&core.Property{
		ID:       "C06",
		Title:    "Key-value backends agree with an ordered-map model",
		Packages: []string{"common/db"},
		Explanation: "Sibling-agreement and ordering clauses R06a-R06e for the in-memory, LevelDB (database and transaction) and Badger backends: every Iterator constructor normalises a missing end bound to the prefix upper bound of start and the 'unbounded' marker to no bound, and hands start, end and direction unchanged to the iterator; " +
			"every iterator's Valid is the conjunction of the underlying iterator's validity and the range filter, every stepping/rewinding method reports that Valid, and the range filter treats start as inclusive and end as EXCLUSIVE (the prefix upper bound is the first key after the prefix; LevelDB's own range limit is exclusive); " +
			"stepping, rewinding and reverse seeking use the underlying primitive of the iterator's direction, and a reverse positioning on the exclusive end steps over an exact hit; a batch records operations by appending, applies them first to last, keeps deletes apart from (possibly empty) values and returns the write error; point reads report a missing key with ErrNotFoundInDb.",
		NotCovered: "seek/rewind landing positions for particular key shapes, 0xff prefixes in bytesPrefix, and the third-party engines themselves (V: generated operation sequences against a sorted-map model).",
		Rules: []core.Rule{
			rule("R06a", "every Iterator constructor normalises the bounds the same way and passes them on unchanged", 24, func(r *Run) {
				for _, ctor := range iterFns {
					f := r.Fn(ctor)
					if f == nil {
						continue
					}
					// the normalisation may live in the constructor or in a helper of the package the constructor
					// hands (start, end) to and whose result becomes the end bound: `end = helper(start, end)`
					fn, pStart, pEnd := ctor, "param:0", "param:1"
					if !calleeSet(f)["common/db.bytesPrefix"] {
						c0 := f.Ctx()
						core.InspectBody(f, func(x ast.Node) bool {
							as, ok := x.(*ast.AssignStmt)
							if !ok || len(as.Lhs) != 1 || len(as.Rhs) != 1 || !core.IsObj("param:1")(c0, as.Lhs[0]) {
								return true
							}
							call, ok := ast.Unparen(as.Rhs[0]).(*ast.CallExpr)
							if !ok {
								return true
							}
							h := r.W.FuncOf(core.Callee(c0.Info, call))
							if h == nil || h.Pkg != f.Pkg || !calleeSet(h)["common/db.bytesPrefix"] {
								return true
							}
							si, ei := -1, -1
							for i, a := range call.Args {
								if core.IsObj("param:0")(c0, a) {
									si = i
								}
								if core.IsObj("param:1")(c0, a) {
									ei = i
								}
							}
							if si >= 0 && ei >= 0 {
								fn, pStart, pEnd = h.Name, fmt.Sprintf("param:%d", si), fmt.Sprintf("param:%d", ei)
								r.OK(fmt.Sprintf("%s normalises its end bound through %s(start, end)", f.Name, h.Name), r.W.Pos(as.Pos()), "end = helper(start, end); the helper is checked in the constructor's place")
							}
							return true
						})
					}
					endNil := core.RelGuard("end-missing", core.IsObj(pEnd), token.EQL, isNilLit)
					core.Dominated{Fn: fn, Spec: &core.FlowSpec{Conds: []core.CondGuard{endNil}}, Sink: core.CallSink("common/db.bytesPrefix"), Need: []Fact{"end-missing"}, Min: 1}.Check(r)
					core.Dominated{Fn: fn, Spec: &core.FlowSpec{Assume: core.AssumeRel(core.IsObj(pEnd), token.EQL, isNilLit, core.True), Calls: []core.CallGuard{called("prefix-bound", "common/db.bytesPrefix")}},
						Sink: core.AnyReturn(), Need: []Fact{"prefix-bound"}, Min: 1}.Check(r)
					core.CallArgs{Fn: fn, Callee: []string{"common/db.bytesPrefix"}, What: "upper bound of the start prefix", Args: map[int]core.ExprPred{0: core.IsObj(pStart)}, Min: 1}.Check(r)
					// EmptyValue ⇒ end = nil (or, in a helper, `return nil`)
					unb := core.BoolGuard("unbounded-marker", core.CallAtomSym("bytes.Equal", core.IsObj(pEnd), core.IsObj("types.EmptyValue")), true)
					core.Dominated{Fn: fn, Spec: &core.FlowSpec{Conds: []core.CondGuard{unb}}, Sink: core.SinkPred{Label: "end = nil", Match: func(fl *core.Flow, n *core.GNode) bool {
						if as, ok := n.Ast.(*ast.AssignStmt); ok {
							return len(as.Lhs) == 1 && len(as.Rhs) == 1 && core.IsObj(pEnd)(fl.C, as.Lhs[0]) && isNilLit(fl.C, as.Rhs[0])
						}
						if rs, ok := n.Ast.(*ast.ReturnStmt); ok && fn != ctor {
							return len(rs.Results) == 1 && isNilLit(fl.C, rs.Results[0])
						}
						return false
					}}, Need: []Fact{"unbounded-marker"}, Min: 1}.Check(r)
					// itBase{start, end, reverse}
					c := f.Ctx()
					label := fmt.Sprintf("%s hands (start, end, reverse) unchanged to the iterator's range filter", f.Name)
					found, good := false, false
					var pos token.Pos
					core.InspectBody(f, func(x ast.Node) bool {
						cl, ok := x.(*ast.CompositeLit)
						if !ok {
							return true
						}
						if t := c.Info.TypeOf(cl); t == nil || core.TypeShort(t) != itBase {
							return true
						}
						found, pos = true, cl.Pos()
						vals := map[string]ast.Expr{}
						names := []string{"start", "end", "reverse"}
						for i, el := range cl.Elts {
							if kv, isKV := el.(*ast.KeyValueExpr); isKV {
								if id, isId := kv.Key.(*ast.Ident); isId {
									vals[id.Name] = kv.Value
								}
							} else if i < 3 {
								vals[names[i]] = el
							}
						}
						good = vals["start"] != nil && vals["end"] != nil && vals["reverse"] != nil &&
							core.IsObj("param:0")(c, vals["start"]) && core.IsObj("param:1")(c, vals["end"]) && core.IsObj("param:2")(c, vals["reverse"])
						return true
					})
					switch {
					case !found:
						r.Fail(label, r.W.Pos(f.Node().Pos()), "no itBase literal in the constructor")
					case good:
						r.OK(label, r.W.Pos(pos), "itBase{start, end, reverse}")
					default:
						r.Fail(label, r.W.Pos(pos), "the range filter does not receive the constructor's own start, end and reverse parameters")
					}
				}
				// LevelDB-engine ranges: util.Range{Start: start, Limit: end}
				for _, fn := range iterFns[:3] {
					f := r.Fn(fn)
					if f == nil {
						continue
					}
					c := f.Ctx()
					label := fmt.Sprintf("%s bounds the engine iterator by Range{Start: start, Limit: end}", f.Name)
					good, pos := false, f.Node().Pos()
					core.InspectBody(f, func(x ast.Node) bool {
						cl, ok := x.(*ast.CompositeLit)
						if !ok {
							return true
						}
						if t := c.Info.TypeOf(cl); t == nil || !strings.HasSuffix(core.TypeShort(t), "leveldb/util.Range") {
							return true
						}
						pos = cl.Pos()
						var st, li ast.Expr
						for i, el := range cl.Elts {
							if kv, isKV := el.(*ast.KeyValueExpr); isKV {
								if id, isId := kv.Key.(*ast.Ident); isId && id.Name == "Start" {
									st = kv.Value
								} else if isId && id.Name == "Limit" {
									li = kv.Value
								}
							} else if i == 0 {
								st = el
							} else if i == 1 {
								li = el
							}
						}
						good = st != nil && li != nil && core.IsObj("param:0")(c, st) && core.IsObj("param:1")(c, li)
						return true
					})
					if good {
						r.OK(label, r.W.Pos(pos), "Range{Start: start, Limit: end}")
					} else {
						r.Fail(label, r.W.Pos(pos), "the engine range is not built from the constructor's start and (normalised) end")
					}
				}
				// Badger: direction goes into the iterator options
				if f := r.Fn(iterFns[3]); f != nil {
					c := f.Ctx()
					good, pos := false, f.Node().Pos()
					core.InspectBody(f, func(x ast.Node) bool {
						if as, ok := x.(*ast.AssignStmt); ok && len(as.Lhs) == 1 && len(as.Rhs) == 1 && recvField("Reverse")(c, as.Lhs[0]) {
							pos = as.Pos()
							good = core.IsObj("param:2")(c, as.Rhs[0])
						}
						if kv, ok := x.(*ast.KeyValueExpr); ok {
							if id, isId := kv.Key.(*ast.Ident); isId && id.Name == "Reverse" {
								pos = kv.Pos()
								good = core.IsObj("param:2")(c, kv.Value)
							}
						}
						return true
					})
					label := f.Name + " sets the engine iterator's Reverse option from the reverse parameter"
					if good {
						r.OK(label, r.W.Pos(pos), "opts.Reverse = reverse")
					} else {
						r.Fail(label, r.W.Pos(pos), "IteratorOptions.Reverse is not set from the reverse parameter")
					}
				}
			}),
			rule("R06b", "range filter: start inclusive, end exclusive; Valid = engine valid && in range; steps report Valid", 12, func(r *Run) {
				ck := "common/db.(*itBase).checkKey"
				boundAtom(r, ck, core.IsObj("param:0"), recvField("start"), token.GEQ, "start bound is inclusive (key >= start)")
				boundAtom(r, ck, core.IsObj("param:0"), recvField("end"), token.LSS, "end bound is exclusive (key < end), as the engine range limit and the prefix upper bound are")
				everyBoolReturnHas(r, ck, "combines both bound tests", nil, mayDeriveFrom("common/db.itBase.start"), mayDeriveFrom("common/db.itBase.end"))
				inRange := func(keyFn string) core.ExprPred {
					return core.CallAtom([]string{ck}, core.CallsAny(keyFn))
				}
				everyBoolReturnHas(r, ldbIt+"Valid", "is engine-valid && in-range", nil, core.CallAtom([]string{lvlIt + "CommonIterator.Valid"}), inRange(lvlIt+"Iterator.Key"))
				everyBoolReturnHas(r, bdgIt+"Valid", "is engine-valid && in-range", nil, core.CallAtom([]string{bdg + "(*Iterator).Valid"}), inRange(bdgIt+"Key"))
				for _, m := range []string{"Next", "Rewind"} {
					everyBoolReturnHas(r, ldbIt+m, "reports the filtered Valid()", nil, core.CallAtom([]string{ldbIt + "Valid"}))
				}
				everyBoolReturnHas(r, ldbIt+"Seek", "reports the filtered Valid()", func(c *core.Ctx, res ast.Expr) (bool, string) {
					if core.FromCall(0, lvlIt+"IteratorSeeker.Seek")(c, res) {
						return true, "forward seek returns the engine's answer, which is already limited by the engine Range"
					}
					return false, ""
				}, core.CallAtom([]string{ldbIt + "Valid"}))
				for _, m := range []string{"Next", "Rewind", "Seek"} {
					everyBoolReturnHas(r, bdgIt+m, "reports the filtered Valid()", nil, core.CallAtom([]string{bdgIt + "Valid"}))
				}
			}),
			rule("R06c", "direction: step, rewind and reverse-seek use the primitive of the iterator's direction", 10, func(r *Run) {
				rev := func(v core.Tri) *core.FlowSpec { return &core.FlowSpec{Assume: assumeRecvField("reverse", v)} }
				for _, x := range []struct {
					fn, fwd, bwd string
				}{
					{ldbIt + "Next", lvlIt + "IteratorSeeker.Next", lvlIt + "IteratorSeeker.Prev"},
					{ldbIt + "Rewind", lvlIt + "IteratorSeeker.First", lvlIt + "IteratorSeeker.Last"},
				} {
					core.UnreachableUnder{Fn: x.fn, Spec: rev(core.True), Sink: core.CallSink(x.fwd), Name: "the iterator is reverse", Min: 1}.Check(r)
					core.UnreachableUnder{Fn: x.fn, Spec: rev(core.False), Sink: core.CallSink(x.bwd), Name: "the iterator is forward", Min: 1}.Check(r)
				}
				// reverse seek: engine Seek lands on the first key >= target; when that is not the target itself step back
				core.UnreachableUnder{Fn: ldbIt + "Seek", Spec: rev(core.False), Sink: core.CallSink(lvlIt + "IteratorSeeker.Prev"), Name: "the iterator is forward", Min: 1}.Check(r)
				exact := core.BoolGuard("not-on-target", core.CallAtomSym("bytes.Equal", core.DerivedFromCall(lvlIt+"Iterator.Key", ldbIt+"Key"), core.IsObj("param:0")), false)
				core.Dominated{Fn: ldbIt + "Seek", Spec: &core.FlowSpec{Conds: []core.CondGuard{exact}}, Sink: core.CallSink(lvlIt + "IteratorSeeker.Prev"), Need: []Fact{"not-on-target"}, Min: 1}.Check(r)
				core.CallArgs{Fn: ldbIt + "Seek", Callee: []string{lvlIt + "IteratorSeeker.Seek"}, What: "seeks the caller's key", Args: map[int]core.ExprPred{0: core.IsObj("param:0")}, Min: 1}.Check(r)
				// Badger: every engine Seek to a range bound goes to start when forward, to end when reverse, and a
				// reverse positioning on the (exclusive) end steps over an exact hit
				pkg := r.W.Pkg("common/db")
				nSites := 0
				if pkg != nil {
					for _, f := range r.W.AllFuncs(pkg) {
						if f.Lit != nil || !(strings.HasPrefix(f.Name, "common/db.(*goBadgerDBIt).") || f.Name == "common/db.(*GoBadgerDB).Iterator") {
							continue
						}
						c := f.Ctx()
						isStart := func(c *core.Ctx, e ast.Expr) bool {
							return recvField("start")(c, e) || (f.Name == "common/db.(*GoBadgerDB).Iterator" && core.IsObj("param:0")(c, e))
						}
						isEnd := func(c *core.Ctx, e ast.Expr) bool {
							return recvField("end")(c, e) || (f.Name == "common/db.(*GoBadgerDB).Iterator" && core.IsObj("param:1")(c, e))
						}
						seekTo := func(p core.ExprPred) func(c *core.Ctx, call *ast.CallExpr) bool {
							return func(c *core.Ctx, call *ast.CallExpr) bool { return len(call.Args) == 1 && p(c, call.Args[0]) }
						}
						seeks := []string{bdg + "(*Iterator).Seek", bdgIt + "Seek"}
						hasStart, hasEnd := false, false
						core.InspectBody(f, func(x ast.Node) bool {
							if call, ok := x.(*ast.CallExpr); ok && core.Names(seeks...).Has(core.Callee(c.Info, call)) && len(call.Args) == 1 {
								hasStart = hasStart || isStart(c, call.Args[0])
								hasEnd = hasEnd || isEnd(c, call.Args[0])
							}
							return true
						})
						if !hasStart && !hasEnd {
							continue
						}
						nSites++
						revAssume := func(v core.Tri) *core.FlowSpec {
							return &core.FlowSpec{Assume: func(c *core.Ctx, e ast.Expr) core.Tri {
								if t := assumeRecvField("reverse", v)(c, e); t != core.Unknown {
									return t
								}
								if f.Name == "common/db.(*GoBadgerDB).Iterator" && core.IsObj("param:2")(c, e) {
									return v
								}
								return core.Unknown
							}}
						}
						core.UnreachableUnder{Fn: f.Name, Spec: revAssume(core.True), Sink: core.CallSinkWhere("engine Seek(start)", seeks, seekTo(isStart)), Name: "the iterator is reverse", Min: 1}.Check(r)
						core.UnreachableUnder{Fn: f.Name, Spec: revAssume(core.False), Sink: core.CallSinkWhere("engine Seek(end)", seeks, seekTo(isEnd)), Name: "the iterator is forward", Min: 1}.Check(r)
						onEnd := core.BoolGuard("landed-on-end", core.CallAtomSym("bytes.Equal", core.DerivedFromCall(bdgIt+"Key", bdg+"(*Item).Key"), isEnd), true)
						core.Dominated{Fn: f.Name, Spec: &core.FlowSpec{Conds: []core.CondGuard{onEnd}}, Sink: core.CallSink(bdg + "(*Iterator).Next"), Need: []Fact{"landed-on-end"}, Min: 1}.Check(r)
						core.NotAfter{Fn: f.Name, Early: []string{bdg + "(*Iterator).Seek", bdgIt + "Seek"}, Late: []string{bdg + "(*Iterator).Next"}, Name: "the step over the exclusive end follows the positioning seek", Min: 1}.Check(r)
					}
				}
				label := "common/db Badger iterator: functions that position the engine iterator on a range bound"
				if nSites >= 1 {
					r.OK(label, "common/db/go_badger_db.go", fmt.Sprintf("%d function(s)", nSites))
				} else {
					r.Fail(label, "common/db/go_badger_db.go", "no function positions the Badger iterator on its start/end bound (anchor moved?)")
				}
			}),
			rule("R06d", "a batch records by appending, applies first to last, separates deletes from empty values, returns the write error", 14, func(r *Run) {
				// in-memory batch
				for _, m := range []string{"Set", "Delete"} {
					f := r.Fn(memB + m)
					if f == nil {
						continue
					}
					c := f.Ctx()
					label := fmt.Sprintf("%s appends its operation at the end of the batch's list", f.Name)
					good, pos := false, f.Node().Pos()
					var elem ast.Expr
					core.InspectBody(f, func(x ast.Node) bool {
						as, ok := x.(*ast.AssignStmt)
						if !ok || len(as.Lhs) != 1 || len(as.Rhs) != 1 || !recvField("writes")(c, as.Lhs[0]) {
							return true
						}
						pos = as.Pos()
						if call, isC := as.Rhs[0].(*ast.CallExpr); isC && core.IsBuiltinCall(c.Info, call, "append") && len(call.Args) == 2 && recvField("writes")(c, call.Args[0]) {
							good, elem = true, call.Args[1]
						}
						return true
					})
					if good {
						r.OK(label, r.W.Pos(pos), "writes = append(writes, op)")
					} else {
						r.Fail(label, r.W.Pos(pos), "the operation list is not extended by append(b.writes, op): order of application no longer is order of insertion")
					}
					// value side: Delete records nil, Set records a copy that is never nil
					label = fmt.Sprintf("%s records %s", f.Name, map[string]string{"Set": "a non-nil copy of the value (an empty value is not a delete)", "Delete": "a nil value (the delete marker)"}[m])
					var val ast.Expr
					if cl, ok := elem.(*ast.CompositeLit); ok {
						for i, el := range cl.Elts {
							if kv, isKV := el.(*ast.KeyValueExpr); isKV {
								if id, isId := kv.Key.(*ast.Ident); isId && id.Name == "v" {
									val = kv.Value
								}
							} else if i == 1 {
								val = el
							}
						}
					}
					switch {
					case val == nil:
						r.Fail(label, r.W.Pos(pos), "cannot find the value component of the recorded operation")
					case m == "Delete" && isNilLit(c, val):
						r.OK(label, r.W.Pos(val.Pos()), "nil")
					case m == "Set" && core.CallAtom([]string{"common/db.cloneByte"}, core.IsObj("param:1"))(c, val):
						r.OK(label, r.W.Pos(val.Pos()), core.ExprStr(val))
					default:
						r.Fail(label, r.W.Pos(val.Pos()), fmt.Sprintf("recorded value is `%s`", core.ExprStr(val)))
					}
				}
				wr := memB + "Write"
				if f := r.Fn(wr); f != nil {
					c := f.Ctx()
					label := f.Name + " applies the recorded operations first to last"
					n, good := 0, false
					// a forward walk over the recorded list: `for … range b.writes`, or `for i := 0; i < len(b.writes); i++`,
					// also through a local that is a plain copy of the field
					writes := core.Resolved(recvField("writes"))
					for _, lp := range core.LoopsIn(f) {
						n++
						if core.CountsOver(writes, 0)(c, lp) {
							good = true
						}
					}
					if good && n == 1 {
						r.OK(label, r.W.Pos(f.Node().Pos()), "one forward loop over b.writes")
					} else {
						r.Fail(label, r.W.Pos(f.Node().Pos()), fmt.Sprintf("expected exactly one loop, a forward walk over b.writes; found %d loop(s)", n))
					}
				}
				isDel := core.RelGuard("delete-marker", recvField("v"), token.EQL, isNilLit)
				notDel := core.RelGuard("has-value", recvField("v"), token.NEQ, isNilLit)
				core.Dominated{Fn: wr, Spec: &core.FlowSpec{Conds: []core.CondGuard{isDel}}, Sink: core.CallSink("common/db.(*GoMemDB).Delete"), Need: []Fact{"delete-marker"}, Min: 1}.Check(r)
				core.Dominated{Fn: wr, Spec: &core.FlowSpec{Conds: []core.CondGuard{notDel}}, Sink: core.CallSink("common/db.(*GoMemDB).Set"), Need: []Fact{"has-value"}, Min: 1}.Check(r)
				core.CallArgs{Fn: wr, Callee: []string{"common/db.(*GoMemDB).Set"}, What: "recorded key and value", Args: map[int]core.ExprPred{0: recvField("k"), 1: recvField("v")}, Min: 1}.Check(r)
				core.CallArgs{Fn: wr, Callee: []string{"common/db.(*GoMemDB).Delete"}, What: "recorded key", Args: map[int]core.ExprPred{0: recvField("k")}, Min: 1}.Check(r)
				// LevelDB and Badger batches delegate to the engine batch / transaction
				for _, x := range []struct{ fn, callee string }{
					{lvlB + "Set", "github.com/syndtr/goleveldb/leveldb.(*Batch).Put"}, {bdgB + "Set", bdg + "(*Txn).Set"},
				} {
					core.CallArgs{Fn: x.fn, Callee: []string{x.callee}, What: "the caller's key and value", Args: map[int]core.ExprPred{0: core.IsObj("param:0"), 1: core.IsObj("param:1")}, Min: 1}.Check(r)
				}
				for _, x := range []struct{ fn, callee string }{
					{lvlB + "Delete", "github.com/syndtr/goleveldb/leveldb.(*Batch).Delete"}, {bdgB + "Delete", bdg + "(*Txn).Delete"},
				} {
					core.CallArgs{Fn: x.fn, Callee: []string{x.callee}, What: "the caller's key", Args: map[int]core.ExprPred{0: core.IsObj("param:0")}, Min: 1}.Check(r)
				}
				core.Dominated{Fn: lvlB + "Write", Spec: spec(errNil("engine-write-ok", "github.com/syndtr/goleveldb/leveldb.(*DB).Write")), Sink: core.SuccessReturn(-1), Need: []Fact{"engine-write-ok"}, Min: 1}.Check(r)
				core.CallArgs{Fn: lvlB + "Write", Callee: []string{"github.com/syndtr/goleveldb/leveldb.(*DB).Write"}, What: "the batch that Set/Delete filled", Args: map[int]core.ExprPred{0: recvField("batch")}, Min: 1}.Check(r)
				core.Dominated{Fn: bdgB + "Write", Spec: spec(errNil("commit-ok", bdg+"(*Txn).Commit")), Sink: core.SuccessReturn(-1), Need: []Fact{"commit-ok"}, Min: 1}.Check(r)
			}),
			rule("R06e", "a missing key is reported with ErrNotFoundInDb by every backend", 4, func(r *Run) {
				for _, fn := range []string{"common/db.(*GoLevelDB).Get", "common/db.(*goLevelDBTx).Get", "common/db.(*GoMemDB).Get", "common/db.(*GoBadgerDB).Get$lit1"} {
					core.LiveReturn{Fn: fn, Sentinels: []string{"common/db.ErrNotFoundInDb"}}.Check(r)
				}
			}),
		},
	})
}
