package props

// NotApplicable lists the properties that are not claimed, with the reason.
// An entry is removed when a rule table for the property is registered.
var NotApplicable = map[string]string{
}

// Pending lists properties whose rule tables are designed (DESIGN.md §4) but not
// yet built; they are reported as not applicable until a check exists.
var Pending = []string{"C01", "C02", "C03", "C04", "C05", "C06", "C07", "C08", "C09", "C10", "C12", "C13", "C14", "C15", "C16", "C17", "C18", "C19",
	"C21", "C22", "C23", "C24", "C25", "C26", "C27", "C28", "C29", "C30", "C31", "C32", "C33", "C34", "C35", "C36", "C37", "C38", "C39"}
