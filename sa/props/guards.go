package props

import (
	"go/ast"
	"strings"

	"verif/sa/core"
)

// guardsOf returns the canonical stack of if/case conditions enclosing node n
// inside function f ("if(c)", "else(c)", "case(v)"), outermost first.
func guardsOf(w *core.World, c *core.Ctx, n ast.Node, f *core.FuncInfo) string {
	var gs []string
	child := n
	for p := w.Parent(n); p != nil; p = w.Parent(p) {
		switch s := p.(type) {
		case *ast.IfStmt:
			if child == ast.Node(s.Body) {
				gs = append(gs, "if("+core.CanonExpr(c, s.Cond)+")")
			} else if s.Else != nil && child == ast.Node(s.Else) {
				gs = append(gs, "else("+core.CanonExpr(c, s.Cond)+")")
			}
		case *ast.CaseClause:
			var vs []string
			for _, e := range s.List {
				vs = append(vs, core.CanonExpr(c, e))
			}
			gs = append(gs, "case("+strings.Join(vs, "|")+")")
		case *ast.FuncDecl, *ast.FuncLit:
			// reverse to outermost-first
			for i, j := 0, len(gs)-1; i < j; i, j = i+1, j-1 {
				gs[i], gs[j] = gs[j], gs[i]
			}
			return strings.Join(gs, "&")
		}
		child = p
	}
	for i, j := 0, len(gs)-1; i < j; i, j = i+1, j-1 {
		gs[i], gs[j] = gs[j], gs[i]
	}
	return strings.Join(gs, "&")
}
