package props

import (
	"fmt"
	"go/ast"
	"go/token"
	"go/types"
	"reflect"
	"sort"
	"strings"

	"verif/sa/core"
)

// protoFields lists the fields of a struct type that carry a protobuf tag.
func protoFields(r *Run, typeQual string) []string {
	tn, _ := r.W.LookupObj(typeQual).(*types.TypeName)
	if tn == nil {
		r.Unresolved(typeQual)
		return nil
	}
	st, ok := tn.Type().Underlying().(*types.Struct)
	if !ok {
		r.Unresolved(typeQual + " (not a struct)")
		return nil
	}
	var out []string
	for i := 0; i < st.NumFields(); i++ {
		if _, ok := reflect.StructTag(st.Tag(i)).Lookup("protobuf"); ok {
			out = append(out, st.Field(i).Name())
		}
	}
	sort.Strings(out)
	return out
}

// fieldsAssigned returns the fields of typeQual that fn assigns on values of
// that type (x.F = .., or T{F: ..}), with the RHS expressions.
func fieldsAssigned(r *Run, f *core.FuncInfo, typeQual string) map[string][]ast.Expr {
	tn, _ := r.W.LookupObj(typeQual).(*types.TypeName)
	out := map[string][]ast.Expr{}
	if tn == nil || f == nil {
		return out
	}
	info := f.Info()
	isT := func(t types.Type) bool {
		if t == nil {
			return false
		}
		if p, ok := t.(*types.Pointer); ok {
			t = p.Elem()
		}
		n, ok := t.(*types.Named)
		return ok && n.Obj() == tn
	}
	core.InspectBody(f, func(x ast.Node) bool {
		switch s := x.(type) {
		case *ast.AssignStmt:
			for i, l := range s.Lhs {
				sel, ok := ast.Unparen(l).(*ast.SelectorExpr)
				if !ok || !isT(info.TypeOf(sel.X)) {
					continue
				}
				var rhs ast.Expr
				if len(s.Rhs) == len(s.Lhs) {
					rhs = s.Rhs[i]
				}
				out[sel.Sel.Name] = append(out[sel.Sel.Name], rhs)
			}
		case *ast.CompositeLit:
			if isT(info.TypeOf(s)) {
				for _, el := range s.Elts {
					if kv, ok := el.(*ast.KeyValueExpr); ok {
						if id, ok := kv.Key.(*ast.Ident); ok {
							out[id.Name] = append(out[id.Name], kv.Value)
						}
					}
				}
			}
		}
		return true
	})
	return out
}

// copiesEveryField: fn copies every protobuf field of typeQual from its source
// (each field F is assigned from an expression selecting the same field F).
func copiesEveryField(r *Run, fn, typeQual string) {
	f := r.Fn(fn)
	if f == nil {
		return
	}
	want := protoFields(r, typeQual)
	got := fieldsAssigned(r, f, typeQual)
	c := f.Ctx()
	for _, fld := range want {
		label := fmt.Sprintf("%s copies field %s.%s", fn, typeQual, fld)
		rhss, ok := got[fld]
		if !ok {
			r.Fail(label, r.W.Pos(f.Node().Pos()), "the hand-written copy does not assign this protobuf field: clones lose it, so hashes/signatures computed over the clone no longer bind it")
			continue
		}
		same := false
		for _, rhs := range rhss {
			if rhs == nil {
				continue
			}
			if sel, ok := ast.Unparen(rhs).(*ast.SelectorExpr); ok && sel.Sel.Name == fld {
				same = true
			}
			if call, ok := ast.Unparen(rhs).(*ast.CallExpr); ok { // x.F.Clone(), copyBytes(x.F)
				if core.Mentions(typeQual+"."+fld)(c, call) {
					same = true
				}
			}
		}
		if same {
			r.OK(label, r.W.Pos(rhss[0].Pos()), "assigned from the same field of the source")
		} else {
			r.Fail(label, r.W.Pos(f.Node().Pos()), "the field is assigned, but not from the same field of the source value")
		}
	}
	if len(want) == 0 {
		r.Fail(fn+" field list", "-", "no protobuf fields found")
	}
}

// clearedBeforeEncode: in fn the value handed to the encoder is a clone
// (made by cloneFns) on which exactly the fields `cleared` were set to nil
// before the encode call.
func clearedBeforeEncode(r *Run, fn string, cloneFns []string, cleared []string, onReceiver bool) {
	f := r.Fn(fn)
	if f == nil {
		return
	}
	c := f.Ctx()
	isClone := core.FromCall(0, cloneFns...)
	subject := func(e ast.Expr) bool {
		if onReceiver {
			return core.IsObj("recv")(c, e)
		}
		return isClone(c, e)
	}
	got := map[string]bool{}
	var gens []core.NodeGen
	core.InspectBody(f, func(x ast.Node) bool {
		as, ok := x.(*ast.AssignStmt)
		if !ok || len(as.Lhs) != len(as.Rhs) {
			return true
		}
		for i, l := range as.Lhs {
			sel, ok := ast.Unparen(l).(*ast.SelectorExpr)
			if ok && subject(sel.X) && isNilLit(c, as.Rhs[i]) {
				got[sel.Sel.Name] = true
			}
		}
		return true
	})
	for _, fld := range cleared {
		fld := fld
		gens = append(gens, core.NodeGen{Fact: Fact("cleared:" + fld), Gen: func(c *core.Ctx, n *core.GNode) bool {
			as, ok := n.Ast.(*ast.AssignStmt)
			if !ok || len(as.Lhs) != len(as.Rhs) {
				return false
			}
			for i, l := range as.Lhs {
				sel, ok := ast.Unparen(l).(*ast.SelectorExpr)
				if ok && sel.Sel.Name == fld && subject(sel.X) && isNilLit(c, as.Rhs[i]) {
					return true
				}
			}
			return false
		}})
	}
	var gotList []string
	for k := range got {
		gotList = append(gotList, k)
	}
	sort.Strings(gotList)
	wantList := append([]string{}, cleared...)
	sort.Strings(wantList)
	label := fmt.Sprintf("%s clears exactly {%s} on the value it encodes", fn, strings.Join(wantList, ","))
	if strings.Join(gotList, ",") == strings.Join(wantList, ",") {
		r.OK(label, r.W.Pos(f.Node().Pos()), "set of nil-assignments on the encoded value matches")
	} else {
		r.Fail(label, r.W.Pos(f.Node().Pos()), fmt.Sprintf("fields set to nil before encoding: {%s}; required exactly {%s} — a field missing here is not excluded from the digest, an extra one is no longer bound by it", strings.Join(gotList, ","), strings.Join(wantList, ",")))
	}
	enc := []string{"types.Encode", "types.EncodeWithBuffer"}
	var need []Fact
	for _, fld := range cleared {
		need = append(need, Fact("cleared:"+fld))
	}
	core.Dominated{Fn: fn, Spec: &core.FlowSpec{Nodes: gens}, Sink: core.CallSink(enc...), Need: need, Min: 1}.Check(r)
	core.CallArgs{Fn: fn, Callee: enc, What: "the encoded value is the prepared copy", Args: map[int]core.ExprPred{0: func(c *core.Ctx, e ast.Expr) bool { return subject(e) }}, Min: 1}.Check(r)
}

func init() {
	txm := "types.(*Transaction)."
	register(&core.Property{
		ID:       "C16",
		Title:    "Transaction hash and signature bind every signed field",
		Packages: []string{"types", "common/crypto", "system/crypto/secp256r1", "system/crypto/secp256k1eth"},
		Explanation: "Decides R16a-R16e (R16e: the configured enable heights are applied whatever the enableTypes list is; secp256r1 accepts only low-S signatures; secp256k1eth binds all 65 signature bytes by requiring the recovered key to equal the claimed key): the hand-written clones copy every protobuf field of Transaction and Signature; Hash clears exactly {Signature,Header} and checkSign exactly {Signature} on a clone before encoding, Sign clears Signature on the receiver, FullHash clears nothing; " +
			"signature verification loads the crypto driver at the caller's height, crypto.Load always adds the enable-height option whose closure rejects disabled drivers; a missing signature is rejected before use; " +
			"block-level verification is the conjunction over every transaction handed to it.",
		NotCovered: "that each crypto driver's Validate rejects altered data, and the encoder's injectivity (V clauses).",
		Rules: []core.Rule{
			rule("R16a", "clones copy every protobuf field", 14, func(r *Run) {
				copiesEveryField(r, "types.CloneTx", "types.Transaction")
				copiesEveryField(r, "types.(*Signature).Clone", "types.Signature")
				// Clone = CloneTx + deep copy of the signature
				f := r.Fn(txm + "Clone")
				if f != nil {
					c := f.Ctx()
					got := fieldsAssigned(r, f, "types.Transaction")
					ok := false
					for _, rhs := range got["Signature"] {
						if rhs != nil && core.CallsAny("types.(*Signature).Clone")(c, rhs) {
							ok = true
						}
					}
					usesCloneTx := false
					core.InspectBody(f, func(x ast.Node) bool {
						if e, isE := x.(ast.Expr); isE && core.CallAtom([]string{"types.CloneTx"})(c, e) {
							usesCloneTx = true
						}
						return true
					})
					label := txm + "Clone = CloneTx + Signature.Clone()"
					if ok && usesCloneTx {
						r.OK(label, r.W.Pos(f.Node().Pos()), "built on CloneTx, signature copied through Signature.Clone")
					} else {
						r.Fail(label, r.W.Pos(f.Node().Pos()), fmt.Sprintf("uses CloneTx=%v, Signature from Signature.Clone=%v", usesCloneTx, ok))
					}
				}
			}),
			rule("R16b", "which fields the digests exclude", 10, func(r *Run) {
				clearedBeforeEncode(r, txm+"Hash", []string{"types.CloneTx"}, []string{"Signature", "Header"}, false)
				clearedBeforeEncode(r, txm+"checkSign", []string{"types.CloneTx"}, []string{"Signature"}, false)
				clearedBeforeEncode(r, txm+"FullHash", []string{txm + "Clone"}, nil, false)
				clearedBeforeEncode(r, txm+"Sign", nil, []string{"Signature"}, true)
			}),
			rule("R16c", "verification path: height-gated driver, missing signature rejected, result is the driver's verdict", 10, func(r *Run) {
				core.Dominated{Fn: txm + "checkSign", Spec: &core.FlowSpec{Conds: []core.CondGuard{core.RelGuard("sig-present", core.CallsAny(txm+"GetSignature"), token.NEQ, isNilLit)}},
					Sink: core.CallSink("types.CheckSign"), Need: []Fact{"sig-present"}, Min: 1}.Check(r)
				core.CallArgs{Fn: txm + "checkSign", Callee: []string{"types.CheckSign"}, What: "verifies the encoding of the signature-free clone against the tx's signature at the caller's height",
					Args: map[int]core.ExprPred{0: core.FromCall(0, "types.Encode"), 2: core.CallsAny(txm + "GetSignature"), 3: core.IsObj("param:0")}, Min: 1}.Check(r)
				core.CallArgs{Fn: "types.CheckSign", Callee: []string{"common/crypto.Load"}, What: "driver chosen from the signature type and loaded at the given height",
					Args: map[int]core.ExprPred{0: core.And(core.CallsAny("types.GetSignName"), core.Mentions("types.Signature.Ty")), 1: core.IsObj("param:3")}, Min: 1}.Check(r)
				core.FailStops{Fn: "types.CheckSign", Callee: []string{"common/crypto.Load"}, Fail: core.OErrNonNil, Idx: -1, Forbidden: core.SinkPred{Label: "a return other than false", Match: func(fl *core.Flow, n *core.GNode) bool {
					return n.Kind == core.KReturn && core.ClassifyReturn(fl, n, -1) != core.False
				}}, Min: 1, Name: "crypto.Load error"}.Check(r)
				core.ReturnsRel{Fn: "types.CheckSign", Name: "Validate(data, pubkey, signature) == nil", L: core.CallsAny("common/crypto.Crypto.Validate"), R: isNilLit, Rel: token.EQL}.Check(r)
				core.CallArgs{Fn: "types.CheckSign", Callee: []string{"common/crypto.Crypto.Validate"}, What: "validates the given data with the signature's own pubkey and bytes",
					Args: map[int]core.ExprPred{0: core.IsObj("param:0"), 1: core.Mentions("types.Signature.Pubkey"), 2: core.Mentions("types.Signature.Signature")}, Min: 1}.Check(r)
				// crypto.Load always appends the enable check for its height
				core.CallArgs{Fn: "common/crypto.Load", Callee: []string{"common/crypto.load"}, What: "enable-height option always present",
					Args: map[int]core.ExprPred{0: core.IsObj("param:0"), 1: core.And(core.CallsAny("common/crypto.WithLoadOptionEnableCheck"), core.Mentions("param:1"))}, Min: 2}.Check(r)
				optFail(r)
				core.LiveReturn{Fn: "common/crypto.load", Sentinels: []string{"common/crypto.ErrUnknownDriver"}}.Check(r)
				// the option closure
				cl := "common/crypto.WithLoadOptionEnableCheck$lit1"
				dEnable := core.IsObj("common/crypto.Driver.enable")
				dHeight := core.IsObj("common/crypto.Driver.enableHeight")
				bh := core.IsObj("param:0")
				core.Dominated{Fn: cl, Spec: &core.FlowSpec{Conds: []core.CondGuard{
					core.RelGuard("height-negative", bh, token.LSS, core.IsConstInt(0)),
					core.BoolGuard("driver-enabled", dEnable, true),
					core.RelGuard("enable-height-set", dHeight, token.GEQ, core.IsConstInt(0)),
					core.RelGuard("height-reached", bh, token.GEQ, dHeight),
				}}, Sink: core.CertainSuccessReturn(-1), AnyOf: [][]Fact{{"height-negative"}, {"driver-enabled", "enable-height-set", "height-reached"}}, Min: 2}.Check(r)
				core.LiveReturn{Fn: cl, Sentinels: []string{"common/crypto.ErrDriverNotEnable"}}.Check(r)
				// the enable height itself is enabled (boundary)
				core.HasAtom{Fn: cl, Name: "blockHeight >= enableHeight (inclusive)", L: bh, R: dHeight, Rel: token.GEQ}.Check(r)
				core.HasAtom{Fn: cl, Name: "enableHeight >= 0", L: dHeight, R: core.IsConstInt(0), Rel: token.GEQ}.Check(r)
			}),
			rule("R16e", "configuration and drivers: structural conditions of acceptance", 8, func(r *Run) {
				// crypto.Init applies the configured enable heights whatever the enableTypes list is
				f := r.Fn("common/crypto.Init")
				if f != nil {
					fl := core.RunFlow(f, &core.FlowSpec{Assume: func(c *core.Ctx, e ast.Expr) core.Tri {
						if t := core.AssumeRel(lenOf(core.Mentions("common/crypto.Config.EnableTypes")), token.GTR, core.IsConstInt(0), core.False)(c, e); t != core.Unknown {
							return t
						}
						return core.Unknown
					}})
					live := false
					for _, n := range fl.G.Nodes {
						if n.Ast != nil && fl.Live(n) {
							if e, ok := n.Ast.(ast.Expr); ok && core.Mentions("common/crypto.Config.EnableHeight")(fl.C, e) {
								live = true
							}
						}
					}
					label := "common/crypto.Init applies [crypto.enableHeight] also when enableTypes is empty"
					if live {
						r.OK(label, r.W.Pos(f.Node().Pos()), "the enable-height loop does not depend on the enableTypes list")
					} else {
						r.Fail(label, r.W.Pos(f.Node().Pos()), "the enable-height overrides are only applied when enableTypes is non-empty: with the default (all drivers enabled) configured heights are ignored and a driver verifies from height 0")
					}
					// a height is only recorded for a driver that is enabled
					core.Dominated{Fn: "common/crypto.Init", Spec: &core.FlowSpec{Conds: []core.CondGuard{core.BoolGuard("driver-enabled", core.IsObj("common/crypto.Driver.enable"), true)}},
						Sink: core.StoreSink(r.W, "common/crypto.Driver.enableHeight"), Need: []Fact{"driver-enabled"}, Min: 1}.Check(r)
				}
				// secp256r1: only low-S signatures verify (malleability)
				r1 := "system/crypto/secp256r1.PubKeyECDSA.VerifyBytes"
				core.FailStops{Fn: r1, Callee: []string{"system/crypto/secp256r1.IsLowS"}, Fail: core.OFalse, Idx: -1, Forbidden: notFalseReturn(), Min: 1, Name: "high-S signature"}.Check(r)
				core.FailStops{Fn: r1, Callee: []string{"system/crypto/secp256r1.UnmarshalECDSASignature"}, Fail: core.OErrNonNil, Idx: -1, Forbidden: notFalseReturn(), Min: 1, Name: "undecodable signature"}.Check(r)
				core.CallArgs{Fn: r1, Callee: []string{"crypto/ecdsa.Verify"}, What: "verifies the decoded (r,s) as they are over the message hash with this key",
					Args: map[int]core.ExprPred{0: core.FromCall(0, "system/crypto/secp256r1.parsePubKeyCompressed"), 1: core.CallsAny("common/crypto.Sha256"), 2: core.FromCall(0, "system/crypto/secp256r1.UnmarshalECDSASignature"), 3: core.FromCall(1, "system/crypto/secp256r1.UnmarshalECDSASignature")}, Min: 1}.Check(r)
				// secp256k1eth: all 65 signature bytes are bound: the recovered key must equal the claimed key
				ke := "system/crypto/secp256k1eth.PubKeySecp256k1Eth.VerifyBytes"
				rec := core.FromCall(0, "github.com/ethereum/go-ethereum/crypto.Ecrecover")
				core.Dominated{Fn: ke, Spec: &core.FlowSpec{Calls: []core.CallGuard{errNil("recovered", "github.com/ethereum/go-ethereum/crypto.Ecrecover")},
					Conds: []core.CondGuard{core.BoolGuard("recovered-key-is-claimed-key", core.CallAtomSym("bytes.Equal", rec, core.Mentions("recv")), true)}},
					Sink: notFalseReturn(), Need: []Fact{"recovered", "recovered-key-is-claimed-key"}, Min: 1}.Check(r)
				core.CallArgs{Fn: ke, Callee: []string{"github.com/ethereum/go-ethereum/crypto.Ecrecover"}, What: "recovery over the full signature bytes",
					Args: map[int]core.ExprPred{1: core.FromCall(0, "common/crypto.Signature.Bytes")}, Min: 1}.Check(r)
			}),
			rule("R16d", "block-level verification is the conjunction over all given transactions", 6, func(r *Run) {
				core.FailStops{Fn: "types.VerifySignature", Callee: []string{"types.(*Block).verifySignature"}, Fail: core.OFalse, Idx: -1, Forbidden: core.CallSink("types.verifyTxsSignature"), Min: 1, Name: "block signature invalid"}.Check(r)
				core.CallArgs{Fn: "types.VerifySignature", Callee: []string{"types.verifyTxsSignature"}, What: "the caller's list at the block's height",
					Args: map[int]core.ExprPred{0: core.IsObj("param:2"), 1: core.CallsAny("types.(*Block).GetHeight")}, Min: 1}.Check(r)
				isok := core.IsObj("types.result.isok")
				core.Dominated{Fn: "types.verifyTxsSignature", Spec: &core.FlowSpec{
					Conds: []core.CondGuard{core.BoolGuard("result-ok", isok, true),
						core.RelGuard("no-txs", lenOf(core.IsObj("param:0")), token.EQL, core.IsConstInt(0))},
					Foralls: []core.ForallGuard{{Fact: "all-results-ok", Inner: "result-ok", Loop: func(c *core.Ctx, s ast.Stmt) bool {
						rs, ok := s.(*ast.RangeStmt)
						if !ok {
							return false
						}
						_, isChan := c.Info.TypeOf(rs.X).Underlying().(*types.Chan)
						return isChan
					}}},
				}, Sink: core.SinkPred{Label: "return other than false", Match: func(fl *core.Flow, n *core.GNode) bool {
					return n.Kind == core.KReturn && core.ClassifyReturn(fl, n, -1) != core.False
				}}, Need: []Fact{"all-results-ok"}, Unless: []Fact{"no-txs"}, Reason: "nothing to verify", Min: 2}.Check(r)
				// every transaction is fed to the workers, every worker result is produced by check()
				core.Dominated{Fn: "types.gen$lit1", Spec: &core.FlowSpec{Nodes: []core.NodeGen{{Fact: "task-sent", Gen: func(c *core.Ctx, n *core.GNode) bool {
					ss, ok := n.Ast.(*ast.SendStmt)
					return ok && core.Mentions("param:1")(c, ss.Value)
				}}}, Foralls: []core.ForallGuard{{Fact: "all-sent", Inner: "task-sent", Loop: core.CountsOver(core.IsObj("param:1"), 0)}}},
					Sink: core.SinkPred{Label: "normal end of the feeder", Match: func(fl *core.Flow, n *core.GNode) bool {
						rs, ok := n.Ast.(*ast.ReturnStmt)
						return n.Kind == core.KReturn && ok && rs.Pos() >= fl.C.F.Lit.Body.Rbrace
					}}, Need: []Fact{"all-sent"}, Min: 1}.Check(r)
				core.CallArgs{Fn: "types.checksign", Callee: []string{"types.check"}, What: "each task is checked at the block height",
					Args: map[int]core.ExprPred{1: core.IsObj("param:3")}, Min: 1}.Check(r)
				core.CallArgs{Fn: "types.check", Callee: []string{txm + "CheckSign"}, What: "height passed through",
					Args: map[int]core.ExprPred{0: core.IsObj("param:1")}, Min: 1}.Check(r)
			}),
		},
	})

	// ------------------------------------------------------------------ C17
	grp := "types.(*Transactions)."
	register(&core.Property{
		ID:       "C17",
		Title:    "Transaction groups are tamper-evident",
		Packages: []string{"types"},
		Explanation: "Decides R17a-R17c: CheckWithFork keeps a live, correctly oriented rejection for every structural, fee and hash-chaining condition, and accepts only after every member passed its own check, every non-head member has zero fee, " +
			"and every member passed the header, count, size and next-hash tests (loop-forall over all members); group signature checking quantifies over every member; the cached signature verdict becomes 'ok' only from a true result.",
		NotCovered: "collision resistance of the hash chain and fee arithmetic (V clauses).",
		Rules: []core.Rule{
			rule("R17a", "CheckWithFork: oriented, live rejections", 20, func(r *Run) {
				fn := grp + "CheckWithFork"
				txs := core.FromCall(0) // never
				_ = txs
				isTxs := func(c *core.Ctx, e ast.Expr) bool {
					return core.DerivedFrom("types.Transactions.Txs")(c, e)
				}
				asm := &core.FlowSpec{AssumeObj: map[types.Object]core.Tri{}, Assume: func(c *core.Ctx, e ast.Expr) core.Tri {
					if t := core.AssumeRel(core.IsObj("param:5"), token.GTR, core.IsConstInt(0), core.True)(c, e); t != core.Unknown {
						return t
					}
					return core.Unknown
				}}
				if f := r.W.Func(fn); f != nil {
					asm.AssumeObj[f.Param(1)] = core.True // checkFork
					asm.AssumeObj[f.Param(2)] = core.True // paraFork
				}
				fee := core.Mentions("types.Transaction.Fee")
				gc := core.Mentions("types.Transaction.GroupCount")
				core.RejectWhen{Fn: fn, Spec: asm, Name: "fewer than two members", L: lenOf(isTxs), R: core.IsConstInt(2), Rel: token.LSS, Sentinel: "types.ErrTxGroupCountLessThanTwo"}.Check(r)
				core.RejectWhen{Fn: fn, Spec: asm, Name: "nil member", L: core.And(isTxs, core.Not(lenOf(core.AnyExpr))), R: isNilLit, Rel: token.EQL, Sentinel: "types.ErrTxGroupEmpty"}.Check(r)
				core.RejectWhen{Fn: fn, Spec: asm, Name: "non-head member carries a fee", L: fee, R: core.IsConstInt(0), Rel: token.NEQ, Sentinel: "types.ErrTxGroupFeeNotZero"}.Check(r)
				core.RejectWhen{Fn: fn, Spec: asm, Name: "head fee < sum of required fees", L: fee, R: core.And(core.Not(fee), core.Not(core.IsConstInt(0)), core.Not(core.IsObj("param:5"))), Rel: token.LSS, Sentinel: "types.ErrTxFeeTooLow"}.Check(r)
				core.RejectWhen{Fn: fn, Spec: asm, Name: "head fee > maxFee", L: fee, R: core.IsObj("param:5"), Rel: token.GTR, Sentinel: "types.ErrTxFeeTooHigh"}.Check(r)
				core.RejectWhen{Fn: fn, Spec: asm, Name: "group count > MaxTxGroupSize", L: gc, R: core.IsObj("types.MaxTxGroupSize"), Rel: token.GTR, Sentinel: "types.ErrTxGroupCountBigThanMaxSize"}.Check(r)
				core.RejectWhen{Fn: fn, Spec: asm, Name: "group count != number of members", L: gc, R: lenOfDeep(isTxs), Rel: token.NEQ, Sentinel: "types.ErrTxGroupCount"}.Check(r)
				core.RejectWhen{Fn: fn, Spec: asm, Name: "head's header != its own hash", BoolAtom: core.CallAtomSym("bytes.Equal", core.CallsAny(txm+"Hash"), core.Mentions("types.Transaction.Header")), RejectVal: false, Sentinel: "types.ErrTxGroupHeader"}.Check(r)
				core.RejectWhen{Fn: fn, Spec: asm, Name: "member header != head header", BoolAtom: core.CallAtomSym("bytes.Equal", core.And(core.Mentions("types.Transaction.Header"), core.Not(core.CallsAnyDirect(txm+"Hash"))), core.And(core.Mentions("types.Transaction.Header"), core.Not(core.CallsAnyDirect(txm+"Hash")))), RejectVal: false, Sentinel: "types.ErrTxGroupHeader"}.Check(r)
				core.RejectWhen{Fn: fn, Spec: asm, Name: "next != hash of the following member", BoolAtom: core.CallAtomSym("bytes.Equal", core.Mentions("types.Transaction.Next"), core.CallsAny(txm+"Hash")), RejectVal: false, Sentinel: "types.ErrTxGroupNext"}.Check(r)
				core.RejectWhen{Fn: fn, Spec: asm, Name: "last member has a next", L: core.Mentions("types.Transaction.Next"), R: isNilLit, Rel: token.NEQ, Sentinel: "types.ErrTxGroupNext"}.Check(r)
				core.RejectWhen{Fn: fn, Spec: asm, Name: "more than one para chain", L: lenOf(core.AnyExpr), R: core.IsConstInt(1), Rel: token.GTR, Sentinel: "types.ErrTxGroupParaCount"}.Check(r)
				core.RejectWhen{Fn: fn, Spec: asm, Name: "main-chain tx inside a para group", BoolAtom: core.CallAtom([]string{"types.IsParaExecName"}), RejectVal: false, Sentinel: "types.ErrTxGroupParaMainMixed"}.Check(r)
				core.FailStops{Fn: fn, Spec: asm, Callee: []string{txm + "check"}, Fail: core.OErrNonNil, Idx: -1, Forbidden: core.SuccessReturn(-1), Min: 1, Name: "member check error"}.Check(r)
				core.FailStops{Fn: fn, Spec: asm, Callee: []string{txm + "GetRealFee"}, Fail: core.OErrNonNil, Idx: -1, Forbidden: core.SuccessReturn(-1), Min: 1, Name: "GetRealFee error"}.Check(r)
				core.LiveReturn{Fn: fn, Spec: asm, Sentinels: []string{"types.ErrTxGroupCountLessThanTwo", "types.ErrTxGroupEmpty", "types.ErrTxGroupParaCount", "types.ErrTxGroupParaMainMixed",
					"types.ErrTxGroupFeeNotZero", "types.ErrTxFeeTooLow", "types.ErrTxFeeTooHigh", "types.ErrTxGroupHeader", "types.ErrTxGroupCountBigThanMaxSize", "types.ErrTxGroupCount", "types.ErrTxGroupNext"}}.Check(r)
			}),
			rule("R17b", "CheckWithFork accepts only after every member passed every per-member test", 7, func(r *Run) {
				fn := grp + "CheckWithFork"
				isTxs := func(c *core.Ctx, e ast.Expr) bool { return core.DerivedFrom("types.Transactions.Txs")(c, e) }
				all := core.CountsOver(isTxs, 0)
				fromOne := core.CountsOver(isTxs, 1)
				hdr := core.Mentions("types.Transaction.Header")
				hash := core.CallsAny(txm + "Hash")
				sp := &core.FlowSpec{
					Calls: []core.CallGuard{errNil("member-checked", txm+"check"), errNil("fee-counted", txm+"GetRealFee")},
					Conds: []core.CondGuard{
						core.RelGuard("fee-zero", core.Mentions("types.Transaction.Fee"), token.EQL, core.IsConstInt(0)),
						core.BoolGuard("header-ok", core.CallAtomSym("bytes.Equal", hash, hdr), true),
						core.BoolGuard("header-ok", core.CallAtomSym("bytes.Equal", core.And(hdr, core.Not(hash)), core.And(hdr, core.Not(hash))), true),
						core.RelGuard("size-ok", core.Mentions("types.Transaction.GroupCount"), token.LEQ, core.IsObj("types.MaxTxGroupSize")),
						core.RelGuard("count-ok", core.Mentions("types.Transaction.GroupCount"), token.EQL, lenOfDeep(isTxs)),
						core.BoolGuard("next-ok", core.CallAtomSym("bytes.Equal", core.Mentions("types.Transaction.Next"), hash), true),
						core.RelGuard("next-ok", core.Mentions("types.Transaction.Next"), token.EQL, isNilLit),
						core.RelGuard("not-nil", core.And(isTxs, core.Not(lenOf(core.AnyExpr))), token.NEQ, isNilLit),
					},
					Foralls: []core.ForallGuard{
						{Fact: "all-members-checked", Inner: "member-checked", Loop: all}, {Fact: "all-members-non-nil", Inner: "not-nil", Loop: all},
						{Fact: "all-fees-counted", Inner: "fee-counted", Loop: all}, {Fact: "all-nonhead-fees-zero", Inner: "fee-zero", Loop: fromOne},
						{Fact: "all-headers-ok", Inner: "header-ok", Loop: all}, {Fact: "all-sizes-ok", Inner: "size-ok", Loop: all},
						{Fact: "all-counts-ok", Inner: "count-ok", Loop: all}, {Fact: "all-next-ok", Inner: "next-ok", Loop: all},
					},
				}
				core.Dominated{Fn: fn, Spec: sp, Sink: core.SuccessReturn(-1), Min: 1, Need: []Fact{"all-members-checked", "all-members-non-nil", "all-fees-counted", "all-nonhead-fees-zero",
					"all-headers-ok", "all-sizes-ok", "all-counts-ok", "all-next-ok"}}.Check(r)
				// every member but the last must chain to its successor: the boundary of that case split
				core.HasAtom{Fn: fn, Name: "i < len(txs)-1 (all but the last member have a successor)", L: func(c *core.Ctx, e ast.Expr) bool {
					_, isId := ast.Unparen(e).(*ast.Ident)
					return isId
				}, R: core.MinusOne(lenOf(isTxs)), Rel: token.LSS}.Check(r)
				core.HasAtom{Fn: fn, Name: "i == 0 (the head compares its header with its own hash)", L: func(c *core.Ctx, e ast.Expr) bool {
					_, isId := ast.Unparen(e).(*ast.Ident)
					return isId
				}, R: core.IsConstInt(0), Rel: token.EQL}.Check(r)
				// the member check inside the group is told the group's height and maxFee and zero min fee
				core.CallArgs{Fn: fn, Callee: []string{txm + "check"}, What: "member check at the group's height",
					Args: map[int]core.ExprPred{0: core.IsObj("param:0"), 1: core.IsObj("param:3")}, Min: 1}.Check(r)
				core.CallArgs{Fn: grp + "Check", Callee: []string{grp + "CheckWithFork"}, What: "forks evaluated at the same height that is checked",
					Args: map[int]core.ExprPred{0: core.IsObj("param:0"), 3: core.IsObj("param:1"), 4: core.IsObj("param:2"), 5: core.IsObj("param:3")}, Min: 1}.Check(r)
			}),
			rule("R17d", "producer side: the hash chain is built back to front; size boundaries agree", 6, func(r *Run) {
				// A member's hash covers its own Next, so Next pointers must be fixed from the last
				// member towards the first: the store to Next sits in a canonical reverse loop.
				isTxs := func(c *core.Ctx, e ast.Expr) bool {
					return core.DerivedFrom("types.Transactions.Txs")(c, e) || core.IsObj("param:0")(c, e) || core.Mentions("types.Transactions.Txs")(c, e)
				}
				for _, fn := range []string{"types.CreateTxGroup", grp + "RebuiltGroup"} {
					f := r.Fn(fn)
					if f == nil {
						continue
					}
					c := f.Ctx()
					ok := false
					var pos token.Pos
					for _, lp := range core.LoopsIn(f) {
						if !core.ReverseLoopOver(isTxs)(c, lp) {
							continue
						}
						ast.Inspect(lp, func(x ast.Node) bool {
							if as, isAs := x.(*ast.AssignStmt); isAs && len(core.StoresTo(c, as, "types.Transaction.Next")) > 0 && len(as.Rhs) == 1 && core.CallsAny(txm+"Hash")(c, as.Rhs[0]) {
								ok = true
								pos = as.Pos()
							}
							return true
						})
					}
					// and nowhere else
					outside := false
					core.InspectBody(f, func(x ast.Node) bool {
						if as, isAs := x.(*ast.AssignStmt); isAs && len(core.StoresTo(c, as, "types.Transaction.Next")) > 0 && as.Pos() != pos {
							outside = true
						}
						return true
					})
					label := fn + " fixes Next pointers from the last member to the first"
					if ok && !outside {
						r.OK(label, r.W.Pos(pos), "Next = successor.Hash() inside `for i := len-1; i >= 0; i--`")
					} else {
						r.Fail(label, r.W.Pos(f.Node().Pos()), fmt.Sprintf("Next stored in a reverse loop=%v, also stored elsewhere=%v: a Next computed from a successor whose own Next is still stale breaks the chain for groups of three or more", ok, outside))
					}
				}
				// group size boundary: a group of exactly MaxTxGroupSize (20) members is legal everywhere
				core.AnyComparison{Fn: txm + "GetTxGroup", Name: "GroupCount > 20 rejected (20 itself accepted)", L: core.Mentions("types.Transaction.GroupCount"), R: core.IsConstInt(20), Rel: token.GTR}.Check(r)
				core.AnyComparison{Fn: txm + "GetTxGroup", Name: "GroupCount == 1 rejected", L: core.Mentions("types.Transaction.GroupCount"), R: core.IsConstInt(1), Rel: token.EQL}.Check(r)
				core.AnyComparison{Fn: txm + "GetTxGroup", Name: "GroupCount < 0 rejected", L: core.Mentions("types.Transaction.GroupCount"), R: core.IsConstInt(0), Rel: token.LSS}.Check(r)
				core.AnyComparison{Fn: grp + "CheckWithFork", Name: "GroupCount > MaxTxGroupSize (=20) rejected", L: core.Mentions("types.Transaction.GroupCount"), R: core.IsConstInt(20), Rel: token.GTR}.Check(r)
			}),
			rule("R17c", "group signature check covers every member; cached verdict only from a true result", 5, func(r *Run) {
				isTxs := func(c *core.Ctx, e ast.Expr) bool { return core.DerivedFrom("types.Transactions.Txs")(c, e) }
				core.Dominated{Fn: grp + "CheckSign", Spec: &core.FlowSpec{Calls: []core.CallGuard{isTrue("member-sig-ok", txm+"checkSign")},
					Foralls: []core.ForallGuard{{Fact: "all-sigs-ok", Inner: "member-sig-ok", Loop: core.CountsOver(isTxs, 0)}}},
					Sink: core.SinkPred{Label: "return other than false", Match: func(fl *core.Flow, n *core.GNode) bool {
						return n.Kind == core.KReturn && core.ClassifyReturn(fl, n, -1) != core.False
					}}, Need: []Fact{"all-sigs-ok"}, Min: 1}.Check(r)
				core.CallArgs{Fn: grp + "CheckSign", Callee: []string{txm + "checkSign"}, What: "height passed through", Args: map[int]core.ExprPred{0: core.IsObj("param:0")}, Min: 1}.Check(r)
				tc := "types.(*TransactionCache)."
				okStore := core.SinkPred{Label: "signok = 1", Match: func(fl *core.Flow, n *core.GNode) bool {
					as, ok := n.Ast.(*ast.AssignStmt)
					if !ok || len(core.StoresTo(fl.C, as, "types.TransactionCache.signok")) == 0 || len(as.Rhs) != 1 {
						return false
					}
					return core.IsConstInt(1)(fl.C, as.Rhs[0])
				}}
				core.Dominated{Fn: tc + "CheckSign", Spec: spec(isTrue("single-ok", txm+"checkSign"), isTrue("group-ok", grp+"CheckSign"), errNil("group-known", tc+"GetTxGroup")),
					Sink: okStore, Need: []Fact{"group-known"}, AnyOf: [][]Fact{{"single-ok"}, {"group-ok"}}, Min: 2}.Check(r)
				core.ReturnsRel{Fn: tc + "CheckSign", Name: "signok == 1", L: core.IsObj("types.TransactionCache.signok"), R: core.IsConstInt(1), Rel: token.EQL}.Check(r)
				core.FailStops{Fn: tc + "CheckSign", Callee: []string{tc + "GetTxGroup"}, Fail: core.OErrNonNil, Idx: -1, Forbidden: core.SinkPred{Label: "return other than false", Match: func(fl *core.Flow, n *core.GNode) bool {
					return n.Kind == core.KReturn && core.ClassifyReturn(fl, n, -1) != core.False
				}}, Min: 1, Name: "GetTxGroup error"}.Check(r)
			}),
		},
	})
}

// lenOfDeep: len(x) possibly wrapped in a conversion such as int32(len(x)).
func lenOfDeep(p core.ExprPred) core.ExprPred {
	return func(c *core.Ctx, e ast.Expr) bool {
		e = ast.Unparen(e)
		if lenOf(p)(c, e) {
			return true
		}
		if call, ok := e.(*ast.CallExpr); ok && len(call.Args) == 1 {
			if tv, ok := c.Info.Types[call.Fun]; ok && tv.IsType() {
				return lenOf(p)(c, call.Args[0])
			}
		}
		return false
	}
}

// optFail: in crypto.load every option error aborts the load (the options are
// function values, so the generic FailStops cannot name a callee): the call of
// the range variable `opt` must have its error tested and returned.
func optFail(r *Run) {
	fn := "common/crypto.load"
	if r.Fn(fn) == nil {
		return
	}
	opt := []string{"common/crypto.LoadOption"}
	// an option that fails is never followed by a successful load
	core.FailStops{Fn: fn, Callee: opt, Fail: core.OErrNonNil, Idx: -1, Forbidden: core.SuccessReturn(-1), Min: 1, Name: "a failing option aborts the load: option error"}.Check(r)
	// and every option of the list is applied before the driver is handed out
	applied := core.CallGuard{Fact: "option-applied", Callee: core.Names(opt...), Pass: core.OErrNil, Idx: -1, NoArgDeps: true,
		ArgOK: func(c *core.Ctx, call *ast.CallExpr) bool { return core.Mentions("param:1")(c, call.Fun) }}
	core.Dominated{Fn: fn, Spec: &core.FlowSpec{Calls: []core.CallGuard{applied},
		Foralls: []core.ForallGuard{{Fact: "all-options-applied", Inner: "option-applied", Loop: core.CountsOver(core.IsObj("param:1"), 0)}}},
		Sink: core.SuccessReturn(-1), Need: []Fact{"all-options-applied"}, Min: 1}.Check(r)
}
