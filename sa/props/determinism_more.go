package props

import (
	"fmt"
	"go/ast"
	"go/token"

	"verif/sa/core"
)

// extend appends rules to a property registered by a file that sorts earlier.
func extend(id string, explain string, rules ...core.Rule) {
	p := registry[id]
	if p == nil {
		panic("extend: property " + id + " is not registered yet (file order)")
	}
	p.Rules = append(p.Rules, rules...)
	p.Explanation += " " + explain
}

func init() {
	extend("C13", "R13d-R13f (added after seeded changes were missed): a pooled buffer/transaction is never touched after it was handed back to its pool, nor is memory obtained from it (alias summaries computed from the code); "+
		"a worker pool sized from the CPU count has at least one worker (the count is the bare runtime call, or clamped); the executor plugins emit their genesis flag record whatever the process-local flag cache holds.",
		rule("R13d", "pooled objects are not used after release (hash inputs cannot be overwritten by another goroutine)", 5, func(r *Run) {
			core.NoUseAfterRelease{
				Pkgs:    []string{"types", "executor", "util", "account"},
				Release: map[string][]int{"sync.(*Pool).Put": {0}, "types.FreeTx": {-1}},
				AliasBase: map[string]int{
					"github.com/golang/protobuf/proto.(*Buffer).Bytes": -1,
					"bytes.(*Buffer).Bytes":                            -1,
				},
				Min: 5,
			}.Check(r)
		}),
		rule("R13e", "CPU-sized worker pools have at least one worker", 1, func(r *Run) {
			// the reasoned R13b exceptions that size a goroutine pool from the CPU count
			for _, fn := range []string{"types.verifyTxsSignature"} {
				f := r.Fn(fn)
				if f == nil {
					continue
				}
				c := f.Ctx()
				srcs := core.Names("runtime.NumCPU", "runtime.GOMAXPROCS")
				n := 0
				core.InspectBody(f, func(x ast.Node) bool {
					as, ok := x.(*ast.AssignStmt)
					if !ok || len(as.Lhs) != 1 || len(as.Rhs) != 1 {
						return true
					}
					hasSrc := false
					for _, call := range core.CallsIn(as.Rhs[0]) {
						if srcs.Has(core.Callee(c.Info, call)) {
							hasSrc = true
						}
					}
					if !hasSrc {
						return true
					}
					n++
					id, _ := ast.Unparen(as.Lhs[0]).(*ast.Ident)
					label := fmt.Sprintf("%s: worker count #%d is at least one", f.Name, n)
					bare := false
					if call, isCall := ast.Unparen(as.Rhs[0]).(*ast.CallExpr); isCall && srcs.Has(core.Callee(c.Info, call)) {
						bare = true
					}
					single := id != nil && len(c.DefsOf(c.Info.ObjectOf(id))) == 1
					clamped := false
					if id != nil {
						o := c.Info.ObjectOf(id)
						isVar := func(c *core.Ctx, e ast.Expr) bool {
							v, ok := ast.Unparen(e).(*ast.Ident)
							return ok && c.Info.ObjectOf(v) == o
						}
						core.InspectBody(f, func(y ast.Node) bool {
							ifs, ok := y.(*ast.IfStmt)
							if !ok {
								return true
							}
							op1, ok1 := core.CmpAtom(c, ifs.Cond, isVar, core.IsConstInt(1))
							op0, ok0 := core.CmpAtom(c, ifs.Cond, isVar, core.IsConstInt(0))
							if (ok1 && op1 == token.LSS) || (ok0 && (op0 == token.LEQ || op0 == token.EQL)) {
								// the guarded branch re-assigns the variable or leaves the parallel path
								ast.Inspect(ifs.Body, func(z ast.Node) bool {
									switch s := z.(type) {
									case *ast.AssignStmt:
										for _, l := range s.Lhs {
											if isVar(c, l) {
												clamped = true
											}
										}
									case *ast.ReturnStmt:
										clamped = true
									}
									return true
								})
							}
							return true
						})
					}
					switch {
					case bare && single:
						r.OK(label, r.W.Pos(as.Pos()), "the count is the bare runtime call (documented to be ≥ 1) and never re-assigned")
					case clamped:
						r.OK(label, r.W.Pos(as.Pos()), "the count is clamped / the sequential path is taken when it is below one")
					default:
						r.Fail(label, r.W.Pos(as.Pos()), fmt.Sprintf("`%s`: arithmetic on the CPU count without a lower clamp: with zero workers the result channel closes at once and every signature is reported valid on hosts with that CPU setting", core.ExprStr(as)))
					}
					return true
				})
				if n == 0 {
					r.Fail(fn+": worker count", r.W.Pos(f.Node().Pos()), "no assignment from runtime.NumCPU/GOMAXPROCS found (the reasoned exception of R13b no longer matches the code)")
				}
			}
		}),
		rule("R13f", "plugin flag record at genesis does not depend on the process-local flag cache", 1, func(r *Run) {
			// at height 0 with the plugin enabled and the flag readable, every successful return has appended the flag KV
			emitted := core.NodeGen{Fact: "flag-kv-emitted", Gen: func(c *core.Ctx, n *core.GNode) bool {
				if n.Ast == nil {
					return false
				}
				for _, call := range core.CallsIn(n.Ast) {
					if fn := core.Callee(c.Info, call); fn != nil && core.ShortName(fn) == "types.FlagKV" {
						return true
					}
				}
				return false
			}}
			core.Dominated{Fn: "executor.(*pluginBase).checkFlag", Spec: &core.FlowSpec{
				Nodes: []core.NodeGen{emitted},
				Assume: func(c *core.Ctx, e ast.Expr) core.Tri {
					if op, ok := core.CmpAtom(c, e, core.Mentions("executor.executor.height"), core.IsConstInt(0)); ok {
						switch op {
						case token.EQL:
							return core.True
						case token.NEQ:
							return core.False
						}
					}
					if core.IsObj("param:2")(c, e) { // enable
						return core.True
					}
					return core.Unknown
				}}, Sink: core.SuccessReturn(-1), Need: []Fact{"flag-kv-emitted"}, Min: 1}.Check(r)
		}),
	)
}

