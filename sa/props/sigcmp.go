package props

import (
	"fmt"
	"go/ast"
	"sort"
	"strings"

	"verif/sa/core"
)

// comparesWholeSignature: the function's equality test covers every protobuf
// field of types.Signature — either by comparing the encodings / messages of
// the two signatures as a whole, or field by field.
func comparesWholeSignature(r *Run, f *core.FuncInfo) (bool, string) {
	c := f.Ctx()
	want := protoFields(r, "types.Signature")
	whole := false
	fields := map[string]bool{}
	isSig := func(e ast.Expr) bool {
		return core.CallAtom([]string{"types.(*Transaction).GetSignature"})(c, e) || core.IsObj("types.Transaction.Signature")(c, e)
	}
	core.InspectBody(f, func(x ast.Node) bool {
		call, ok := x.(*ast.CallExpr)
		if !ok || len(call.Args) != 2 {
			return true
		}
		name := core.ShortName(core.Callee(c.Info, call))
		switch name {
		case "bytes.Equal":
			enc := func(e ast.Expr) bool {
				inner, ok := ast.Unparen(e).(*ast.CallExpr)
				return ok && core.ShortName(core.Callee(c.Info, inner)) == "types.Encode" && len(inner.Args) == 1 && isSig(inner.Args[0])
			}
			if enc(call.Args[0]) && enc(call.Args[1]) {
				whole = true
			}
		case "google.golang.org/protobuf/proto.Equal", "github.com/golang/protobuf/proto.Equal":
			if isSig(call.Args[0]) && isSig(call.Args[1]) {
				whole = true
			}
		}
		return true
	})
	// field-wise: every comparison operand that selects a Signature field / getter
	core.InspectBody(f, func(x ast.Node) bool {
		var operands []ast.Expr
		switch e := x.(type) {
		case *ast.BinaryExpr:
			if e.Op.String() == "==" || e.Op.String() == "!=" {
				operands = []ast.Expr{e.X, e.Y}
			}
		case *ast.CallExpr:
			if core.ShortName(core.Callee(c.Info, e)) == "bytes.Equal" {
				operands = e.Args
			}
		}
		// a field is covered by a comparison whose two sides both select it, from two different signatures
		// (comparing a value with itself covers nothing)
		if len(operands) == 2 && core.CanonExpr(c, operands[0]) != core.CanonExpr(c, operands[1]) {
			for _, fld := range want {
				sel := func(op ast.Expr) bool {
					return core.Mentions("types.Signature."+fld)(c, op) || core.CallsAny("types.(*Signature).Get"+fld)(c, op)
				}
				if sel(operands[0]) && sel(operands[1]) {
					fields[fld] = true
				}
			}
		}
		return true
	})
	if whole {
		return true, ""
	}
	var missing []string
	for _, fld := range want {
		if !fields[fld] {
			missing = append(missing, fld)
		}
	}
	sort.Strings(missing)
	if len(missing) == 0 && len(want) > 0 {
		return true, ""
	}
	return false, fmt.Sprintf("the comparison does not cover Signature field(s) %s", strings.Join(missing, ","))
}
