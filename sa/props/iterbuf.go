package props

import "verif/sa/core"

// iterBufferRule: slices returned by a database iterator's Key()/Value() are
// owned by the iterator (goleveldb reuses the buffer on the next positioning
// call); nothing that shares their memory may outlive the loop iteration.
func iterBufferRule(id string, floor int, pkgs ...string) core.Rule {
	return rule(id, "nothing that shares an iterator's key/value buffer outlives the iteration (copy before keeping)", floor, func(r *Run) {
		core.NoRetainedIterBuffer{
			Pkgs:    pkgs,
			Sources: []string{"common/db.Iterator.Key", "common/db.Iterator.Value"},
			Copies:  []string{"common/db.cloneByte", "system/store/mavl/db.copyBytes", "bytes.Clone", "common.CopyBytes", "types.Encode"},
			Min:     floor - 1,
		}.Check(r)
	})
}
