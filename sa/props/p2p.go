package props

import (
	"fmt"
	"go/ast"
	"go/token"
	"go/types"
	"sort"
	"strings"

	"verif/sa/core"
)

const (
	bcast = "system/p2p/dht/protocol/broadcast."
	dl    = "system/p2p/dht/protocol/download."
	prot  = "system/p2p/dht/protocol."
)

// hasLeadingRecover: the function's first statement is `defer func(){ … recover() … }()`.
func hasLeadingRecover(f *core.FuncInfo) bool {
	body := f.Body()
	if body == nil {
		return false
	}
	for _, st := range body.List {
		switch s := st.(type) {
		case *ast.DeferStmt:
			lit, ok := ast.Unparen(s.Call.Fun).(*ast.FuncLit)
			if !ok {
				return false
			}
			found := false
			ast.Inspect(lit.Body, func(x ast.Node) bool {
				if call, ok := x.(*ast.CallExpr); ok && core.IsBuiltinCall(f.Info(), call, "recover") {
					found = true
				}
				return true
			})
			return found
		case *ast.DeclStmt, *ast.AssignStmt:
			// plain declarations / assignments of locals may precede the defer if they cannot panic
			calls := false
			ast.Inspect(s, func(x ast.Node) bool {
				switch x.(type) {
				case *ast.CallExpr, *ast.IndexExpr, *ast.SliceExpr, *ast.TypeAssertExpr, *ast.StarExpr:
					calls = true
				}
				return true
			})
			if calls {
				return false
			}
		default:
			return false
		}
	}
	return false
}

// outsideTrust: callees outside the analysed p2p packages, by category.
func outsideTrust(r *Run, fn *types.Func) (string, bool) {
	if fn.Pkg() == nil {
		return "universe", true
	}
	path := fn.Pkg().Path()
	if strings.HasSuffix(path, "p2p/dht/protocol/broadcast") || strings.HasSuffix(path, "p2p/dht/protocol/download") {
		return "", false
	}
	file := r.W.FileOf(fn.Pos())
	if strings.HasSuffix(file, ".pb.go") && strings.HasPrefix(fn.Name(), "Get") {
		return "generated getter (nil-safe)", true
	}
	switch {
	case strings.Contains(path, "log15") || strings.HasSuffix(path, "/log"):
		return "logger", true
	case !strings.Contains(path, "."): // standard library
		return "standard library; arguments here are not peer-controlled indices or sizes", true
	}
	return "call into another module/library (" + path + "): its robustness is outside this check (listed under not covered)", true
}

func init() {
	unrecovered := []string{
		bcast + "(*ltBroadcast).pendBlockLoop", bcast + "(*ltBroadcast).buildPendList", bcast + "(*ltBroadcast).buildPendBlock",
		bcast + "(*ltBroadcast).blockRequestLoop", bcast + "(*ltBroadcast).handleBlockReqList", bcast + "(*ltBroadcast).handleBlockReq",
		bcast + "(*broadcastProtocol).pubPeerMsg", bcast + "(*broadcastProtocol).getPeerTopic", bcast + "(*broadcastProtocol).getCurrentHeight", bcast + "(*broadcastProtocol).postBlockChain",
		bcast + "(*pubSub).handleSubMsg", bcast + "(*pubSub).decodeMsg", bcast + "(*pubSub).newMsg",
		bcast + "(*validator).validateBlock", bcast + "(*validator).validatePeer", bcast + "(*validator).validateTx", bcast + "(*validator).validateBatchTx",
		bcast + "(*validator).addBlockHeader", bcast + "(*validator).isDeniedPeer", bcast + "(*validator).addBroadcastMsg", bcast + "isTxErr",
		dl + "(*Protocol).downloadBlock", dl + "(*Protocol).downloadBlockFromPeerOld", dl + "(*Protocol).availbTask", dl + "(*Protocol).releaseJob",
		dl + "tasks.Sort", dl + "tasks.Size", dl + "tasks.Remove", dl + "tasks.Len", dl + "tasks.Less", dl + "tasks.Swap", dl + "(*Counter).UpdateTaskInfo",
		dl + "peersCounterKey", dl + "(*PeerTaskCounter).Append",
	}
	frozenSites := map[string]string{
		bcast + "(*ltBroadcast).buildPendList:it.Value.(*pendBlock)":         "pendBlockList only ever receives *pendBlock values (PushBack in addLtBlock is the single producer)",
		bcast + "(*ltBroadcast).handleBlockReqList:it.Value.(*blockRequest)": "blockRequestList only ever receives *blockRequest values (PushBack in addBlockRequest is the single producer)",
		bcast + "(*ltBroadcast).buildPendBlock:~$0.sTxHashes[range($0.block→types.(*Block).GetTxs())#0]":          "i ranges over pd.block.Txs, and a pending block only exists with len(sTxHashes) == TxCount == len(block.Txs) (addLtBlock's admission test, checked below)",
		bcast + "(*ltBroadcast).buildPendBlock:~$0.block→types.(*Block).GetTxs()[range($0.notExistTxIndices)#1]": "index is an element of pd.notExistTxIndices, which this function refills (after resetting it) only with range indices over pd.block.Txs (checked below)",
		bcast + "(*ltBroadcast).handleBlockReq:~($recv.API→client.QueueProtocolAPI.GetBlocks(&lit:types.ReqBlocks)#0)→types.(*BlockDetails).GetItems()[0]":     "reply of the local blockchain module to GetBlocks with Start == End: exactly one item or an error (ProcGetBlockDetailsMsg); not peer-controlled data",
		dl + "(*Protocol).availbTask:~128/len($0)":                          "every call site passes a slice it has just tested to be non-empty (checked below)",
		dl + "tasks.Remove:~$recv[:$0.Index]":                                    "behind `task.Index+1 > t.Size()` → return (checked below); Index is a range index, never negative",
		dl + "tasks.Remove:~$recv[$0.Index+1:]":                                "behind `task.Index+1 > t.Size()` → return (checked below)",
		dl + "tasks.Less:~$recv[$0]":                                                "sort.Interface method: only sort.Sort calls it, with indices below Len() (checked below)",
		dl + "tasks.Less:~$recv[$1]":                                                "sort.Interface method: only sort.Sort calls it, with indices below Len() (checked below)",
		dl + "tasks.Swap:~$recv[$0]":                                                "sort.Interface method: only sort.Sort calls it, with indices below Len() (checked below)",
		dl + "tasks.Swap:~$recv[$1]":                                                "sort.Interface method: only sort.Sort calls it, with indices below Len() (checked below)",
	}
	recovered := map[string]string{
		bcast + "(*broadcastProtocol).handleBroadcastReceive": "its own deferred recover (R33a)",
		bcast + "(*broadcastProtocol).recvTx":                 "only called below handleBroadcastReceive's recover (R33a)",
		bcast + "(*broadcastProtocol).recvBatchTx":            "only called below handleBroadcastReceive's recover (R33a)",
		bcast + "(*broadcastProtocol).handlePeerMsg":          "only called below handleBroadcastReceive's recover (R33a)",
		bcast + "(*broadcastProtocol).postMempool":            "only called below handleBroadcastReceive's recover (R33a)",
		bcast + "(*ltBroadcast).addLtBlock":                   "only called below handleBroadcastReceive's recover (R33a)",
		bcast + "(*ltBroadcast).addBlockRequest":              "only called below handleBroadcastReceive's recover (R33a)",
		dl + "(*Protocol).handleStreamDownloadBlock":          "stream handlers run inside protocol.HandlerWithClose's recover (R33a)",
		dl + "(*Protocol).handleStreamDownloadBlockOld":       "stream handlers run inside protocol.HandlerWithClose's recover (R33a)",
	}
	register(&core.Property{
		ID:       "C33",
		Title:    "Peer input can never crash the node",
		Packages: []string{"system/p2p/dht/protocol/broadcast", "system/p2p/dht/protocol/download", "system/p2p/dht/protocol"},		Explanation: "Decides R33a-R33c for the broadcast and download protocols: (a) the pub-sub receive path runs under a leading deferred recover and the functions treated as 'recovered' are called from nowhere else; every libp2p stream handler is installed through RegisterStreamHandler, which wraps it in HandlerWithClose (leading deferred recover); " +
			"(b) in the goroutines that are NOT under a recover frame and touch peer-derived data (pending light-block loop, block-request loop, pub-sub decoding and validators, block download workers) every slice/index expression, single-value type assertion, explicit panic and integer division is enumerated and must be discharged by a recognised bounds guard; " +
			"(c) no allocation is sized by a value that is neither the length of an existing value nor bounded from above (also inside recovered code: running out of memory is fatal and cannot be recovered).",
		NotCovered:  "nil dereferences of internal structures; robustness of the libraries called (libp2p, snappy, protobuf, queue client) and of the other p2p protocol packages (peer, p2pstore, …); the gossip p2p implementation; that dropped input is also penalised.",
		Assumptions: []string{"proto.Unmarshal never leaves nil elements in repeated message fields", "a panic inside a deferred-recover frame is caught and only that message is lost"},
		Rules: []core.Rule{
			rule("R33a", "recover frames are where the analysis assumes them", 6, func(r *Run) {
				recvFn := bcast + "(*broadcastProtocol).handleBroadcastReceive"
				if f := r.Fn(recvFn); f != nil {
					label := recvFn + " starts with a deferred recover"
					if hasLeadingRecover(f) {
						r.OK(label, r.W.Pos(f.Node().Pos()), "defer func(){ recover() }() precedes all processing")
					} else {
						r.Fail(label, r.W.Pos(f.Node().Pos()), "no leading deferred recover: a panic while handling a peer message kills the subscription goroutine")
					}
				}
				if f := r.Fn(prot + "HandlerWithClose"); f != nil {
					label := prot + "HandlerWithClose runs the handler under a deferred recover"
					ok := false
					for _, cl := range f.Closures() {
						if hasLeadingRecover(cl) {
							ok = true
						}
					}
					if ok {
						r.OK(label, r.W.Pos(f.Node().Pos()), "the returned handler starts with defer func(){ recover() }()")
					} else {
						r.Fail(label, r.W.Pos(f.Node().Pos()), "the wrapper no longer recovers")
					}
				}
				core.CallArgs{Fn: prot + "RegisterStreamHandler", Callee: []string{"github.com/libp2p/go-libp2p/core/host.Host.SetStreamHandler"}, What: "installs the handler wrapped in HandlerWithClose", Min: 1, Deep: true,
					Args: map[int]core.ExprPred{1: core.CallsAny(prot + "HandlerWithClose")}}.Check(r)
				// stream handlers in the two protocol packages are installed only through RegisterStreamHandler
				for _, pp := range []string{"system/p2p/dht/protocol/broadcast", "system/p2p/dht/protocol/download"} {
					pkg := r.W.Pkg(pp)
					if pkg == nil {
						r.Unresolved(pp)
						continue
					}
					bad := ""
					for _, f := range r.W.AllFuncs(pkg) {
						core.InspectBody(f, func(x ast.Node) bool {
							if call, ok := x.(*ast.CallExpr); ok {
								if fn := core.Callee(f.Info(), call); fn != nil && fn.Name() == "SetStreamHandler" {
									bad = r.W.Pos(call.Pos())
								}
							}
							return true
						})
					}
					label := pp + ": stream handlers are installed only through protocol.RegisterStreamHandler"
					if bad == "" {
						r.OK(label, "-", "no direct SetStreamHandler call")
					} else {
						r.Fail(label, bad, "direct SetStreamHandler bypasses the recovering wrapper")
					}
				}
				// the 'recovered' functions of the broadcast package have no caller outside the recovered region
				cgEntries := map[string]bool{}
				for name := range recovered {
					cgEntries[name] = true
				}
				for name := range recovered {
					if !strings.HasPrefix(name, bcast) || name == recvFn {
						continue
					}
					f := r.Fn(name)
					if f == nil {
						continue
					}
					label := name + " is only called from recovered code"
					bad := ""
					for _, cs := range r.W.CallSitesOf(core.Names(name)) {
						if cs.Caller == nil || !cgEntries[cs.Caller.Name] {
							who := "?"
							if cs.Caller != nil {
								who = cs.Caller.Name
							}
							bad = fmt.Sprintf("%s: called from %s, which is not under a recover frame", r.W.Pos(cs.Call.Pos()), who)
						}
					}
					if bad == "" {
						r.OK(label, r.W.Pos(f.Node().Pos()), "all call sites lie in functions of the recovered set")
					} else {
						r.Fail(label, r.W.Pos(f.Node().Pos()), bad)
					}
				}
			}),
			rule("R33b", "no unguarded panic site in goroutines that are not under a recover frame", 15, func(r *Run) {
				var known []string
				for name := range recovered {
					known = append(known, name)
				}
				core.MayPanic{Funcs: unrecovered, Known: known, TrustFn: outsideTrust, SkipNilDeref: true, CheckAlloc: true, Min: 15,
					IndexOK: frozenSites}.Check(r)
				// the frozen light-block sites: the invariants they rely on
				core.HasAtom{Fn: bcast + "(*ltBroadcast).addLtBlock", Name: "declared tx count equals the number of short hashes (else the light block is dropped)",
					L: core.MayBeFromCall(0, "types.(*Header).GetTxCount"), R: func(c *core.Ctx, e ast.Expr) bool {
						found := false
						ast.Inspect(e, func(x ast.Node) bool {
							if call, ok := x.(*ast.CallExpr); ok && core.IsBuiltinCall(c.Info, call, "len") && len(call.Args) == 1 && core.CallsAny("types.(*LightBlock).GetSTxHashes")(c, call.Args[0]) {
								found = true
							}
							return true
						})
						return found
					}, Rel: token.NEQ}.Check(r)
				core.WhoMayCall{Targets: []string{bcast + "ltBroadcast.pendBlockList"}, Allowed: []string{bcast + "initLightBroadcast", bcast + "(*ltBroadcast).addLtBlock", bcast + "(*ltBroadcast).buildPendList"}, Min: 3}.Check(r)
				if f := r.Fn(bcast + "(*ltBroadcast).buildPendBlock"); f != nil {
					c := f.Ctx()
					label := f.Name + ": notExistTxIndices only holds range indices over the block's tx slice"
					good, bad := 0, ""
					core.InspectBody(f, func(x ast.Node) bool {
						as, ok := x.(*ast.AssignStmt)
						if !ok || len(as.Lhs) != 1 || len(as.Rhs) != 1 || !core.IsObj(bcast + "pendBlock.notExistTxIndices")(c, as.Lhs[0]) {
							return true
						}
						switch rhs := ast.Unparen(as.Rhs[0]).(type) {
						case *ast.SliceExpr: // reset: x[:0]
							if rhs.Low == nil && rhs.High != nil && core.IsConstInt(0)(c, rhs.High) {
								good++
								return true
							}
						case *ast.CallExpr: // append(x, i) with i the index of `range pd.block.GetTxs()`
							if core.IsBuiltinCall(c.Info, rhs, "append") && len(rhs.Args) == 2 {
								if id, ok := ast.Unparen(rhs.Args[1]).(*ast.Ident); ok {
									for p := r.W.Parent(as); p != nil; p = r.W.Parent(p) {
										if rs, ok := p.(*ast.RangeStmt); ok {
											if k, ok := rs.Key.(*ast.Ident); ok && c.Info.ObjectOf(k) == c.Info.ObjectOf(id) && core.CallsAny("types.(*Block).GetTxs")(c, rs.X) && core.Mentions(bcast + "pendBlock.block")(c, rs.X) {
												good++
												return true
											}
										}
									}
								}
							}
						}
						bad = r.W.Pos(as.Pos()) + ": `" + core.ExprStr(as) + "`"
						return true
					})
					if bad == "" && good >= 2 {
						r.OK(label, r.W.Pos(f.Node().Pos()), "reset to [:0], then appended only with the index of `range pd.block.GetTxs()`")
					} else {
						r.Fail(label, r.W.Pos(f.Node().Pos()), fmt.Sprintf("recognised assignments: %d; other: %s", good, bad))
					}
				}
				core.WhoMayCall{Targets: []string{bcast + "pendBlock.notExistTxIndices"}, Allowed: []string{bcast + "(*ltBroadcast).buildPendBlock", bcast + "(*ltBroadcast).addLtBlock"}, Min: 3}.Check(r)
				// the frozen download sites: the guards they rely on
				nonEmpty := core.CondGuard{Fact: "peers-non-empty", Match: func(c *core.Ctx, atom ast.Expr) (bool, bool) {
					if op, ok := core.CmpAtom(c, atom, core.CallsAny(dl+"tasks.Size"), core.IsConstInt(0)); ok {
						switch op {
						case token.EQL:
							return true, false
						case token.NEQ, token.GTR:
							return true, true
						}
					}
					return false, false
				}}
				core.Dominated{Fn: dl + "(*Protocol).downloadBlock", Spec: &core.FlowSpec{Conds: []core.CondGuard{nonEmpty}}, Sink: core.CallSink(dl + "(*Protocol).availbTask"), Need: []Fact{"peers-non-empty"}, Min: 1}.Check(r)
				core.WhoMayCall{Targets: []string{dl + "(*Protocol).availbTask"}, Allowed: []string{dl + "(*Protocol).downloadBlock"}, Min: 1}.Check(r)
				core.RejectWhen{Fn: dl + "tasks.Remove", Name: "the remembered index lies beyond the slice", L: core.PlusOne(core.Mentions(dl + "taskInfo.Index")), R: core.CallsAny(dl + "tasks.Size"), Rel: token.GTR,
					RejectBy: func(fl *core.Flow, ret *core.GNode) bool {
						rs, ok := ret.Ast.(*ast.ReturnStmt)
						return ok && len(rs.Results) == 1 && core.IsObj("recv")(fl.C, rs.Results[0]) // returns the slice unchanged
					}}.Check(r)
				for _, m := range []string{"Less", "Swap"} {
					label := dl + "tasks." + m + " is only called by the sort package"
					n := len(r.W.CallSitesOf(core.Names(dl + "tasks." + m)))
					if n == 0 {
						r.OK(label, "-", "no direct call in the loaded packages")
					} else {
						r.Fail(label, "-", fmt.Sprintf("%d direct call(s): the indices are no longer known to be below Len()", n))
					}
				}
				// the frozen list-element assertions: single producer per list
				for _, l := range []struct{ field, producer string }{{bcast + "ltBroadcast.pendBlockList", bcast + "(*ltBroadcast).addLtBlock"}, {bcast + "ltBroadcast.blockRequestList", bcast + "(*ltBroadcast).addBlockRequest"}} {
					label := l.field + " is filled by its single producer only"
					bad := ""
					n := 0
					for _, pp := range []string{"system/p2p/dht/protocol/broadcast"} {
						pkg := r.W.Pkg(pp)
						if pkg == nil {
							continue
						}
						for _, f := range r.W.AllFuncs(pkg) {
							core.InspectBody(f, func(x ast.Node) bool {
								call, ok := x.(*ast.CallExpr)
								if !ok {
									return true
								}
								sel, ok := ast.Unparen(call.Fun).(*ast.SelectorExpr)
								if !ok || !strings.HasPrefix(sel.Sel.Name, "Push") && !strings.HasPrefix(sel.Sel.Name, "Insert") {
									return true
								}
								if core.IsObj(l.field)(f.Ctx(), sel.X) {
									n++
									if f.Name != l.producer {
										bad = r.W.Pos(call.Pos()) + " in " + f.Name
									}
								}
								return true
							})
						}
					}
					if bad == "" && n > 0 {
						r.OK(label, "-", fmt.Sprintf("%d insertion(s), all in %s", n, l.producer))
					} else {
						r.Fail(label, "-", fmt.Sprintf("insertions=%d, outside the producer: %s", n, bad))
					}
				}
			}),
			rule("R33c", "recovered code: sites listed; no allocation sized by an unchecked peer value", 10, func(r *Run) {
				var fs []string
				for name := range recovered {
					fs = append(fs, name)
				}
				sort.Strings(fs)
				// the recovered functions call into the unrecovered helpers as well: those are decided by R33b
				core.MayPanic{Funcs: fs, Known: unrecovered, Recovered: recovered, TrustFn: outsideTrust, SkipNilDeref: true, CheckAlloc: true, Min: 10}.Check(r)
			}),
		},
	})
}
