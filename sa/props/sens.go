package props

import "verif/sa/core"

// Sensitivity is filled in by sens_run.go (overlay mutants); see DESIGN.md §7.
func Sensitivity(p *core.Property, seed int64) map[string]interface{} { return nil }
