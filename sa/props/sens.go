package props

import (
	"encoding/json"
	"os"
	"os/exec"
	"path/filepath"
	"regexp"
	"sort"
	"strings"
	"sync"

	"verif/sa/core"
)

// Sensitivity (thorough tier only; reported in evidence, never part of the
// verdict): every seeded change under /verif/seeded that targets this property
// — real edits that were confirmed to compile, pass the existing tests and
// break the property — is applied to the CURRENT source in memory
// (packages overlay, nothing is written) and the property's quick rule set is
// decided on the result in a child process.  The report says which rule
// instance names the change, and lists the seeds no rule of this property sees.
func Sensitivity(p *core.Property, seed int64) map[string]interface{} {
	dirs, _ := filepath.Glob("/verif/seeded/C*")
	type item struct{ id, patch, summary string }
	var items []item
	for _, d := range dirs {
		b, err := os.ReadFile(filepath.Join(d, "meta.json"))
		if err != nil {
			continue
		}
		var meta struct {
			Property string `json:"property"`
			Summary  string `json:"summary"`
		}
		if json.Unmarshal(b, &meta) != nil || meta.Property != p.ID {
			continue
		}
		s := meta.Summary
		if len(s) > 160 {
			s = s[:160]
		}
		items = append(items, item{filepath.Base(d), filepath.Join(d, "patch.diff"), s})
	}
	sort.Slice(items, func(i, j int) bool { return items[i].id < items[j].id })
	if len(items) == 0 {
		return map[string]interface{}{"seeded_changes_tried": 0, "note": "no seeded change targets this property"}
	}
	self, err := os.Executable()
	if err != nil {
		return map[string]interface{}{"error": err.Error()}
	}
	ruleRe := regexp.MustCompile(`rule (R[0-9]+[a-z]?), instance ([^:]+(?::[^:]+)?)`)
	type outcome struct {
		ID       string   `json:"seed"`
		Detected bool     `json:"detected"`
		Rules    []string `json:"rules,omitempty"`
		First    string   `json:"first_report,omitempty"`
		Note     string   `json:"note,omitempty"`
		Summary  string   `json:"change"`
	}
	outs := make([]outcome, len(items))
	var wg sync.WaitGroup
	sem := make(chan struct{}, 4)
	for i, it := range items {
		wg.Add(1)
		go func(i int, it item) {
			defer wg.Done()
			sem <- struct{}{}
			defer func() { <-sem }()
			ev, _ := os.MkdirTemp("", "verifsa-sens-")
			defer os.RemoveAll(ev)
			cmd := exec.Command(self, "check", "-p", p.ID, "-tier", "quick", "-seedpatch", it.patch, "-evidence", ev)
			b, _ := cmd.CombinedOutput()
			o := outcome{ID: it.id, Summary: it.summary}
			text := string(b)
			switch {
			case strings.Contains(text, "SEED-NOT-APPLICABLE"):
				o.Note = "the recorded diff no longer applies to the current source"
			case strings.Contains(text, "VIOLATION"):
				o.Detected = true
				seen := map[string]bool{}
				for _, m := range ruleRe.FindAllStringSubmatch(text, -1) {
					if !seen[m[1]] {
						seen[m[1]] = true
						o.Rules = append(o.Rules, m[1])
					}
					if o.First == "" {
						o.First = m[1] + " @ " + strings.TrimSpace(m[2])
					}
				}
				sort.Strings(o.Rules)
			}
			outs[i] = o
		}(i, it)
	}
	wg.Wait()
	// a seed this property's rules do not see may be seen by a sibling property's check (the edit sits in
	// a function that property anchors): taken from the last recorded seed run, for the reader's orientation
	var recorded map[string]struct {
		CaughtBy map[string][]string `json:"caught_by"`
	}
	if b, err := os.ReadFile("/verif/seeded/RESULTS.json"); err == nil {
		_ = json.Unmarshal(b, &recorded)
	}
	for i := range outs {
		if outs[i].Detected || outs[i].Note != "" {
			continue
		}
		var sib []string
		for prop := range recorded[outs[i].ID].CaughtBy {
			if prop != p.ID {
				sib = append(sib, prop)
			}
		}
		sort.Strings(sib)
		if len(sib) > 0 {
			outs[i].Note = "not seen by this property's rules; the recorded seed run shows it reported by the check of " + strings.Join(sib, ", ")
		} else {
			outs[i].Note = "not seen by any rule (see DESIGN.md §9.4 for the value-level changes that stay out of reach)"
		}
	}
	det := 0
	var missed []string
	for _, o := range outs {
		if o.Detected {
			det++
		} else {
			missed = append(missed, o.ID)
		}
	}
	return map[string]interface{}{
		"what":                 "seeded property-breaking changes (/verif/seeded) applied in memory to the current source; the property's rule set decided on each",
		"seeded_changes_tried": len(outs),
		"detected":             det,
		"not_detected":         missed,
		"outcomes":             outs,
	}
}
