package props

import (
	"fmt"
	"go/ast"
	"go/token"
	"go/types"
	"strings"

	"verif/sa/core"
)

const (
	bcp = "blockchain."
	bcm = "blockchain.(*BlockChain)."
	bsm = "blockchain.(*BlockStore)."
)

func assumeParamsTrue(r *Run, fn string, idx ...int) map[types.Object]core.Tri {
	m := map[types.Object]core.Tri{}
	if f := r.W.Func(fn); f != nil {
		for _, i := range idx {
			if p := f.Param(i); p != nil {
				m[p] = core.True
			}
		}
	}
	return m
}

func heightPositive(c *core.Ctx, e ast.Expr) core.Tri {
	if t := core.AssumeRel(core.Mentions("types.Block.Height"), token.GTR, core.IsConstInt(0), core.True)(c, e); t != core.Unknown {
		return t
	}
	return core.Unknown
}

func init() {
	// ------------------------------------------------------------------ C27
	register(&core.Property{
		ID:       "C27",
		Title:    "Invalid blocks are rejected without side effects or poisoning",
		Packages: []string{"blockchain", "util", "types"},
		Explanation: "Decides R27a-R27d: for a peer block (errReturn, height>0) PreExecBlock returns success only behind a passed signature check, an awaited clean duplicate check, successful execution, matching transaction root and state root and CheckBlock, each mismatch has a live, correctly oriented rejection and a state-root mismatch rolls the pending state back first; " +
			"maybeAcceptBlock stores and indexes a block only with a known parent and consecutive height; in connectBlock nothing is added to the chain batch before execution succeeded; " +
			"R27c (poisoning): an execution error that depends on the block body rather than on the header hash must not be recorded on the header-hash node.",
		NotCovered: "that execution itself is right; the contents of the pre-stored body table (R27c only decides the index-node part).",
		Rules: []core.Rule{
			rule("R27a", "PreExecBlock: every validity check dominates success (peer block)", 12, func(r *Run) {
				fn := "util.PreExecBlock"
				asm := func() *core.FlowSpec {
					return &core.FlowSpec{AssumeObj: assumeParamsTrue(r, fn, 3, 5), Assume: heightPositive}
				}
				sp := asm()
				sp.Calls = []core.CallGuard{isTrue("sig-ok", "types.VerifySignature"), errNil("memset-ok", "util.ExecKVMemSet"), errNil("checkblock-ok", "util.CheckBlock")}
				sp.Conds = []core.CondGuard{
					core.BoolGuard("dup-result-nil", func(c *core.Ctx, e ast.Expr) bool {
						op, ok := core.CmpAtom(c, e, fromRecv, isNilLit)
						return ok && op == token.NEQ
					}, false),
					core.BoolGuard("txroot-ok", core.CallAtomSym("bytes.Equal", core.DerivedFromCall("common/merkle.CalcMerkleRoot", "common/merkle.CalcMerkleRootCache"), core.Mentions("types.Block.TxHash")), true),
					core.BoolGuard("stateroot-ok", core.CallAtomSym("bytes.Equal", core.Mentions("types.Block.StateHash"), core.FromCall(0, "util.ExecKVMemSet")), true),
				}
				core.Dominated{Fn: fn, Spec: sp, Sink: core.SuccessReturn(-1), Need: []Fact{"sig-ok", "dup-result-nil", "txroot-ok", "memset-ok", "stateroot-ok", "checkblock-ok"}, Min: 1}.Check(r)
				core.RejectWhen{Fn: fn, Spec: asm(), Name: "a receipt is ExecErr", L: core.Mentions("types.Receipt.Ty"), R: core.IsObj("types.ExecErr"), Rel: token.EQL, Sentinel: "types.ErrBlockExec"}.Check(r)
				core.RejectWhen{Fn: fn, Spec: asm(), Name: "computed tx root != header tx root", BoolAtom: core.CallAtomSym("bytes.Equal", core.AnyExpr, core.Mentions("types.Block.TxHash")), RejectVal: false, Sentinel: "types.ErrCheckTxHash"}.Check(r)
				core.RejectWhen{Fn: fn, Spec: asm(), Name: "computed state root != header state root", BoolAtom: core.CallAtomSym("bytes.Equal", core.Mentions("types.Block.StateHash"), core.AnyExpr), RejectVal: false, Sentinel: "types.ErrCheckStateHash"}.Check(r)
				core.FailStops{Fn: fn, Spec: asm(), Callee: []string{"types.VerifySignature"}, Fail: core.OFalse, Idx: -1, Forbidden: core.CallSink("util.ExecTx", "util.ExecKVMemSet"), Min: 1, Name: "signature check false"}.Check(r)
				core.FailStops{Fn: fn, Spec: asm(), Callee: []string{"util.ExecTx"}, Fail: core.OErrNonNil, Idx: -1, Forbidden: core.SuccessReturn(-1), Min: 1, Name: "ExecTx error"}.Check(r)
				core.LiveReturn{Fn: fn, Spec: asm(), Sentinels: []string{"types.ErrSign", "types.ErrBlockExec", "types.ErrCheckTxHash", "types.ErrCheckStateHash"}}.Check(r)
				// state-root mismatch: pending state rolled back before returning
				sent := r.W.LookupObj("types.ErrCheckStateHash")
				core.Dominated{Fn: fn, Spec: &core.FlowSpec{Calls: []core.CallGuard{called("pending-rolled-back", "util.ExecKVSetRollback")}},
					Sink: core.SinkPred{Label: "return ErrCheckStateHash", Match: func(fl *core.Flow, n *core.GNode) bool {
						if n.Kind != core.KReturn || sent == nil {
							return false
						}
						found := false
						core.InspectNode(n.Ast, func(x ast.Node) bool {
							if id, ok := x.(*ast.Ident); ok && fl.C.Info.Uses[id] == sent {
								found = true
							}
							return true
						})
						return found
					}}, Need: []Fact{"pending-rolled-back"}, Min: 1}.Check(r)
				core.CallArgs{Fn: fn, Callee: []string{"util.ExecKVSetRollback"}, What: "rolls back the state that was just computed",
					Args: map[int]core.ExprPred{1: core.FromCall(0, "util.ExecKVMemSet")}, Min: 1}.Check(r)
				core.CallArgs{Fn: fn, Callee: []string{"util.ExecKVMemSet"}, What: "pending state computed from the given previous root at the block height",
					Args: map[int]core.ExprPred{1: core.IsObj("param:1"), 2: core.Mentions("types.Block.Height")}, Min: 1}.Check(r)
			}),
			rule("R27b", "maybeAcceptBlock/ProcessBlock: known parent and consecutive height before storing and indexing", 8, func(r *Run) {
				fn := bcm + "maybeAcceptBlock"
				prevNode := core.FromCall(0, bcp+"(*blockIndex).LookupNode")
				sp := &core.FlowSpec{
					Calls: []core.CallGuard{errNil("prestored", bsm+"dbMaybeStoreBlock")},
					Conds: []core.CondGuard{
						core.RelGuard("parent-known", prevNode, token.NEQ, isNilLit),
						core.RelGuard("height-consecutive", core.DerivedFromCall("types.(*Block).GetHeight"), token.EQL, core.PlusOne(core.Mentions(bcp+"blockNode.height"))),
					},
				}
				core.Dominated{Fn: fn, Spec: sp, Sink: core.CallSink(bsm+"dbMaybeStoreBlock"), Need: []Fact{"parent-known", "height-consecutive"}, Min: 1}.Check(r)
				core.Dominated{Fn: fn, Spec: sp, Sink: core.CallSink(bcp+"(*blockIndex).AddNode", bcm+"connectBestChain"), Need: []Fact{"parent-known", "height-consecutive", "prestored"}, Min: 2}.Check(r)
				core.RejectWhen{Fn: fn, Name: "parent unknown", L: prevNode, R: isNilLit, Rel: token.EQL, Sentinel: "types.ErrParentBlockNoExist"}.Check(r)
				core.RejectWhen{Fn: fn, Name: "height != parent height + 1", L: core.DerivedFromCall("types.(*Block).GetHeight"), R: core.PlusOne(core.Mentions(bcp + "blockNode.height")), Rel: token.NEQ, Sentinel: "types.ErrBlockHeightNoMatch"}.Check(r)
				core.CallArgs{Fn: fn, Callee: []string{bcp + "(*blockIndex).LookupNode"}, What: "looks up the block's own parent hash",
					Args: map[int]core.ExprPred{0: core.DerivedFromCall("types.(*Block).GetParentHash")}, Min: 1}.Check(r)
				// ProcessBlock: an already known hash is refused; an unknown parent makes the block an orphan
				pb := bcm + "ProcessBlock"
				core.FailStops{Fn: pb, Callee: []string{bcm + "blockExists"}, ArgOK: func(c *core.Ctx, call *ast.CallExpr) bool {
					return len(call.Args) == 1 && core.DerivedFromCall("types.(*Block).Hash")(c, call.Args[0])
				}, Fail: core.OTrue, Idx: -1, Forbidden: core.CallSink(bcm + "maybeAddBestChain"), Min: 1, Name: "block hash already known"}.Check(r)
				core.FailStops{Fn: pb, Spec: &core.FlowSpec{Assume: func(c *core.Ctx, e ast.Expr) core.Tri {
					// the block is not the genesis block and not a known orphan
					if t := core.AssumeRel(core.CallsAny("types.(*Block).GetHeight"), token.EQL, core.IsConstInt(0), core.False)(c, e); t != core.Unknown {
						return t
					}
					return core.Unknown
				}, FailCalls: []core.FailCall{{Callee: core.Names(bcp + "(*OrphanPool).IsKnownOrphan"), Idx: -1, Outcome: core.OFalse}}},
					Callee: []string{bcm + "blockExists"}, ArgOK: func(c *core.Ctx, call *ast.CallExpr) bool {
						return len(call.Args) == 1 && core.DerivedFromCall("types.(*Block).GetParentHash")(c, call.Args[0])
					}, Fail: core.OFalse, Idx: -1, Forbidden: core.CallSink(bcm + "maybeAddBestChain"), Min: 1, Name: "parent unknown (orphan)"}.Check(r)
				core.LiveReturn{Fn: pb, Sentinels: []string{"types.ErrBlockExist"}}.Check(r)
			}),
			rule("R27c", "body-dependent execution errors are not recorded on the header-hash node", 1, func(r *Run) {
				cl := bcm + "connectBlock$calls:" + bcp + "IsRecordFaultErr"
				f := r.Fn(cl)
				if f == nil {
					return
				}
				// The closure decides between DelNode (forget) and errLog (remember).  Errors that a
				// different body behind the same header hash can cause: ErrSign (signatures are not
				// covered by the tx root), ErrCheckTxHash, ErrTxDup.  Each must be tested for on the
				// way to the errLog store, i.e. assuming the error IS that sentinel the store is dead.
				rec := r.Fn(bcp + "IsRecordFaultErr")
				// fast-download blocks: whatever the error, the node is forgotten (never remembered with an error),
				// so that the block can be fetched again in normal mode
				core.UnreachableUnder{Fn: cl, Name: "the block came from the fast-download path (pid == \"download\")", Sink: core.StoreSink(r.W, bcp+"blockNode.errLog"), Min: 1,
					Spec: &core.FlowSpec{Assume: func(c *core.Ctx, e ast.Expr) core.Tri {
						isDownload := func(c *core.Ctx, x ast.Expr) bool {
							tv, ok := c.Info.Types[x]
							return ok && tv.Value != nil && tv.Value.ExactString() == `"download"`
						}
						if op, ok := core.CmpAtom(c, e, core.Mentions(bcp+"blockNode.pid"), isDownload); ok {
							if op == token.EQL {
								return core.True
							}
							if op == token.NEQ {
								return core.False
							}
						}
						return core.Unknown
					}}}.Check(r)
				for _, s := range []string{"types.ErrSign", "types.ErrCheckTxHash", "types.ErrTxDup"} {
					so := r.W.LookupObj(s)
					label := fmt.Sprintf("connectBlock.handleErrBlk does not remember %s on the block-index node", s)
					mentioned := false
					for _, g := range []*core.FuncInfo{f, rec} {
						if g == nil {
							continue
						}
						core.InspectBody(g, func(x ast.Node) bool {
							if id, ok := x.(*ast.Ident); ok && g.Info().Uses[id] == so {
								mentioned = true
							}
							return true
						})
					}
					if mentioned {
						r.OK(label, r.W.Pos(f.Node().Pos()), "the sentinel is tested before the error is recorded")
					} else {
						r.Fail(label, r.W.Pos(f.Node().Pos()), "the error is recorded (node.errLog) and the node kept in the index whatever the error: a tampered body poisons the header hash, the genuine block is later refused with ErrBlockExist")
					}
				}
			}),
			rule("R27e", "only main-chain blocks enter the by-hash read cache", 3, func(r *Run) {
				// The active-block cache is consulted by hash before the database.  A body stored by hash
				// but never connected (pre-stored, rejected, side chain) must not get in: it would be served
				// under the hash of the genuine block once that one is connected.
				mainHash := bsm + "GetBlockHashByHeight"
				occ := map[string]int{}
				for _, cs := range r.W.CallSitesOf(core.Names(bsm + "AddActiveBlock")) {
					if cs.Caller == nil || len(cs.Call.Args) != 2 {
						continue
					}
					f := cs.Caller
					r.Touch(f)
					c := f.Ctx()
					occ[f.Name]++
					label := fmt.Sprintf("%s: AddActiveBlock #%d caches a main-chain block only", f.Name, occ[f.Name])
					pos := r.W.Pos(cs.Call.Pos())
					switch {
					case core.DerivedFromCall(mainHash)(c, cs.Call.Args[0]):
						r.OK(label, pos, "the key is the main-chain hash recorded for a height")
						continue
					case core.MayBeFromCall(0, bsm+"LoadBlock")(c, cs.Call.Args[1]):
						if ld := singleDefCall(c, cs.Call.Args[1], 0, bsm+"LoadBlock"); ld != nil && len(ld.Args) == 2 && core.DerivedFromCall(mainHash)(c, ld.Args[1]) {
							r.OK(label, pos, "the block was loaded through the height index (LoadBlock with the main-chain hash of the height)")
							continue
						}
					}
					// otherwise the call must sit behind `bytes.Equal(<main-chain hash of the block's height>, <key>)`
					fl := core.RunFlow(f, &core.FlowSpec{Conds: []core.CondGuard{core.BoolGuard("is-main-chain",
						core.CallAtomSym("bytes.Equal", core.DerivedFromCall(mainHash), core.AnyExpr), true)}})
					n := fl.G.NodeContaining(cs.Call.Pos())
					if n != nil && fl.Live(n) && fl.In[n].Has("is-main-chain") {
						r.OK(label, pos, "behind bytes.Equal(main-chain hash at the block's height, hash)")
					} else {
						r.Fail(label, pos, fmt.Sprintf("`%s` can cache a block that is stored by hash but not connected at its height: a rejected or side-chain body would later be served under that hash", core.ExprStr(cs.Call)))
					}
				}
			}),
			rule("R27d", "connectBlock: nothing enters the chain batch before execution succeeded; wrong tip refused", 6, func(r *Run) {
				fn := bcm + "connectBlock"
				sp := spec(errNil("exec-ok", bcp+"execBlock"))
				sp.Conds = []core.CondGuard{core.BoolGuard("on-tip", core.CallAtomSym("bytes.Equal", core.DerivedFromCall("types.(*Block).GetParentHash"), core.Mentions(bcp+"blockNode.hash")), true)}
				core.Dominated{Fn: fn, Spec: sp, Sink: core.CallSink(bsm+"AddTxs", bsm+"SaveBlock", bsm+"SaveTdByBlockHash", "common/db.Batch.Write", bcp+"(*chainView).SetTip"), Need: []Fact{"exec-ok", "on-tip"}, Min: 5}.Check(r)
				core.Dominated{Fn: fn, Spec: sp, Sink: core.CallSink(bcp + "execBlock"), Need: []Fact{"on-tip"}, Min: 1}.Check(r)
				core.RejectWhen{Fn: fn, Name: "parent is not the current tip", BoolAtom: core.CallAtomSym("bytes.Equal", core.DerivedFromCall("types.(*Block).GetParentHash"), core.Mentions(bcp+"blockNode.hash")), RejectVal: false, Sentinel: "types.ErrBlockHashNoMatch"}.Check(r)
				// peers' blocks are executed with errReturn = true
				core.AnyComparison{Fn: fn, Name: "errReturn = (node.pid != \"self\")", L: core.Mentions(bcp + "blockNode.pid"), R: func(c *core.Ctx, e ast.Expr) bool {
					bl, ok := ast.Unparen(e).(*ast.BasicLit)
					return ok && bl.Value == `"self"`
				}, Rel: token.NEQ}.Check(r)
			}),
		},
	})

	// ------------------------------------------------------------------ C29
	register(&core.Property{
		ID:       "C29",
		Title:    "Block connection is crash-consistent",
		Packages: []string{"blockchain", "util"},
		Explanation: "Decides the orderings that make it hold (R29a-R29d): the state is committed (ExecKVSetCommit, error propagated) before any chain record is written; all chain records of one block (tx index, block tables, height index, sequence, total difficulty) go into the one batch that is written once, " +
			"the batch-filling functions perform no direct database write; in-memory height/last-block/tip and the add/del events follow a successful batch write; no durable batch write has its error dropped.",
		NotCovered: "goleveldb's own atomicity (trusted); actual recovery after a crash (crash enumeration is a dynamic technique).",
		Rules: []core.Rule{
			rule("R29a", "state before chain", 5, func(r *Run) {
				core.Dominated{Fn: "util.ExecBlock", Spec: spec(errNil("preexec-ok", "util.PreExecBlock"), errNil("state-committed", "util.ExecKVSetCommit")),
					Sink: core.CallSink("util.ExecKVSetCommit"), Need: []Fact{"preexec-ok"}, Min: 1}.Check(r)
				core.Dominated{Fn: "util.ExecBlock", Spec: spec(errNil("preexec-ok", "util.PreExecBlock"), errNil("state-committed", "util.ExecKVSetCommit")),
					Sink: core.SuccessReturn(-1), Need: []Fact{"preexec-ok", "state-committed"}, Min: 1}.Check(r)
				core.CallArgs{Fn: "util.ExecBlock", Callee: []string{"util.ExecKVSetCommit"}, What: "commits the state root the block declares (verified equal by PreExecBlock)",
					Args: map[int]core.ExprPred{1: core.Mentions("types.Block.StateHash")}, Min: 1}.Check(r)
				core.Dominated{Fn: bcm + "connectBlock", Spec: spec(errNil("exec-ok", bcp+"execBlock"), errNil("txs-indexed", bsm+"AddTxs"), errNil("block-saved", bsm+"SaveBlock"), errNil("td-saved", bsm+"SaveTdByBlockHash")),
					Sink: core.CallSink("common/db.Batch.Write"), Need: []Fact{"exec-ok", "txs-indexed", "block-saved", "td-saved"}, Min: 1}.Check(r)
				core.Dominated{Fn: bcm + "disconnectBlock", Spec: spec(errNil("txs-removed", bsm+"DelTxs"), errNil("block-removed", bsm+"DelBlock")),
					Sink: core.CallSink("common/db.Batch.Write"), Need: []Fact{"txs-removed", "block-removed"}, Min: 1}.Check(r)
				core.CallArgs{Fn: bcp + "execBlock", Callee: []string{"util.ExecBlock"}, What: "peer blocks are validated (errReturn passed through) and checked (checkblock=true)",
					Args: map[int]core.ExprPred{3: core.IsObj("param:3"), 5: func(c *core.Ctx, e ast.Expr) bool {
						tv, ok := c.Info.Types[e]
						return ok && tv.Value != nil && tv.Value.String() == "true"
					}}, Min: 1}.Check(r)
			}),
			rule("R29b", "one batch per block, filled only through the batch", 11, func(r *Run) {
				core.SameBatchArg{Fn: bcm + "connectBlock", Callees: []string{bsm + "AddTxs", bsm + "SaveBlock", bsm + "SaveTdByBlockHash"}, Arg: 0, Write: []string{"common/db.Batch.Write"}, Min: 3}.Check(r)
				core.SameBatchArg{Fn: bcm + "disconnectBlock", Callees: []string{bsm + "DelTxs", bsm + "DelBlock"}, Arg: 0, Write: []string{"common/db.Batch.Write"}, Min: 2}.Check(r)
				direct := []string{"common/db.DB.Set", "common/db.DB.SetSync", "common/db.DB.Delete", "common/db.DB.DeleteSync", "common/db.Batch.Write", "common/db.MustWrite",
					"common/db.KV.Set", "common/db.KVDB.Set"}
				core.NoCallsIn{Fns: []string{bsm + "AddTxs", bsm + "DelTxs", bsm + "SaveBlock", bsm + "DelBlock", bsm + "saveBlockSequence", bsm + "saveBlockForTable", bsm + "SaveTdByBlockHash"},
					Forbidden: direct, Why: "every record of the block must be part of the caller's atomic batch"}.Check(r)
				// ... and neither does any helper they call inside package blockchain (call-graph closure)
				{
					var entries []*core.FuncInfo
					for _, fn := range []string{bsm + "AddTxs", bsm + "DelTxs", bsm + "SaveBlock", bsm + "DelBlock", bsm + "saveBlockSequence", bsm + "saveBlockForTable", bsm + "SaveTdByBlockHash"} {
						if f := r.W.Func(fn); f != nil {
							entries = append(entries, f)
						}
					}
					cg := core.NewCallGraph(r.W)
					inPkg := func(f *core.FuncInfo) bool { return f.Pkg != nil && strings.HasSuffix(f.Pkg.PkgPath, "chain33/blockchain") }
					reach := cg.Reach(entries, func(f *core.FuncInfo) bool { return !inPkg(f) })
					forb := core.Names(direct...)
					label := "helpers reached from the batch-filling functions perform no direct durable write"
					bad := ""
					n := 0
					for f, chain := range reach {
						if !inPkg(f) {
							continue
						}
						n++
						core.InspectBody(f, func(x ast.Node) bool {
							if call, ok := x.(*ast.CallExpr); ok && bad == "" && forb.Has(core.Callee(f.Info(), call)) {
								bad = fmt.Sprintf("%s: `%s` (reached through %s) writes on its own: part of the block's records would become durable before the rest", r.W.Pos(call.Pos()), core.ExprStr(call), strings.Join(chain, " → "))
							}
							return true
						})
					}
					if bad != "" {
						r.Fail(label, "-", bad)
					} else {
						r.OK(label, "-", fmt.Sprintf("%d functions of package blockchain in the closure, none writes directly", n))
					}
				}
				// exactly one write of that batch in connectBlock / disconnectBlock
				for _, fn := range []string{bcm + "connectBlock", bcm + "disconnectBlock"} {
					f := r.Fn(fn)
					if f == nil {
						continue
					}
					n := 0
					core.InspectBody(f, func(x ast.Node) bool {
						if call, ok := x.(*ast.CallExpr); ok && core.Names("common/db.Batch.Write", "common/db.MustWrite").Has(core.Callee(f.Info(), call)) {
							n++
						}
						return true
					})
					label := fn + " writes its batch exactly once"
					if n == 1 {
						r.OK(label, r.W.Pos(f.Node().Pos()), "single Batch.Write")
					} else {
						r.Fail(label, r.W.Pos(f.Node().Pos()), fmt.Sprintf("%d batch writes: the block's records would be split over several atomic units", n))
					}
				}
			}),
			rule("R29c", "memory and events after the durable write", 8, func(r *Run) {
				core.Dominated{Fn: bcm + "connectBlock", Spec: spec(errNil("batch-written", "common/db.Batch.Write")),
					Sink: core.CallSink(bsm+"UpdateHeight2", bsm+"UpdateLastBlock2", bcp+"(*chainView).SetTip", bcm+"SendAddBlockEvent", bcm+"SendBlockBroadcast"), Need: []Fact{"batch-written"}, Min: 5}.Check(r)
				core.Dominated{Fn: bcm + "disconnectBlock", Spec: spec(errNil("batch-written", "common/db.Batch.Write")),
					Sink: core.CallSink(bsm+"UpdateHeight", bsm+"UpdateLastBlock", bcp+"(*chainView).DelTip", bcm+"SendDelBlockEvent"), Need: []Fact{"batch-written"}, Min: 4}.Check(r)
				core.FailStops{Fn: bcm + "connectBlock", Callee: []string{"common/db.Batch.Write"}, Fail: core.OErrNonNil, Idx: -1, Forbidden: core.CallSink(bcp + "(*chainView).SetTip"), Min: 1, Name: "batch write error"}.Check(r)
				core.FailStops{Fn: bcm + "disconnectBlock", Callee: []string{"common/db.Batch.Write"}, Fail: core.OErrNonNil, Idx: -1, Forbidden: core.CallSink(bcp + "(*chainView).DelTip"), Min: 1, Name: "batch write error"}.Check(r)
			}),
			rule("R29d", "no durable batch write has its error dropped", 10, func(r *Run) {
				core.NoDroppedError{Pkgs: []string{"blockchain"}, Callees: []string{"common/db.Batch.Write"}, Min: 8}.Check(r)
			}),
		},
	})

	// ------------------------------------------------------------------ C25
	register(&core.Property{
		ID:       "C25",
		Title:    "Best chain converges to the heaviest branch for any delivery order",
		Packages: []string{"blockchain"},
		Explanation: "Thin claim, structural clauses only (R25a-R25d): after a block is accepted its waiting orphans are processed on every success path, under the chain lock; a reorganisation loads every block of both branches before the first disconnect and disconnects everything before the first connect, stopping at the first error; " +
			"only the locked entry points reach connect/disconnect/reorganise; the fork-choice comparison keeps its exact boundaries (side chain iff total difficulty <= tip's; finalisation margin 12).",
		NotCovered: "that the branch with the greatest total difficulty wins for every delivery order, and equality of the persisted chain with a fresh node's (values of runtime difficulties and histories: V).",
		Rules: []core.Rule{
			rule("R25a", "accepted block ⇒ its orphans are processed, under chainLock", 4, func(r *Run) {
				fn := bcm + "maybeAddBestChain"
				lk := lockSpecFor(r, bcp+"BlockChain", "chainLock")
				if lk == nil {
					return
				}
				lk.Calls = []core.CallGuard{errNil("accepted", bcm+"maybeAcceptBlock"), errNil("orphans-processed", bcp+"(*OrphanPool).ProcessOrphans")}
				core.Dominated{Fn: fn, Spec: lk, Sink: core.SuccessReturn(-1), Need: []Fact{"accepted", "orphans-processed"}, Min: 1}.Check(r)
				core.Dominated{Fn: fn, Spec: lk, Sink: core.CallSink(bcm+"maybeAcceptBlock", bcp+"(*OrphanPool).ProcessOrphans"), Need: []Fact{"W:chainLock"}, Min: 2}.Check(r)
				core.CallArgs{Fn: fn, Callee: []string{bcp + "(*OrphanPool).ProcessOrphans"}, What: "children of the block just accepted",
					Args: map[int]core.ExprPred{0: core.DerivedFromCall("types.(*Block).Hash")}, Min: 1}.Check(r)
				// every child orphan goes through maybeAcceptBlock and its own children are queued
				po := bcp + "(*OrphanPool).ProcessOrphans"
				core.FailStops{Fn: po, Callee: []string{bcm + "maybeAcceptBlock"}, Fail: core.OErrNonNil, Idx: -1, Forbidden: core.SuccessReturn(-1), Min: 1, Name: "orphan not accepted"}.Check(r)
			}),
			rule("R25b", "reorganisation order: load all, disconnect all, connect all", 5, func(r *Run) {
				fn := bcm + "reorganizeChain"
				core.NotAfter{Fn: fn, Early: []string{bcm + "LoadBlockByHash"}, Late: []string{bcm + "disconnectBlock", bcm + "connectBlock"}, Name: "both branches are loaded before the first disconnect/connect", Min: 2}.Check(r)
				core.NotAfter{Fn: fn, Early: []string{bcm + "disconnectBlock"}, Late: []string{bcm + "connectBlock"}, Name: "every disconnect precedes the first connect", Min: 1}.Check(r)
				core.FailStops{Fn: fn, Callee: []string{bcm + "LoadBlockByHash"}, Fail: core.OErrNonNil, Idx: -1, Forbidden: core.CallSink(bcm+"disconnectBlock", bcm+"connectBlock"), Min: 2, Name: "block of a branch cannot be loaded"}.Check(r)
				core.FailStops{Fn: fn, Callee: []string{bcm + "disconnectBlock"}, Fail: core.OErrNonNil, Idx: -1, Forbidden: core.CallSink(bcm + "connectBlock"), Min: 1, Name: "disconnect failed"}.Check(r)
				core.FailStops{Fn: fn, Callee: []string{bcm + "connectBlock"}, Fail: core.OErrNonNil, Idx: -1, Forbidden: core.SuccessReturn(-1), Min: 1, Name: "connect failed"}.Check(r)
			}),
			rule("R25c", "only the locked paths reach connect / disconnect / reorganise", 6, func(r *Run) {
				core.WhoMayCall{Targets: []string{bcm + "connectBlock"}, Allowed: []string{bcm + "connectBestChain", bcm + "reorganizeChain"}, Min: 2}.Check(r)
				core.WhoMayCall{Targets: []string{bcm + "disconnectBlock"}, Allowed: []string{bcm + "reorganizeChain", bcm + "ProcessDelParaChainBlock"}, Min: 2}.Check(r)
				core.WhoMayCall{Targets: []string{bcm + "reorganizeChain"}, Allowed: []string{bcm + "connectBestChain"}, Min: 1}.Check(r)
				core.WhoMayCall{Targets: []string{bcm + "connectBestChain"}, Allowed: []string{bcm + "maybeAcceptBlock"}, Min: 1}.Check(r)
				core.WhoMayCall{Targets: []string{bcm + "maybeAcceptBlock"}, Allowed: []string{bcm + "maybeAddBestChain", bcp + "(*OrphanPool).ProcessOrphans"}, Min: 2}.Check(r)
				core.WhoMayCall{Targets: []string{bcp + "(*OrphanPool).ProcessOrphans"}, Allowed: []string{bcm + "maybeAddBestChain"}, Min: 1}.Check(r)
			}),
			rule("R25d", "fork choice boundaries", 4, func(r *Run) {
				fn := bcm + "connectBestChain"
				cmp := core.CallsAny("math/big.(*Int).Cmp")
				core.AnyComparison{Fn: fn, Name: "side chain iff blocktd.Cmp(tiptd) <= 0", L: cmp, R: core.IsConstInt(0), Rel: token.LEQ}.Check(r)
				core.AnyComparison{Fn: fn, Name: "finalisation margin: node.height < finalized+12", L: core.Mentions(bcp + "blockNode.height"), R: func(c *core.Ctx, e ast.Expr) bool {
					b, ok := ast.Unparen(e).(*ast.BinaryExpr)
					return ok && b.Op == token.ADD && core.IsConstInt(12)(c, b.Y)
				}, Rel: token.LSS}.Check(r)
				core.CallArgs{Fn: fn, Callee: []string{"math/big.(*Int).Add"}, What: "branch total difficulty = node difficulty + parent's total difficulty",
					Args: map[int]core.ExprPred{0: core.Mentions(bcp + "blockNode.Difficulty"), 1: core.FromCall(0, bsm+"GetTdByBlockHash")}, Min: 1}.Check(r)
				// extending the tip connects directly
				core.Dominated{Fn: fn, Spec: &core.FlowSpec{Conds: []core.CondGuard{core.BoolGuard("extends-tip", core.CallAtomSym("bytes.Equal", core.DerivedFromCall("types.(*Block).GetParentHash"), core.Mentions(bcp+"blockNode.hash")), true)}},
					Sink: core.CallSink(bcm + "connectBlock"), Need: []Fact{"extends-tip"}, Min: 1}.Check(r)
			}),
		},
	})

	// ------------------------------------------------------------------ C26
	register(&core.Property{
		ID:       "C26",
		Title:    "Block sequence log replays to the best chain",
		Packages: []string{"blockchain"},
		Explanation: "Decides R26a-R26c: SaveBlock records an add sequence and DelBlock a delete sequence under the same predicate, on every success path, into the caller's batch; the new number is last+1 and the three records (seq→hash, hash→seq for adds, last-seq) go to the batch parameter, never directly to the database; only connect/disconnect (and the operator rollback) call SaveBlock/DelBlock.",
		NotCovered: "equality of the replayed log with the best chain over reorganisations (V: histories).",
		Rules: []core.Rule{
			rule("R26a", "add on connect, delete on disconnect, same predicate, same batch", 6, func(r *Run) {
				seqOn := func(c *core.Ctx, e ast.Expr) core.Tri {
					if core.IsObj(bcp+"BlockStore.saveSequence")(c, e) {
						return core.True
					}
					return core.Unknown
				}
				for _, x := range []struct{ fn, ty string }{{bsm + "SaveBlock", "types.AddBlock"}, {bsm + "DelBlock", "types.DelBlock"}} {
					core.Dominated{Fn: x.fn, Spec: &core.FlowSpec{Assume: seqOn, Calls: []core.CallGuard{errNil("sequence-recorded", bsm+"saveBlockSequence")}},
						Sink: core.SuccessReturn(-1), Need: []Fact{"sequence-recorded"}, Min: 1}.Check(r)
					core.CallArgs{Fn: x.fn, Callee: []string{bsm + "saveBlockSequence"}, What: "into the caller's batch, for this block's hash and height, with the right record type",
						Args: map[int]core.ExprPred{0: core.IsObj("param:0"), 1: core.DerivedFromCall("types.(*Block).Hash"), 2: core.DerivedFrom("types.Block.Height"), 3: core.IsObj(x.ty), 4: core.IsObj("param:2")}, Min: 1}.Check(r)
					// the guard is saveSequence || isParaChain
					f := r.Fn(x.fn)
					if f != nil {
						c := f.Ctx()
						ok := false
						core.InspectBody(f, func(n ast.Node) bool {
							if ifs, isIf := n.(*ast.IfStmt); isIf {
								cond := ast.Unparen(ifs.Cond)
								// the predicate may be held in a local defined once
								if id, isId := cond.(*ast.Ident); isId {
									if defs := core.LiveDefs(c.DefsOf(c.Info.ObjectOf(id))); len(defs) == 1 && defs[0].N == 1 && defs[0].Rhs != nil {
										cond = ast.Unparen(defs[0].Rhs)
									}
								}
								if b, isB := cond.(*ast.BinaryExpr); isB && b.Op == token.LOR {
									if (core.IsObj(bcp+"BlockStore.saveSequence")(c, b.X) && core.IsObj(bcp+"BlockStore.isParaChain")(c, b.Y)) ||
										(core.IsObj(bcp+"BlockStore.saveSequence")(c, b.Y) && core.IsObj(bcp+"BlockStore.isParaChain")(c, b.X)) {
										ok = true
									}
								}
							}
							return true
						})
						label := x.fn + " records the sequence iff saveSequence || isParaChain"
						if ok {
							r.OK(label, r.W.Pos(f.Node().Pos()), "same predicate in both siblings")
						} else {
							r.Fail(label, r.W.Pos(f.Node().Pos()), "the add and delete records are no longer written under the same predicate: the log would miss one side")
						}
					}
				}
			}),
			rule("R26b", "allocation: last+1, three records, all in the batch", 6, func(r *Run) {
				fn := bsm + "saveBlockSequence"
				newSeq := core.PlusOne(core.FromCall(0, bsm+"LoadBlockLastSequence"))
				isNewSeq := func(c *core.Ctx, e ast.Expr) bool {
					id, ok := ast.Unparen(e).(*ast.Ident)
					if !ok {
						return false
					}
					for _, d := range c.DefsOf(c.Info.ObjectOf(id)) {
						if d.Rhs != nil && newSeq(c, d.Rhs) {
							return true
						}
					}
					return false
				}
				f := r.Fn(fn)
				if f == nil {
					return
				}
				c := f.Ctx()
				seen := map[string]bool{}
				core.InspectBody(f, func(x ast.Node) bool {
					call, ok := x.(*ast.CallExpr)
					if !ok || !core.Names("common/db.Batch.Set").Has(core.Callee(c.Info, call)) || len(call.Args) != 2 {
						return true
					}
					if !core.IsObj("param:0")(c, ast.Unparen(call.Fun).(*ast.SelectorExpr).X) {
						return true
					}
					switch {
					case core.CallAtom([]string{bcp + "calcSequenceToHashKey"}, isNewSeq)(c, call.Args[0]):
						seen["seq→hash keyed by the new number"] = true
					case core.CallAtom([]string{bcp + "calcHashToSequenceKey"}, core.IsObj("param:1"))(c, call.Args[0]):
						seen["hash→seq for the block hash"] = true
					case core.CallAtom([]string{bcp + "calcLastSeqKey"})(c, call.Args[0]):
						seen["last sequence"] = true
					}
					return true
				})
				for _, k := range []string{"seq→hash keyed by the new number", "hash→seq for the block hash", "last sequence"} {
					label := fn + " writes " + k + " into the batch parameter"
					if seen[k] {
						r.OK(label, r.W.Pos(f.Node().Pos()), "storeBatch.Set with the canonical key constructor")
					} else {
						r.Fail(label, r.W.Pos(f.Node().Pos()), "record not written to the batch with the expected key: numbers would be reused, skipped or not atomically tied to the block")
					}
				}
				core.Dominated{Fn: fn, Spec: &core.FlowSpec{Conds: []core.CondGuard{core.RelGuardEq("is-add", core.IsObj("param:3"), core.IsObj("types.AddBlock"))}},
					Sink: core.SinkPred{Label: "hash→seq record", Match: func(fl *core.Flow, n *core.GNode) bool {
						hit := false
						core.InspectNode(n.Ast, func(x ast.Node) bool {
							if e, ok := x.(ast.Expr); ok && (core.CallAtom([]string{bcp + "calcHashToSequenceKey"})(fl.C, e) || core.CallAtom([]string{bcp + "calcHashToMainSequenceKey"})(fl.C, e)) {
								hit = true
							}
							return true
						})
						return hit
					}}, Need: []Fact{"is-add"}, Min: 2}.Check(r)
				core.NoCallsIn{Fns: []string{fn}, Forbidden: []string{"common/db.DB.Set", "common/db.DB.SetSync", "common/db.Batch.Write"}, Why: "the sequence number must be allocated inside the block's batch"}.Check(r)
			}),
			rule("R26c", "who may record sequences", 4, func(r *Run) {
				core.WhoMayCall{Targets: []string{bsm + "saveBlockSequence"}, Allowed: []string{bsm + "SaveBlock", bsm + "DelBlock"}, Min: 2}.Check(r)
				core.WhoMayCall{Targets: []string{bsm + "SaveBlock"}, Allowed: []string{bcm + "connectBlock"}, Min: 1}.Check(r)
				core.WhoMayCall{Targets: []string{bsm + "DelBlock"}, Allowed: []string{bcm + "disconnectBlock", bcm + "disBlock" /* operator rollback */}, Min: 2}.Check(r)
			}),
		},
	})

	// ------------------------------------------------------------------ C32
	register(&core.Property{
		ID:       "C32",
		Title:    "Push subscribers receive the sequence log in order without gaps",
		Packages: []string{"blockchain"},
		Explanation: "Decides R32a-R32d: in the task goroutine the delivered sequence is persisted and the in-memory cursor advanced only after PostData returned nil; the next batch starts at cursor+1 and is bounded by the distance to the latest sequence; three consecutive failures persist the not-active status and remove the task under the lock; " +
			"the cursor is initialised from the persisted last-pushed sequence and a task is marked running before its goroutine exists (single runner).",
		NotCovered: "endpoint behaviour and retry timing (V / schedules).",
		Rules: []core.Rule{
			rule("R32a", "acknowledged before recorded", 4, func(r *Run) {
				cl := "blockchain.(*Push).runTask$calls:blockchain.PostService.PostData"
				dataNonNil := func(c *core.Ctx, e ast.Expr) core.Tri {
					if t := core.AssumeRel(core.FromCall(0, "blockchain.(*Push).getPushData"), token.NEQ, isNilLit, core.True)(c, e); t != core.Unknown {
						return t
					}
					return core.Unknown
				}
				sp := &core.FlowSpec{Assume: dataNonNil, Calls: []core.CallGuard{errNil("acked", "blockchain.PostService.PostData"), errNil("data-ok", "blockchain.(*Push).getPushData")}}
				cursorStore := core.SinkPred{Label: "cursor = delivered sequence", Match: func(fl *core.Flow, n *core.GNode) bool {
					as, ok := n.Ast.(*ast.AssignStmt)
					if !ok || len(as.Lhs) != 1 || len(as.Rhs) != 1 {
						return false
					}
					return core.FromCall(1, "blockchain.(*Push).getPushData")(fl.C, as.Rhs[0])
				}}
				core.Dominated{Fn: cl, Spec: sp, Sink: core.CallSink("blockchain.(*Push).setLastPushSeq"), Need: []Fact{"data-ok", "acked"}, Min: 1}.Check(r)
				core.Dominated{Fn: cl, Spec: sp, Sink: cursorStore, Need: []Fact{"data-ok", "acked"}, Min: 1}.Check(r)
				core.CallArgs{Fn: cl, Callee: []string{"blockchain.(*Push).setLastPushSeq"}, What: "records the sequence that was just delivered",
					Args: map[int]core.ExprPred{1: core.FromCall(1, "blockchain.(*Push).getPushData")}, Min: 1}.Check(r)
				core.CallArgs{Fn: cl, Callee: []string{"blockchain.PostService.PostData"}, What: "posts the data for that sequence",
					Args: map[int]core.ExprPred{1: core.FromCall(0, "blockchain.(*Push).getPushData"), 2: core.FromCall(1, "blockchain.(*Push).getPushData")}, Min: 1}.Check(r)
			}),
			rule("R32b", "next batch = cursor+1, bounded by the latest sequence", 3, func(r *Run) {
				cl := "blockchain.(*Push).runTask$calls:blockchain.PostService.PostData"
				f := r.Fn(cl)
				if f == nil {
					return
				}
				c := f.Ctx()
				// the cursor variable: initialised from getLastPushSeq
				cursor := core.InitFrom(core.CallsAny("blockchain.(*Push).getLastPushSeq"))
				latest := func(c *core.Ctx, e ast.Expr) bool {
					id, ok := ast.Unparen(e).(*ast.Ident)
					if !ok {
						return false
					}
					for _, d := range c.DefsOf(c.Info.ObjectOf(id)) {
						if d.Rhs != nil && core.CallsAny("blockchain.SequenceStore.LoadBlockLastSequence")(c, d.Rhs) {
							return true
						}
					}
					return false
				}
				core.CallArgs{Fn: cl, Callee: []string{"blockchain.(*Push).getPushData"}, What: "starts right after the cursor",
					Args: map[int]core.ExprPred{1: core.PlusOne(cursor)}, Min: 1}.Check(r)
				core.AnyComparison{Fn: cl, Name: "nothing to do when cursor >= latest", L: cursor, R: latest, Rel: token.GEQ}.Check(r)
				// count bounded by latest - cursor
				diff := func(c *core.Ctx, e ast.Expr) bool {
					found := false
					ast.Inspect(e, func(x ast.Node) bool {
						if b, ok := x.(*ast.BinaryExpr); ok && b.Op == token.SUB && latest(c, b.X) && cursor(c, b.Y) {
							found = true
						}
						return true
					})
					return found
				}
				core.AnyComparison{Fn: cl, Name: "count > latest-cursor clamps the count", L: core.Not(core.Resolved(diff)), R: core.Resolved(diff), Rel: token.GTR}.Check(r)
				_ = c
			}),
			rule("R32c", "deactivation after three consecutive failures", 3, func(r *Run) {
				cl := "blockchain.(*Push).runTask$calls:blockchain.PostService.PostData"
				failCount := core.InitFrom(core.AnyExpr)
				_ = failCount
				core.AnyComparison{Fn: cl, Name: "continueFailCount >= 3", L: func(c *core.Ctx, e ast.Expr) bool {
					id, ok := ast.Unparen(e).(*ast.Ident)
					return ok && id.Name != "" && c.Info.TypeOf(e) != nil && c.Info.TypeOf(e).String() == "int32"
				}, R: core.IsConstInt(3), Rel: token.GEQ}.Check(r)
				lk := lockSpecFor(r, bcp+"Push", "mu")
				if lk != nil {
					core.Dominated{Fn: cl, Spec: lk, Sink: core.SinkPred{Label: "delete(push.tasks, key)", Match: func(fl *core.Flow, n *core.GNode) bool {
						hit := false
						core.InspectNode(n.Ast, func(x ast.Node) bool {
							if call, ok := x.(*ast.CallExpr); ok && core.IsBuiltinCall(fl.C.Info, call, "delete") && core.Mentions(bcp+"Push.tasks")(fl.C, call.Args[0]) {
								hit = true
							}
							return true
						})
						return hit
					}}, Need: []Fact{"W:mu"}, Min: 1}.Check(r)
				}
				core.CallArgs{Fn: cl, Callee: []string{"blockchain.CommonStore.SetSync"}, What: "persists the not-active status under the subscriber's key",
					Args: map[int]core.ExprPred{0: core.FromCall(0, bcp+"calcPushKey"), 1: core.CallsAny("types.Encode")}, Min: 1}.Check(r)
			}),
			rule("R32d", "resume point and single runner", 3, func(r *Run) {
				cl := "blockchain.(*Push).runTask$calls:blockchain.PostService.PostData"
				f := r.Fn("blockchain.(*Push).runTask")
				lit := r.Fn(cl)
				if f == nil || lit == nil {
					return
				}
				// cursor initialised from the persisted last pushed sequence of this subscriber
				c := lit.Ctx()
				okInit := false
				core.InspectBody(lit, func(x ast.Node) bool {
					if as, ok := x.(*ast.AssignStmt); ok && as.Tok == token.DEFINE && len(as.Rhs) == 1 && core.CallAtom([]string{"blockchain.(*Push).getLastPushSeq"})(c, as.Rhs[0]) {
						okInit = true
					}
					return true
				})
				if okInit {
					r.OK("runTask resumes from getLastPushSeq(subscribe)", r.W.Pos(lit.Node().Pos()), "cursor := push.getLastPushSeq(subscribe)")
				} else {
					r.Fail("runTask resumes from getLastPushSeq(subscribe)", r.W.Pos(lit.Node().Pos()), "the cursor is not initialised from the persisted last pushed sequence")
				}
				// status=running must be stored by runTask itself (before `go`), not by the goroutine
				isRunningStore := func(info *types.Info, x ast.Node) bool {
					call, ok := x.(*ast.CallExpr)
					if !ok || core.ShortName(core.Callee(info, call)) != "sync/atomic.StoreInt32" || len(call.Args) != 2 {
						return false
					}
					id, ok := ast.Unparen(call.Args[1]).(*ast.Ident)
					return ok && info.ObjectOf(id) == r.W.LookupObj(bcp+"running")
				}
				inLit, before := false, false
				core.InspectBody(lit, func(x ast.Node) bool {
					if isRunningStore(lit.Info(), x) {
						inLit = true
					}
					return true
				})
				for _, st := range f.Body().List {
					if _, isGo := st.(*ast.GoStmt); isGo {
						break
					}
					ast.Inspect(st, func(x ast.Node) bool {
						if isRunningStore(f.Info(), x) {
							before = true
						}
						return true
					})
				}
				label := "blockchain.(*Push).runTask marks the task running before its goroutine is started"
				if before {
					r.OK(label, r.W.Pos(f.Node().Pos()), "status stored before the go statement")
				} else {
					r.Fail(label, r.W.Pos(f.Node().Pos()), fmt.Sprintf("status=running is stored inside the goroutine (%v): between `go` and that store check2ResumePush (which starts a runner when it reads notRunning) can start a second runner for the same subscriber → duplicated / out-of-order pushes", inLit))
				}
				core.WhoMayCall{Targets: []string{"blockchain.(*Push).runTask"}, Allowed: []string{"blockchain.(*Push).addTask", "blockchain.(*Push).check2ResumePush"}, Min: 2}.Check(r)
			}),
		},
	})
}
