package props

import (
	"fmt"
	"go/ast"
	"go/token"
	"go/types"
	"sort"
	"strings"

	"verif/sa/core"
)

const accm = "account.(*DB)."

var accountOps = []string{"Transfer", "depositBalance", "Mint", "Burn", "TransferToExec", "TransferWithdraw", "ExecFrozen", "ExecActive", "ExecTransfer",
	"ExecTransferFrozen", "ExecDepositFrozen", "ExecIssueCoins", "execDepositFrozen", "ExecDeposit", "ExecWithdraw", "GenesisInit", "GenesisInitExec"}

var saveCalls = []string{accm + "SaveAccount", accm + "SaveExecAccount", accm + "SaveKVSet", "common/db.KV.Set"}

func init() {
	register(&core.Property{
		ID:       "C15",
		Title:    "Assets are conserved and balances never go negative",
		Packages: []string{"account", "common/address", "types"},
		Explanation: "Decides R15a-R15e: every store to Account.Balance/Frozen in package account is either an increase produced by the overflow-checked safeAdd (error propagated) or a decrease dominated by a non-negativity test over the same field and amount; " +
			"no operation can fail after its first save (error atomicity), the amount check precedes every change; every storage-key builder normalises the address through FormatAddrKey; " +
			"an operation that loads two records selected by two address parameters rejects aliasing on the normalised identity (not on the raw spelling); rejection reasons are live.",
		NotCovered: "conservation sums across accounts and the executor-address invariant (V: arithmetic over histories).",
		Rules: []core.Rule{
			rule("R15a", "arithmetic discipline on Balance/Frozen", 20, func(r *Run) {
				pkg := r.W.Pkg("account")
				if pkg == nil {
					r.Unresolved("account")
					return
				}
				bal, _ := r.W.LookupObj("types.Account.Balance").(*types.Var)
				frz, _ := r.W.LookupObj("types.Account.Frozen").(*types.Var)
				if bal == nil || frz == nil {
					r.Unresolved("types.Account.Balance/Frozen")
					return
				}
				getter := map[*types.Var]string{bal: "types.(*Account).GetBalance", frz: "types.(*Account).GetFrozen"}
				for _, f := range r.W.AllFuncs(pkg) {
					c := f.Ctx()
					readsField := func(fv *types.Var) core.ExprPred {
						return func(c *core.Ctx, e ast.Expr) bool {
							return core.Mentions("types.Account."+fv.Name())(c, e) || core.CallsAny(getter[fv])(c, e)
						}
					}
					// facts: nonneg:<field> established by a comparison
					var conds []core.CondGuard
					for _, fv := range []*types.Var{bal, frz} {
						fv := fv
						rd := readsField(fv)
						isDiff := func(c *core.Ctx, e ast.Expr) bool { // F - amount (possibly via a local)
							var chk func(e ast.Expr, depth int) bool
							chk = func(e ast.Expr, depth int) bool {
								e = ast.Unparen(e)
								if b, ok := e.(*ast.BinaryExpr); ok && b.Op == token.SUB && rd(c, b.X) {
									return true
								}
								if id, ok := e.(*ast.Ident); ok && depth > 0 {
									defs := c.DefsOf(c.Info.ObjectOf(id))
									if len(defs) == 1 && defs[0].Rhs != nil {
										return chk(defs[0].Rhs, depth-1)
									}
								}
								return false
							}
							return chk(e, 1)
						}
						plain := func(c *core.Ctx, e ast.Expr) bool {
							_, isBin := ast.Unparen(e).(*ast.BinaryExpr)
							return !isBin && rd(c, e)
						}
						conds = append(conds, core.RelGuard(Fact("nonneg:"+fv.Name()), isDiff, token.GEQ, core.IsConstInt(0)))
						conds = append(conds, core.RelGuard(Fact("nonneg:"+fv.Name()), plain, token.GEQ, func(c *core.Ctx, e ast.Expr) bool {
							id, ok := ast.Unparen(e).(*ast.Ident)
							if !ok {
								return false
							}
							_, isVar := c.Info.ObjectOf(id).(*types.Var)
							return isVar && !rd(c, e)
						}))
					}
					fl := core.RunFlow(f, &core.FlowSpec{Conds: conds, Calls: []core.CallGuard{errNil("safeAdd-ok", "account.safeAdd")}})
					occ := 0
					for _, n := range fl.G.Nodes {
						if n.Ast == nil || !fl.Live(n) {
							continue
						}
						var lhs []ast.Expr
						var rhs []ast.Expr
						tok := token.ASSIGN
						switch s := n.Ast.(type) {
						case *ast.AssignStmt:
							lhs, rhs, tok = s.Lhs, s.Rhs, s.Tok
						case *ast.IncDecStmt:
							lhs, tok = []ast.Expr{s.X}, s.Tok
						}
						for i, l := range lhs {
							sel, ok := ast.Unparen(l).(*ast.SelectorExpr)
							if !ok {
								continue
							}
							fv, _ := c.Info.ObjectOf(sel.Sel).(*types.Var)
							if fv != bal && fv != frz {
								continue
							}
							occ++
							r.Touch(f)
							label := fmt.Sprintf("%s store#%d to Account.%s", f.Name, occ, fv.Name())
							pos := r.W.Pos(l.Pos())
							var rv ast.Expr
							if len(rhs) == len(lhs) {
								rv = ast.Unparen(rhs[i])
							} else if len(rhs) == 1 {
								rv = ast.Unparen(rhs[0])
							}
							rd := readsField(fv)
							switch {
							case tok == token.SUB_ASSIGN || tok == token.DEC:
								if fl.In[n].Has(Fact("nonneg:" + fv.Name())) {
									r.OK(label, pos, "decrease dominated by a non-negativity test of the same field")
								} else {
									r.Fail(label, pos, "decrease of "+fv.Name()+" is not dominated by a test that the result stays >= 0")
								}
							case tok == token.ADD_ASSIGN || tok == token.INC:
								r.Fail(label, pos, fmt.Sprintf("`%s` increases %s without the overflow-checked safeAdd: a large enough balance wraps to a negative value", core.ExprStr(n.Ast), fv.Name()))
							case rv != nil && core.MayBeFromCall(0, "account.safeAdd")(c, rv):
								// x.F = newBalance (result of safeAdd); the error must have been tested, or is tested before any save
								_, direct := rv.(*ast.CallExpr)
								if fl.In[n].Has("safeAdd-ok") || direct {
									r.OK(label, pos, "increase through safeAdd")
								} else {
									r.Fail(label, pos, "safeAdd result stored before its error was tested")
								}
							case rv != nil:
								if b, ok := rv.(*ast.BinaryExpr); ok && b.Op == token.SUB && rd(c, b.X) {
									if fl.In[n].Has(Fact("nonneg:" + fv.Name())) {
										r.OK(label, pos, "decrease dominated by a non-negativity test of the same field")
									} else {
										r.Fail(label, pos, "decrease of "+fv.Name()+" is not dominated by a test that the result stays >= 0")
									}
								} else if b, ok := rv.(*ast.BinaryExpr); ok && b.Op == token.ADD {
									r.Fail(label, pos, fmt.Sprintf("`%s` increases %s without safeAdd", core.ExprStr(n.Ast), fv.Name()))
								} else if core.Mentions("types.Account."+fv.Name())(c, rv) || isZeroLit(c, rv) {
									r.OK(label, pos, "plain copy / reset")
								} else {
									r.Fail(label, pos, fmt.Sprintf("`%s`: unrecognised update of a money field (neither safeAdd result nor guarded decrease)", core.ExprStr(n.Ast)))
								}
							default:
								r.Fail(label, pos, "unrecognised update of a money field")
							}
						}
					}
				}
				// safeAdd itself: rejects overflow and values above MaxTokenBalance
				sum := func(c *core.Ctx, e ast.Expr) bool {
					b, ok := ast.Unparen(e).(*ast.BinaryExpr)
					return ok && b.Op == token.ADD && core.Mentions("param:0")(c, b) && core.Mentions("param:1")(c, b)
				}
				sum = core.Resolved(sum)
				core.RejectWhen{Fn: "account.safeAdd", Name: "sum wraps (sum < amount)", L: sum, R: core.IsObj("param:1"), Rel: token.LSS, Sentinel: "types.ErrAmount"}.Check(r)
				core.RejectWhen{Fn: "account.safeAdd", Name: "sum > MaxTokenBalance", L: sum, R: core.IsObj("types.MaxTokenBalance"), Rel: token.GTR, Sentinel: "types.ErrAmount"}.Check(r)
			}),
			rule("R15b", "error atomicity: checks first, nothing fails after the first save", 28, func(r *Run) {
				for _, op := range accountOps {
					fn := accm + op
					f := r.Fn(fn)
					if f == nil {
						continue
					}
					fl := core.RunFlow(f, &core.FlowSpec{})
					saves := core.Names(append(append([]string{}, saveCalls...), accm+"Transfer", accm+"ExecDeposit", accm+"ExecWithdraw", accm+"depositBalance", accm+"ExecIssueCoins", accm+"execDepositFrozen")...)
					direct := core.Names(saveCalls...)
					var saveNodes []*core.GNode
					for _, n := range fl.G.Nodes {
						if n.Ast == nil || !fl.Live(n) || n.Defer || n.Go {
							continue
						}
						for _, call := range core.CallsIn(n.Ast) {
							if saves.Has(core.Callee(fl.C.Info, call)) {
								saveNodes = append(saveNodes, n)
							}
						}
					}
					label := fmt.Sprintf("%s cannot return an error after it has saved", fn)
					if len(saveNodes) == 0 {
						r.Fail(label, r.W.Pos(f.Node().Pos()), "no save found in a mutating account operation")
						continue
					}
					// after the first *completed* save: nodes reachable from a save node other than through its own failing edge
					bad := ""
					for _, sn := range saveNodes {
						isDirect := false
						for _, call := range core.CallsIn(sn.Ast) {
							if direct.Has(core.Callee(fl.C.Info, call)) {
								isDirect = true
							}
						}
						// assume this (composite) save succeeded: its error result is nil
						spec := &core.FlowSpec{}
						if !isDirect {
							var names []string
							for _, call := range core.CallsIn(sn.Ast) {
								if fnc := core.Callee(fl.C.Info, call); saves.Has(fnc) {
									names = append(names, core.ShortName(fnc))
								}
							}
							spec.FailCalls = []core.FailCall{{Callee: core.Names(names...), Idx: -1, Outcome: core.OErrNil}}
						}
						fl2 := core.RunFlow(f, spec)
						reach := fl2.G.Reachable([]*core.GNode{sn}, func(e *core.GEdge) bool { return !fl2.Feasible(e) }, nil)
						for m := range reach {
							if m == sn || m.Kind != core.KReturn {
								continue
							}
							if core.ClassifyReturn(fl2, m, -1) == core.False || (core.ClassifyReturn(fl2, m, -1) == core.Unknown && returnsErrVar(fl2, m)) {
								bad = fmt.Sprintf("after `%s` the operation can still return an error at %s", core.ExprStr(sn.Ast), r.W.Pos(m.Ast.Pos()))
							}
						}
					}
					if why, ok := atomicityExceptions[op]; ok && bad != "" {
						// the exception is only granted while the pre-check it relies on is present:
						// safeAdd on the Frozen amount dominates the first composite save
						pre := core.RunFlow(f, spec(errNil("frozen-overflow-prechecked", "account.safeAdd")))
						granted := true
						for _, sn := range saveNodes {
							if !pre.In[sn].Has("frozen-overflow-prechecked") {
								granted = false
							}
						}
						// … and every condition under which a later composite step rejects BEFORE saving is already
						// established when the first save runs: tested by the operation itself, or by an earlier
						// step on the same arguments
						if granted {
							direct2, composite := core.Names(saveCalls...), core.Names(accm+"Transfer", accm+"ExecDeposit", accm+"ExecWithdraw", accm+"depositBalance", accm+"ExecIssueCoins", accm+"execDepositFrozen")
							have := map[string]bool{}
							for _, a := range rejectAtoms(r, f, direct2, composite, 3) {
								have[a] = true
							}
							c := f.Ctx()
							first := true
							core.InspectBody(f, func(x ast.Node) bool {
								call, ok := x.(*ast.CallExpr)
								if !ok || !composite.Has(core.Callee(c.Info, call)) {
									return true
								}
								if first {
									first = false // the first composite step's own checks run before anything is saved
									return true
								}
								callee := r.W.FuncOf(core.Callee(c.Info, call))
								for _, a := range rejectAtoms(r, callee, direct2, composite, 3) {
									for i := len(call.Args) - 1; i >= 0; i-- {
										a = strings.ReplaceAll(a, fmt.Sprintf("$%d", i), "\x00"+strings.NewReplacer("(", "", ")", "").Replace(core.CanonExpr(c, call.Args[i]))+"\x00")
									}
									a = strings.ReplaceAll(a, "\x00", "")
									if !have[a] {
										granted = false
										bad += fmt.Sprintf(" (the later step %s rejects on `%s`, which nothing has established before the first save)", core.ShortName(core.Callee(c.Info, call)), a)
									}
								}
								return true
							})
						}
						if granted {
							r.Exception(label, why)
							r.OK(label, r.W.Pos(f.Node().Pos()), "frozen exception: "+why)
							continue
						}
						bad += " (and the overflow pre-check that would make the second step infallible is missing)"
					}
					if bad == "" {
						r.OK(label, r.W.Pos(saveNodes[0].Ast.Pos()), fmt.Sprintf("%d save site(s); no error return reachable after any of them", len(saveNodes)))
					} else {
						r.Fail(label, r.W.Pos(f.Node().Pos()), bad+": a partial update would survive a failed operation")
					}
					// the amount check precedes every save
					hasAmount := false
					for _, n := range fl.G.Nodes {
						if n.Ast != nil && core.CallsAny(accm+"CheckAmount")(fl.C, exprOf(n.Ast)) {
							hasAmount = true
						}
					}
					if hasAmount {
						core.FailStops{Fn: fn, Callee: []string{accm + "CheckAmount"}, Fail: core.OFalse, Idx: -1, Forbidden: core.CallSink(saveCalls...), Min: 1, Name: "CheckAmount=false"}.Check(r)
					}
				}
			}),
			rule("R15c", "storage keys are built from the normalised address", 3, func(r *Run) {
				for _, fn := range []string{accm + "accountReadKey", accm + "AccountKey", accm + "execAccountKey"} {
					f := r.Fn(fn)
					if f == nil {
						continue
					}
					c := f.Ctx()
					addr := f.Param(0)
					norm, raw := false, ""
					core.InspectBody(f, func(x ast.Node) bool {
						call, ok := x.(*ast.CallExpr)
						if ok && core.CallAtom([]string{"common/address.FormatAddrKey"}, core.IsObj("param:0"))(c, call) {
							norm = true
							return false
						}
						if ok && core.IsBuiltinCall(c.Info, call, "len") {
							return false
						}
						if id, isId := x.(*ast.Ident); isId && c.Info.Uses[id] == addr {
							raw = r.W.Pos(id.Pos())
						}
						return true
					})
					label := fn + " keys the record by address.FormatAddrKey(addr)"
					if norm && raw == "" {
						r.OK(label, r.W.Pos(f.Node().Pos()), "the address enters the key only through FormatAddrKey")
					} else {
						r.Fail(label, r.W.Pos(f.Node().Pos()), fmt.Sprintf("normalised=%v, raw use of the address at %s: spellings of one hex address that differ in letter case would address different records", norm, raw))
					}
				}
			}),
			rule("R15d", "rejections are live and correctly oriented", 14, func(r *Run) {
				core.LiveReturn{Fn: accm + "Transfer", Sentinels: []string{"types.ErrAmount", "types.ErrSendSameToRecv", "types.ErrNoBalance"}}.Check(r)
				core.LiveReturn{Fn: accm + "Burn", Sentinels: []string{"types.ErrAmount", "types.ErrNoBalance"}}.Check(r)
				for _, op := range []string{"ExecFrozen", "ExecActive", "ExecTransfer", "ExecTransferFrozen", "ExecWithdraw"} {
					core.LiveReturn{Fn: accm + op, Sentinels: []string{"types.ErrAmount", "types.ErrSendSameToRecv", "types.ErrNoBalance"}}.Check(r)
				}
				core.LiveReturn{Fn: accm + "CheckTransfer", Sentinels: []string{"types.ErrAmount", "types.ErrNoBalance"}}.Check(r)
				core.LiveReturn{Fn: accm + "ExecIssueCoins", Sentinels: []string{"types.ErrNotAllowDeposit"}}.Check(r)
				core.AnyComparison{Fn: "types.CheckAmount", Name: "amount <= 0 rejected", L: core.IsObj("param:0"), R: core.IsConstInt(0), Rel: token.LEQ}.Check(r)
			}),
			rule("R15e", "aliasing of the two loaded records is rejected on their normalised identity", 3, func(r *Run) {
				for _, x := range []struct {
					op   string
					a, b int
					load string
				}{{"Transfer", 0, 1, accm + "LoadAccount"}, {"ExecTransfer", 0, 1, accm + "LoadExecAccount"}, {"ExecTransferFrozen", 0, 1, accm + "LoadExecAccount"}} {
					fn := accm + x.op
					f := r.Fn(fn)
					if f == nil {
						continue
					}
					pa, pb := fmt.Sprintf("param:%d", x.a), fmt.Sprintf("param:%d", x.b)
					// accepted identities: FormatAddrKey(p) or the Addr field of the record loaded for p
					ident := func(p string) core.ExprPred {
						return func(c *core.Ctx, e ast.Expr) bool {
							if core.CallsAny("common/address.FormatAddrKey")(c, e) && core.Mentions(p)(c, e) {
								return true
							}
							sel, ok := ast.Unparen(e).(*ast.SelectorExpr)
							if ok && sel.Sel.Name == "Addr" {
								if id, ok := ast.Unparen(sel.X).(*ast.Ident); ok {
									for _, d := range c.DefsOf(c.Info.ObjectOf(id)) {
										if call, ok := ast.Unparen(d.Rhs).(*ast.CallExpr); ok && d.Rhs != nil && core.CallAtom([]string{x.load}, core.IsObj(p))(c, call) {
											return true
										}
									}
								}
							}
							if call, ok := ast.Unparen(e).(*ast.CallExpr); ok { // string(FormatAddrKey(p)), bytes
								for _, a := range call.Args {
									if core.CallsAny("common/address.FormatAddrKey")(c, a) && core.Mentions(p)(c, a) {
										return true
									}
								}
							}
							return false
						}
					}
					label := fmt.Sprintf("%s rejects from/to aliasing on the normalised account identity", fn)
					c := f.Ctx()
					found := false
					core.InspectBody(f, func(n ast.Node) bool {
						switch e := n.(type) {
						case *ast.BinaryExpr:
							if op, ok := core.CmpAtom(c, e, ident(pa), ident(pb)); ok && (op == token.EQL || op == token.NEQ) {
								found = true
							}
						case *ast.CallExpr:
							if core.CallAtomSym("bytes.Equal", ident(pa), ident(pb))(c, e) {
								found = true
							}
						}
						return true
					})
					if found {
						r.OK(label, r.W.Pos(f.Node().Pos()), "aliasing tested on FormatAddrKey / loaded Addr")
						core.LiveReturn{Fn: fn, Sentinels: []string{"types.ErrSendSameToRecv"}}.Check(r)
					} else {
						r.Fail(label, r.W.Pos(f.Node().Pos()), "both records are loaded through FormatAddrKey (hex addresses are lower-cased) but aliasing is only tested on the raw spellings: `0xAB…`→`0xab…` loads one record twice, debits one copy, credits the other and saves the credited copy last (net mint)")
					}
				}
			}),
		},
	})
}

var atomicityExceptions = map[string]string{
	"ExecDepositFrozen": "the second step (execDepositFrozen) can only fail on addr==execaddr, CheckAmount or Frozen overflow; the first two are established by the first step's own checks on the same arguments and the overflow is pre-checked (safeAdd) before the first save",
}

func isZeroLit(c *core.Ctx, e ast.Expr) bool {
	tv, ok := c.Info.Types[e]
	return ok && tv.Value != nil && tv.Value.ExactString() == "0"
}

func exprOf(n ast.Node) ast.Expr {
	switch s := n.(type) {
	case ast.Expr:
		return s
	case *ast.ExprStmt:
		return s.X
	case *ast.AssignStmt:
		if len(s.Rhs) > 0 {
			return s.Rhs[0]
		}
	case *ast.ReturnStmt:
		if len(s.Results) > 0 {
			return s.Results[0]
		}
	}
	return &ast.Ident{Name: "_"}
}

// returnsErrVar: the last result of the return is an identifier of type error
// that is not known to be nil.
func returnsErrVar(fl *core.Flow, n *core.GNode) bool {
	rs, ok := n.Ast.(*ast.ReturnStmt)
	if !ok || len(rs.Results) == 0 {
		return false
	}
	last := ast.Unparen(rs.Results[len(rs.Results)-1])
	id, ok := last.(*ast.Ident)
	if !ok {
		return false
	}
	return core.IsErrorTyped(fl.C.Info, id)
}

var _ = sort.Strings
var _ = strings.Join
