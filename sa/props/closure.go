package props

import (
	"go/types"
	"sort"
	"strings"

	"verif/sa/core"
)

var consensusEntries = []string{
	"executor.(*Executor).procExecTxList", "executor.(*Executor).procExecAddBlock", "executor.(*Executor).procExecDelBlock",
	"util.PreExecBlock", "util.ExecBlock", "util.ExecBlockUpgrade", "util.DelDupKey", "util.DelDupTx", "util.CheckTxDup", "util.ExecTx", "util.ExecKVMemSet",
	"types.(*Block).Hash", "types.(*Block).HashByForkHeight", "types.(*Block).HashNew", "types.(*Block).HashOld", "types.TransactionSort", "types.VerifySignature",
	"types.(*Transaction).Hash", "types.(*Transaction).FullHash", "types.(*Transaction).Check", "types.(*Transaction).IsExpire", "types.(*Transactions).Check",
	"common/merkle.CalcMerkleRoot", "common/merkle.CalcMerkleRootCache", "common/merkle.CalcMultiLayerMerkleInfo",
	"common/db/table.(*Table).Save", "common/db/table.(*Table).Add", "common/db/table.(*Table).Replace", "common/db/table.(*Table).Update", "common/db/table.(*Table).Del",
}

// consensusClosure returns the functions reachable from the block-execution
// and hashing entry points (plus every Exec*/CheckTx method of the built-in
// dapps and every account operation, which are reached through reflection or
// interfaces from outside the loaded packages), sorted by name, with a chain.
func consensusClosure(r *Run) ([]*core.FuncInfo, map[*core.FuncInfo][]string) {
	var entries []*core.FuncInfo
	for _, e := range consensusEntries {
		if f := r.W.Func(e); f != nil {
			entries = append(entries, f)
		} else if !strings.Contains(e, "HashNew") && !strings.Contains(e, "HashOld") && !strings.Contains(e, "HashByForkHeight") {
			r.Unresolved(e)
		}
	}
	for _, op := range accountOps {
		if f := r.W.Func(accm + op); f != nil {
			entries = append(entries, f)
		}
	}
	for _, pp := range []string{"system/dapp/coins/executor", "system/dapp/manage/executor", "system/dapp/none/executor", "system/dapp"} {
		pkg := r.W.Pkg(pp)
		if pkg == nil {
			continue
		}
		for _, f := range r.W.AllFuncs(pkg) {
			if f.Obj == nil || f.Obj.Type().(*types.Signature).Recv() == nil {
				continue
			}
			n := f.Obj.Name()
			if strings.HasPrefix(n, "Exec") || n == "CheckTx" || strings.HasPrefix(n, "Query") && false {
				entries = append(entries, f)
			}
		}
	}
	cg := core.NewCallGraph(r.W)
	// the logger's internals are not part of the computation: nothing a logger does flows back into a result
	reach := cg.Reach(entries, func(f *core.FuncInfo) bool {
		return f.Pkg != nil && strings.Contains(f.Pkg.PkgPath, "/common/log")
	})
	var fs []*core.FuncInfo
	for f := range reach {
		if strings.HasSuffix(r.W.FileOf(f.Node().Pos()), ".pb.go") || (f.Pkg != nil && strings.Contains(f.Pkg.PkgPath, "/common/log")) {
			continue
		}
		fs = append(fs, f)
	}
	sort.Slice(fs, func(i, j int) bool { return fs[i].Name < fs[j].Name })
	return fs, reach
}
