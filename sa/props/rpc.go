package props

import (
	"fmt"
	"go/ast"
	"go/token"
	"go/types"
	"reflect"
	"sort"
	"strings"

	"verif/sa/core"
)

// ---------------------------------------------------------------------------
// C39 helpers

// singleDefCall returns the call that is the only definition of the variable e
// (result #idx of callee), or nil.
func singleDefCall(c *core.Ctx, e ast.Expr, idx int, callees ...string) *ast.CallExpr {
	ns := core.Names(callees...)
	id, ok := core.Origin(c, e).(*ast.Ident)
	if !ok {
		return nil
	}
	o := c.Info.ObjectOf(id)
	if o == nil {
		return nil
	}
	var hit *ast.CallExpr
	for _, d := range core.LiveDefs(c.DefsOf(o)) {
		if _, isDecl := d.Stmt.(*ast.ValueSpec); isDecl && d.Rhs == nil {
			continue
		}
		call, ok := ast.Unparen(d.Rhs).(*ast.CallExpr)
		if d.Rhs == nil || !ok || !ns.Has(core.Callee(c.Info, call)) || d.Idx != idx || hit != nil {
			return nil
		}
		hit = call
	}
	return hit
}

// lastComponent recognises "the last sep-separated component of M":
//
//	strings.Split(M, sep)[len(strings.Split(M, sep))-1]   (directly or through a single-definition variable)
//	M[strings.LastIndex(M, sep)+1:]
//
// and returns M.
func lastComponent(c *core.Ctx, e ast.Expr, sep string) ast.Expr {
	e = ast.Unparen(e)
	if id, ok := e.(*ast.Ident); ok {
		o := c.Info.ObjectOf(id)
		var rhs ast.Expr
		for _, d := range c.DefsOf(o) {
			if d.Rhs == nil || rhs != nil || d.N != 1 {
				return nil
			}
			rhs = d.Rhs
		}
		if rhs == nil {
			return nil
		}
		e = ast.Unparen(rhs)
	}
	isSep := func(x ast.Expr) bool {
		tv, ok := c.Info.Types[x]
		return ok && tv.Value != nil && tv.Value.ExactString() == fmt.Sprintf("%q", sep)
	}
	splitOf := func(x ast.Expr) ast.Expr {
		// the split result may be held in a local defined once
		if id, isId := ast.Unparen(x).(*ast.Ident); isId {
			if defs := core.LiveDefs(c.DefsOf(c.Info.ObjectOf(id))); len(defs) == 1 && defs[0].N == 1 && defs[0].Rhs != nil {
				x = defs[0].Rhs
			}
		}
		call, ok := ast.Unparen(x).(*ast.CallExpr)
		if !ok || len(call.Args) != 2 || !isSep(call.Args[1]) {
			return nil
		}
		if fn := core.Callee(c.Info, call); fn == nil || core.ShortName(fn) != "strings.Split" {
			return nil
		}
		return call.Args[0]
	}
	switch x := e.(type) {
	case *ast.IndexExpr:
		m := splitOf(x.X)
		if m == nil {
			return nil
		}
		// index must be len(strings.Split(M, sep)) - 1 over the same M
		b, ok := ast.Unparen(x.Index).(*ast.BinaryExpr)
		if !ok || b.Op != token.SUB {
			return nil
		}
		if tv, ok := c.Info.Types[b.Y]; !ok || tv.Value == nil || tv.Value.ExactString() != "1" {
			return nil
		}
		lc, ok := ast.Unparen(b.X).(*ast.CallExpr)
		if !ok || !core.IsBuiltinCall(c.Info, lc, "len") || len(lc.Args) != 1 {
			return nil
		}
		m2 := splitOf(lc.Args[0])
		if m2 == nil || core.CanonExpr(c, m) != core.CanonExpr(c, m2) {
			return nil
		}
		return m
	case *ast.SliceExpr:
		if x.High != nil || x.Low == nil {
			return nil
		}
		b, ok := ast.Unparen(x.Low).(*ast.BinaryExpr)
		if !ok || b.Op != token.ADD {
			return nil
		}
		call, ok := ast.Unparen(b.X).(*ast.CallExpr)
		if !ok || len(call.Args) != 2 || !isSep(call.Args[1]) {
			return nil
		}
		if fn := core.Callee(c.Info, call); fn == nil || core.ShortName(fn) != "strings.LastIndex" {
			return nil
		}
		if core.CanonExpr(c, call.Args[0]) != core.CanonExpr(c, x.X) {
			return nil
		}
		return x.X
	}
	return nil
}

// hostOfRemote: e is the host part (result 0) of net.SplitHostPort(A) and A
// satisfies src.
func hostOfRemote(src core.ExprPred) func(c *core.Ctx, call *ast.CallExpr) bool {
	return func(c *core.Ctx, call *ast.CallExpr) bool {
		if len(call.Args) != 1 {
			return false
		}
		sp := singleDefCall(c, call.Args[0], 0, "net.SplitHostPort")
		return sp != nil && len(sp.Args) == 1 && src(c, sp.Args[0])
	}
}

// jrpcMethodArg: the function name handed to a JSON-RPC method check is the
// last dot-component of the Method field of the request parsed by
// parseJSONRpcParams.
func jrpcMethodArg(c *core.Ctx, call *ast.CallExpr) bool {
	return len(call.Args) == 1 && jrpcParsedBuffer(c, call.Args[0]) != nil
}

// jrpcParsedBuffer returns the object of the byte buffer that was parsed to
// obtain the method name e.
func jrpcParsedBuffer(c *core.Ctx, e ast.Expr) types.Object {
	m := lastComponent(c, e, ".")
	if m == nil {
		return nil
	}
	sel, ok := ast.Unparen(m).(*ast.SelectorExpr)
	if !ok || !core.IsObj("rpc.clientRequest.Method")(c, sel) {
		return nil
	}
	parse := singleDefCall(c, sel.X, 0, "rpc.parseJSONRpcParams")
	if parse == nil || len(parse.Args) != 1 {
		return nil
	}
	id, ok := ast.Unparen(parse.Args[0]).(*ast.Ident)
	if !ok {
		return nil
	}
	return c.Info.ObjectOf(id)
}

// grpcMethodArg: the function name handed to the gRPC method check is the last
// slash-component of a FullMethod field or of a string parameter.
func grpcMethodArg(c *core.Ctx, call *ast.CallExpr) bool {
	if len(call.Args) != 1 {
		return false
	}
	m := lastComponent(c, call.Args[0], "/")
	if m == nil {
		return false
	}
	switch x := ast.Unparen(m).(type) {
	case *ast.SelectorExpr:
		return x.Sel.Name == "FullMethod" && strings.HasPrefix(types.TypeString(c.Info.TypeOf(x.X), nil), "*google.golang.org/grpc.")
	case *ast.Ident:
		v, ok := c.Info.ObjectOf(x).(*types.Var)
		if !ok {
			return false
		}
		for i := 0; ; i++ {
			p := c.F.Param(i)
			if p == nil {
				return false
			}
			if p == v {
				return true
			}
		}
	}
	return false
}

// handlerParamCall: the node calls a parameter of the literal whose type is
// named like one of typeNames (grpc.UnaryHandler / grpc.StreamHandler).
func handlerParamCall(typeNames ...string) core.SinkPred {
	return core.SinkPred{Label: "call of the handler parameter", Match: func(fl *core.Flow, n *core.GNode) bool {
		if n.Ast == nil {
			return false
		}
		for _, call := range core.CallsIn(n.Ast) {
			id, ok := ast.Unparen(call.Fun).(*ast.Ident)
			if !ok {
				continue
			}
			v, ok := fl.C.Info.ObjectOf(id).(*types.Var)
			if !ok {
				continue
			}
			ts := types.TypeString(v.Type(), nil)
			for _, tn := range typeNames {
				if ts == tn {
					return true
				}
			}
		}
		return false
	}}
}

// gateFuncs: functions of package rpc that implement the gRPC gate: those that
// call checkGrpcFuncValidity directly (base) and those all of whose returns
// delegate to a gate (wrappers).
func gateFuncs(r *Run) (base, wrappers []*core.FuncInfo) {
	pkg := r.W.Pkg("rpc")
	if pkg == nil {
		return
	}
	isGate := map[*types.Func]bool{}
	for _, f := range r.W.AllFuncs(pkg) {
		found := false
		core.InspectBody(f, func(x ast.Node) bool {
			if call, ok := x.(*ast.CallExpr); ok {
				if fn := core.Callee(f.Info(), call); fn != nil && core.ShortName(fn) == "rpc.checkGrpcFuncValidity" {
					found = true
				}
			}
			return true
		})
		if found {
			base = append(base, f)
			isGate[f.Obj] = true
		}
	}
	for changed := true; changed; {
		changed = false
		for _, f := range r.W.AllFuncs(pkg) {
			if isGate[f.Obj] || f.Sig().Results().Len() != 1 {
				continue
			}
			all, n := true, 0
			core.InspectBody(f, func(x ast.Node) bool {
				if _, ok := x.(*ast.FuncLit); ok {
					return false
				}
				ret, ok := x.(*ast.ReturnStmt)
				if !ok {
					return true
				}
				n++
				if len(ret.Results) != 1 {
					all = false
					return true
				}
				call, ok := ast.Unparen(ret.Results[0]).(*ast.CallExpr)
				if !ok || !isGate[core.Callee(f.Info(), call)] {
					all = false
				}
				return true
			})
			if all && n > 0 {
				isGate[f.Obj] = true
				wrappers = append(wrappers, f)
				changed = true
			}
		}
	}
	return
}

// serviceStreams counts the stream methods of the service registered by the
// generated Register<X>Server function fn (looking at the service descriptor
// literal it hands to RegisterService).
func serviceStreams(w *core.World, fn *types.Func) (n int, names []string, ok bool) {
	f := w.FuncOf(fn)
	if f == nil {
		return 0, nil, false
	}
	var desc types.Object
	core.InspectBody(f, func(x ast.Node) bool {
		call, isCall := x.(*ast.CallExpr)
		if !isCall {
			return true
		}
		sel, isSel := ast.Unparen(call.Fun).(*ast.SelectorExpr)
		if !isSel || sel.Sel.Name != "RegisterService" || len(call.Args) != 2 {
			return true
		}
		a := ast.Unparen(call.Args[0])
		if u, isU := a.(*ast.UnaryExpr); isU && u.Op == token.AND {
			a = ast.Unparen(u.X)
		}
		if id, isID := a.(*ast.Ident); isID {
			desc = f.Info().ObjectOf(id)
		}
		return true
	})
	if desc == nil {
		return 0, nil, false
	}
	pkg := w.Pkgs[desc.Pkg().Path()]
	if pkg == nil {
		return 0, nil, false
	}
	for _, file := range pkg.Syntax {
		for _, d := range file.Decls {
			gd, isGen := d.(*ast.GenDecl)
			if !isGen {
				continue
			}
			for _, sp := range gd.Specs {
				vs, isVS := sp.(*ast.ValueSpec)
				if !isVS {
					continue
				}
				for i, id := range vs.Names {
					if pkg.TypesInfo.Defs[id] != desc || i >= len(vs.Values) {
						continue
					}
					lit, isLit := ast.Unparen(vs.Values[i]).(*ast.CompositeLit)
					if !isLit {
						return 0, nil, false
					}
					for _, el := range lit.Elts {
						kv, isKV := el.(*ast.KeyValueExpr)
						if !isKV {
							continue
						}
						if k, isID := kv.Key.(*ast.Ident); !isID || k.Name != "Streams" {
							continue
						}
						sl, isLit := ast.Unparen(kv.Value).(*ast.CompositeLit)
						if !isLit {
							return 0, nil, false
						}
						for _, se := range sl.Elts {
							n++
							if sc, isC := se.(*ast.CompositeLit); isC {
								for _, f := range sc.Elts {
									if kv, isKV := f.(*ast.KeyValueExpr); isKV {
										if k, isID := kv.Key.(*ast.Ident); isID && k.Name == "StreamName" {
											names = append(names, core.ExprStr(kv.Value))
										}
									}
								}
							}
						}
					}
					return n, names, true
				}
			}
		}
	}
	return 0, nil, false
}

// externalStreamServices: registration helpers of external modules (no syntax
// loaded) that are known to register streaming methods.
var externalStreamServices = map[string]string{
	"google.golang.org/grpc/reflection.Register": "grpc.reflection.*.ServerReflection/ServerReflectionInfo is a bidirectional stream",
}

// resolveFuncValue resolves an expression used as a function value to a
// literal (through a single-definition local variable) or a declared function.
func resolveFuncValue(c *core.Ctx, e ast.Expr) *core.FuncInfo {
	e = ast.Unparen(e)
	root := c.F
	for root.Encl != nil {
		root = root.Encl
	}
	byLit := func(lit *ast.FuncLit) *core.FuncInfo {
		for _, cl := range root.Closures() {
			if cl.Lit == lit {
				return cl
			}
		}
		return nil
	}
	switch x := e.(type) {
	case *ast.FuncLit:
		return byLit(x)
	case *ast.Ident:
		switch o := c.Info.ObjectOf(x).(type) {
		case *types.Func:
			return c.W.FuncOf(o)
		case *types.Var:
			var rhs ast.Expr
			for _, d := range c.DefsOf(o) {
				if _, isDecl := d.Stmt.(*ast.ValueSpec); isDecl && d.Rhs == nil {
					continue
				}
				if rhs != nil || d.Rhs == nil {
					return nil
				}
				rhs = d.Rhs
			}
			if lit, ok := ast.Unparen(rhs).(*ast.FuncLit); ok {
				return byLit(lit)
			}
		}
	}
	return nil
}

// rpcFieldsRead lists the fields of types.RPC named in want that f reads.
func rpcFieldsRead(f *core.FuncInfo, want map[string]bool) []string {
	set := map[string]bool{}
	core.InspectBody(f, func(x ast.Node) bool {
		sel, ok := x.(*ast.SelectorExpr)
		if !ok {
			return true
		}
		v, ok := f.Info().ObjectOf(sel.Sel).(*types.Var)
		if !ok || !v.IsField() || !want[v.Name()] {
			return true
		}
		if t := f.Info().TypeOf(sel.X); t != nil && strings.HasSuffix(strings.TrimPrefix(t.String(), "*"), "chain33/types.RPC") {
			set[v.Name()] = true
		}
		return true
	})
	var out []string
	for k := range set {
		out = append(out, k)
	}
	sort.Strings(out)
	return out
}

func init() {
	notLoopback := func(c *core.Ctx, e ast.Expr) core.Tri {
		if call, ok := ast.Unparen(e).(*ast.CallExpr); ok {
			if fn := core.Callee(c.Info, call); fn != nil {
				switch core.ShortName(fn) {
				case "net.IP.IsLoopback", "rpc.isLoopBackAddr":
					return core.False // the property quantifies over non-loopback clients
				}
			}
		}
		return core.Unknown
	}
	jsonHandler := "rpc.(*JSONRPCServer).Listen$calls:net/rpc.(*Server).ServeRequest"
	jsonSpec := func() *core.FlowSpec {
		return &core.FlowSpec{
			Assume: notLoopback,
			Calls: []core.CallGuard{
				{Fact: "ip-whitelisted", Callee: core.Names("rpc.checkIPWhitelist"), Pass: core.OTrue, Idx: 0,
					ArgOK: hostOfRemote(core.IsObj("net/http.Request.RemoteAddr"))},
				{Fact: "basic-auth-ok", Callee: core.Names("rpc.checkBasicAuth"), Pass: core.OTrue, Idx: 0,
					ArgOK: func(c *core.Ctx, call *ast.CallExpr) bool {
						return len(call.Args) == 1 && core.Mentions("lparam:1")(c, call.Args[0])
					}},
				{Fact: "method-not-blacklisted", Callee: core.Names("rpc.checkJrpcFuncBlacklist"), Pass: core.OFalse, Idx: 0, ArgOK: jrpcMethodArg},
				{Fact: "method-whitelisted", Callee: core.Names("rpc.checkJrpcFuncWhitelist"), Pass: core.OTrue, Idx: 0, ArgOK: jrpcMethodArg},
			},
		}
	}
	register(&core.Property{
		ID:       "C39",
		Title:    "RPC access control holds for every request shape",
		Packages: []string{"rpc", "rpc/ethrpc", "types"},		Explanation: "Decides R39a-R39e: in the JSON-RPC HTTP handler the dispatch (ServeRequest) is dominated, for a non-loopback client, by a passed IP-whitelist test on the host of r.RemoteAddr, passed basic auth on the same request, and 'not blacklisted and whitelisted' for the last dot-component of the method decoded from the very buffer that is handed to the codec (one body read, same JSON field tag as the codec); " +
			"nothing else in package rpc serves the net/rpc server and only the gated handler is handed to http.Serve; every gRPC server built in package rpc installs a unary interceptor and — if any registered service has stream methods — a stream interceptor, each calling its handler only after the gate returned nil; the gate admits a non-loopback peer only after the IP-whitelist test on the peer's host and the method white/black-list test on the last slash-component of the full method, and fails closed without a peer; " +
			"the Ethereum endpoint dispatches only after its own IP test on the host of r.RemoteAddr, is the only handler given to its http.Server, and its IP test reads the same whitelist configuration keys as rpc.InitIPWhitelist; InitCfg initialises all five lists.",
		NotCovered:  "equality of the admitted address sets of the Ethereum endpoint and the other two (only the configuration keys read are compared, not the matching logic); correctness of encoding/json and net/rpc (the method-name agreement relies on both decoders being encoding/json with the same field tag, which is checked); basic-auth string comparison details.",
		Assumptions: []string{"net/rpc dispatches on the text after the last '.' of the decoded \"method\" member (Go standard library behaviour)", "a gRPC server invokes unary handlers only through the unary interceptor and stream handlers only through the stream interceptor"},
		Rules: []core.Rule{
			rule("R39a", "JSON-RPC dispatch is dominated by the IP, auth and method gates", 7, func(r *Run) {
				core.Dominated{Fn: jsonHandler, Spec: jsonSpec(), Sink: core.CallSink("net/rpc.(*Server).ServeRequest"),
					Need: []core.Fact{"ip-whitelisted", "basic-auth-ok", "method-not-blacklisted", "method-whitelisted"}, Min: 1}.Check(r)
				f := r.Fn(jsonHandler)
				if f == nil {
					return
				}
				c := f.Ctx()
				// the codec reads the buffer that was parsed for the method name, and the body is read once
				var parsed types.Object
				nRead := 0
				var codecCall *ast.CallExpr
				core.InspectBody(f, func(x ast.Node) bool {
					call, ok := x.(*ast.CallExpr)
					if !ok {
						return true
					}
					fn := core.Callee(c.Info, call)
					if fn == nil {
						return true
					}
					switch core.ShortName(fn) {
					case "rpc.checkJrpcFuncBlacklist", "rpc.checkJrpcFuncWhitelist":
						if len(call.Args) == 1 {
							if o := jrpcParsedBuffer(c, call.Args[0]); o != nil {
								parsed = o
							}
						}
					case "net/rpc/jsonrpc.NewServerCodec":
						codecCall = call
					}
					if core.MentionsDirect("net/http.Request.Body")(c, call) && len(call.Args) > 0 && core.MentionsDirect("net/http.Request.Body")(c, call.Args[0]) {
						nRead++
					}
					return true
				})
				label := f.Name + ": the codec decodes the same bytes the method gate parsed"
				switch {
				case parsed == nil || codecCall == nil:
					r.Fail(label, r.W.Pos(f.Node().Pos()), "could not identify the parsed buffer or the codec construction")
				case !mentionsObjNode(c.Info, codecCall, parsed):
					r.Fail(label, r.W.Pos(codecCall.Pos()), fmt.Sprintf("`%s` is not built over `%s`, the buffer whose method was checked", core.ExprStr(codecCall), parsed.Name()))
				case len(c.DefsOf(parsed)) != 1:
					r.Fail(label, r.W.Pos(codecCall.Pos()), fmt.Sprintf("buffer `%s` is assigned %d times: the checked and the served bytes may differ", parsed.Name(), len(c.DefsOf(parsed))))
				case nRead != 1:
					r.Fail(label, r.W.Pos(f.Node().Pos()), fmt.Sprintf("the request body is read %d times (expected exactly once)", nRead))
				default:
					r.OK(label, r.W.Pos(codecCall.Pos()), fmt.Sprintf("codec built over `%s` (single definition, body read once)", parsed.Name()))
				}
				// ServeRequest argument is that codec
				core.CallArgs{Fn: jsonHandler, Callee: []string{"net/rpc.(*Server).ServeRequest"}, What: "serves the codec built over the checked buffer", Min: 1,
					Args: map[int]core.ExprPred{0: core.FromCall(0, "net/rpc/jsonrpc.NewServerCodec")}}.Check(r)
				// parse uses encoding/json with the codec's member name
				if pf := r.Fn("rpc.parseJSONRpcParams"); pf != nil {
					label := "rpc.parseJSONRpcParams decodes member \"method\" of its argument with encoding/json"
					okCall := false
					core.InspectBody(pf, func(x ast.Node) bool {
						if call, ok := x.(*ast.CallExpr); ok {
							if fn := core.Callee(pf.Info(), call); fn != nil && core.ShortName(fn) == "encoding/json.Unmarshal" && len(call.Args) == 2 &&
								core.Mentions("param:0")(pf.Ctx(), call.Args[0]) {
								okCall = true
							}
						}
						return true
					})
					tag := ""
					if fv := fieldObj(r.W, "rpc.clientRequest.Method"); fv != nil {
						if st, ok := r.W.LookupObj("rpc.clientRequest").Type().Underlying().(*types.Struct); ok {
							for i := 0; i < st.NumFields(); i++ {
								if st.Field(i) == fv {
									tag = reflect.StructTag(st.Tag(i)).Get("json")
								}
							}
						}
					}
					switch {
					case !okCall:
						r.Fail(label, r.W.Pos(pf.Node().Pos()), "no json.Unmarshal(<param 0>, …) call: the gate would read the method with a different decoder than net/rpc/jsonrpc")
					case strings.Split(tag, ",")[0] != "method":
						r.Fail(label, r.W.Pos(pf.Node().Pos()), fmt.Sprintf("clientRequest.Method carries json tag %q, the codec dispatches on member \"method\"", tag))
					default:
						r.OK(label, r.W.Pos(pf.Node().Pos()), "json.Unmarshal of parameter 0; field tag \"method\" as in net/rpc/jsonrpc.serverRequest")
					}
				}
			}),
			rule("R39b", "only gated handlers serve; gRPC servers install unary and stream gates", 6, func(r *Run) {
				core.WhoMayCall{Targets: []string{"net/rpc.(*Server).ServeRequest", "net/rpc.(*Server).ServeCodec", "net/rpc.(*Server).ServeConn", "net/rpc.(*Server).ServeHTTP", "net/rpc.(*Server).Accept", "net/rpc.(*Server).HandleHTTP"},
					Allowed: []string{"rpc.(*JSONRPCServer).Listen", "cmd/miner_accounts.main"}, Min: 1,
					Reasons: map[string]string{"cmd/miner_accounts.main": "a separate command-line tool (mining-account statistics) that serves its own net/rpc server object with its own two methods; it is not one of the node's RPC endpoints and registers none of the node's services (seen only by the whole-module tier)"}}.Check(r)
				// the HTTP listener is served with the gated handler only
				if f := r.Fn("rpc.(*JSONRPCServer).Listen"); f != nil {
					c := f.Ctx()
					gate := r.Fn(jsonHandler)
					n := 0
					core.InspectBody(f, func(x ast.Node) bool {
						call, ok := x.(*ast.CallExpr)
						if !ok {
							return true
						}
						fn := core.Callee(c.Info, call)
						if fn == nil {
							return true
						}
						switch core.ShortName(fn) {
						case "net/http.Serve", "net/http.ServeTLS":
						default:
							return true
						}
						n++
						label := fmt.Sprintf("%s: %s #%d is given the gated handler", f.Name, core.ShortName(fn), n)
						id, ok := ast.Unparen(call.Args[1]).(*ast.Ident)
						if !ok || gate == nil {
							r.Fail(label, r.W.Pos(call.Pos()), "handler argument is not a local variable / gate literal not found")
							return true
						}
						o := c.Info.ObjectOf(id)
						good := true
						for _, d := range c.DefsOf(o) {
							if d.Rhs == nil {
								good = false
								continue
							}
							hasLit := false
							ast.Inspect(d.Rhs, func(y ast.Node) bool {
								if y == ast.Node(gate.Lit) {
									hasLit = true
								}
								return true
							})
							if !hasLit && !mentionsObjNode(c.Info, d.Rhs, o) {
								good = false
							}
						}
						if good {
							r.OK(label, r.W.Pos(call.Pos()), fmt.Sprintf("every definition of `%s` wraps the gated handler literal", id.Name))
						} else {
							r.Fail(label, r.W.Pos(call.Pos()), fmt.Sprintf("`%s` can hold a handler that is not (a wrapper of) the gated literal", id.Name))
						}
						return true
					})
					if n == 0 {
						r.Fail(f.Name+": serves the listener", r.W.Pos(f.Node().Pos()), "no http.Serve/ServeTLS call found")
					}
				}
				// gRPC servers
				nServers := 0
				for _, pp := range []string{"rpc", "rpc/ethrpc"} {
					pkg := r.W.Pkg(pp)
					if pkg == nil {
						r.Unresolved("package " + pp)
						continue
					}
					for _, f := range r.W.AllFuncs(pkg) {
						c := f.Ctx()
						var newServer *ast.CallExpr
						core.InspectBody(f, func(x ast.Node) bool {
							if call, ok := x.(*ast.CallExpr); ok {
								if fn := core.Callee(c.Info, call); fn != nil && core.ShortName(fn) == "google.golang.org/grpc.NewServer" {
									newServer = call
								}
							}
							return true
						})
						if newServer == nil {
							continue
						}
						nServers++
						r.Touch(f)
						checkGrpcServer(r, f, newServer)
					}
				}
				if nServers == 0 {
					r.Fail("gRPC servers in package rpc", "-", "no grpc.NewServer call found")
				}
			}),
			rule("R39c", "the gRPC gate admits a non-loopback peer only after the IP and method tests", 5, func(r *Run) {
				base, wrappers := gateFuncs(r)
				if len(base) == 0 {
					r.Fail("gRPC gate functions", "-", "no function of package rpc calls checkGrpcFuncValidity")
					return
				}
				for _, f := range base {
					r.Touch(f)
					spec := &core.FlowSpec{
						Assume: notLoopback,
						Calls: []core.CallGuard{
							{Fact: "ip-whitelisted", Callee: core.Names("rpc.checkIPWhitelist"), Pass: core.OTrue, Idx: 0,
								ArgOK: hostOfRemote(core.DerivedFromCall("google.golang.org/grpc/peer.FromContext"))},
							{Fact: "method-valid", Callee: core.Names("rpc.checkGrpcFuncValidity"), Pass: core.OTrue, Idx: 0, ArgOK: grpcMethodArg},
						},
					}
					core.Dominated{Fn: f.Name, Spec: spec, Sink: core.SuccessReturn(0), Need: []core.Fact{"ip-whitelisted", "method-valid"}, Min: 1}.Check(r)
				}
				for _, f := range wrappers {
					r.Touch(f)
					r.OK(f.Name+" delegates every return to a gate function", r.W.Pos(f.Node().Pos()), "wrapper: all return statements return the result of a gate call")
				}
				// isLoopBackAddr says yes only for a loopback IP
				core.Dominated{Fn: "rpc.isLoopBackAddr", Spec: &core.FlowSpec{Conds: []core.CondGuard{
					core.BoolGuard("is-loopback", core.CallsAny("net.IP.IsLoopback"), true)}},
					Sink: core.SuccessReturn(0), Need: []core.Fact{"is-loopback"}, Min: 1}.Check(r)
				// validity = not blacklisted, then whitelisted or wildcard
				core.Dominated{Fn: "rpc.checkGrpcFuncValidity", Spec: &core.FlowSpec{Conds: []core.CondGuard{
					core.BoolGuard("not-blacklisted", core.CommaOK(core.Mentions("rpc.grpcFuncBlacklist")), false)}},
					Sink: core.SuccessReturn(0), Need: []core.Fact{"not-blacklisted"}, Min: 1}.Check(r)
			}),
			rule("R39d", "Ethereum endpoint: dispatch behind its IP test; same whitelist keys as the other endpoints", 4, func(r *Run) {
				serve := "rpc/ethrpc.(*httpServer).ServeHTTP"
				core.Dominated{Fn: serve, Spec: &core.FlowSpec{Calls: []core.CallGuard{
					{Fact: "ip-whitelisted", Callee: core.Names("rpc/ethrpc.(*httpServer).checkIPWhitelist"), Pass: core.OTrue, Idx: 0,
						ArgOK: hostOfRemote(core.IsObj("net/http.Request.RemoteAddr"))}}},
					Sink: core.CallSink("net/http.Handler.ServeHTTP"), Need: []core.Fact{"ip-whitelisted"}, Min: 2}.Check(r)
				// the only handler given to an http.Server in the package is the gated *httpServer
				if pkg := r.W.Pkg("rpc/ethrpc"); pkg != nil {
					n := 0
					for _, f := range r.W.AllFuncs(pkg) {
						core.InspectBody(f, func(x ast.Node) bool {
							lit, ok := x.(*ast.CompositeLit)
							if !ok {
								return true
							}
							if t := f.Info().TypeOf(lit); t == nil || t.String() != "net/http.Server" {
								return true
							}
							for _, el := range lit.Elts {
								kv, ok := el.(*ast.KeyValueExpr)
								if !ok {
									continue
								}
								if k, ok := kv.Key.(*ast.Ident); !ok || k.Name != "Handler" {
									continue
								}
								n++
								label := fmt.Sprintf("%s: http.Server #%d is given the gated handler", f.Name, n)
								ts := types.TypeString(f.Info().TypeOf(kv.Value), nil)
								if strings.HasSuffix(ts, "rpc/ethrpc.httpServer") && strings.HasPrefix(ts, "*") {
									r.OK(label, r.W.Pos(kv.Pos()), "Handler is the *httpServer whose ServeHTTP applies the IP test")
								} else {
									r.Fail(label, r.W.Pos(kv.Pos()), fmt.Sprintf("Handler has type %s: requests would reach it without the IP test", ts))
								}
							}
							return true
						})
					}
					if n == 0 {
						r.Fail("rpc/ethrpc: http.Server literals", "-", "no http.Server{Handler: …} found")
					}
				} else {
					r.Unresolved("package rpc/ethrpc")
				}
				// configuration keys
				want := map[string]bool{"Whitelist": true, "Whitlist": true}
				a, b := r.Fn("rpc.InitIPWhitelist"), r.Fn("rpc/ethrpc.(*httpServer).checkIPWhitelist")
				if a != nil && b != nil {
					fa, fb := rpcFieldsRead(a, want), rpcFieldsRead(b, want)
					label := "rpc/ethrpc.(*httpServer).checkIPWhitelist reads the same IP-whitelist configuration keys as rpc.InitIPWhitelist"
					if len(fa) == 0 {
						r.Fail(label, r.W.Pos(a.Node().Pos()), "rpc.InitIPWhitelist reads no whitelist key")
					} else if strings.Join(fa, ",") == strings.Join(fb, ",") {
						r.OK(label, r.W.Pos(b.Node().Pos()), "both read "+strings.Join(fa, ", "))
					} else {
						r.Fail(label, r.W.Pos(b.Node().Pos()), fmt.Sprintf("rpc.InitIPWhitelist honours %v, the Ethereum endpoint only %v: a whitelist configured under the other key is ignored there (every address is admitted, or admitted addresses are refused)", fa, fb))
					}
				}
			}),
			rule("R39e", "all access lists are initialised from the configuration", 5, func(r *Run) {
				f := r.Fn("rpc.InitCfg")
				if f == nil {
					return
				}
				for _, callee := range []string{"rpc.InitIPWhitelist", "rpc.InitJrpcFuncWhitelist", "rpc.InitGrpcFuncWhitelist", "rpc.InitJrpcFuncBlacklist", "rpc.InitGrpcFuncBlacklist"} {
					fact := core.Fact("called " + callee)
					core.Dominated{Fn: "rpc.InitCfg", Spec: &core.FlowSpec{Calls: []core.CallGuard{{Fact: fact, Callee: core.Names(callee), Pass: core.OCalled,
						ArgOK: func(c *core.Ctx, call *ast.CallExpr) bool { return len(call.Args) == 1 && core.Mentions("param:0")(c, call.Args[0]) }}}},
						Sink: core.AnyReturn(), Need: []core.Fact{fact}, Min: 1}.Check(r)
				}
			}),
		},
	})
}

func mentionsObjNode(info *types.Info, n ast.Node, o types.Object) bool {
	found := false
	ast.Inspect(n, func(x ast.Node) bool {
		if id, ok := x.(*ast.Ident); ok && info.ObjectOf(id) == o {
			found = true
		}
		return !found
	})
	return found
}

// checkGrpcServer: obligations for one grpc.NewServer site.
func checkGrpcServer(r *Run, f *core.FuncInfo, newServer *ast.CallExpr) {
	c := f.Ctx()
	// registered services and their streams
	streams := 0
	var streamWhy []string
	core.InspectBody(f, func(x ast.Node) bool {
		call, ok := x.(*ast.CallExpr)
		if !ok || len(call.Args) == 0 {
			return true
		}
		t := c.Info.TypeOf(call.Args[0])
		if t == nil || t.String() != "*google.golang.org/grpc.Server" {
			return true
		}
		fn := core.Callee(c.Info, call)
		if fn == nil || !strings.HasPrefix(fn.Name(), "Register") {
			return true
		}
		name := core.ShortName(fn)
		if why, ok := externalStreamServices[name]; ok {
			streams++
			streamWhy = append(streamWhy, name+": "+why)
			return true
		}
		n, names, ok := serviceStreams(r.W, fn)
		if !ok {
			r.Unresolved("service descriptor registered by " + name)
			return true
		}
		if n > 0 {
			streams += n
			streamWhy = append(streamWhy, fmt.Sprintf("%s: %d stream method(s) %v", name, n, names))
		}
		return true
	})
	// interceptors among the options
	type icpt struct {
		call *ast.CallExpr
		kind string
	}
	var found []icpt
	core.InspectBody(f, func(x ast.Node) bool {
		call, ok := x.(*ast.CallExpr)
		if !ok {
			return true
		}
		if fn := core.Callee(c.Info, call); fn != nil {
			switch core.ShortName(fn) {
			case "google.golang.org/grpc.UnaryInterceptor", "google.golang.org/grpc.ChainUnaryInterceptor":
				found = append(found, icpt{call, "unary"})
			case "google.golang.org/grpc.StreamInterceptor", "google.golang.org/grpc.ChainStreamInterceptor":
				found = append(found, icpt{call, "stream"})
			}
		}
		return true
	})
	base, wrappers := gateFuncs(r)
	var gateNames []string
	for _, g := range append(base, wrappers...) {
		gateNames = append(gateNames, g.Name)
	}
	for _, kind := range []string{"unary", "stream"} {
		label := fmt.Sprintf("%s: the gRPC server gates %s methods", f.Name, kind)
		if kind == "stream" && streams == 0 {
			r.OK(label, r.W.Pos(newServer.Pos()), "no registered service has stream methods")
			continue
		}
		n := 0
		for _, ic := range found {
			if ic.kind != kind {
				continue
			}
			for _, a := range ic.call.Args {
				n++
				lit := resolveFuncValue(c, a)
				if lit == nil {
					r.Fail(label, r.W.Pos(a.Pos()), fmt.Sprintf("interceptor `%s` could not be resolved to a function body", core.ExprStr(a)))
					continue
				}
				handlerType := "google.golang.org/grpc.UnaryHandler"
				if kind == "stream" {
					handlerType = "google.golang.org/grpc.StreamHandler"
				}
				core.Dominated{Fn: lit.Name, Spec: &core.FlowSpec{Calls: []core.CallGuard{{Fact: "gate-passed", Callee: core.Names(gateNames...), Pass: core.OErrNil, Idx: -1}}},
					Sink: handlerParamCall(handlerType), Need: []core.Fact{"gate-passed"}, Min: 1}.Check(r)
			}
		}
		if n == 0 {
			why := "no " + kind + " interceptor is installed"
			if kind == "stream" {
				why += "; stream methods run without the IP whitelist and the method white/black-list: " + strings.Join(streamWhy, "; ")
			}
			r.Fail(label, r.W.Pos(newServer.Pos()), why)
		} else {
			r.OK(label, r.W.Pos(newServer.Pos()), fmt.Sprintf("%d %s interceptor(s) installed", n, kind))
		}
	}
}
