package props

// Rules added after the second round of seeded changes (see seeded/HISTORY.md).

import (
	"fmt"
	"go/ast"
	"go/token"
	"go/types"
	"sort"
	"strings"

	"verif/sa/core"
)

// freshBytes: the expression denotes byte-slice memory created by this
// evaluation (so appending to it cannot write into memory another value sees):
// a conversion from a string, a make, a composite literal, append onto a fresh
// base, a call to one of the listed constructors, or a local variable all of
// whose definitions are fresh or append onto itself.
func freshBytes(c *core.Ctx, e ast.Expr, ctors core.NameSet, depth int) bool {
	e = ast.Unparen(e)
	switch x := e.(type) {
	case *ast.CompositeLit:
		return true
	case *ast.CallExpr:
		if core.IsBuiltinCall(c.Info, x, "make") {
			return true
		}
		if core.IsBuiltinCall(c.Info, x, "append") && len(x.Args) >= 1 {
			return freshBytes(c, x.Args[0], ctors, depth)
		}
		if tv, ok := c.Info.Types[x.Fun]; ok && tv.IsType() && len(x.Args) == 1 {
			at := c.Info.TypeOf(x.Args[0])
			if at != nil {
				if b, isB := at.Underlying().(*types.Basic); isB && b.Info()&types.IsString != 0 {
					return true // []byte(string) allocates
				}
			}
			return false // []byte([]byte) shares
		}
		if fn := core.Callee(c.Info, x); fn != nil && ctors.Has(fn) {
			return true
		}
		return false
	case *ast.Ident:
		if depth == 0 {
			return false
		}
		o := c.Info.ObjectOf(x)
		v, ok := o.(*types.Var)
		if !ok || v.IsField() || v.Pkg() == nil || v.Parent() == v.Pkg().Scope() {
			return false
		}
		defs := c.DefsOf(o)
		if len(defs) == 0 {
			return false
		}
		for _, d := range defs {
			if d.Rhs == nil {
				return false
			}
			// key = append(key, …): grows itself
			if call, ok := ast.Unparen(d.Rhs).(*ast.CallExpr); ok && core.IsBuiltinCall(c.Info, call, "append") && len(call.Args) >= 1 {
				if id, ok := ast.Unparen(call.Args[0]).(*ast.Ident); ok && c.Info.ObjectOf(id) == o {
					continue
				}
			}
			if !freshBytes(c, d.Rhs, ctors, depth-1) {
				return false
			}
		}
		return true
	}
	return false
}

func init() {
	tb := "common/db/table.(*Table)."
	extend("C10", "R10d-R10f (added after seeded changes were missed): cancelling a buffered row also removes it from the by-primary-key map (the map only ever holds rows that will be written); every storage-key constructor returns freshly allocated bytes, so keys built for different rows can never share a backing array; "+
		"the rows produced by one loop never share an object that the loop keeps modifying.",
		rule("R10d", "a cancelled buffered row leaves the by-primary-key map", 2, func(r *Run) {
			pkg := r.W.Pkg("common/db/table")
			if pkg == nil {
				r.Unresolved("package common/db/table")
				return
			}
			noneObj := r.W.LookupObj("common/db/table.None")
			n := 0
			for _, f := range r.W.AllFuncs(pkg) {
				if f.Lit != nil {
					continue
				}
				c := f.Ctx()
				cancels := false
				core.InspectBody(f, func(x ast.Node) bool {
					as, ok := x.(*ast.AssignStmt)
					if !ok || len(as.Lhs) != 1 || len(as.Rhs) != 1 {
						return true
					}
					sel, ok := ast.Unparen(as.Lhs[0]).(*ast.SelectorExpr)
					if !ok || sel.Sel.Name != "Ty" {
						return true
					}
					if id, ok := ast.Unparen(as.Rhs[0]).(*ast.Ident); ok && noneObj != nil && c.Info.ObjectOf(id) == noneObj {
						// only rows that already sit in the buffer (handed in, or looked up): a row this function
						// has just created is not in the map yet
						if base, ok := ast.Unparen(sel.X).(*ast.Ident); ok {
							created := false
							for _, d := range c.DefsOf(c.Info.ObjectOf(base)) {
								if d.Rhs == nil {
									continue
								}
								switch rx := ast.Unparen(d.Rhs).(type) {
								case *ast.CompositeLit:
									created = true
								case *ast.UnaryExpr:
									if _, isLit := ast.Unparen(rx.X).(*ast.CompositeLit); isLit {
										created = true
									}
								case *ast.CallExpr:
									if fn := core.Callee(c.Info, rx); fn != nil && fn.Name() == "CreateRow" {
										created = true
									}
								}
							}
							if !created {
								cancels = true
							}
						}
					}
					return true
				})
				if !cancels {
					continue
				}
				n++
				core.Dominated{Fn: f.Name, Spec: &core.FlowSpec{Nodes: []core.NodeGen{{Fact: "unmapped", Gen: func(c *core.Ctx, n *core.GNode) bool {
					for _, call := range core.CallsIn(n.Ast) {
						if core.IsBuiltinCall(c.Info, call, "delete") && len(call.Args) == 2 && core.Mentions("common/db/table.Table.rowmap")(c, call.Args[0]) &&
							core.DerivedFrom("common/db/table.Row.Primary")(c, call.Args[1]) {
							return true
						}
					}
					return false
				}}}}, Sink: core.AnyReturn(), Need: []Fact{"unmapped"}, Min: 1}.Check(r)
			}
			label := "common/db/table: functions that cancel a buffered row (Ty = None)"
			if n >= 1 {
				r.OK(label, "common/db/table/table.go", fmt.Sprintf("%d function(s)", n))
			} else {
				r.Fail(label, "common/db/table/table.go", "no function sets Row.Ty = None any more (anchor moved?)")
			}
		}),
		rule("R10e", "storage-key constructors return freshly allocated bytes", 4, func(r *Run) {
			names := []string{tb + "getDataKey", tb + "getIndexKey", tb + "primaryPrefix", tb + "indexPrefix"}
			ctors := core.Names(names...)
			for _, fn := range names {
				f := r.Fn(fn)
				if f == nil {
					continue
				}
				c := f.Ctx()
				for i, ret := range f.Graph().Returns() {
					rs, ok := ret.Ast.(*ast.ReturnStmt)
					if !ok || len(rs.Results) != 1 {
						continue
					}
					label := fmt.Sprintf("%s return#%d yields fresh memory", f.Name, i+1)
					if freshBytes(c, rs.Results[0], ctors, 3) {
						r.OK(label, r.W.Pos(rs.Pos()), core.ExprStr(rs.Results[0]))
					} else {
						r.Fail(label, r.W.Pos(rs.Pos()), fmt.Sprintf("`%s` may share its backing array with a long-lived slice: an append by one caller can overwrite the key another caller still holds", core.ExprStr(rs.Results[0])))
					}
				}
			}
		}),
		rule("R10f", "rows produced in a loop do not share a mutable object declared outside it", 1, func(r *Run) {
			core.NoSharedAcrossIterations{Pkgs: []string{"common/db/table"}, Min: 8}.Check(r)
		}),
	)

	pu := "blockchain.(*Push)."
	extend("C32", "R32e-R32f (added after seeded changes were missed): the sequence a payload builder reports as delivered is computed from what was actually packed (the packed list or a counter advanced per packed item), never from the requested count, because the size cap can cut a batch short; "+
		"a subscriber that registers with a resume point is persisted at its last SEQUENCE (sequence and height differ after any reorganisation).",
		rule("R32e", "the acknowledged sequence is computed from what was packed", 4, func(r *Run) {
			for _, fn := range []string{"getBlockSeqs", "getHeaderSeqs", "getEVMEvent", "getTxReceipts"} {
				f := r.Fn(pu + fn)
				if f == nil {
					continue
				}
				c := f.Ctx()
				// the requested-count parameter: the int parameter that precedes maxSize
				ps := f.Sig().Params()
				cntIdx := -1
				for i := 0; i < ps.Len(); i++ {
					if ps.At(i).Name() == "maxSize" && i > 0 {
						cntIdx = i - 1
					}
				}
				if cntIdx < 0 {
					r.Unresolved(f.Name + ": no maxSize parameter (signature changed)")
					continue
				}
				q := fmt.Sprintf("param:%d", cntIdx)
				n := 0
				for _, ret := range f.Graph().Returns() {
					rs, ok := ret.Ast.(*ast.ReturnStmt)
					if !ok || len(rs.Results) != 3 || !isNilLit(c, rs.Results[2]) {
						continue
					}
					n++
					label := fmt.Sprintf("%s success return#%d: the reported sequence does not come from the requested count", f.Name, n)
					if mayDeriveFrom(q)(c, rs.Results[1]) {
						r.Fail(label, r.W.Pos(rs.Pos()), fmt.Sprintf("`%s` is computed from the requested count %s; when the size cap stops the batch early the skipped sequences are recorded as delivered and never sent", core.ExprStr(rs.Results[1]), ps.At(cntIdx).Name()))
					} else {
						r.OK(label, r.W.Pos(rs.Pos()), core.ExprStr(rs.Results[1]))
					}
				}
				if n == 0 {
					r.Fail(f.Name+": success returns", r.W.Pos(f.Node().Pos()), "no `return data, seq, nil` found")
				}
			}
		}),
		rule("R32f", "resume points are stored as sequences", 2, func(r *Run) {
			core.CallArgs{Fn: pu + "addSubscriber", Callee: []string{pu + "setLastPushSeq"}, What: "the subscriber's name and its last SEQUENCE", Args: map[int]core.ExprPred{
				0: core.Mentions("types.PushSubscribeReq.Name"), 1: core.Mentions("types.PushSubscribeReq.LastSequence")}, Min: 1}.Check(r)
			core.CallArgs{Fn: pu + "runTask$calls:blockchain.PostService.PostData", Callee: []string{pu + "setLastPushSeq"}, What: "the sequence the payload builder reported", Args: map[int]core.ExprPred{
				1: core.FromCall(1, pu+"getPushData")}, Min: 1}.Check(r)
		}),
	)
	_ = token.ADD
}

func init() {
	extend("C26", "R26d-R26f (added after seeded changes were missed): at start-up the log is rebuilt only when it is missing or shorter than the chain — a log that is longer than the chain (every reorganisation adds entries) is left alone; "+
		"the block store's shared batch is reset before anything is put into it, so operations of an earlier, failed use are never replayed with the next block; "+
		"blocks (and with them sequence numbers, which are allocated by read-last-then-write) are accepted only with chainLock held, including the orphans connected after their parent.",
		rule("R26d", "a sequence log longer than the chain is not rebuilt at start-up", 1, func(r *Run) {
			fn := bsm + "CheckSequenceStatus"
			lastSeq := core.FromCall(0, bsm+"LoadBlockLastSequence")
			lastHeight := core.FromCall(0, bsm+"Height")
			recording := map[types.Object]core.Tri{}
			if f := r.W.Func(fn); f != nil {
				recording[f.Param(0)] = core.True
			}
			need := r.W.LookupObj(bcp + "seqStatusNeedCreate")
			core.UnreachableUnder{Fn: fn, Spec: &core.FlowSpec{AssumeObj: recording,
				Assume: core.AssumeAll(core.AssumeRel(lastSeq, token.GTR, lastHeight, core.True), core.AssumeRel(lastSeq, token.EQL, core.IsConstInt(-1), core.False))},
				Sink: core.SinkPred{Label: "return seqStatusNeedCreate", Match: func(fl *core.Flow, n *core.GNode) bool {
					rs, ok := n.Ast.(*ast.ReturnStmt)
					if !ok || len(rs.Results) != 1 {
						return false
					}
					id, ok := ast.Unparen(rs.Results[0]).(*ast.Ident)
					return ok && need != nil && fl.C.Info.ObjectOf(id) == need
				}}, Name: "the log exists and its last sequence is greater than the chain height", Min: 1}.Check(r)
		}),
		rule("R26e", "the shared store batch is reset before it is filled", 2, func(r *Run) {
			sharedBatchReset(r)
		}),
		rule("R26f", "blocks are accepted (and sequence numbers allocated) only under chainLock", 2, func(r *Run) {
			lk := lockSpecFor(r, bcp+"BlockChain", "chainLock")
			if lk == nil {
				return
			}
			core.Dominated{Fn: bcm + "maybeAddBestChain", Spec: lk, Sink: core.CallSink(bcm+"maybeAcceptBlock", bcp+"(*OrphanPool).ProcessOrphans"), Need: []Fact{"W:chainLock"}, Min: 2}.Check(r)
		}),
	)
	extend("C29", "R29f (added after a seeded change was missed): the shared store batch is reset before it is filled, so a block's atomic write never carries operations left over from an earlier failed use.",
		rule("R29f", "the shared store batch is reset before it is filled", 2, func(r *Run) {
			sharedBatchReset(r)
		}),
	)
}

// sharedBatchReset: every function of package blockchain that takes the block
// store's long-lived batch (field BlockStore.batch) into a local resets it
// before the first operation that puts something into it or writes it.
func sharedBatchReset(r *Run) {
	pkg := r.W.Pkg("blockchain")
	if pkg == nil {
		r.Unresolved("package blockchain")
		return
	}
	n := 0
	for _, f := range r.W.AllFuncs(pkg) {
		if f.Lit != nil {
			continue
		}
		c := f.Ctx()
		var local types.Object
		core.InspectBody(f, func(x ast.Node) bool {
			as, ok := x.(*ast.AssignStmt)
			if !ok || len(as.Lhs) != 1 || len(as.Rhs) != 1 {
				return true
			}
			if sel, ok := ast.Unparen(as.Rhs[0]).(*ast.SelectorExpr); ok && core.IsObj(bcp + "BlockStore.batch")(c, sel) {
				if id, ok := as.Lhs[0].(*ast.Ident); ok {
					local = c.Info.ObjectOf(id)
				}
			}
			return true
		})
		if local == nil {
			continue
		}
		n++
		isLocal := func(c *core.Ctx, e ast.Expr) bool {
			id, ok := ast.Unparen(e).(*ast.Ident)
			return ok && c.Info.ObjectOf(id) == local
		}
		onLocal := func(c *core.Ctx, call *ast.CallExpr) bool {
			sel, ok := ast.Unparen(call.Fun).(*ast.SelectorExpr)
			return ok && isLocal(c, sel.X)
		}
		sp := &core.FlowSpec{Calls: []core.CallGuard{{Fact: "batch-reset", Callee: core.Names("common/db.Batch.Reset"), Pass: core.OCalled, NoArgDeps: true, ArgOK: onLocal}}}
		core.Dominated{Fn: f.Name, Spec: sp, Sink: core.SinkPred{Label: "use of the shared batch", Match: func(fl *core.Flow, nd *core.GNode) bool {
			if nd.Ast == nil {
				return false
			}
			for _, call := range core.CallsIn(nd.Ast) {
				if onLocal(fl.C, call) {
					if fn := core.Callee(fl.C.Info, call); fn != nil && (fn.Name() == "Reset" || fn.Name() == "UpdateWriteSync") {
						continue
					}
					return true
				}
				for _, a := range call.Args {
					if isLocal(fl.C, a) {
						return true
					}
				}
			}
			return false
		}}, Need: []Fact{"batch-reset"}, Min: 1}.Check(r)
	}
	label := "blockchain: functions that use the block store's shared batch"
	if n >= 2 {
		r.OK(label, "blockchain/", fmt.Sprintf("%d function(s)", n))
	} else {
		r.Fail(label, "blockchain/", fmt.Sprintf("expected ≥2 users of BlockStore.batch (dbMaybeStoreBlock, connectBlock), found %d", n))
	}
}

func init() {
	pruneImpliesPrefix := rule("R05e", "a pruning store always uses height-prefixed node keys: the adjustment reaches the tree configuration", 1, func(r *Run) {
		// Without the height prefix two versions of a leaf with equal content share one database key, and
		// pruning the old version deletes the live one.
		fn := "system/store/mavl.New"
		pruneOn := func(c *core.Ctx, e ast.Expr) core.Tri {
			if sel, ok := ast.Unparen(e).(*ast.SelectorExpr); ok && sel.Sel.Name == "EnableMavlPrune" {
				return core.True
			}
			return core.Unknown
		}
		forced := core.NodeGen{Fact: "prefix-forced", Gen: func(c *core.Ctx, n *core.GNode) bool {
			as, ok := n.Ast.(*ast.AssignStmt)
			if !ok || len(as.Lhs) != 1 || len(as.Rhs) != 1 {
				return false
			}
			sel, ok := ast.Unparen(as.Lhs[0]).(*ast.SelectorExpr)
			if !ok || sel.Sel.Name != "EnableMavlPrefix" {
				return false
			}
			if rs, ok := ast.Unparen(as.Rhs[0]).(*ast.SelectorExpr); ok && rs.Sel.Name == "EnableMavlPrune" {
				return true
			}
			tv, ok := c.Info.Types[as.Rhs[0]]
			return ok && tv.Value != nil && tv.Value.String() == "true"
		}}
		core.Dominated{Fn: fn, Spec: &core.FlowSpec{Assume: pruneOn, Nodes: []core.NodeGen{forced}}, Sink: core.SinkPred{Label: "construction of the tree configuration", Match: func(fl *core.Flow, n *core.GNode) bool {
			found := false
			core.InspectNode(n.Ast, func(x ast.Node) bool {
				if cl, ok := x.(*ast.CompositeLit); ok {
					if t := fl.C.Info.TypeOf(cl); t != nil && core.TypeShort(t) == "system/store/mavl/db.TreeConfig" {
						found = true
					}
				}
				return true
			})
			return found
		}}, Need: []Fact{"prefix-forced"}, Min: 1}.Check(r)
	})
	addPackages("C05", "system/store/mavl")
	extend("C05", "R05a extended, R05e (added after seeded changes were missed): under pruning no path of Save hands out a root without having dropped the stale index entries, queued the nodes and recorded the height's root hash; "+
		"the store forces height-prefixed node keys on before the tree configuration is built whenever pruning is enabled.", pruneImpliesPrefix)
	p2 := pruneImpliesPrefix
	p2.ID = "R02e"
	extend("C02", "R02e (added after a seeded change was missed): the prune-implies-prefix adjustment reaches the tree configuration (otherwise a pruning store loses nodes a plain store keeps and cannot compute the same roots).", p2)
}

// addPackages makes sure the quick tier loads the given packages for a property.
func addPackages(id string, pkgs ...string) {
	p := registry[id]
	for _, pk := range pkgs {
		have := false
		for _, q := range p.Packages {
			if q == pk {
				have = true
			}
		}
		if !have {
			p.Packages = append(p.Packages, pk)
		}
	}
}

func init() {
	extend("C03", "R03c (added after a seeded change was missed): the recomputed inner node always contains the child hash — on every path of InnerNodeProofHash the child hash is assigned to one side before the node is hashed, so a branch that carries both sibling hashes cannot leave the proven leaf out of the root.",
		rule("R03c", "the child hash enters every recomputed inner node", 1, func(r *Run) {
			fn := mdb + "InnerNodeProofHash"
			bound := core.NodeGen{Fact: "child-hash-bound", Gen: func(c *core.Ctx, n *core.GNode) bool {
				as, ok := n.Ast.(*ast.AssignStmt)
				if !ok || len(as.Lhs) != 1 || len(as.Rhs) != 1 || !core.IsObj("param:0")(c, as.Rhs[0]) {
					return false
				}
				sel, ok := ast.Unparen(as.Lhs[0]).(*ast.SelectorExpr)
				return ok && (sel.Sel.Name == "LeftHash" || sel.Sel.Name == "RightHash")
			}}
			core.Dominated{Fn: fn, Spec: &core.FlowSpec{Nodes: []core.NodeGen{bound}}, Sink: core.CallSink("types.(*InnerNode).Hash"), Need: []Fact{"child-hash-bound"}, Min: 1}.Check(r)
		}),
	)
	extend("C02", "R02f-R02g (added after seeded changes were missed): in the node hash functions a digest is cut out of a hash with a bound computed from that same hash (never from the sibling's length); "+
		"a write never returns the node it found — Node.set returns a node created by this call on every path (a leaf hit is replaced, an inner node is copied first), so the result cannot depend on what the stored leaf happens to hold under the node-storage configuration.",
		rule("R02f", "digest slices are bounded by the length of the slice they cut", 2, func(r *Run) {
			n := 0
			for _, fn := range []string{"types.(*InnerNode).Hash", "types.(*LeafNode).Hash", mdb + "(*Proof).Verify"} {
				f := r.Fn(fn)
				if f == nil {
					continue
				}
				c := f.Ctx()
				core.InspectBody(f, func(x ast.Node) bool {
					se, ok := x.(*ast.SliceExpr)
					if !ok {
						return true
					}
					for _, bnd := range []ast.Expr{se.Low, se.High} {
						if bnd == nil {
							continue
						}
						ast.Inspect(bnd, func(y ast.Node) bool {
							call, ok := y.(*ast.CallExpr)
							if !ok || !core.IsBuiltinCall(c.Info, call, "len") || len(call.Args) != 1 {
								return true
							}
							n++
							label := fmt.Sprintf("%s: bound of `%s` is computed from the sliced value itself", f.Name, core.ExprStr(se))
							if core.CanonExpr(c, call.Args[0]) == core.CanonExpr(c, se.X) {
								r.OK(label, r.W.Pos(se.Pos()), core.ExprStr(bnd))
							} else {
								r.Fail(label, r.W.Pos(se.Pos()), fmt.Sprintf("the bound uses len(%s) but the sliced value is %s: with hashes of different lengths (a prefixed and an unprefixed child) the wrong bytes are hashed, or the slice panics", core.ExprStr(call.Args[0]), core.ExprStr(se.X)))
							}
							return true
						})
					}
					return true
				})
			}
			if n < 2 {
				r.Fail("digest slices in the node hash functions", "types/types.go", fmt.Sprintf("expected ≥2 length-bounded slices, found %d", n))
			}
		}),
		rule("R02g", "Node.set returns a node created by this call on every path", 3, func(r *Run) {
			fn := mdbN + "set"
			f := r.Fn(fn)
			if f == nil {
				return
			}
			recv := f.Recv()
			isRecv := func(c *core.Ctx, e ast.Expr) bool {
				id, ok := ast.Unparen(e).(*ast.Ident)
				return ok && c.Info.ObjectOf(id) == types.Object(recv)
			}
			rebound := core.NodeGen{Fact: "receiver-is-a-copy", Gen: func(c *core.Ctx, n *core.GNode) bool {
				as, ok := n.Ast.(*ast.AssignStmt)
				return ok && len(as.Lhs) == 1 && len(as.Rhs) == 1 && isRecv(c, as.Lhs[0]) && core.CallAtom([]string{mdbN + "_copy"})(c, as.Rhs[0])
			}}
			core.Dominated{Fn: fn, Spec: &core.FlowSpec{Nodes: []core.NodeGen{rebound}}, Sink: core.SinkPred{Label: "return of the receiver", Match: func(fl *core.Flow, n *core.GNode) bool {
				rs, ok := n.Ast.(*ast.ReturnStmt)
				return ok && len(rs.Results) >= 1 && isRecv(fl.C, rs.Results[0])
			}}, Need: []Fact{"receiver-is-a-copy"}, Min: 1}.Check(r)
			// the other returns are constructors
			c := f.Ctx()
			for i, ret := range f.Graph().Returns() {
				rs, ok := ret.Ast.(*ast.ReturnStmt)
				if !ok || len(rs.Results) < 1 || isRecv(c, rs.Results[0]) {
					continue
				}
				label := fmt.Sprintf("%s return#%d yields a new node", f.Name, i+1)
				e := ast.Unparen(rs.Results[0])
				good := false
				switch x := e.(type) {
				case *ast.UnaryExpr:
					_, good = ast.Unparen(x.X).(*ast.CompositeLit)
				case *ast.CallExpr:
					if fnc := core.Callee(c.Info, x); fnc != nil {
						switch core.ShortName(fnc) {
						case mdb + "NewNode", mdbN + "balance", mdbN + "_copy":
							good = true
						}
					}
				}
				if good {
					r.OK(label, r.W.Pos(rs.Pos()), core.ExprStr(e))
				} else {
					r.Fail(label, r.W.Pos(rs.Pos()), fmt.Sprintf("`%s` is not a node constructed by this call", core.ExprStr(e)))
				}
			}
		}),
	)
}

func init() {
	pr := "system/p2p/dht/protocol/peer."
	peerTrust := func(r *Run, fn *types.Func) (string, bool) {
		if fn.Pkg() != nil && strings.HasSuffix(fn.Pkg().Path(), "p2p/dht/protocol/peer") {
			return "", false
		}
		return outsideTrust(r, fn)
	}
	addPackages("C33", "system/p2p/dht/protocol/peer")
	extend("C33", "R33d (added after a seeded change was missed): the same enumeration of index/slice/assertion/division sites for the peer-information protocol's background goroutines (peer info refresh, version check, address detection), which process replies of remote peers outside any recover frame.",
		rule("R33d", "peer-information goroutines: every may-panic site on peer-derived data is guarded", 8, func(r *Run) {
			fns := []string{
				pr + "(*Protocol).refreshPeerInfo", pr + "(*Protocol).refreshPeerInfo$lit1", pr + "(*Protocol).queryPeerInfo", pr + "(*Protocol).queryPeerInfoOld",
				pr + "(*Protocol).checkVersionLimit", pr + "(*Protocol).checkOutBound", pr + "(*Protocol).detectNodeAddr", pr + "(*Protocol).queryVersion", pr + "(*Protocol).queryVersionOld",
				pr + "(*Protocol).setExternalAddr", pr + "(*Protocol).getExternalAddr", pr + "(*Protocol).getPublicIP", pr + "(*Protocol).containsPublicIP", pr + "parseIPAndPort",
				pr + "(*Protocol).checkDone",
			}
			core.MayPanic{Funcs: fns, TrustFn: peerTrust, SkipNilDeref: true, CheckAlloc: true, Min: 8, IndexOK: map[string]string{}}.Check(r)
		}),
	)
}

// appendSeq lists, in order, the canonical forms of what fn appends onto its
// result buffer (statements `x = append(x, E...)` / `x = append(x, E)`).
func appendSeq(f *core.FuncInfo) []string {
	c := f.Ctx()
	var seq []string
	core.InspectBody(f, func(x ast.Node) bool {
		as, ok := x.(*ast.AssignStmt)
		if !ok || len(as.Lhs) != 1 || len(as.Rhs) != 1 {
			return true
		}
		call, ok := as.Rhs[0].(*ast.CallExpr)
		if !ok || !core.IsBuiltinCall(c.Info, call, "append") || len(call.Args) != 2 {
			return true
		}
		if core.CanonExpr(c, as.Lhs[0]) != core.CanonExpr(c, call.Args[0]) {
			return true
		}
		seq = append(seq, core.CanonExpr(c, call.Args[1]))
		return true
	})
	return seq
}

func init() {
	extend("C09", "R09e (added after a seeded change was missed): a versioned read lists under the prefix built by the one prefix constructor (data marker, key, separator) and seeks to the key built by the one key constructor, and the key constructor's byte sequence is the prefix constructor's followed by the padded version — so the entries of a key can never be confused with those of a key that merely starts with the same bytes.",
		rule("R09e", "reader and writer use the same key layout: prefix = marker+key+separator, key = prefix+version", 3, func(r *Run) {
			core.CallArgs{Fn: smv + "GetV", Callee: []string{dbp + "KVDB.List", dbp + "IteratorDB.List", dbp + "Lister.List"}, What: "lists under GetKeyPerfix(key), seeking GetKey(key, version)",
				Args: map[int]core.ExprPred{0: core.FromCall(0, dbp+"GetKeyPerfix"), 1: core.FromCall(0, dbp+"GetKey")}, Min: 1}.Check(r)
			core.CallArgs{Fn: smv + "GetV", Callee: []string{dbp + "GetKeyPerfix", dbp + "GetKey"}, What: "built from the caller's key", Args: map[int]core.ExprPred{0: core.IsObj("param:0")}, Min: 2}.Check(r)
			fp, fk := r.Fn(dbp+"GetKeyPerfix"), r.Fn(dbp+"GetKey")
			if fp != nil && fk != nil {
				sp, sk := appendSeq(fp), appendSeq(fk)
				label := "common/db.GetKey appends exactly what GetKeyPerfix appends, then the padded version"
				good := len(sp) >= 3 && len(sk) == len(sp)+1
				for i := range sp {
					if i >= len(sk) || sk[i] != sp[i] {
						good = false
					}
				}
				if good {
					r.OK(label, r.W.Pos(fk.Node().Pos()), strings.Join(sk, " ++ "))
				} else {
					r.Fail(label, r.W.Pos(fk.Node().Pos()), fmt.Sprintf("GetKeyPerfix appends [%s], GetKey appends [%s]", strings.Join(sp, ", "), strings.Join(sk, ", ")))
				}
			}
		}),
	)

	mkl := "common/merkle."
	extend("C18", "R18e-R18g (added after seeded changes were missed): in the chunked root computation the chunk size is final before the number of chunks is derived from it; in the constant-space calculator every pairing inside the leaf loop is preceded by the equal-siblings comparison whatever the mode flag says; "+
		"the two copies of the 'propagate upwards' step (leaf loop and padding loop) agree — the arm taken at the recorded match level both appends the current hash to the branch and switches to collecting the stored siblings.",
		rule("R18e", "chunk size is final before the chunk count is computed from it", 2, func(r *Run) {
			f := r.Fn(mkl + "GetMerkleRoot")
			if f == nil {
				return
			}
			c := f.Ctx()
			// the chunk-size variable: divisor of len(hashes) / X and len(hashes) % X
			var step types.Object
			var uses []ast.Node
			core.InspectBody(f, func(x ast.Node) bool {
				b, ok := x.(*ast.BinaryExpr)
				if !ok || (b.Op != token.QUO && b.Op != token.REM) || !lenOf(core.IsObj("param:0"))(c, b.X) {
					return true
				}
				if id, ok := ast.Unparen(b.Y).(*ast.Ident); ok && b.Op == token.REM {
					step = c.Info.ObjectOf(id) // the chunk size is what the leaf count is taken modulo of
				}
				return true
			})
			core.InspectBody(f, func(x ast.Node) bool {
				b, ok := x.(*ast.BinaryExpr)
				if !ok || (b.Op != token.QUO && b.Op != token.REM) || !lenOf(core.IsObj("param:0"))(c, b.X) {
					return true
				}
				if id, ok := ast.Unparen(b.Y).(*ast.Ident); ok && step != nil && c.Info.ObjectOf(id) == step {
					uses = append(uses, b)
				}
				return true
			})
			label := f.Name + ": the chunk size is not changed after the chunk count was derived from it"
			if step == nil || len(uses) < 2 {
				r.Fail(label, r.W.Pos(f.Node().Pos()), "cannot find len(hashes)/step and len(hashes)%step (anchor changed)")
				return
			}
			g := f.Graph()
			var starts []*core.GNode
			for _, u := range uses {
				if n := g.NodeContaining(u.Pos()); n != nil {
					starts = append(starts, n)
				}
			}
			reach := g.Reachable(starts, nil, nil)
			bad := ""
			for n := range reach {
				as, ok := n.Ast.(*ast.AssignStmt)
				if !ok {
					continue
				}
				for _, l := range as.Lhs {
					if id, ok := l.(*ast.Ident); ok && c.Info.ObjectOf(id) == step {
						isStart := false
						for _, s := range starts {
							if s == n {
								isStart = true
							}
						}
						if !isStart {
							bad = r.W.Pos(as.Pos()) + ": `" + core.ExprStr(as) + "`"
						}
					}
				}
			}
			if bad == "" {
				r.OK(label, r.W.Pos(uses[0].Pos()), fmt.Sprintf("%d uses; no later assignment to %s", len(uses), step.Name()))
			} else {
				r.Fail(label, r.W.Pos(uses[0].Pos()), "the chunk size is reassigned after the number of chunks was computed ("+bad+"): the chunks no longer cover every leaf")
			}
			// and the loop slices hashes[i*step : …] by that same variable
			core.HasAtom{Fn: mkl + "GetMerkleRoot", Name: "the last chunk is clipped to the number of leaves", L: func(c *core.Ctx, e ast.Expr) bool { _, ok := ast.Unparen(e).(*ast.Ident); return ok }, R: lenOf(core.IsObj("param:0")), Rel: token.GTR}.Check(r)
		}),
		rule("R18f", "every pairing in the leaf loop is preceded by the equal-siblings test, in every mode", 1, func(r *Run) {
			fn := mkl + "Computation"
			f := r.Fn(fn)
			if f == nil {
				return
			}
			inLeafLoop := func(pos token.Pos) bool {
				for _, lp := range core.LoopsIn(f) {
					if rs, ok := lp.(*ast.RangeStmt); ok && core.IsObj("param:0")(f.Ctx(), rs.X) && pos >= rs.Body.Pos() && pos <= rs.Body.End() {
						return true
					}
				}
				return false
			}
			sp := &core.FlowSpec{Calls: []core.CallGuard{called("siblings-compared", "bytes.Equal")}, Nodes: []core.NodeGen{{Fact: "siblings-compared", Kill: func(c *core.Ctx, n *core.GNode) bool {
				// the knowledge is about this level's pair: combining the pair (or moving to the next leaf) ends it
				for _, call := range core.CallsIn(n.Ast) {
					if fnc := core.Callee(c.Info, call); fnc != nil && core.ShortName(fnc) == mkl+"GetHashFromTwoHash" {
						return false // killed after the sink is examined: handled by the loop structure below
					}
				}
				_, isInc := n.Ast.(*ast.IncDecStmt)
				return isInc
			}}}}
			core.Dominated{Fn: fn, Spec: sp, Sink: core.SinkPred{Label: "pairing of a stored sibling with the current hash in the leaf loop", Match: func(fl *core.Flow, n *core.GNode) bool {
				if n.Ast == nil || !inLeafLoop(n.Ast.Pos()) {
					return false
				}
				for _, call := range core.CallsIn(n.Ast) {
					if fnc := core.Callee(fl.C.Info, call); fnc != nil && core.ShortName(fnc) == mkl+"GetHashFromTwoHash" {
						return true
					}
				}
				return false
			}}, Need: []Fact{"siblings-compared"}, Min: 1}.Check(r)
		}),
		rule("R18g", "both copies of the upward propagation switch to sibling collection at the match level", 2, func(r *Run) {
			f := r.Fn(mkl + "Computation")
			if f == nil {
				return
			}
			c := f.Ctx()
			n := 0
			core.InspectBody(f, func(x ast.Node) bool {
				is, ok := x.(*ast.IfStmt)
				if !ok {
					return true
				}
				b, ok := ast.Unparen(is.Cond).(*ast.BinaryExpr)
				if !ok || b.Op != token.EQL {
					return true
				}
				lx, okx := ast.Unparen(b.X).(*ast.Ident)
				ly, oky := ast.Unparen(b.Y).(*ast.Ident)
				if !okx || !oky {
					return true
				}
				tx, ty := c.Info.TypeOf(lx), c.Info.TypeOf(ly)
				if tx == nil || ty == nil || tx.String() != "uint32" || ty.String() != "uint32" {
					return true
				}
				appends, switches := false, false
				for _, st := range is.Body.List {
					as, ok := st.(*ast.AssignStmt)
					if !ok || len(as.Lhs) != 1 || len(as.Rhs) != 1 {
						continue
					}
					if call, ok := as.Rhs[0].(*ast.CallExpr); ok && core.IsBuiltinCall(c.Info, call, "append") {
						appends = true
					}
					if tv, ok := c.Info.Types[as.Rhs[0]]; ok && tv.Value != nil && tv.Value.String() == "true" {
						switches = true
					}
				}
				if !appends {
					return true
				}
				n++
				label := fmt.Sprintf("%s: match-level arm #%d appends the current hash and switches to sibling collection", f.Name, n)
				if switches {
					r.OK(label, r.W.Pos(is.Pos()), core.ExprStr(is.Cond))
				} else {
					r.Fail(label, r.W.Pos(is.Pos()), "this copy of the propagation step appends the hash but does not set the collecting flag: the branch loses every sibling above this level (its twin in the other loop sets it)")
				}
				return true
			})
			if n < 2 {
				r.Fail(f.Name+": match-level arms", r.W.Pos(f.Node().Pos()), fmt.Sprintf("expected the two copies of the propagation step, found %d", n))
			}
		}),
	)

	pu := "blockchain.(*Push)."
	extend("C32", "R32g (added after a seeded change was missed): a runner is started only while push.mu is held, so reading a task's 'not running' status and starting its runner cannot interleave with another registration.",
		rule("R32g", "runTask is only called with push.mu held", 2, func(r *Run) {
			for _, fn := range []string{pu + "addTask", pu + "check2ResumePush"} {
				lk := lockSpecFor(r, bcp+"Push", "mu")
				if lk == nil {
					return
				}
				core.Dominated{Fn: fn, Spec: lk, Sink: core.CallSink(pu + "runTask"), Need: []Fact{"W:mu"}, Min: 1}.Check(r)
			}
		}),
	)

	extend("C34", "R34c (added after a seeded change was missed): a pending light block is handed to the time-out path only after a rebuild attempt on it has just failed.",
		rule("R34c", "time-out only after a failed rebuild attempt", 1, func(r *Run) {
			fn := bcast + "(*ltBroadcast).buildPendList"
			core.Dominated{Fn: fn, Spec: spec(isFalse("rebuild-failed", bcast+"(*ltBroadcast).buildPendBlock")), Sink: core.SinkPred{Label: "append to the timed-out list", Match: func(fl *core.Flow, n *core.GNode) bool {
				as, ok := n.Ast.(*ast.AssignStmt)
				if !ok || len(as.Lhs) != 1 || len(as.Rhs) != 1 {
					return false
				}
				call, ok := as.Rhs[0].(*ast.CallExpr)
				if !ok || !core.IsBuiltinCall(fl.C.Info, call, "append") || len(call.Args) != 2 {
					return false
				}
				t := fl.C.Info.TypeOf(call.Args[1])
				return t != nil && strings.HasSuffix(t.String(), "broadcast.pendBlock") && core.CanonExpr(fl.C, as.Lhs[0]) == core.CanonExpr(fl.C, call.Args[0])
			}}, Need: []Fact{"rebuild-failed"}, Min: 1}.Check(r)
		}),
	)

	extend("C35", "R35d-R35e (added after seeded changes were missed): every re-download of a failed height starts from a peer list built for that height (a peer dropped while fetching one height is available again for the next); a block handed on by the single-block fetch has been tested to be present in the reply.",
		rule("R35d", "each re-downloaded height gets its own peer list", 1, func(r *Run) {
			f := r.Fn(dl + "(*Protocol).checkTask")
			if f == nil {
				return
			}
			c := f.Ctx()
			n := 0
			for _, lp := range core.LoopsIn(f) {
				var body *ast.BlockStmt
				switch s := lp.(type) {
				case *ast.ForStmt:
					body = s.Body
				case *ast.RangeStmt:
					body = s.Body
				}
				ast.Inspect(body, func(x ast.Node) bool {
					call, ok := x.(*ast.CallExpr)
					if !ok {
						return true
					}
					fnc := core.Callee(c.Info, call)
					if fnc == nil || core.ShortName(fnc) != dl+"(*Protocol).downloadBlock" || len(call.Args) < 2 {
						return true
					}
					n++
					label := fmt.Sprintf("%s: downloadBlock #%d in the re-download loop receives a peer list created in that iteration", f.Name, n)
					good := false
					if core.CallAtom([]string{dl + "(*Protocol).initJob"})(c, call.Args[1]) {
						good = true
					} else if id, ok := ast.Unparen(call.Args[1]).(*ast.Ident); ok {
						o := c.Info.ObjectOf(id)
						if o != nil && o.Pos() >= body.Pos() && o.Pos() <= body.End() && core.FromCall(0, dl+"(*Protocol).initJob")(c, id) {
							good = true
						}
					}
					if good {
						r.OK(label, r.W.Pos(call.Pos()), core.ExprStr(call.Args[1]))
					} else {
						r.Fail(label, r.W.Pos(call.Pos()), "the peer list is shared between the heights of the loop: downloadBlock removes failing peers from it, so a peer that could not serve one height is never asked for the others")
					}
					return true
				})
			}
			if n == 0 {
				r.Fail(f.Name+": re-download loop", r.W.Pos(f.Node().Pos()), "no downloadBlock call inside a loop (anchor changed)")
			}
		}),
		rule("R35e", "the single-block fetch returns a block it has tested to be present", 1, func(r *Run) {
			fn := dl + "(*Protocol).downloadBlockFromPeerOld"
			blk := func(c *core.Ctx, e ast.Expr) bool {
				return core.MentionsAny("types.InvData_Block.Block", "types.(*InvData).GetBlock", "types.(*InvData_Block).GetBlock")(c, e)
			}
			core.Dominated{Fn: fn, Spec: &core.FlowSpec{Conds: []core.CondGuard{core.RelGuard("block-present", blk, token.NEQ, isNilLit)}}, Sink: core.SuccessReturn(-1), Need: []Fact{"block-present"}, Min: 1}.Check(r)
		}),
	)
}

func init() {
	commitMerges := func(id string) core.Rule {
		return rule(id, "Commit copies EVERY entry of the transaction overlay (tombstones included) into the committed overlay, and deletes nothing there", 2, func(r *Run) {
			fn := ldb + "Commit"
			set := []string{dbp + "KV.Set"}
			sp := &core.FlowSpec{
				Calls:   []core.CallGuard{{Fact: "entry-merged", Callee: core.Names(set...), Pass: core.OCalled, NoArgDeps: true, ArgOK: recvFieldCall("cache")}},
				Foralls: []core.ForallGuard{{Fact: "every-entry-merged", Inner: "entry-merged"}},
				// decided for a transaction that wrote something
				Assume: func(c *core.Ctx, e ast.Expr) core.Tri {
					if op, ok := core.CmpAtom(c, e, core.IsObj(dbp+"LocalDB.txcache"), isNilLit); ok {
						return map[bool]core.Tri{true: core.True, false: core.False}[op == token.NEQ]
					}
					return core.Unknown
				},
			}
			core.Dominated{Fn: fn, Spec: sp, Sink: core.CallSink(ldb + "resetTx"), Need: []Fact{"every-entry-merged"}, Min: 1}.Check(r)
			f := r.Fn(fn)
			if f != nil {
				c := f.Ctx()
				label := f.Name + " removes nothing from the committed overlay"
				bad := token.NoPos
				core.InspectBody(f, func(x ast.Node) bool {
					if call, ok := x.(*ast.CallExpr); ok && recvFieldCall("cache")(c, call) {
						if fnc := core.Callee(c.Info, call); fnc != nil && (fnc.Name() == "Delete" || fnc.Name() == "DeleteSync") {
							bad = call.Pos()
						}
					}
					return true
				})
				if bad == token.NoPos {
					r.OK(label, r.W.Pos(f.Node().Pos()), "no Delete on l.cache")
				} else {
					r.Fail(label, r.W.Pos(bad), "deleting a key from the committed overlay un-hides the base value: a delete marker must be written instead")
				}
			}
		})
	}
	extend("C08", "R08e (added after a seeded change was missed): Commit copies every entry of the transaction overlay — delete markers included — into the committed overlay and never deletes from it (removing a key there would make the base value visible again).", commitMerges("R08e"))
	extend("C07", "R07g (same rule as R08e): the merged view that listing pages over keeps every delete marker of a committed transaction.", commitMerges("R07g"))

	prefixBound := func(id string) core.Rule {
		return rule(id, "the prefix upper bound is cut off right after the byte it increments", 2, func(r *Run) {
			// bytesPrefix: limit = prefix[:i+1] with byte i incremented; anything kept behind position i (trailing
			// 0xff bytes) makes the bound too large and lets keys outside the prefix into the scan.
			f := r.Fn(dbp + "bytesPrefix")
			if f == nil {
				return
			}
			c := f.Ctx()
			res := f.Sig().Results()
			// the loop variable of the descending scan
			var iv types.Object
			for _, lp := range core.LoopsIn(f) {
				if fs, ok := lp.(*ast.ForStmt); ok && fs.Init != nil {
					if as, ok := fs.Init.(*ast.AssignStmt); ok && len(as.Lhs) == 1 {
						if id, ok := as.Lhs[0].(*ast.Ident); ok {
							iv = c.Info.ObjectOf(id)
						}
					}
				}
			}
			isI := func(c *core.Ctx, e ast.Expr) bool {
				id, ok := ast.Unparen(e).(*ast.Ident)
				return ok && iv != nil && c.Info.ObjectOf(id) == iv
			}
			plus1 := core.PlusOne(isI)
			// every definition of a returned variable is nil/zero, make([]byte, i+1) or something sliced to [:i+1]
			cut := func(e ast.Expr) bool {
				e = ast.Unparen(e)
				if call, ok := e.(*ast.CallExpr); ok && core.IsBuiltinCall(c.Info, call, "make") && len(call.Args) >= 2 && plus1(c, call.Args[1]) {
					return true
				}
				found := false
				ast.Inspect(e, func(x ast.Node) bool {
					if se, ok := x.(*ast.SliceExpr); ok && se.High != nil && plus1(c, se.High) && (se.Low == nil || core.IsConstInt(0)(c, se.Low)) {
						found = true
					}
					return true
				})
				return found
			}
			n := 0
			check := func(e ast.Expr, pos token.Pos) {
				e = ast.Unparen(e)
				if isNilLit(c, e) {
					return
				}
				id, ok := e.(*ast.Ident)
				if !ok {
					n++
					label := fmt.Sprintf("%s: returned bound #%d has length i+1", f.Name, n)
					if cut(e) {
						r.OK(label, r.W.Pos(pos), core.ExprStr(e))
					} else {
						r.Fail(label, r.W.Pos(pos), fmt.Sprintf("`%s` is not cut to i+1 bytes", core.ExprStr(e)))
					}
					return
				}
				for _, d := range c.DefsOf(c.Info.ObjectOf(id)) {
					if d.Rhs == nil || isNilLit(c, d.Rhs) {
						continue
					}
					n++
					label := fmt.Sprintf("%s: definition #%d of the returned bound has length i+1", f.Name, n)
					if cut(d.Rhs) {
						r.OK(label, r.W.Pos(d.Stmt.Pos()), core.ExprStr(d.Rhs))
					} else {
						r.Fail(label, r.W.Pos(d.Stmt.Pos()), fmt.Sprintf("`%s` keeps the bytes behind the incremented one: for a prefix ending in 0xff the bound is too large and the scan returns keys outside the prefix", core.ExprStr(d.Rhs)))
					}
				}
			}
			for _, ret := range f.Graph().Returns() {
				rs, ok := ret.Ast.(*ast.ReturnStmt)
				if !ok {
					continue
				}
				if len(rs.Results) == 1 {
					check(rs.Results[0], rs.Pos())
				} else if res.Len() == 1 && res.At(0).Name() != "" {
					for _, d := range c.DefsOf(res.At(0)) {
						if d.Rhs != nil {
							check(d.Rhs, d.Stmt.Pos())
						}
					}
				}
			}
			if n == 0 {
				r.Fail(f.Name+": returned bound", r.W.Pos(f.Node().Pos()), "no non-nil definition of the returned bound found")
			}
			// the incremented byte is byte i
			okInc := false
			core.InspectBody(f, func(x ast.Node) bool {
				as, ok := x.(*ast.AssignStmt)
				if !ok || len(as.Lhs) != 1 {
					return true
				}
				if ix, ok := ast.Unparen(as.Lhs[0]).(*ast.IndexExpr); ok && isI(c, ix.Index) {
					okInc = true
				}
				if inc, ok := x.(*ast.IncDecStmt); ok {
					_ = inc
				}
				return true
			})
			label := f.Name + ": the byte at position i is the one that is incremented"
			if okInc {
				r.OK(label, r.W.Pos(f.Node().Pos()), "limit[i] = …")
			} else {
				r.Fail(label, r.W.Pos(f.Node().Pos()), "no store to element i of the bound")
			}
		})
	}
	extend("C06", "R06f (added after a seeded change was missed): the prefix upper bound returned by bytesPrefix is cut off right after the byte it increments.", prefixBound("R06f"))
	extend("C07", "R07h (same rule as R06f): the range a paged listing scans ends at the true upper bound of its prefix.", prefixBound("R07h"))
}

func init() {
	extend("C34", "R34d (added after a seeded change was missed): when a pooled entry is a transaction group, every slot of the group in the rebuilt block — the head's included — is filled from the group's own member list, starting at member 0 (the pooled head entry is the packed group, not the first member).",
		rule("R34d", "group expansion covers every member, head included", 1, func(r *Run) {
			f := r.Fn(bcast + "(*ltBroadcast).buildPendBlock")
			if f == nil {
				return
			}
			c := f.Ctx()
			grp := core.DerivedFromCall("types.(*Transaction).GetTxGroup")
			n := 0
			for _, lp := range core.LoopsIn(f) {
				var body *ast.BlockStmt
				switch s := lp.(type) {
				case *ast.ForStmt:
					body = s.Body
				case *ast.RangeStmt:
					body = s.Body
				}
				fills := false
				ast.Inspect(body, func(x ast.Node) bool {
					switch x.(type) {
					case *ast.ForStmt, *ast.RangeStmt:
						return false // a nested loop is examined on its own
					}
					as, ok := x.(*ast.AssignStmt)
					if !ok || len(as.Lhs) != 1 {
						return true
					}
					ix, ok := ast.Unparen(as.Lhs[0]).(*ast.IndexExpr)
					if !ok {
						return true
					}
					if b, ok := ast.Unparen(ix.Index).(*ast.BinaryExpr); ok && b.Op == token.ADD && core.CallsAny("types.(*Block).GetTxs")(c, ix.X) {
						fills = true
					}
					return true
				})
				if !fills {
					continue
				}
				n++
				label := fmt.Sprintf("%s: expansion loop #%d runs over the whole member list of the group", f.Name, n)
				if core.CountsOver(grp, 0)(c, lp) {
					r.OK(label, r.W.Pos(lp.Pos()), "from member 0")
				} else {
					r.Fail(label, r.W.Pos(lp.Pos()), "the loop that copies the group's members into the block does not start at member 0 of the group's list: the head slot keeps the pooled (packed) entry and the rebuilt block differs from the original")
				}
			}
			if n == 0 {
				r.Fail(f.Name+": group expansion loop", r.W.Pos(f.Node().Pos()), "no loop stores block.Txs[index+j] (anchor changed)")
			}
		}),
	)
	extend("C25", "R25f (added after a seeded change was missed): under chainLock a block is handed to maybeAcceptBlock only after blockExists said it is not known — two deliveries of the same block that both passed the unlocked pre-check are serialised by the lock and the second one stops here.",
		rule("R25f", "the duplicate test is repeated under chainLock before a block is accepted", 2, func(r *Run) {
			lk := lockSpecFor(r, bcp+"BlockChain", "chainLock")
			if lk == nil {
				return
			}
			lk.Calls = append(lk.Calls, isFalse("not-known-yet", bcm+"blockExists"))
			core.Dominated{Fn: bcm + "maybeAddBestChain", Spec: lk, Sink: core.CallSink(bcm + "maybeAcceptBlock"), Need: []Fact{"W:chainLock", "not-known-yet"}, Min: 1}.Check(r)
			core.Dominated{Fn: bcm + "maybeAddBestChain", Spec: lk, Sink: core.CallSink(bcm + "blockExists"), Need: []Fact{"W:chainLock"}, Min: 1}.Check(r)
		}),
	)
}

func init() {
	rootFresh := func(id string) core.Rule {
		return rule(id, "the node installed as the tree's root never carries the cached (height-prefixed) storage key of a non-root node", 4, func(r *Run) {
			// Node.Hash returns a cached hash unchanged, and a non-root node's cached hash is its
			// height-prefixed storage key when EnableMavlPrefix is on.  The root's hash must be the bare
			// content hash (it is the state root, and proofs are verified against it), so Tree.root may
			// only receive: nil, a node created by the assigning call (NewNode, the result of Node.set),
			// or the node loaded under the root hash the caller asked for (Tree.Load).
			pkg := r.W.Pkg("system/store/mavl/db")
			if pkg == nil {
				r.Unresolved("package system/store/mavl/db")
				return
			}
			n := 0
			for _, f := range r.W.AllFuncs(pkg) {
				if f.Lit != nil {
					continue
				}
				c := f.Ctx()
				core.InspectBody(f, func(x ast.Node) bool {
					as, ok := x.(*ast.AssignStmt)
					if !ok {
						return true
					}
					for i, l := range as.Lhs {
						if !core.IsObj(mdb+"Tree.root")(c, l) {
							continue
						}
						n++
						var rhs ast.Expr
						idx := 0
						if len(as.Rhs) == len(as.Lhs) {
							rhs = as.Rhs[i]
						} else if len(as.Rhs) == 1 {
							rhs, idx = as.Rhs[0], i
						}
						label := fmt.Sprintf("%s: `%s` installs a root whose hash is a root hash", f.Name, core.ExprStr(as))
						why, good := "", false
						switch {
						case rhs == nil:
						case isNilLit(c, rhs):
							good, why = true, "nil"
						case idx == 0 && core.CallAtom([]string{mdb + "NewNode"})(c, rhs):
							good, why = true, "a new node"
						case idx == 0 && core.CallAtom([]string{mdbN + "set"})(c, rhs):
							good, why = true, "result of Node.set (always a node created by that call, R02g)"
						case idx == 0 && core.CallAtom([]string{mdb + "promoteToRoot"})(c, rhs):
							good, why = true, "promoteToRoot: a copy with the bare content hash, marked not persisted so that it is stored again as a root (checked below)"
						case idx == 0 && f.Name == mdbT+"Load" && core.CallAtom([]string{mdbD + "GetNode"}, core.AnyExpr, core.IsObj("param:0"))(c, rhs):
							good, why = true, "the node stored under the requested root hash"
						}
						if good {
							r.OK(label, r.W.Pos(as.Pos()), why)
						} else {
							r.Fail(label, r.W.Pos(as.Pos()), "the assigned node can be a persisted node of an older version (a child that became the root): its cached hash is the height-prefixed storage key under EnableMavlPrefix, so the tree reports a 48-byte, configuration-dependent root and proofs against it do not verify")
						}
					}
					return true
				})
			}
			// the helper the table trusts: it must cut the hash to its last sha256Len bytes and clear `persisted`
			if pf := r.W.Func(mdb + "promoteToRoot"); pf != nil {
				r.Touch(pf)
				c := pf.Ctx()
				cuts, clears := false, false
				core.InspectBody(pf, func(x ast.Node) bool {
					as, ok := x.(*ast.AssignStmt)
					if !ok || len(as.Lhs) != 1 || len(as.Rhs) != 1 {
						return true
					}
					sel, ok := ast.Unparen(as.Lhs[0]).(*ast.SelectorExpr)
					if !ok {
						return true
					}
					switch sel.Sel.Name {
					case "hash":
						if se, ok := ast.Unparen(as.Rhs[0]).(*ast.SliceExpr); ok && se.Low != nil && se.High == nil && core.Mentions(mdb+"sha256Len")(c, se.Low) && core.Mentions("builtin:len")(c, se.Low) {
							cuts = true
						}
					case "persisted":
						if tv, ok := c.Info.Types[as.Rhs[0]]; ok && tv.Value != nil && tv.Value.String() == "false" {
							clears = true
						}
					}
					return true
				})
				label := mdb + "promoteToRoot cuts the cached hash to the bare content hash and marks the copy not persisted"
				if cuts && clears {
					r.OK(label, r.W.Pos(pf.Node().Pos()), "hash = hash[len(hash)-sha256Len:]; persisted = false")
				} else {
					r.Fail(label, r.W.Pos(pf.Node().Pos()), fmt.Sprintf("cuts hash: %v, clears persisted: %v", cuts, clears))
				}
			}
			if n < 4 {
				r.Fail("assignments to Tree.root in mavl/db", "system/store/mavl/db/tree.go", fmt.Sprintf("expected ≥4, found %d", n))
			}
		})
	}
	extend("C02", "R02h: the node installed as a tree's root is nil, created by the assigning call, or loaded under the requested root hash — never an older version's non-root node with its cached (prefixed) hash.", rootFresh("R02h"))
	extend("C03", "R03d (same rule as R02h): proofs are verified against the bare content hash of the root.", rootFresh("R03d"))
}

// rejectAtoms lists, in canonical form over f's own parameters ($0.., $recv),
// the conditions under which f returns an error BEFORE it saves anything: it
// scans f's top-level statements up to the first one that performs a direct
// save, collecting `if COND { return …, err }` (as "cond:COND") and
// `x, err := CALL; if err != nil { return … }` (as "fails:CALL"); a call to a
// function of the same package that itself saves contributes that function's
// atoms (with its parameters replaced by the arguments) and ends the scan.
func rejectAtoms(r *Run, f *core.FuncInfo, direct, composite core.NameSet, depth int) []string {
	if f == nil || depth < 0 {
		return nil
	}
	c := f.Ctx()
	strip := func(s string) string { return strings.NewReplacer("(", "", ")", "").Replace(s) }
	var out []string
	returnsErr := func(b *ast.BlockStmt) bool {
		if b == nil || len(b.List) == 0 {
			return false
		}
		rs, ok := b.List[len(b.List)-1].(*ast.ReturnStmt)
		if !ok || len(rs.Results) == 0 {
			return false
		}
		return !isNilLit(c, rs.Results[len(rs.Results)-1])
	}
	var lastCall ast.Expr // the call whose error the next `if err != nil` tests
	for _, st := range f.Body().List {
		stop := false
		var compositeCall *ast.CallExpr
		ast.Inspect(st, func(x ast.Node) bool {
			if call, ok := x.(*ast.CallExpr); ok {
				fn := core.Callee(c.Info, call)
				if direct.Has(fn) {
					stop = true
				}
				if composite.Has(fn) && compositeCall == nil {
					compositeCall = call
				}
			}
			return true
		})
		if compositeCall != nil {
			callee := r.W.FuncOf(core.Callee(c.Info, compositeCall))
			for _, a := range rejectAtoms(r, callee, direct, composite, depth-1) {
				// substitute the callee's parameters by the caller's arguments, highest index first
				for i := len(compositeCall.Args) - 1; i >= 0; i-- {
					a = strings.ReplaceAll(a, fmt.Sprintf("$%d", i), "\x00"+strip(core.CanonExpr(c, compositeCall.Args[i]))+"\x00")
				}
				out = append(out, strings.ReplaceAll(a, "\x00", ""))
			}
			return out
		}
		if stop {
			return out
		}
		switch s := st.(type) {
		case *ast.AssignStmt:
			if len(s.Rhs) == 1 {
				if call, ok := ast.Unparen(s.Rhs[0]).(*ast.CallExpr); ok {
					lastCall = call
				}
			}
		case *ast.IfStmt:
			if !returnsErr(s.Body) {
				continue
			}
			if as, ok := s.Init.(*ast.AssignStmt); ok && len(as.Rhs) == 1 {
				if call, ok := ast.Unparen(as.Rhs[0]).(*ast.CallExpr); ok {
					lastCall = call
				}
			}
			if b, ok := ast.Unparen(s.Cond).(*ast.BinaryExpr); ok && b.Op == token.NEQ && isNilLit(c, b.Y) && core.IsErrorTyped(c.Info, b.X) && lastCall != nil {
				out = append(out, "fails:"+strip(core.CanonExpr(c, lastCall)))
			} else {
				out = append(out, "cond:"+strip(core.CanonExpr(c, s.Cond)))
			}
		}
	}
	return out
}

func init() {
	extend("C15", "R15b tightened, R15f (added after seeded changes were missed): an operation made of two saving steps is only accepted when every condition on which the later step rejects has been established before the first save (by the operation itself or by the earlier step on the same arguments); "+
		"the account loaders hand back the stored record exactly as decoded — in particular its stored Addr — because the self-transfer guards compare the Addr of two loaded records to recognise one account under two spellings.",
		rule("R15f", "loaders return the stored record unmodified", 3, func(r *Run) {
			pkg := r.W.Pkg("account")
			if pkg == nil {
				r.Unresolved("package account")
				return
			}
			n := 0
			for _, f := range r.W.AllFuncs(pkg) {
				if f.Lit != nil || f.Obj == nil || !strings.HasPrefix(f.Obj.Name(), "Load") {
					continue
				}
				c := f.Ctx()
				// the variable decoded into
				var dec types.Object
				core.InspectBody(f, func(x ast.Node) bool {
					call, ok := x.(*ast.CallExpr)
					if !ok || len(call.Args) != 2 {
						return true
					}
					if fn := core.Callee(c.Info, call); fn == nil || core.ShortName(fn) != "types.Decode" {
						return true
					}
					if u, ok := ast.Unparen(call.Args[1]).(*ast.UnaryExpr); ok && u.Op == token.AND {
						if id, ok := ast.Unparen(u.X).(*ast.Ident); ok {
							dec = c.Info.ObjectOf(id)
						}
					}
					return true
				})
				if dec == nil {
					continue
				}
				n++
				label := fmt.Sprintf("%s returns the decoded record without touching its fields", f.Name)
				bad := token.NoPos
				core.InspectBody(f, func(x ast.Node) bool {
					as, ok := x.(*ast.AssignStmt)
					if !ok {
						return true
					}
					for _, l := range as.Lhs {
						if sel, ok := ast.Unparen(l).(*ast.SelectorExpr); ok {
							if id, ok := ast.Unparen(sel.X).(*ast.Ident); ok && c.Info.ObjectOf(id) == dec {
								bad = as.Pos()
							}
						}
					}
					return true
				})
				if bad == token.NoPos {
					r.OK(label, r.W.Pos(f.Node().Pos()), "no store to a field of the decoded record")
				} else {
					r.Fail(label, r.W.Pos(bad), "the loader overwrites a field of the record it loaded: two loads of one stored record (reached through two spellings of its address) no longer compare equal, which the self-transfer guard of Transfer relies on")
				}
			}
			if n < 2 {
				r.Fail("account: loaders that decode a stored record", "account/", fmt.Sprintf("expected ≥2, found %d", n))
			}
		}),
	)
}

func init() {
	addPackages("C15", "common/address")
	extend("C15", "R15g (added after a seeded change was missed): every address the hex-address classifier accepts is normalised by FormatAddrKey — the normalisation is not narrowed by a further condition (a spelling the chain accepts as one address must map to one storage key).",
		rule("R15g", "FormatAddrKey normalises every address the classifier accepts", 2, func(r *Run) {
			fn := "common/address.FormatAddrKey"
			isEth := func(c *core.Ctx, e ast.Expr) core.Tri {
				if core.CallAtom([]string{"common/address.IsEthAddress"}, core.IsObj("param:0"))(c, e) {
					return core.True
				}
				return core.Unknown
			}
			core.Dominated{Fn: fn, Spec: &core.FlowSpec{Assume: isEth, Calls: []core.CallGuard{called("normalised", "common/address.Driver.FormatAddr", "common/address.FormatEthAddress")}},
				Sink: core.AnyReturn(), Need: []Fact{"normalised"}, Min: 1}.Check(r)
			core.HasAtom2(r, fn, "the classifier is consulted", core.CallAtom([]string{"common/address.IsEthAddress"}, core.IsObj("param:0")))
		}),
	)
	extend("C22", "R22f (added after a seeded change was missed): PushTx is reached only after the chain-duplicate check and the eth nonce check have passed, whatever the configuration; the execution pre-check is the only one a configuration switch may skip.",
		rule("R22f", "the checks in front of PushTx run in every configuration", 3, func(r *Run) {
			fn := mpm + "checkTxRemote"
			sp := &core.FlowSpec{Nodes: []core.NodeGen{msgRejectGen()}, Calls: []core.CallGuard{errNil("chain-duplicates-checked", "util.CheckDupTx"), errNil("nonce-checked", mpm+"evmTxNonceCheck")}}
			core.Dominated{Fn: fn, Spec: sp, Sink: core.CallSink(mpm + "PushTx"), Need: []Fact{"chain-duplicates-checked", "nonce-checked"}, Min: 1}.Check(r)
			sp2 := &core.FlowSpec{Nodes: []core.NodeGen{msgRejectGen()}, Calls: []core.CallGuard{called("exec-checked", mpm+"checkTxListRemote")}, // a failing check stopping the push is R22b
				Assume: func(c *core.Ctx, e ast.Expr) core.Tri {
					if sel, ok := ast.Unparen(e).(*ast.SelectorExpr); ok && sel.Sel.Name == "DisableExecCheck" {
						return core.False
					}
					return core.Unknown
				}}
			core.Dominated{Fn: fn, Spec: sp2, Sink: core.CallSink(mpm + "PushTx"), Need: []Fact{"exec-checked"}, Min: 1}.Check(r)
		}),
	)
}

func init() {
	extend("C16", "R16f (added after a seeded change was missed): the eth-style driver accepts a signature only when the library's own verification of (public key, digest, r‖s) says so — key recovery plus key comparison alone also accepts the mirrored signature (r, N−s, v^1), i.e. an altered signature.",
		rule("R16f", "secp256k1eth: acceptance is the library verification's verdict", 2, func(r *Run) {
			fn := "system/crypto/secp256k1eth.PubKeySecp256k1Eth.VerifyBytes"
			vs := "github.com/ethereum/go-ethereum/crypto.VerifySignature"
			f := r.Fn(fn)
			if f == nil {
				return
			}
			fl := core.RunFlow(f, spec(isTrue("library-verified", vs)))
			c := f.Ctx()
			n := 0
			for _, ret := range fl.G.Returns() {
				rs, ok := ret.Ast.(*ast.ReturnStmt)
				if !ok || len(rs.Results) != 1 || !fl.Live(ret) {
					continue
				}
				if tv, isC := c.Info.Types[rs.Results[0]]; isC && tv.Value != nil && tv.Value.String() == "false" {
					continue
				}
				n++
				label := fmt.Sprintf("%s: accepting return #%d is the library's verdict", f.Name, n)
				if core.CallAtom([]string{vs})(c, rs.Results[0]) || fl.In[ret].Has("library-verified") {
					r.OK(label, r.W.Pos(rs.Pos()), core.ExprStr(rs.Results[0]))
				} else {
					r.Fail(label, r.W.Pos(rs.Pos()), fmt.Sprintf("`return %s` accepts without ethcrypto.VerifySignature having accepted: the mirrored (high-S) form of a valid signature recovers the same key and would pass", core.ExprStr(rs.Results[0])))
				}
			}
			if n == 0 {
				r.Fail(f.Name+": accepting returns", r.W.Pos(f.Node().Pos()), "no accepting return found")
			}
			core.CallArgs{Fn: fn, Callee: []string{vs}, What: "the receiver key, and the first 64 signature bytes (r‖s)", Args: map[int]core.ExprPred{0: core.Mentions("recv"), 2: func(c *core.Ctx, e ast.Expr) bool {
				se, ok := ast.Unparen(e).(*ast.SliceExpr)
				return ok && se.High != nil && core.IsConstInt(64)(c, se.High)
			}}, Min: 1}.Check(r)
		}),
	)
}

func init() {
	drivers := []string{"secp256r1", "btcscript", "none", "sm2", "secp256k1eth", "secp256k1", "ed25519"}
	for _, d := range drivers {
		addPackages("C16", "system/crypto/"+d)
	}
	extend("C16", "R16g (added after a seeded change was missed): in every signature driver's Validate a failed basic validation (public key, signature decoding, signature verification) can never end in acceptance — its error is tested before anything can overwrite it.",
		rule("R16g", "a failed signature verification is final in every driver's Validate", 5, func(r *Run) {
			n := 0
			for _, d := range drivers {
				fn := "system/crypto/" + d + ".Driver.Validate"
				f := r.W.Func(fn)
				if f == nil {
					continue
				}
				if !calleeSet(f)["common/crypto.BasicValidation"] {
					continue
				}
				n++
				core.FailStops{Fn: fn, Callee: []string{"common/crypto.BasicValidation"}, Fail: core.OErrNonNil, Idx: -1, Forbidden: core.SuccessReturn(-1), Min: 1, Name: "BasicValidation error"}.Check(r)
			}
			if n < 4 {
				r.Fail("signature drivers whose Validate runs crypto.BasicValidation", "system/crypto/", fmt.Sprintf("expected ≥4, found %d", n))
			}
		}),
	)
}

// envErrorTested: every api.IsAPIEnvError(X) in the functions of pkg tests the
// error variable of the `if X != nil` it sits in (the error of the call that
// has just failed) — testing another, older error variable there is always nil
// or stale.
func envErrorTested(r *Run, pkgShort string, min int) {
	pkg := r.W.Pkg(pkgShort)
	if pkg == nil {
		r.Unresolved("package " + pkgShort)
		return
	}
	n := 0
	for _, f := range r.W.AllFuncs(pkg) {
		c := f.Ctx()
		core.InspectBody(f, func(x ast.Node) bool {
			if _, isLit := x.(*ast.FuncLit); isLit && x != f.Node() {
				return false
			}
			call, ok := x.(*ast.CallExpr)
			if !ok || len(call.Args) != 1 {
				return true
			}
			fn := core.Callee(c.Info, call)
			if fn == nil || core.ShortName(fn) != "client/api.IsAPIEnvError" {
				return true
			}
			arg, ok := ast.Unparen(call.Args[0]).(*ast.Ident)
			if !ok {
				return true
			}
			// innermost enclosing `if Y != nil`
			var tested types.Object
			for p := r.W.Parent(call); p != nil; p = r.W.Parent(p) {
				if is, ok := p.(*ast.IfStmt); ok && call.Pos() >= is.Body.Pos() && call.End() <= is.Body.End() {
					if b, ok := ast.Unparen(is.Cond).(*ast.BinaryExpr); ok && b.Op == token.NEQ && isNilLit(c, b.Y) {
						if id, ok := ast.Unparen(b.X).(*ast.Ident); ok && core.IsErrorTyped(c.Info, id) {
							tested = c.Info.ObjectOf(id)
							break
						}
					}
				}
				if _, isFn := p.(*ast.FuncDecl); isFn {
					break
				}
			}
			if tested == nil {
				return true // tested unconditionally (e.g. directly on a call result): nothing to compare with
			}
			n++
			label := fmt.Sprintf("%s: IsAPIEnvError#%d examines the error that was just found non-nil", f.Name, n)
			if c.Info.ObjectOf(arg) == tested {
				r.OK(label, r.W.Pos(call.Pos()), arg.Name)
			} else {
				r.Fail(label, r.W.Pos(call.Pos()), fmt.Sprintf("inside `if %s != nil` the environment-error test looks at `%s`: a transient queue/rpc failure of the call that just failed is not recognised and becomes an ordinary failed receipt (the block execution is not aborted, so nodes with and without the fault disagree)", tested.Name(), arg.Name))
			}
			return true
		})
	}
	if n < min {
		r.Fail("executor: IsAPIEnvError tests inside an error branch", pkgShort, fmt.Sprintf("expected ≥%d, found %d", min, n))
	}
}

func init() {
	extend("C13", "R13g (added after a seeded change was missed): the test that turns a transient environment failure (queue/rpc error) into an abort of the block execution examines the error of the call that has just failed.",
		rule("R13g", "environment errors abort: the test looks at the error just returned", 3, func(r *Run) { envErrorTested(r, "executor", 3) }))
	extend("C11", "R11g-R11h (added after seeded changes were missed): same rule as R13g (an environment failure must abort, not become a fee-only receipt); Rollback and Commit of each of the three transactional databases clear the in-transaction flag (directly or through the reset helper they call), so no write after a finished transaction lands in the transaction overlay.",
		rule("R11g", "environment errors abort: the test looks at the error just returned", 3, func(r *Run) { envErrorTested(r, "executor", 3) }),
		rule("R11h", "Rollback and Commit leave the in-transaction flag cleared", 4, func(r *Run) {
			for _, ty := range []string{"executor.(*StateDB)", "executor.(*LocalDB)"} {
				for _, m := range []string{"Rollback", "Commit"} {
					f := r.Fn(ty + "." + m)
					if f == nil {
						continue
					}
					fields := mutatedRecvFields(r.W, f, 3, nil)
					label := fmt.Sprintf("%s.%s resets the in-transaction flag", ty, m)
					if pos, ok := fields["intx"]; ok {
						r.OK(label, pos, "intx is assigned on the way out")
					} else {
						r.Fail(label, r.W.Pos(f.Node().Pos()), "neither the method nor the receiver methods it calls assign intx: the database stays in transaction mode, the next writes go to the transaction overlay and are wiped by the next Begin")
					}
				}
			}
		}),
	)
	extend("C14", "R14g (added after a seeded change was missed): the address index counts and un-counts under identical conditions — the per-address counter updates of ExecLocal and ExecDelLocal sit behind the same guards with the same address arguments.",
		rule("R14g", "address counter: add and delete update under the same guards", 1, func(r *Run) {
			sig := func(fn string) (map[string]int, *core.FuncInfo) {
				f := r.Fn(fn)
				if f == nil {
					return nil, nil
				}
				c := f.Ctx()
				out := map[string]int{}
				core.InspectBody(f, func(x ast.Node) bool {
					call, ok := x.(*ast.CallExpr)
					if !ok {
						return true
					}
					if fnc := core.Callee(c.Info, call); fnc == nil || core.ShortName(fnc) != "executor.updateAddrTxsCount" || len(call.Args) != 5 {
						return true
					}
					key := guardsOf(r.W, c, call, f) + " ⇒ count(" + core.CanonExpr(c, call.Args[2]) + "," + core.CanonExpr(c, call.Args[3]) + ")"
					out[key]++
					return true
				})
				return out, f
			}
			a, fa := sig("executor.(*addrindexPlugin).ExecLocal")
			d, fd := sig("executor.(*addrindexPlugin).ExecDelLocal")
			if fa == nil || fd == nil {
				return
			}
			label := "executor.addrindexPlugin: ExecLocal and ExecDelLocal update the per-address counter under the same guards"
			same := len(a) == len(d) && len(a) >= 2
			for k, v := range a {
				if d[k] != v {
					same = false
				}
			}
			if same {
				r.OK(label, r.W.Pos(fa.Node().Pos()), fmt.Sprintf("%d guarded update(s) on each side", len(a)))
			} else {
				r.Fail(label, r.W.Pos(fd.Node().Pos()), fmt.Sprintf("add side: %v — delete side: %v", keysOf(a), keysOf(d)))
			}
		}),
	)
}

func keysOf(m map[string]int) []string {
	var ks []string
	for k, v := range m {
		ks = append(ks, fmt.Sprintf("%s ×%d", k, v))
	}
	sort.Strings(ks)
	return ks
}

func init() {
	extend("C11", "R11i (added after a seeded change was missed): a rollback inside a transaction always truncates the list of buffered remote writes back to the mark taken at Begin — the truncation depends on nothing but the transaction flag and the mark.",
		rule("R11i", "Rollback in a transaction always drops the buffered writes made since Begin", 1, func(r *Run) {
			fn := "executor.(*LocalDB).Rollback"
			recvF := func(name string) core.ExprPred {
				return func(c *core.Ctx, e ast.Expr) bool {
					sel, ok := ast.Unparen(e).(*ast.SelectorExpr)
					if !ok || sel.Sel.Name != name {
						return false
					}
					id, ok := ast.Unparen(sel.X).(*ast.Ident)
					return ok && c.Info.ObjectOf(id) == types.Object(c.F.Recv())
				}
			}
			as := core.AssumeAll(assumeRecvField("intx", core.True), core.AssumeRel(recvF("txkvs"), token.LEQ, lenOf(recvF("kvs")), core.True))
			core.Dominated{Fn: fn, Spec: &core.FlowSpec{Assume: as, Nodes: []core.NodeGen{{Fact: "buffer-truncated", Gen: func(c *core.Ctx, n *core.GNode) bool {
				asg, ok := n.Ast.(*ast.AssignStmt)
				return ok && len(asg.Lhs) == 1 && recvF("kvs")(c, asg.Lhs[0])
			}}}}, Sink: core.AnyReturn(), Need: []Fact{"buffer-truncated"}, Min: 1}.Check(r)
		}),
	)
	extend("C12", "R12e (added after a seeded change was missed): the list of keys a transaction actually wrote is read AFTER the code that writes them has run — in execLocalTx after execLocal, in execTxOne after Exec — so an unreported write cannot be missed by taking the snapshot too early.",
		rule("R12e", "the written-keys snapshot is taken after the writes", 2, func(r *Run) {
			core.NotAfter{Fn: "executor.(*executor).execLocalTx", Early: []string{"executor.(*executor).execLocal"}, Late: []string{"executor.(*LocalDB).GetSetKeys"}, Name: "execLocal runs before the local written-keys snapshot", Min: 1}.Check(r)
			core.NotAfter{Fn: "executor.(*executor).execTxOne", Early: []string{"executor.(*executor).Exec"}, Late: []string{"executor.(*StateDB).GetSetKeys"}, Name: "Exec runs before the state written-keys snapshot", Min: 1}.Check(r)
		}),
	)
}

func init() {
	addPackages("C14", "system/dapp/coins/executor")
	extend("C14", "R14h (added after a seeded change was missed): the coins executor's received-total counter is written back to the block's local cache before it is returned, like the address-index counter (R14f) — block removal does not store the returned records between transactions, so a second transfer to the same address in one block would otherwise start from the stale total.",
		rule("R14h", "coins received-total: written back on add and on remove", 1, func(r *Run) {
			fn := "system/dapp/coins/executor.updateAddrReciver"
			core.Dominated{Fn: fn, Spec: &core.FlowSpec{Calls: []core.CallGuard{{Fact: "written-back", Callee: core.Names("system/dapp/coins/executor.setAddrReciver", "common/db.KV.Set"), Pass: core.OErrNil, Idx: -1, NoArgDeps: true,
				ArgOK: func(c *core.Ctx, call *ast.CallExpr) bool {
					if sel, ok := ast.Unparen(call.Fun).(*ast.SelectorExpr); ok && core.IsObj("param:0")(c, sel.X) {
						return true // cachedb.Set(…)
					}
					return len(call.Args) >= 1 && core.IsObj("param:0")(c, call.Args[0])
				}}}}, Sink: core.SuccessReturn(-1), Need: []Fact{"written-back"}, Min: 1}.Check(r)
		}),
	)
	extend("C23", "R23g (added after a seeded change was missed): inside the per-sender loop every transaction that is emitted is the one found under the running nonce, and the running nonce starts at the sender's current nonce — there is no path that emits a sender's transaction without that lookup.",
		rule("R23g", "per-sender emission only through the running-nonce lookup", 1, func(r *Run) {
			f := r.Fn(mpm + "sortEthSignTyTx")
			if f == nil {
				return
			}
			c := f.Ctx()
			n := 0
			for _, lp := range core.LoopsIn(f) {
				rs, ok := lp.(*ast.RangeStmt)
				if !ok {
					continue
				}
				if _, isMap := c.Info.TypeOf(rs.X).Underlying().(*types.Map); !isMap {
					continue
				}
				// only the loop over senders: its value is itself a map (nonce → tx)
				if vt, ok := c.Info.TypeOf(rs.X).Underlying().(*types.Map); !ok {
					continue
				} else if _, inner := vt.Elem().Underlying().(*types.Map); !inner {
					continue
				}
				ast.Inspect(rs.Body, func(x ast.Node) bool {
					as, ok := x.(*ast.AssignStmt)
					if !ok || len(as.Lhs) != 1 || len(as.Rhs) != 1 {
						return true
					}
					call, ok := as.Rhs[0].(*ast.CallExpr)
					if !ok || !core.IsBuiltinCall(c.Info, call, "append") || len(call.Args) != 2 || core.CanonExpr(c, as.Lhs[0]) != core.CanonExpr(c, call.Args[0]) {
						return true
					}
					n++
					label := fmt.Sprintf("%s: emission #%d inside the per-sender loop is the transaction stored under the running nonce", f.Name, n)
					good := false
					if id, ok := ast.Unparen(call.Args[1]).(*ast.Ident); ok {
						for _, d := range c.DefsOf(c.Info.ObjectOf(id)) {
							if d.Rhs == nil {
								continue
							}
							if ix, ok := ast.Unparen(d.Rhs).(*ast.IndexExpr); ok {
								if nid, ok := ast.Unparen(ix.Index).(*ast.Ident); ok {
									for _, nd := range c.DefsOf(c.Info.ObjectOf(nid)) {
										if nd.Rhs != nil && core.FromCall(0, mpm+"getCurrentNonce")(c, nd.Rhs) {
											good = true
										}
									}
								}
							}
						}
					}
					if good {
						r.OK(label, r.W.Pos(as.Pos()), "txs[nonce] with nonce running from getCurrentNonce(from)")
					} else {
						r.Fail(label, r.W.Pos(as.Pos()), "a sender's transaction is emitted without being looked up under a nonce that runs from the sender's current nonce: a transaction whose nonce is ahead of (or behind) the account's nonce reaches the block producer")
					}
					return true
				})
			}
			if n == 0 {
				r.Fail(f.Name+": emissions inside the per-sender loop", r.W.Pos(f.Node().Pos()), "none found (anchor changed)")
			}
		}),
	)
}

func init() {
	extend("C25", "R25h-R25i (added after seeded changes were missed): a block that does not extend the tip is declared a side-chain block only after the total-difficulty comparison has been evaluated (never by height alone); an orphan is taken out of the orphan pool on re-delivery only when its parent is known, so the pool's only copy is never dropped.",
		rule("R25h", "side-chain verdict only after the total-difficulty comparison", 1, func(r *Run) {
			fn := bcm + "connectBestChain"
			core.Dominated{Fn: fn, Spec: spec(called("difficulty-compared", "math/big.(*Int).Cmp")), Sink: core.SinkPred{Label: "return 'not main chain, no error'", Match: func(fl *core.Flow, n *core.GNode) bool {
				rs, ok := n.Ast.(*ast.ReturnStmt)
				if !ok || len(rs.Results) != 3 || !isNilLit(fl.C, rs.Results[2]) {
					return false
				}
				tv, ok := fl.C.Info.Types[rs.Results[1]]
				return ok && tv.Value != nil && tv.Value.String() == "false"
			}}, Need: []Fact{"difficulty-compared"}, Min: 1}.Check(r)
		}),
		rule("R25i", "a re-delivered orphan leaves the pool only when its parent is known", 1, func(r *Run) {
			fn := bcm + "ProcessBlock"
			core.Dominated{Fn: fn, Spec: &core.FlowSpec{Calls: []core.CallGuard{{Fact: "parent-known", Callee: core.Names(bcm + "blockExists"), Pass: core.OTrue, Idx: -1,
				ArgOK: func(c *core.Ctx, call *ast.CallExpr) bool {
					return len(call.Args) == 1 && core.DerivedFromCall("types.(*Block).GetParentHash")(c, call.Args[0])
				}}}}, Sink: core.CallSink(bcp + "(*OrphanPool).RemoveOrphanBlockByHash"), Need: []Fact{"parent-known"}, Min: 1}.Check(r)
		}),
	)
	extend("C31", "R31f (added after a seeded change was missed): the blacklist parser classifies an entry as a hex address with the same classifier the account keys are normalised with (address.IsEthAddress) — every spelling that addresses the account also matches its blacklist entry.",
		rule("R31f", "blacklist entries are classified by the account-key classifier", 2, func(r *Run) {
			fn := "types.parseBlockedAccount"
			isEth := func(c *core.Ctx, e ast.Expr) core.Tri {
				if core.CallAtom([]string{"common/address.IsEthAddress"}, core.IsObj("param:0"))(c, e) {
					return core.True
				}
				return core.Unknown
			}
			core.UnreachableUnder{Fn: fn, Spec: &core.FlowSpec{Assume: isEth}, Sink: core.CallSink("common/address.NewBtcAddress"), Name: "the classifier says hex address", Min: 1}.Check(r)
			core.HasAtom2(r, fn, "the hex-address classifier is consulted", core.CallAtom([]string{"common/address.IsEthAddress"}, core.IsObj("param:0")))
		}),
	)
}

func init() {
	blockSig := func(id string) core.Rule {
		return rule(id, "VerifySignature accepts only after the block's own signature was verified", 1, func(r *Run) {
			fn := "types.VerifySignature"
			core.Dominated{Fn: fn, Spec: spec(isTrue("block-signature-ok", "types.(*Block).verifySignature")), Sink: core.SinkPred{Label: "return that can accept", Match: func(fl *core.Flow, n *core.GNode) bool {
				rs, ok := n.Ast.(*ast.ReturnStmt)
				if !ok || len(rs.Results) != 1 {
					return false
				}
				tv, isC := fl.C.Info.Types[rs.Results[0]]
				return !(isC && tv.Value != nil && tv.Value.String() == "false")
			}}, Need: []Fact{"block-signature-ok"}, Min: 1}.Check(r)
		})
	}
	extend("C27", "R27f (added after a seeded change was missed): VerifySignature cannot accept — not even for an empty list of transactions to verify — before the block-level signature has been verified (the block hash does not cover that signature).", blockSig("R27f"))
	extend("C28", "R28e (same rule as R27f).", blockSig("R28e"))
}

func init() {
	extend("C04", "R04g (same rule as C01 R01c; added because a seeded change against this property was only seen by C01's check): a pending tree never shares memory with the request that built it — Tree.Set hands copies of the caller's key and value to the node constructors, so reusing a request buffer for a competing update cannot change what a later Commit writes.",
		rule("R04g", "a pending tree does not alias the request's buffers", 2, func(r *Run) {
			cp := core.CallAtom([]string{mdb + "copyBytes"})
			core.CallArgs{Fn: mdbT + "Set", Callee: []string{mdb + "NewNode"}, What: "the first leaf stores copies of key and value", Args: map[int]core.ExprPred{0: cp, 1: cp}, Min: 1}.Check(r)
			core.CallArgs{Fn: mdbT + "Set", Callee: []string{mdbN + "set"}, What: "inserted key and value are copies", Args: map[int]core.ExprPred{1: cp, 2: cp}, Min: 1}.Check(r)
		}),
	)
}

func init() {
	extend("C01", "R01e (added after a seeded change was missed): the ascending and the descending branch of the range traversal prune identically — the descent into the left child sits behind one and the same condition in both branches, and so does the descent into the right child (otherwise a range yields different key sets in the two directions).",
		rule("R01e", "range traversal: both directions prune with the same conditions", 2, func(r *Run) {
			f := r.Fn(mdbN + "traverseInRange")
			if f == nil {
				return
			}
			c := f.Ctx()
			conds := map[string]map[string]int{"left": {}, "right": {}}
			core.InspectBody(f, func(x ast.Node) bool {
				call, ok := x.(*ast.CallExpr)
				if !ok {
					return true
				}
				fn := core.Callee(c.Info, call)
				if fn == nil || core.ShortName(fn) != mdbN+"traverseInRange" {
					return true
				}
				sel, ok := ast.Unparen(call.Fun).(*ast.SelectorExpr)
				if !ok {
					return true
				}
				side := ""
				switch {
				case core.CallsAny(mdbN+"getLeftNode")(c, sel.X) || core.Mentions(mdb+"Node.leftNode")(c, sel.X):
					side = "left"
				case core.CallsAny(mdbN+"getRightNode")(c, sel.X) || core.Mentions(mdb+"Node.rightNode")(c, sel.X):
					side = "right"
				default:
					return true
				}
				// innermost enclosing if whose body contains the call
				cond := "(unconditional)"
				for p := r.W.Parent(call); p != nil; p = r.W.Parent(p) {
					if is, ok := p.(*ast.IfStmt); ok && call.Pos() >= is.Body.Pos() && call.End() <= is.Body.End() {
						// the direction test itself is not a pruning condition
						if id, ok := ast.Unparen(is.Cond).(*ast.Ident); ok && core.IsObj("param:3")(c, id) {
							continue
						}
						cond = core.CanonExpr(c, is.Cond)
						break
					}
					if _, isFn := p.(*ast.FuncDecl); isFn {
						break
					}
				}
				conds[side][cond]++
				return true
			})
			for _, side := range []string{"left", "right"} {
				label := fmt.Sprintf("%s: the descent into the %s child is guarded identically in both directions", f.Name, side)
				total := 0
				for _, n := range conds[side] {
					total += n
				}
				if len(conds[side]) == 1 && total >= 2 {
					r.OK(label, r.W.Pos(f.Node().Pos()), fmt.Sprintf("%d descents, one condition: %v", total, keysOf(conds[side])))
				} else {
					r.Fail(label, r.W.Pos(f.Node().Pos()), fmt.Sprintf("conditions differ between the branches: %v", keysOf(conds[side])))
				}
			}
		}),
	)
}

func init() {
	addPackages("C27", "util", "types")
	addPackages("C13", "util", "types")
	extend("C27", "R27g (same rule as C28 R28d; three independent seeded changes against C27 and C13 edited the pooled-signature comparison, which only C28 anchored): a block transaction skips signature verification only when the pooled copy's whole signature — every field, compared between the two different transactions — is identical.", sigCoverageRule("R27g"))
	extend("C13", "R13h (same rule as C28 R28d): whether a block is accepted must not depend on what the local mempool happens to hold.", sigCoverageRule("R13h"))
}

// layerOrder returns the canonical order in which fn puts database layers into
// the list handed to the merged iterator: the arguments of successive
// `list = append(list, X)` statements, or — when the appends sit in a loop over
// a composite literal — the elements of that literal.
func layerOrder(f *core.FuncInfo) []string {
	seq := layerOrderIn(f)
	if len(seq) > 0 {
		return seq
	}
	// the list may be built by a helper of the same package (extracted so that listing and counting share it)
	c := f.Ctx()
	core.InspectBody(f, func(x ast.Node) bool {
		if len(seq) > 0 {
			return false
		}
		if call, ok := x.(*ast.CallExpr); ok {
			if fn := core.Callee(c.Info, call); fn != nil && fn.Pkg() != nil && fn.Pkg() == f.Pkg.Types {
				if h := f.W.FuncOf(fn); h != nil && h != f {
					seq = layerOrderIn(h)
				}
			}
		}
		return true
	})
	return seq
}

func layerOrderIn(f *core.FuncInfo) []string {
	c := f.Ctx()
	var seq []string
	core.InspectBody(f, func(x ast.Node) bool {
		switch s := x.(type) {
		case *ast.RangeStmt:
			if cl, ok := ast.Unparen(s.X).(*ast.CompositeLit); ok {
				appends := false
				ast.Inspect(s.Body, func(y ast.Node) bool {
					if call, ok := y.(*ast.CallExpr); ok && core.IsBuiltinCall(c.Info, call, "append") {
						appends = true
					}
					return true
				})
				if appends {
					for _, el := range cl.Elts {
						seq = append(seq, core.CanonExpr(c, el))
					}
					return false
				}
			}
		case *ast.AssignStmt:
			if len(s.Rhs) == 1 {
				if call, ok := s.Rhs[0].(*ast.CallExpr); ok && core.IsBuiltinCall(c.Info, call, "append") && len(call.Args) == 2 {
					seq = append(seq, core.CanonExpr(c, call.Args[1]))
				}
			}
		}
		return true
	})
	return seq
}

func createdHere(c *core.Ctx, base *ast.Ident) bool {
	for _, d := range c.DefsOf(c.Info.ObjectOf(base)) {
		if d.Rhs == nil {
			continue
		}
		switch rx := ast.Unparen(d.Rhs).(type) {
		case *ast.CompositeLit:
			return true
		case *ast.UnaryExpr:
			if _, isLit := ast.Unparen(rx.X).(*ast.CompositeLit); isLit {
				return true
			}
		case *ast.CallExpr:
			if fn := core.Callee(c.Info, rx); fn != nil && fn.Name() == "CreateRow" {
				return true
			}
		}
	}
	return false
}

func init() {
	layers := func(id string) core.Rule {
		return rule(id, "listing and counting merge the layers in the same priority order: open transaction, committed overlay, base", 2, func(r *Run) {
			want := "$recv.txcache > $recv.cache > $recv.maindb"
			for _, m := range []string{"List", "PrefixCount"} {
				f := r.Fn(ldb + m)
				if f == nil {
					continue
				}
				got := strings.Join(layerOrder(f), " > ")
				label := fmt.Sprintf("%s builds the merged view as %s", f.Name, want)
				if got == want {
					r.OK(label, r.W.Pos(f.Node().Pos()), got)
				} else {
					r.Fail(label, r.W.Pos(f.Node().Pos()), "layers are merged as ["+got+"]: an entry of the open transaction is shadowed by the committed overlay (or the base) in this view only")
				}
			}
		})
	}
	extend("C08", "R08f (added after a seeded change was missed; the edit is in LocalDB.PrefixCount, which only C07 anchored): listing and counting see the layers in the same priority order.", layers("R08f"))
	extend("C07", "R07i (R07c restated so that the loop-over-a-literal form of building the layer list is understood as well).", layers("R07i"))

	extend("C06", "R06g (added after a seeded change was missed): the Badger iterator's engine-side prefix restriction may only be derived from start when the caller asked for a prefix scan (no end bound) — with an explicit end bound the range reaches beyond the start prefix.",
		rule("R06g", "Badger: an engine prefix restriction only for prefix scans", 1, func(r *Run) {
			fn := "common/db.(*GoBadgerDB).Iterator"
			f := r.Fn(fn)
			if f == nil {
				return
			}
			c := f.Ctx()
			isPrefixStore := func(c *core.Ctx, n ast.Node) bool {
				as, ok := n.(*ast.AssignStmt)
				if !ok {
					return false
				}
				for _, l := range as.Lhs {
					if sel, ok := ast.Unparen(l).(*ast.SelectorExpr); ok && sel.Sel.Name == "Prefix" {
						return true
					}
				}
				return false
			}
			n := 0
			core.InspectBody(f, func(x ast.Node) bool {
				if isPrefixStore(c, x) {
					n++
				}
				if kv, ok := x.(*ast.KeyValueExpr); ok {
					if id, ok := kv.Key.(*ast.Ident); ok && id.Name == "Prefix" {
						n++
						r.Fail(f.Name+": engine iterator options carry a Prefix set in a literal", r.W.Pos(kv.Pos()), "a Prefix option fixed at construction applies to explicit ranges as well")
					}
				}
				return true
			})
			if n == 0 {
				r.OK(f.Name+": no engine-side prefix restriction", r.W.Pos(f.Node().Pos()), "IteratorOptions.Prefix is never set: the range filter alone bounds the scan")
				return
			}
			endNil := core.RelGuard("prefix-scan", core.IsObj("param:1"), token.EQL, isNilLit)
			core.Dominated{Fn: fn, Spec: &core.FlowSpec{Conds: []core.CondGuard{endNil}}, Sink: core.SinkPred{Label: "store to IteratorOptions.Prefix", Match: func(fl *core.Flow, nd *core.GNode) bool {
				return nd.Ast != nil && isPrefixStore(fl.C, nd.Ast)
			}}, Need: []Fact{"prefix-scan"}, Min: 1}.Check(r)
		}),
	)

	extend("C10", "R10g (added after a seeded change was missed): the 'old' value of a buffered row — what the index diff at save time is computed against — is fixed when the row object is created from the persisted row and is never re-assigned on a row that is already in the buffer.",
		rule("R10g", "a buffered row's persisted 'old' value is never re-assigned", 1, func(r *Run) {
			pkg := r.W.Pkg("common/db/table")
			if pkg == nil {
				r.Unresolved("package common/db/table")
				return
			}
			stores, lits := 0, 0
			for _, f := range r.W.AllFuncs(pkg) {
				if f.Lit != nil {
					continue
				}
				c := f.Ctx()
				core.InspectBody(f, func(x ast.Node) bool {
					switch s := x.(type) {
					case *ast.KeyValueExpr:
						if id, ok := s.Key.(*ast.Ident); ok && id.Name == "old" {
							lits++
						}
					case *ast.AssignStmt:
						for _, l := range s.Lhs {
							sel, ok := ast.Unparen(l).(*ast.SelectorExpr)
							if !ok || sel.Sel.Name != "old" || !core.IsObj("common/db/table.Row.old")(c, sel) {
								continue
							}
							stores++
							label := fmt.Sprintf("%s: `%s` sets 'old' on a row created in this function", f.Name, core.ExprStr(s))
							if base, ok := ast.Unparen(sel.X).(*ast.Ident); ok && createdHere(c, base) {
								r.OK(label, r.W.Pos(s.Pos()), "fresh row")
							} else {
								r.Fail(label, r.W.Pos(s.Pos()), "the row is one that already sits in the buffer: its 'old' must stay the persisted value, otherwise the index entries of the persisted row are not deleted at save time")
							}
						}
					}
					return true
				})
			}
			if lits+stores < 2 {
				r.Fail("common/db/table: places that give a row its 'old' value", "common/db/table/", fmt.Sprintf("expected ≥2 (Update, Replace), found %d", lits+stores))
			} else {
				r.OK("common/db/table: places that give a row its 'old' value", "common/db/table/", fmt.Sprintf("%d at construction, %d assignment(s) on fresh rows", lits, stores))
			}
		}),
	)
}

func init() {
	extend("C02", "R02i (added after a seeded change was missed): in the node hash functions every cut of a child hash to its digest is guarded by a length test on that same child hash — a parent can have one bare and one height-prefixed child (a single-key first commit leaves a bare leaf), so the two children must be cut independently.",
		rule("R02i", "each child hash is cut behind its own length test", 4, func(r *Run) {
			core.MayPanic{
				Funcs: []string{"types.(*LeafNode).Hash", "types.(*InnerNode).Hash"},
				Trusted: map[string]string{
					"types.Encode":  "deterministic protobuf encoding of a message with only bytes/int32 fields",
					"common.Sha256": "hash of a byte slice",
				},
				SkipNilDeref: true,
				Min:          4,
			}.Check(r)
		}),
	)
	extend("C07", "R07j (added after a seeded change was missed): the page counter counts collected entries only — its increment sits behind the same 'live entry' test as the collection, so tombstones never use up a page.",
		rule("R07j", "the page counter advances only for a live entry", 3, func(r *Run) {
			live := isFalse("live-entry", dbp+"isdeleted")
			isCounter := func(c *core.Ctx, e ast.Expr) bool {
				id, ok := ast.Unparen(e).(*ast.Ident)
				return ok && !core.Mentions("param:1", "param:2", "param:3")(c, id) && c.Info.TypeOf(e) != nil && c.Info.TypeOf(e).String() == "int32"
			}
			for _, fn := range []string{lh + "IteratorScan", lh + "iteratorScan", lh + "IteratorCallback"} {
				core.Dominated{Fn: fn, Spec: spec(live), Sink: core.SinkPred{Label: "page counter ++", Match: func(fl *core.Flow, n *core.GNode) bool {
					inc, ok := n.Ast.(*ast.IncDecStmt)
					return ok && inc.Tok == token.INC && isCounter(fl.C, inc.X) && n.Block.Kind.String() != "ForPost"
				}}, Need: []Fact{"live-entry"}, Min: 1}.Check(r)
			}
		}),
	)
}

func init() {
	staleHeight := func(id string) core.Rule {
		return rule(id, "stale index entries are removed for the height that is being re-committed", 2, func(r *Run) {
			// DelLeafCountKV loads the abandoned roots into fresh trees (block height 0) and asks each to drop its
			// version-index entries of `height`: both the scan prefix and the deleted keys must be built from that
			// parameter, not from the tree's own height.
			fn := mdbT + "RemoveLeafCountKey"
			core.CallArgs{Fn: fn, Callee: []string{mdb + "genLeafCountKey"}, What: "the deleted index key carries the requested height", Args: map[int]core.ExprPred{2: core.IsObj("param:0")}, Min: 1}.Check(r)
			core.CallArgs{Fn: fn, Callee: []string{mdb + "genPrefixHashKey"}, What: "the scan covers the nodes stored at the requested height", Args: map[int]core.ExprPred{1: core.IsObj("param:0")}, Min: 1}.Check(r)
			core.CallArgs{Fn: mdb + "DelLeafCountKV", Callee: []string{fn}, What: "the height being re-committed", Args: map[int]core.ExprPred{0: core.IsObj("param:1")}, Min: 1}.Check(r)
		})
	}
	extend("C05", "R05f (added after a seeded change was missed): the clean-up of a re-committed height is keyed by that height.", staleHeight("R05f"))
	extend("C02", "R02j (same rule as R05f: otherwise a pruning store later loses a live node and cannot compute the root a plain store computes).", staleHeight("R02j"))
	extend("C04", "R04h (same rule as R05f: an abandoned pending branch's bookkeeping must not outlive the re-commit of its height).", staleHeight("R04h"))
}

func init() {
	mkl := "common/merkle."
	extend("C18", "R18h-R18i (added after seeded changes were missed): no condition inside a loop of the calculator is a snapshot, taken before the loop, of a variable the loop itself changes (the 'collecting siblings' flag turns true inside the padding loop); the height a partial chunk is padded to is computed from the same chunk-size variable that cuts the chunks (after its cap), not from an earlier, uncapped quantity.",
		rule("R18h", "no loop condition is a stale snapshot of a loop-variant variable", 3, func(r *Run) {
			n := 0
			for _, fn := range []string{mkl + "Computation", mkl + "GetMerkleRoot", mkl + "getMerkleRootPad", mkl + "GetMerkleRootFromBranch"} {
				f := r.Fn(fn)
				if f == nil {
					continue
				}
				c := f.Ctx()
				for _, lp := range core.LoopsIn(f) {
					n++
					var body *ast.BlockStmt
					switch s := lp.(type) {
					case *ast.ForStmt:
						body = s.Body
					case *ast.RangeStmt:
						body = s.Body
					}
					// variables assigned inside the loop (body, and post statement)
					assigned := map[types.Object]bool{}
					ast.Inspect(lp, func(x ast.Node) bool {
						switch s := x.(type) {
						case *ast.AssignStmt:
							for _, l := range s.Lhs {
								if id, ok := l.(*ast.Ident); ok {
									assigned[c.Info.ObjectOf(id)] = true
								}
							}
						case *ast.IncDecStmt:
							if id, ok := s.X.(*ast.Ident); ok {
								assigned[c.Info.ObjectOf(id)] = true
							}
						}
						return true
					})
					bad := ""
					ast.Inspect(body, func(x ast.Node) bool {
						var cond ast.Expr
						switch s := x.(type) {
						case *ast.IfStmt:
							cond = s.Cond
						case *ast.ForStmt:
							cond = s.Cond
						}
						if cond == nil {
							return true
						}
						ast.Inspect(cond, func(y ast.Node) bool {
							id, ok := y.(*ast.Ident)
							if !ok {
								return true
							}
							o := c.Info.ObjectOf(id)
							v, isVar := o.(*types.Var)
							if !isVar || v.IsField() || assigned[o] || (o.Pos() >= lp.Pos() && o.Pos() <= lp.End()) {
								return true
							}
							defs := c.DefsOf(o)
							if len(defs) != 1 || defs[0].Rhs == nil {
								return true
							}
							ast.Inspect(defs[0].Rhs, func(z ast.Node) bool {
								if zid, ok := z.(*ast.Ident); ok && assigned[c.Info.ObjectOf(zid)] {
									if zv, ok := c.Info.ObjectOf(zid).(*types.Var); ok && !zv.IsField() {
										bad = fmt.Sprintf("`%s` (defined at %s from `%s`) is tested inside the loop at %s, but `%s` is assigned inside that loop", id.Name, r.W.Pos(defs[0].Stmt.Pos()), core.ExprStr(defs[0].Rhs), r.W.Pos(cond.Pos()), zid.Name)
									}
								}
								return true
							})
							return true
						})
						return true
					})
					label := fmt.Sprintf("%s: loop at %s tests no stale snapshot", f.Name, r.W.Pos(lp.Pos()))
					if bad == "" {
						r.OK(label, r.W.Pos(lp.Pos()), "conditions read live variables")
					} else {
						r.Fail(label, r.W.Pos(lp.Pos()), bad+": the condition keeps the value from before the loop")
					}
				}
			}
			if n < 3 {
				r.Fail("common/merkle: loops examined", "common/merkle/merkle.go", fmt.Sprintf("expected ≥3, found %d", n))
			}
		}),
		rule("R18i", "a partial chunk is padded to the height of the (capped) chunk size", 1, func(r *Run) {
			f := r.Fn(mkl + "GetMerkleRoot")
			if f == nil {
				return
			}
			c := f.Ctx()
			// the chunk-size variable: what the leaf count is taken modulo of
			var step types.Object
			core.InspectBody(f, func(x ast.Node) bool {
				b, ok := x.(*ast.BinaryExpr)
				if ok && b.Op == token.REM && lenOf(core.IsObj("param:0"))(c, b.X) {
					if id, ok := ast.Unparen(b.Y).(*ast.Ident); ok {
						step = c.Info.ObjectOf(id)
					}
				}
				return true
			})
			label := f.Name + ": getMerkleRootPad receives the chunk size (or a value computed from it)"
			if step == nil {
				r.Fail(label, r.W.Pos(f.Node().Pos()), "cannot find len(hashes) % step (anchor changed)")
				return
			}
			n := 0
			for _, fi := range append([]*core.FuncInfo{f}, f.Closures()...) {
				ci := fi.Ctx()
				core.InspectBody(fi, func(x ast.Node) bool {
					call, ok := x.(*ast.CallExpr)
					if !ok {
						return true
					}
					if fn := core.Callee(ci.Info, call); fn == nil || core.ShortName(fn) != mkl+"getMerkleRootPad" || len(call.Args) != 2 {
						return true
					}
					n++
					if mentionsIdent(ci, call.Args[1], step) {
						r.OK(label, r.W.Pos(call.Pos()), core.ExprStr(call.Args[1]))
					} else {
						r.Fail(label, r.W.Pos(call.Pos()), fmt.Sprintf("the padding target `%s` is not computed from `%s`, the variable that cuts the chunks after its cap: a short last chunk is padded to a different height than the full chunks", core.ExprStr(call.Args[1]), step.Name()))
					}
					return true
				})
			}
			if n == 0 {
				r.Fail(label, r.W.Pos(f.Node().Pos()), "no call of getMerkleRootPad found")
			}
		}),
	)
}

func init() {
	extend("C06", "R06h: deleting a key that is not there is not an error on any backend — LevelDB's engine Delete reports nothing for a missing key, whereas the in-memory engine (goleveldb memdb) reports ErrNotFound, which the in-memory backend must therefore translate to success (library facts, frozen with this reason); otherwise a batch that ends with such a delete fails on one backend and succeeds on the other.",
		rule("R06h", "delete of a missing key succeeds on every backend", 2, func(r *Run) {
			memNotFound := "github.com/syndtr/goleveldb/leveldb/memdb.ErrNotFound"
			lvlNotFound := "github.com/syndtr/goleveldb/leveldb/errors.ErrNotFound"
			for _, fn := range []string{"common/db.(*GoMemDB).Delete", "common/db.(*GoMemDB).DeleteSync"} {
				f := r.Fn(fn)
				if f == nil {
					continue
				}
				engineErr := core.FromCall(0, "github.com/syndtr/goleveldb/leveldb/memdb.(*DB).Delete")
				isNF := func(c *core.Ctx, e ast.Expr) bool {
					return core.IsObj(memNotFound)(c, e) || core.IsObj(lvlNotFound)(c, e) || core.IsObj("github.com/syndtr/goleveldb/leveldb.ErrNotFound")(c, e)
				}
				// under the assumption "the engine said not found" every return is a success
				as := core.AssumeRel(engineErr, token.EQL, isNF, core.True)
				fl := core.RunFlow(f, &core.FlowSpec{Assume: as})
				label := fmt.Sprintf("%s answers nil when the engine reports the key missing", f.Name)
				hasTest := false
				core.InspectBody(f, func(x ast.Node) bool {
					if e, ok := x.(ast.Expr); ok {
						if _, ok := core.CmpAtom(f.Ctx(), e, engineErr, isNF); ok {
							hasTest = true
						}
					}
					return true
				})
				bad := ""
				for _, ret := range fl.G.Returns() {
					if !fl.Live(ret) {
						continue
					}
					if core.ClassifyReturn(fl, ret, -1) != core.True {
						bad = r.W.Pos(ret.Ast.Pos())
					}
				}
				switch {
				case !hasTest:
					r.Fail(label, r.W.Pos(f.Node().Pos()), "the engine's ErrNotFound is never recognised: deleting a missing key is an error here and a no-op on LevelDB (a batch whose last operation is such a delete fails on this backend only)")
				case bad != "":
					r.Fail(label, bad, "with the engine reporting 'not found' this return can still carry an error")
				default:
					r.OK(label, r.W.Pos(f.Node().Pos()), "ErrNotFound → nil")
				}
			}
		}),
	)
}

func init() {
	extend("C24", "R24g (added after a seeded change was missed): in SkipList.Delete the node is unlinked at every level before the list's level is lowered — no forward pointer is rewritten after the level has been decremented (a level dropped first keeps a stale pointer to the removed node).",
		rule("R24g", "Delete unlinks at every level before it lowers the level", 1, func(r *Run) {
			f := r.Fn(skl + "Delete")
			if f == nil {
				return
			}
			c := f.Ctx()
			g := f.Graph()
			isLevelDec := func(n *core.GNode) bool {
				switch s := n.Ast.(type) {
				case *ast.IncDecStmt:
					return s.Tok == token.DEC && core.IsObj(skp+"SkipList.level")(c, s.X)
				case *ast.AssignStmt:
					for _, l := range s.Lhs {
						if core.IsObj(skp+"SkipList.level")(c, l) {
							return true
						}
					}
				}
				return false
			}
			isNextStore := func(n *core.GNode) bool {
				as, ok := n.Ast.(*ast.AssignStmt)
				if !ok {
					return false
				}
				for _, l := range as.Lhs {
					if ix, ok := ast.Unparen(l).(*ast.IndexExpr); ok && core.Mentions(skp+"skipListNode.next")(c, ix.X) {
						return true
					}
				}
				return false
			}
			var decs []*core.GNode
			stores := 0
			for _, n := range g.Nodes {
				if n.Ast == nil {
					continue
				}
				if isLevelDec(n) {
					decs = append(decs, n)
				}
				if isNextStore(n) {
					stores++
				}
			}
			label := f.Name + ": no forward pointer is rewritten after the level was lowered"
			if len(decs) == 0 || stores == 0 {
				r.Fail(label, r.W.Pos(f.Node().Pos()), fmt.Sprintf("expected a level decrement and forward-pointer stores, found %d and %d", len(decs), stores))
				return
			}
			bad := ""
			for m := range g.Reachable(decs, nil, nil) {
				if m.Ast != nil && isNextStore(m) {
					bad = r.W.Pos(m.Ast.Pos())
				}
			}
			if bad == "" {
				r.OK(label, r.W.Pos(decs[0].Ast.Pos()), fmt.Sprintf("%d unlink store(s), all before the level adjustment", stores))
			} else {
				r.Fail(label, bad, "a forward pointer is rewritten after sl.level was decremented: the unlink loop no longer visits the dropped levels, whose header pointers keep pointing at the removed node")
			}
		}),
	)
}

func init() {
	loadedHash := func(id string) core.Rule {
		return rule(id, "a node served from the in-memory node caches carries the hash it was asked for and is marked persisted", 2, func(r *Run) {
			fn := mdb + "getNodeMemTree"
			setsField := func(field string, val core.ExprPred) func(c *core.Ctx, n *core.GNode) bool {
				return func(c *core.Ctx, n *core.GNode) bool {
					found := false
					core.InspectNode(n.Ast, func(x ast.Node) bool {
						switch s := x.(type) {
						case *ast.AssignStmt:
							for i, l := range s.Lhs {
								if sel, ok := ast.Unparen(l).(*ast.SelectorExpr); ok && sel.Sel.Name == field && len(s.Rhs) == len(s.Lhs) && val(c, s.Rhs[i]) {
									found = true
								}
							}
						case *ast.KeyValueExpr:
							if id, ok := s.Key.(*ast.Ident); ok && id.Name == field && val(c, s.Value) {
								found = true
							}
						}
						return true
					})
					return found
				}
			}
			isTrue := func(c *core.Ctx, e ast.Expr) bool {
				tv, ok := c.Info.Types[e]
				return ok && tv.Value != nil && tv.Value.String() == "true"
			}
			sp := &core.FlowSpec{Nodes: []core.NodeGen{
				{Fact: "hash-set", Gen: setsField("hash", core.IsObj("param:0"))},
				{Fact: "persisted-set", Gen: setsField("persisted", isTrue)},
			}}
			// (a helper that builds the node is looked into on the helper-inlined graph)
			core.Dominated{Fn: fn, Spec: sp, Sink: core.SinkPred{Label: "return of a cached node", Match: func(fl *core.Flow, n *core.GNode) bool {
				rs, ok := n.Ast.(*ast.ReturnStmt)
				return ok && len(rs.Results) == 2 && !isNilLit(fl.C, rs.Results[0]) && isNilLit(fl.C, rs.Results[1])
			}}, Need: []Fact{"hash-set", "persisted-set"}, Min: 2}.Check(r)
		})
	}
	extend("C03", "R03e (added after a seeded change was missed): both in-memory node caches hand out nodes that carry the requested hash (a node without it gives its parent an empty sibling hash in a proof).", loadedHash("R03e"))
	extend("C01", "R01f (same rule as R03e: a loaded node must be published under the hash it was requested by).", loadedHash("R01f"))
}

func init() {
	extend("C20", "R20d (added after a seeded change was missed): the encoder does not modify the integer it is given — no value-changing big.Int method is called with the parameter as its destination (fork choice logs the compact form of both total difficulties right before comparing them).",
		rule("R20d", "BigToCompact leaves its argument untouched", 1, func(r *Run) {
			f := r.Fn("common/difficulty.BigToCompact")
			if f == nil {
				return
			}
			c := f.Ctx()
			readonly := map[string]bool{"Sign": true, "Bytes": true, "Bits": true, "BitLen": true, "Cmp": true, "CmpAbs": true, "Int64": true, "Uint64": true, "IsInt64": true, "IsUint64": true, "String": true, "Text": true, "Bit": true, "TrailingZeroBits": true, "FillBytes": true, "Format": true, "Append": true, "ProbablyPrime": true}
			n, bad := 0, ""
			core.InspectBody(f, func(x ast.Node) bool {
				call, ok := x.(*ast.CallExpr)
				if !ok {
					return true
				}
				sel, ok := ast.Unparen(call.Fun).(*ast.SelectorExpr)
				if !ok || !core.IsObj("param:0")(c, sel.X) {
					return true
				}
				fn := core.Callee(c.Info, call)
				if fn == nil || fn.Pkg() == nil || fn.Pkg().Path() != "math/big" {
					return true
				}
				n++
				if !readonly[fn.Name()] {
					bad = fmt.Sprintf("%s: `%s` writes its result into the caller's integer", r.W.Pos(call.Pos()), core.ExprStr(call))
				}
				return true
			})
			label := f.Name + " calls only read-only big.Int methods on its parameter"
			if bad == "" && n > 0 {
				r.OK(label, r.W.Pos(f.Node().Pos()), fmt.Sprintf("%d method call(s) on the parameter, all read-only", n))
			} else {
				r.Fail(label, r.W.Pos(f.Node().Pos()), bad)
			}
		}),
	)
}

func init() {
	extend("C35", "R35f (added after a seeded change was missed): in the download protocol a mutex that a function locks is unlocked on every path out of that function (deferred or explicit) — an early return that keeps the task-wide mutex blocks every other per-height worker and the handler never finishes.",
		rule("R35f", "every Lock is released on all paths out of the function", 1, func(r *Run) {
			pkg := r.W.Pkg("system/p2p/dht/protocol/download")
			if pkg == nil {
				r.Unresolved("package download")
				return
			}
			n := 0
			for _, decl := range r.W.AllFuncs(pkg) {
				if decl.Lit != nil {
					continue
				}
				for _, f := range append([]*core.FuncInfo{decl}, decl.Closures()...) {
					cs := map[string]bool{}
					core.InspectBody(f, func(x ast.Node) bool {
						if lit, ok := x.(*ast.FuncLit); ok && lit != f.Lit {
							return false // nested literals are functions of their own
						}
						if call, ok := x.(*ast.CallExpr); ok {
							if fn := core.Callee(f.Info(), call); fn != nil {
								cs[core.ShortName(fn)] = true
							}
						}
						return true
					})
					locks, unlocks := cs["sync.(*Mutex).Lock"], cs["sync.(*Mutex).Unlock"]
					if !locks {
						continue
					}
					if !unlocks && len(f.Body().List) == 1 {
						if _, isIf := f.Body().List[0].(*ast.IfStmt); isIf {
							why := "conditional lock helper (lockTasks): its counterpart closure unlocks; the pairing of the two helpers around each use is R35c"
							label := f.Name + ": lock helper"
							r.Exception(label, why)
							r.OK(label, r.W.Pos(f.Node().Pos()), "frozen exception: "+why)
							continue
						}
					}
					n++
					core.Paired{Fn: f.Name, Open: core.Names("sync.(*Mutex).Lock"), Close: core.Names("sync.(*Mutex).Unlock"), MinOpen: 1}.Check(r)
				}
			}
			if n == 0 {
				r.Fail("download: functions that lock a mutex", "system/p2p/dht/protocol/download/", "none found (anchor changed)")
			}
		}),
	)
	extend("C33", "R33e (added after a seeded change was missed): the block-header cache of the pub-sub validator — a plain map written by every block validation — is only touched with headerLock held (validations of several blocks run concurrently; an unsynchronised map access is a fatal runtime error that recover() cannot catch).",
		rule("R33e", "validator header cache only under headerLock", 2, func(r *Run) {
			core.LockGuard{Type: bcast + "validator", Mutex: "headerLock", Depth: 3, Min: 2,
				Access: func(c *core.Ctx, sel *ast.SelectorExpr, parents []ast.Node) (bool, bool, string) {
					if sel.Sel.Name != "blkHeaderCache" {
						return false, false, ""
					}
					return true, true, "blkHeaderCache"
				},
				Exempt:       map[string]string{bcast + "newValidator": "constructor", bcast + "initValidator": "constructor"},
				ExemptAccess: map[string]string{},
			}.Check(r)
		}),
	)
	extend("C32", "R32h-R32i (added after seeded changes were missed): a subscriber's resume point is persisted before the subscription is started (the runner reads it when it starts); in the size-capped payload builders a sequence whose data does not fit is never counted as handled — when the size test says 'too big' the loop stops before the handled-counter is advanced, whatever else is true.",
		rule("R32h", "resume point persisted before the runner is started", 1, func(r *Run) {
			core.NotAfter{Fn: pu2 + "addSubscriber", Early: []string{pu2 + "setLastPushSeq"}, Late: []string{pu2 + "persisAndStart"}, Name: "setLastPushSeq never runs after persisAndStart", Min: 1}.Check(r)
			core.FailStops{Fn: pu2 + "addSubscriber", Callee: []string{pu2 + "setLastPushSeq"}, Fail: core.OErrNonNil, Idx: -1, Forbidden: core.OrSink(core.CallSink(pu2+"persisAndStart"), core.SuccessReturn(-1)), Min: 1, Name: "resume point could not be stored"}.Check(r)
		}),
		rule("R32i", "an entry that does not fit is not counted as handled", 2, func(r *Run) {
			for _, fn := range []string{pu2 + "getTxReceipts", pu2 + "getEVMEvent"} {
				f := r.W.Func(fn)
				if f == nil {
					r.Unresolved(fn)
					continue
				}
				sum := func(c *core.Ctx, e ast.Expr) bool {
					b, ok := ast.Unparen(e).(*ast.BinaryExpr)
					return ok && b.Op == token.ADD && !core.Mentions("param:3")(c, b)
				}
				tooBig := core.AssumeRel(sum, token.GTR, core.IsObj("param:3"), core.True)
				core.UnreachableUnder{Fn: fn, Spec: &core.FlowSpec{Assume: tooBig}, Sink: core.SinkPred{Label: "handled-counter++", Match: func(fl *core.Flow, n *core.GNode) bool {
					inc, ok := n.Ast.(*ast.IncDecStmt)
					if !ok || inc.Tok != token.INC || n.Block.Kind.String() == "ForPost" {
						return false
					}
					id, ok := ast.Unparen(inc.X).(*ast.Ident)
					if !ok {
						return false
					}
					t := fl.C.Info.TypeOf(id)
					return t != nil && t.String() == "int"
				}}, Name: "the accumulated size plus this entry exceeds the cap", Min: 1}.Check(r)
			}
		}),
	)
}

const pu2 = "blockchain.(*Push)."

func init() {
	keySym := func(id string) core.Rule {
		return rule(id, "every key SaveBlock puts into the batch is deleted or overwritten by DelBlock", 1, func(r *Run) {
			keysOfBatch := func(fn string, methods ...string) (map[string]bool, *core.FuncInfo) {
				f := r.Fn(fn)
				if f == nil {
					return nil, nil
				}
				c := f.Ctx()
				want := map[string]bool{}
				for _, m := range methods {
					want[m] = true
				}
				out := map[string]bool{}
				core.InspectBody(f, func(x ast.Node) bool {
					call, ok := x.(*ast.CallExpr)
					if !ok || len(call.Args) < 1 {
						return true
					}
					sel, ok := ast.Unparen(call.Fun).(*ast.SelectorExpr)
					if !ok || !want[sel.Sel.Name] || !core.IsObj("param:0")(c, sel.X) {
						return true
					}
					k := ast.Unparen(call.Args[0])
					switch kx := k.(type) {
					case *ast.CallExpr:
						if fnc := core.Callee(c.Info, kx); fnc != nil {
							out[core.ShortName(fnc)] = true
						}
					case *ast.Ident:
						if o := c.Info.ObjectOf(kx); o != nil && o.Pkg() != nil && o.Parent() == o.Pkg().Scope() {
							out[core.ShortObj(o)] = true
						}
					}
					return true
				})
				return out, f
			}
			set, fs := keysOfBatch(bsm+"SaveBlock", "Set")
			undo, fd := keysOfBatch(bsm+"DelBlock", "Delete", "Set")
			if fs == nil || fd == nil {
				return
			}
			var missing, all []string
			for k := range set {
				all = append(all, k)
				if !undo[k] {
					missing = append(missing, k)
				}
			}
			sort.Strings(missing)
			sort.Strings(all)
			label := "blockchain.(*BlockStore).DelBlock undoes every key SaveBlock writes directly"
			if len(missing) == 0 && len(all) >= 2 {
				r.OK(label, r.W.Pos(fd.Node().Pos()), strings.Join(all, ", "))
			} else {
				r.Fail(label, r.W.Pos(fd.Node().Pos()), fmt.Sprintf("SaveBlock writes %v; DelBlock neither deletes nor overwrites %v: after a reorganisation to a shorter (heavier) branch the heights above the new tip still resolve to detached blocks", all, missing))
			}
		})
	}
	// walks lists, for the k-th parameter of f, how every loop over it (in f
	// and in the same-package helpers it is handed to) traverses it.
	var walks func(r *Run, f *core.FuncInfo, k int, depth int, dirs map[string]int)
	walks = func(r *Run, f *core.FuncInfo, k int, depth int, dirs map[string]int) {
		c := f.Ctx()
		isList := core.IsObj(fmt.Sprintf("param:%d", k))
		for _, lp := range core.LoopsIn(f) {
			switch fs := lp.(type) {
			case *ast.RangeStmt:
				if isList(c, fs.X) {
					dirs["front→next"]++
				}
			case *ast.ForStmt:
				if fs.Init == nil {
					continue
				}
				start := ""
				ast.Inspect(fs.Init, func(x ast.Node) bool {
					call, ok := x.(*ast.CallExpr)
					if !ok {
						return true
					}
					sel, ok := ast.Unparen(call.Fun).(*ast.SelectorExpr)
					if !ok || !isList(c, sel.X) {
						return true
					}
					if fn := core.Callee(c.Info, call); fn != nil {
						switch core.ShortName(fn) {
						case "container/list.(*List).Front":
							start = "front"
						case "container/list.(*List).Back":
							start = "back"
						}
					}
					return true
				})
				if start == "" {
					continue
				}
				step := ""
				if fs.Post != nil {
					ast.Inspect(fs.Post, func(x ast.Node) bool {
						if call, ok := x.(*ast.CallExpr); ok {
							if fn := core.Callee(c.Info, call); fn != nil {
								switch core.ShortName(fn) {
								case "container/list.(*Element).Next":
									step = "next"
								case "container/list.(*Element).Prev":
									step = "prev"
								}
							}
						}
						return true
					})
				}
				dirs[start+"→"+step]++
			}
		}
		if depth == 0 {
			return
		}
		core.InspectBody(f, func(x ast.Node) bool {
			call, ok := x.(*ast.CallExpr)
			if !ok {
				return true
			}
			fn := core.Callee(c.Info, call)
			if fn == nil || fn.Pkg() == nil || fn.Pkg() != f.Pkg.Types {
				return true
			}
			g := r.W.FuncOf(fn)
			if g == nil || g == f {
				return true
			}
			for i, a := range call.Args {
				if isList(c, a) {
					walks(r, g, i, depth-1, dirs)
				}
			}
			return true
		})
	}
	walkDir := func(id string) core.Rule {
		return rule(id, "reorganisation: the blocks are loaded and applied walking each node list in the same direction", 2, func(r *Run) {
			f := r.Fn(bcm + "reorganizeChain")
			if f == nil {
				return
			}
			for k, name := range []string{"detach", "attach"} {
				dirs := map[string]int{}
				walks(r, f, k, 2, dirs)
				label := fmt.Sprintf("%s: every loop over the %s list walks it the same way", f.Name, name)
				total := 0
				for _, n := range dirs {
					total += n
				}
				if len(dirs) == 1 && total >= 2 {
					r.OK(label, r.W.Pos(f.Node().Pos()), fmt.Sprintf("%d loops, %v", total, keysOf(dirs)))
				} else {
					r.Fail(label, r.W.Pos(f.Node().Pos()), fmt.Sprintf("directions differ: %v — the i-th loaded block no longer belongs to the i-th node it is applied with", keysOf(dirs)))
				}
			}
		})
	}
	extend("C26", "R26g-R26h (added after seeded changes were missed): DelBlock deletes or overwrites every key SaveBlock writes directly into the batch (height→hash, last height), so rolling back to a shorter branch leaves no height entry behind; in a reorganisation the loop that loads the blocks of a node list and the loop that applies them walk the list in the same direction.", keySym("R26g"), walkDir("R26h"))
	extend("C25", "R25j (same rule as R26h).", walkDir("R25j"))
	extend("C29", "R29g (same rule as R26g).", keySym("R29g"))
}
