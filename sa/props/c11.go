package props

import (
	"fmt"
	"go/ast"
	"go/types"
	"sort"
	"strings"

	"verif/sa/core"
)

const ex = "executor.(*executor)."

func init() {
	register(&core.Property{
		ID:       "C11",
		Title:    "Failed transactions leave only their fee behind",
		Packages: []string{"executor"},
		Explanation: "Decides the structural clauses R11a-R11e: every path after begin() in execTx/execTxGroup passes commit() or rollback() " +
			"(frozen exception: API-environment errors, which abort the whole block); begin/commit/rollback drive the same sub-databases; " +
			"what Set dirties inside a transaction is what Rollback cleans (StateDB, LocalDB); the receipt merge in execTxOne is dominated by the " +
			"success edges of Exec, checkKV, checkKeyAllow and execLocalSameTime.",
		NotCovered: "that the driver's own Exec produces correct receipts; value-level equality of later reads (V clauses).",
		Assumptions: []string{
			"R11a for execTxGroup is decided under the assumption IsFork(height,\"ForkExecRollback\")==true; when false begin/commit/rollback are all no-ops (R11b checks they are gated identically)",
		},
		Rules: []core.Rule{
			rule("R11a", "begin() → every exit passes commit()|rollback()", 4, func(r *Run) {
				apiErrExit := func(fl *core.Flow, n *core.GNode) (bool, string) {
					if core.ControlledBy(fl, n, callTo("client/api.IsAPIEnvError"), true) {
						return true, "exit taken only when api.IsAPIEnvError(err): the whole block execution is aborted and the executor discarded"
					}
					return false, ""
				}
				core.Paired{Fn: ex + "execTx", Open: core.Names(ex + "begin"), Close: core.Names(ex+"commit", ex+"rollback"), MinOpen: 1}.Check(r)
				core.Paired{Fn: ex + "execTxGroup", Spec: &core.FlowSpec{Assume: assumeForks("ForkExecRollback")},
					Open: core.Names(ex + "begin"), Close: core.Names(ex+"commit", ex+"rollback"), ExemptExit: apiErrExit, MinOpen: 1}.Check(r)
			}),
			rule("R11b", "begin/commit/rollback drive stateDB and localDB under the same fork gate", 3, func(r *Run) {
				want := map[string]string{"begin": "Begin", "commit": "Commit", "rollback": "Rollback"}
				for _, fn := range []string{"begin", "commit", "rollback"} {
					f := r.Fn(ex + fn)
					if f == nil {
						continue
					}
					got := map[string]bool{}
					gated := true
					fl := core.RunFlow(f, &core.FlowSpec{Conds: []core.CondGuard{{Fact: "fork", Match: func(c *core.Ctx, a ast.Expr) (bool, bool) {
						n, ok := forkCall(c, a)
						return ok && n == "ForkExecRollback", true
					}}}})
					for _, n := range fl.G.Nodes {
						if n.Ast == nil {
							continue
						}
						for _, call := range core.CallsIn(n.Ast) {
							sel, ok := ast.Unparen(call.Fun).(*ast.SelectorExpr)
							if !ok || sel.Sel.Name != want[fn] {
								continue
							}
							inner, ok := ast.Unparen(sel.X).(*ast.SelectorExpr)
							if !ok {
								continue
							}
							fv, _ := f.Info().ObjectOf(inner.Sel).(*types.Var)
							if fv == nil || !fv.IsField() {
								continue
							}
							got[fv.Name()] = true
							if !fl.In[n].Has("fork") {
								gated = false
							}
						}
					}
					var names []string
					for k := range got {
						names = append(names, k)
					}
					sort.Strings(names)
					label := fmt.Sprintf("%s%s drives {stateDB,localDB}.%s under ForkExecRollback", ex, fn, want[fn])
					if strings.Join(names, ",") == "localDB,stateDB" && gated {
						r.OK(label, r.W.Pos(f.Node().Pos()), "both sub-databases, both under the fork gate")
					} else {
						r.Fail(label, r.W.Pos(f.Node().Pos()), fmt.Sprintf("drives %v, all gated=%v", names, gated))
					}
				}
			}),
			rule("R11c", "fields dirtied by Set inside a transaction ⊆ fields cleaned by Rollback", 2, func(r *Run) {
				for _, ty := range []string{"executor.(*StateDB)", "executor.(*LocalDB)"} {
					dirtyClean(r, ty+".Set", ty+".Rollback", map[string]string{})
				}
			}),
			rule("R11d", "execTxOne merges the receipt only after Exec, checkKV, checkKeyAllow, execLocalSameTime succeeded", 6, func(r *Run) {
				sp := spec(errNil("exec-ok", ex+"Exec"), errNil("checkKV-ok", ex+"checkKV"), errNil("keyAllow-ok", ex+"checkKeyAllow"),
					errNil("localSameTime-ok", ex+"execLocalSameTime"), called("getSetKeys", "executor.(*StateDB).GetSetKeys"))
				need := []Fact{"exec-ok", "checkKV-ok", "keyAllow-ok", "localSameTime-ok"}
				core.Dominated{Fn: ex + "execTxOne", Spec: sp, Sink: core.StoreSink(r.W, "types.Receipt.KV"), Need: need, Min: 1}.Check(r)
				core.Dominated{Fn: ex + "execTxOne", Spec: sp, Sink: core.SuccessReturn(-1), Need: need, Min: 1}.Check(r)
			}),
			rule("R11f", "transaction-scoped bookkeeping of the state/local databases: who may write it, and it is read before it is reset", 8, func(r *Run) {
				// The rollback mark, the open-transaction flag and the remote-begin flag describe the
				// whole Begin..Commit/Rollback scope (a group); the per-member StartTx must not touch them.
				whoMayStoreField(r, "executor.LocalDB", "txkvs", []string{"Begin", "save"})
				whoMayStoreField(r, "executor.LocalDB", "hasbegin", []string{"Begin", "save", "resetTx"})
				whoMayStoreField(r, "executor.LocalDB", "intx", []string{"Begin", "resetTx"})
				whoMayStoreField(r, "executor.StateDB", "intx", []string{"Begin", "Commit", "resetTx"})
				// Rollback/Commit decide the remote rollback/commit from hasbegin and the buffer from
				// txkvs/intx: those reads must precede the reset of the same fields.
				for _, m := range []string{"Rollback", "Commit"} {
					for _, fld := range []string{"hasbegin", "intx", "txkvs"} {
						noReadAfterReset(r, "executor.(*LocalDB)."+m, "executor.LocalDB", fld)
					}
				}
				// the remote transaction is rolled back / committed iff it was begun
				core.Dominated{Fn: "executor.(*LocalDB).Rollback", Spec: &core.FlowSpec{Assume: assumeRecvField("hasbegin", core.True),
					Calls: []core.CallGuard{called("remote-rolled-back", "client.QueueProtocolAPI.LocalRollback")}},
					Sink: core.AnyReturn(), Need: []Fact{"remote-rolled-back"}, Min: 1}.Check(r)
				core.Dominated{Fn: "executor.(*LocalDB).Commit", Spec: &core.FlowSpec{Assume: assumeRecvField("hasbegin", core.True),
					Calls: []core.CallGuard{called("remote-committed", "client.QueueProtocolAPI.LocalCommit"), errNil("saved", "executor.(*LocalDB).save")}},
					Sink: core.SuccessReturn(-1), Need: []Fact{"saved"}, Min: 1}.Check(r)
			}),
			rule("R11e", "rejections inside the per-transaction checks are live", 3, func(r *Run) {
				core.LiveReturn{Fn: ex + "checkKV", Sentinels: []string{"types.ErrNotAllowMemSetKey"}}.Check(r)
				core.LiveReturn{Fn: ex + "checkKeyAllow", Sentinels: []string{"types.ErrNotAllowKey"}}.Check(r)
				core.LiveReturn{Fn: ex + "execLocalTx", Sentinels: []string{"types.ErrNotAllowMemSetLocalKey"}}.Check(r)
			}),
		},
	})
}

// dirtyClean decides the E8 dirty/clean rule: every receiver field that setFn
// mutates (assignment, append, or a mutating method call on the field) must be
// reset by cleanFn or a same-receiver method it calls.
func dirtyClean(r *Run, setFn, cleanFn string, except map[string]string) {
	sf, cf := r.Fn(setFn), r.Fn(cleanFn)
	if sf == nil || cf == nil {
		return
	}
	// the transaction flag of the receiver is assumed set: only mutations that
	// happen while a transaction is open are obligations
	assumeInTx := func(c *core.Ctx, e ast.Expr) core.Tri {
		if sel, ok := ast.Unparen(e).(*ast.SelectorExpr); ok && sel.Sel.Name == "intx" {
			if id, ok := ast.Unparen(sel.X).(*ast.Ident); ok && c.Info.ObjectOf(id) == c.F.Recv() {
				return core.True
			}
		}
		return core.Unknown
	}
	dirty := mutatedRecvFields(r.W, sf, 2, core.RunFlow(sf, &core.FlowSpec{Assume: assumeInTx}))
	clean := mutatedRecvFields(r.W, cf, 3, nil)
	var names []string
	for f := range dirty {
		names = append(names, f)
	}
	sort.Strings(names)
	for _, f := range names {
		label := fmt.Sprintf("%s dirties field %s ⇒ %s cleans it", setFn, f, cleanFn)
		if why, ok := except[f]; ok {
			r.Exception(label, why)
			r.OK(label, dirty[f], "frozen exception: "+why)
			continue
		}
		if _, ok := clean[f]; ok {
			r.OK(label, dirty[f], "cleaned at "+clean[f])
		} else {
			r.Fail(label, dirty[f], fmt.Sprintf("%s (and the receiver methods it calls) never resets field %s that %s mutates", cleanFn, f, setFn))
		}
	}
}

// mutatedRecvFields returns receiver fields mutated by f or by methods of the
// same receiver it calls (to the given depth): field → position.
func mutatedRecvFields(w *core.World, f *core.FuncInfo, depth int, fl *core.Flow) map[string]string {
	out := map[string]string{}
	recv := f.Recv()
	if recv == nil {
		return out
	}
	info := f.Info()
	isRecvField := func(e ast.Expr) (string, bool) {
		e = ast.Unparen(e)
		for {
			switch x := e.(type) {
			case *ast.IndexExpr:
				e = ast.Unparen(x.X)
				continue
			case *ast.SliceExpr:
				e = ast.Unparen(x.X)
				continue
			}
			break
		}
		sel, ok := e.(*ast.SelectorExpr)
		if !ok {
			return "", false
		}
		id, ok := ast.Unparen(sel.X).(*ast.Ident)
		if !ok || info.ObjectOf(id) != recv {
			return "", false
		}
		fv, ok := info.ObjectOf(sel.Sel).(*types.Var)
		if !ok || !fv.IsField() {
			return "", false
		}
		return fv.Name(), true
	}
	visit := func(x ast.Node) bool {
		switch s := x.(type) {
		case *ast.AssignStmt:
			for i, l := range s.Lhs {
				if len(s.Rhs) == len(s.Lhs) {
					// x.f = x.f is not a mutation (nor a reset)
					if rn, rok := isRecvField(s.Rhs[i]); rok {
						if ln, lok := isRecvField(l); lok && ln == rn {
							if _, plain := ast.Unparen(s.Rhs[i]).(*ast.SelectorExpr); plain {
								continue
							}
						}
					}
				}
				if n, ok := isRecvField(l); ok {
					if _, seen := out[n]; !seen {
						out[n] = w.Pos(l.Pos())
					}
				}
			}
		case *ast.IncDecStmt:
			if n, ok := isRecvField(s.X); ok {
				out[n] = w.Pos(s.Pos())
			}
		case *ast.CallExpr:
			sel, ok := ast.Unparen(s.Fun).(*ast.SelectorExpr)
			if !ok {
				return true
			}
			// method call on a receiver field: l.txcache.Set(..), l.cache.Reset()
			if n, ok := isRecvField(sel.X); ok {
				if fn := core.Callee(info, s); fn != nil && mutatingMethod(fn) {
					if _, seen := out[n]; !seen {
						out[n] = w.Pos(s.Pos())
					}
				}
				return true
			}
			// call of another method on the same receiver
			if id, ok := ast.Unparen(sel.X).(*ast.Ident); ok && info.ObjectOf(id) == recv && depth > 0 {
				if callee := w.FuncOf(core.Callee(info, s)); callee != nil {
					for k, v := range mutatedRecvFields(w, callee, depth-1, nil) {
						if _, seen := out[k]; !seen {
							out[k] = v
						}
					}
				}
			}
		}
		return true
	}
	if fl != nil {
		for _, n := range fl.G.Nodes {
			if fl.Live(n) && n.Ast != nil {
				core.InspectNode(n.Ast, visit)
			}
		}
	} else {
		core.InspectBody(f, visit)
	}
	return out
}

// mutatingMethod: conservative name-independent test — a method with a pointer
// receiver (or on a map/slice type) that is not a pure getter by signature
// (getter = has results and no parameters beyond a key).  We list the accessor
// names used on cache fields explicitly instead of guessing.
func mutatingMethod(fn *types.Func) bool {
	switch fn.Name() {
	case "Set", "Reset", "Merge", "Delete", "Push", "Remove", "Add", "Insert", "Store", "PushBack", "PushFront", "Init", "MoveToFront", "Put":
		return true
	}
	return false
}
