package props

import (
	"fmt"
	"go/ast"
	"go/token"
	"go/types"
	"strings"

	"verif/sa/core"
)

const (
	dbp = "common/db."
	lh  = "common/db.(*ListHelper)."
	ldb = "common/db.(*LocalDB)."
	smv = "common/db.(*SimpleMVCC)."
	tbl = "common/db/table.(*Table)."
)

// recvFieldCall: call of method m on receiver field f (l.txcache.Get(...)).
func recvFieldCall(field string) func(c *core.Ctx, call *ast.CallExpr) bool {
	return func(c *core.Ctx, call *ast.CallExpr) bool {
		sel, ok := ast.Unparen(call.Fun).(*ast.SelectorExpr)
		if !ok {
			return false
		}
		inner, ok := ast.Unparen(sel.X).(*ast.SelectorExpr)
		if !ok || inner.Sel.Name != field {
			return false
		}
		id, ok := ast.Unparen(inner.X).(*ast.Ident)
		return ok && c.Info.ObjectOf(id) == c.F.Recv()
	}
}

func init() {
	// ------------------------------------------------------------------ C07
	register(&core.Property{
		ID:       "C07",
		Title:    "Paged listing returns every live entry exactly once",
		Packages: []string{"common/db"},
		Explanation: "Decides R07a-R07c: in every scan that serves List/PrefixCount/IteratorCallback an entry is collected or counted only after the tombstone test said it is live, within the same iteration, and the page-size test follows each collection; " +
			"the start key is skipped only when the iterator actually stands on it; the merged view of the layered database is built from the same ordered layer list for listing and counting.",
		NotCovered: "merged-iterator de-duplication and seek landing positions (V); nextKeyValue's skip loop (two uncorrelated Valid() calls).",
		Rules: []core.Rule{
			rule("R07a", "tombstones are skipped before anything is collected or counted", 8, func(r *Run) {
				live := isFalse("live-entry", dbp+"isdeleted")
				for _, x := range []struct {
					fn   string
					sink core.SinkPred
				}{
					{lh + "IteratorScan", core.CallSink(dbp + "(*collector).collect")},
					{lh + "iteratorScan", core.CallSink(dbp + "(*collector).collect")},
					{lh + "PrefixCount", core.SinkPred{Label: "count++", Match: func(fl *core.Flow, n *core.GNode) bool {
						inc, ok := n.Ast.(*ast.IncDecStmt)
						return ok && inc.Tok == token.INC && n.Block.Kind.String() != "ForPost"
					}}},
					{lh + "IteratorCallback", core.SinkPred{Label: "callback invocation", Match: func(fl *core.Flow, n *core.GNode) bool {
						found := false
						core.InspectNode(n.Ast, func(y ast.Node) bool {
							if call, ok := y.(*ast.CallExpr); ok {
								if id, ok := ast.Unparen(call.Fun).(*ast.Ident); ok && core.IsObj("param:4")(fl.C, id) {
									found = true
								}
							}
							return true
						})
						return found
					}}},
				} {
					core.Dominated{Fn: x.fn, Spec: spec(live), Sink: x.sink, Need: []Fact{"live-entry"}, Min: 1}.Check(r)
					core.CallArgs{Fn: x.fn, Callee: []string{dbp + "isdeleted"}, What: "tests the value the iterator stands on",
						Args: map[int]core.ExprPred{0: core.CallsAny(dbp + "Iterator.Value")}, Min: 1}.Check(r)
				}
				// page size: i == count ends the scan, right after a collection
				for _, fn := range []string{lh + "IteratorScan", lh + "iteratorScan", lh + "IteratorCallback"} {
					core.HasAtom{Fn: fn, Name: "collected == count ends the page", L: func(c *core.Ctx, e ast.Expr) bool {
						id, ok := ast.Unparen(e).(*ast.Ident)
						return ok && !core.Mentions("param:1", "param:2", "param:3")(c, id) && c.Info.TypeOf(e) != nil && c.Info.TypeOf(e).String() == "int32"
					}, R: func(c *core.Ctx, e ast.Expr) bool {
						id, ok := ast.Unparen(e).(*ast.Ident)
						if !ok {
							return false
						}
						v, isVar := c.Info.ObjectOf(id).(*types.Var)
						return isVar && v.Name() == c.F.Sig().Params().At(indexOfCountParam(c.F)).Name()
					}, Rel: token.EQL}.Check(r)
				}
			}),
			rule("R07d", "the single-step lookup skips every tombstone it meets", 2, func(r *Run) {
				// nextKeyValue (count==1, ListSeek): decided with Valid() assumed true throughout — the
				// iterator is not moved between the skip loop and the emptiness test, so both Valid() calls
				// agree; what is returned must be an entry the tombstone test has just called live, and every
				// move of the iterator invalidates that knowledge.
				fn := lh + "nextKeyValue"
				moves := core.Names(dbp+"IteratorSeeker.Next", dbp+"IteratorSeeker.Seek", dbp+"IteratorSeeker.Rewind")
				sp := &core.FlowSpec{
					Assume: func(c *core.Ctx, e ast.Expr) core.Tri {
						if core.CallAtom([]string{dbp + "Iterator.Valid"})(c, e) {
							return core.True
						}
						return core.Unknown
					},
					Calls: []core.CallGuard{isFalse("live-entry", dbp+"isdeleted")},
					Nodes: []core.NodeGen{{Fact: "live-entry", Kill: func(c *core.Ctx, n *core.GNode) bool {
						for _, call := range core.CallsIn(n.Ast) {
							if moves.Has(core.Callee(c.Info, call)) {
								return true
							}
						}
						return false
					}}},
				}
				core.Dominated{Fn: fn, Spec: sp, Sink: core.SinkPred{Label: "return of a found entry", Match: func(fl *core.Flow, n *core.GNode) bool {
					rs, ok := n.Ast.(*ast.ReturnStmt)
					return ok && len(rs.Results) == 1 && !isNilLit(fl.C, rs.Results[0])
				}}, Need: []Fact{"live-entry"}, Min: 1}.Check(r)
				core.CallArgs{Fn: fn, Callee: []string{dbp + "isdeleted"}, What: "tests the value the iterator stands on",
					Args: map[int]core.ExprPred{0: core.CallsAny(dbp + "Iterator.Value")}, Min: 1}.Check(r)
			}),
			iterBufferRule("R07f", 5, "common/db"),
			rule("R07e", "the page-full test is only evaluated for a step that collected an entry", 3, func(r *Run) {
				// `collected == count` evaluated after a skipped tombstone ends a page early (count 0 = unlimited
				// relies on the counter never being compared while it is still 0).
				isCounter := func(c *core.Ctx, e ast.Expr) bool {
					id, ok := ast.Unparen(e).(*ast.Ident)
					return ok && !core.Mentions("param:1", "param:2", "param:3")(c, id) && c.Info.TypeOf(e) != nil && c.Info.TypeOf(e).String() == "int32"
				}
				moves := core.Names(dbp+"IteratorSeeker.Next", dbp+"IteratorSeeker.Seek", dbp+"IteratorSeeker.Rewind")
				for _, fn := range []string{lh + "IteratorScan", lh + "iteratorScan", lh + "IteratorCallback"} {
					f := r.Fn(fn)
					if f == nil {
						continue
					}
					cnt := f.Sig().Params().At(indexOfCountParam(f))
					isCount := func(c *core.Ctx, e ast.Expr) bool {
						id, ok := ast.Unparen(e).(*ast.Ident)
						return ok && c.Info.ObjectOf(id) == types.Object(cnt)
					}
					sp := &core.FlowSpec{Nodes: []core.NodeGen{{Fact: "counted-this-step",
						Gen: func(c *core.Ctx, n *core.GNode) bool {
							inc, ok := n.Ast.(*ast.IncDecStmt)
							return ok && inc.Tok == token.INC && isCounter(c, inc.X)
						},
						Kill: func(c *core.Ctx, n *core.GNode) bool {
							for _, call := range core.CallsIn(n.Ast) {
								if moves.Has(core.Callee(c.Info, call)) {
									return true
								}
							}
							return false
						}}}}
					core.Dominated{Fn: fn, Spec: sp, Sink: core.SinkPred{Label: "page-full test", Match: func(fl *core.Flow, n *core.GNode) bool {
						e, ok := n.Ast.(ast.Expr)
						if !ok {
							return false
						}
						_, isCmp := core.CmpAtom(fl.C, e, isCounter, isCount)
						return isCmp
					}}, Need: []Fact{"counted-this-step"}, Min: 1}.Check(r)
				}
			}),
			rule("R07b", "continue after the last returned key", 3, func(r *Run) {
				fn := lh + "IteratorScan"
				core.Dominated{Fn: fn, Spec: &core.FlowSpec{Conds: []core.CondGuard{core.BoolGuard("on-start-key", core.CallAtomSym("bytes.Equal", core.CallsAny(dbp+"Iterator.Key"), core.IsObj("param:1")), true)}},
					Sink: core.SinkPred{Label: "skip step it.Next() before the loop", Match: func(fl *core.Flow, n *core.GNode) bool {
						es, ok := n.Ast.(*ast.ExprStmt)
						return ok && n.Block.Kind.String() != "ForPost" && core.CallAtom([]string{dbp + "IteratorSeeker.Next"})(fl.C, es.X)
					}}, Need: []Fact{"on-start-key"}, Min: 1}.Check(r)
				core.CallArgs{Fn: fn, Callee: []string{dbp + "IteratorSeeker.Seek"}, What: "seeks to the caller's last key", Args: map[int]core.ExprPred{0: core.IsObj("param:1")}, Min: 1}.Check(r)
				core.CallArgs{Fn: fn, Callee: []string{dbp + "IteratorDB.Iterator"}, What: "iterates the caller's prefix in the requested direction",
					Args: map[int]core.ExprPred{0: core.IsObj("param:0"), 2: core.FromCall(0, dbp+"isReverse")}, Min: 1}.Check(r)
			}),
			rule("R07c", "list and count see the same ordered layers", 2, func(r *Run) {
				layers := func(fn string) (string, *core.FuncInfo) {
					f := r.Fn(fn)
					if f == nil {
						return "", nil
					}
					// layerOrder also understands a loop over a literal and a helper shared by both callers
					return strings.Join(layerOrder(f), " > "), f
				}
				a, fa := layers(ldb + "List")
				b, fb := layers(ldb + "PrefixCount")
				if fa != nil && fb != nil {
					label := "common/db.LocalDB List and PrefixCount merge the same layers in the same priority order"
					if a == b && a == "$recv.txcache > $recv.cache > $recv.maindb" {
						r.OK(label, r.W.Pos(fa.Node().Pos()), a)
					} else {
						r.Fail(label, r.W.Pos(fb.Node().Pos()), fmt.Sprintf("List: %s — PrefixCount: %s (required: transaction overlay, committed overlay, base)", a, b))
					}
				}
				core.CallArgs{Fn: ldb + "List", Callee: []string{lh + "List"}, What: "parameters passed through", Args: map[int]core.ExprPred{0: core.IsObj("param:0"), 1: core.IsObj("param:1"), 2: core.IsObj("param:2"), 3: core.IsObj("param:3")}, Min: 1}.Check(r)
			}),
		},
	})

	// ------------------------------------------------------------------ C08
	register(&core.Property{
		ID:       "C08",
		Title:    "Layered local database obeys nested-transaction semantics",
		Packages: []string{"common/db"},
		Explanation: "Decides R08a-R08d: the overlay fields are accessed only under the database mutex (write lock for assignments), propagated over callers; what Set dirties inside a transaction is what Rollback cleans, and Commit copies every overlay entry into the committed layer before resetting; " +
			"a read consults the transaction overlay (only while a transaction is open), then the committed overlay, then the base, in that order; an empty value hides older values.",
		NotCovered: "agreement of list/count with point reads at every step (V: merged iteration).",
		Rules: []core.Rule{
			rule("R08a", "overlay state accessed under the mutex", 12, func(r *Run) {
				guarded := map[string]bool{"txcache": true, "cache": true, "intx": true}
				core.LockGuard{Type: dbp + "LocalDB", Mutex: "mu", Depth: 3, Min: 12,
					Access: func(c *core.Ctx, sel *ast.SelectorExpr, parents []ast.Node) (bool, bool, string) {
						if !guarded[sel.Sel.Name] {
							return false, false, ""
						}
						write := false
						if len(parents) > 0 {
							if as, ok := parents[len(parents)-1].(*ast.AssignStmt); ok {
								for _, l := range as.Lhs {
									if l == ast.Expr(sel) {
										write = true
									}
								}
							}
						}
						return true, write, sel.Sel.Name
					},
					Exempt:       map[string]string{dbp + "NewLocalDB": "constructor"},
					ExemptAccess: map[string]string{},
				}.Check(r)
			}),
			rule("R08b", "Set dirties ⊆ Rollback cleans; Commit merges everything then resets", 5, func(r *Run) {
				dirtyClean(r, ldb+"Set", ldb+"Rollback", map[string]string{})
				core.Dominated{Fn: ldb + "Commit", Spec: spec(called("reset", ldb+"resetTx")), Sink: core.AnyReturn(), Need: []Fact{"reset"}, Min: 1}.Check(r)
				core.NotAfter{Fn: ldb + "Commit", Early: []string{dbp + "KV.Set"}, Late: []string{ldb + "resetTx"}, Name: "the overlay is merged before it is reset", Min: 1,
					EarlyOK: recvFieldCall("cache")}.Check(r)
				core.CallArgs{Fn: ldb + "Commit", Callee: []string{dbp + "KV.Set"}, What: "copies the overlay entry the iterator stands on",
					Args: map[int]core.ExprPred{0: core.CallsAny(dbp + "Iterator.Key"), 1: core.CallsAny(dbp + "Iterator.Value")}, Min: 1}.Check(r)
				core.CallArgs{Fn: ldb + "Commit", Callee: []string{dbp + "IteratorDB.Iterator"}, What: "iterates the whole transaction overlay",
					Args: map[int]core.ExprPred{0: isNilLit, 1: isNilLit}, Min: 1}.Check(r)
			}),
			rule("R08c", "read priority: open transaction, committed overlay, base", 5, func(r *Run) {
				fn := ldb + "get"
				get := []string{dbp + "KV.Get"}
				core.NotAfter{Fn: fn, Early: get, Late: get, EarlyOK: recvFieldCall("txcache"), LateOK: recvFieldCall("cache"), Name: "the transaction overlay is consulted before the committed overlay", Min: 1}.Check(r)
				core.NotAfter{Fn: fn, Early: get, Late: get, EarlyOK: recvFieldCall("cache"), LateOK: recvFieldCall("maindb"), Name: "the committed overlay is consulted before the base", Min: 1}.Check(r)
				core.Dominated{Fn: fn, Spec: &core.FlowSpec{Conds: []core.CondGuard{core.BoolGuard("in-transaction", func(c *core.Ctx, e ast.Expr) bool {
					sel, ok := ast.Unparen(e).(*ast.SelectorExpr)
					return ok && sel.Sel.Name == "intx"
				}, true)}}, Sink: core.CallSinkWhere("txcache.Get", get, recvFieldCall("txcache")), Need: []Fact{"in-transaction"}, Min: 1}.Check(r)
				// a hit in an upper layer ends the lookup: with the upper Get succeeding the lower Get is unreachable
				core.FailStops{Fn: fn, Spec: &core.FlowSpec{Assume: assumeRecvField("intx", core.True)}, Callee: get, ArgOK: recvFieldCall("txcache"), Fail: core.OErrNil, Idx: -1,
					Forbidden: core.CallSinkWhere("lower-layer Get", get, func(c *core.Ctx, call *ast.CallExpr) bool { return recvFieldCall("cache")(c, call) || recvFieldCall("maindb")(c, call) }), Min: 1, Name: "transaction overlay hit"}.Check(r)
				core.FailStops{Fn: fn, Callee: get, ArgOK: recvFieldCall("cache"), Fail: core.OErrNil, Idx: -1,
					Forbidden: core.CallSinkWhere("base Get", get, recvFieldCall("maindb")), Min: 1, Name: "committed overlay hit"}.Check(r)
			}),
			rule("R08d", "an empty value hides older values; Set goes to the open transaction", 3, func(r *Run) {
				core.RejectWhen{Fn: ldb + "Get", Name: "tombstone read", BoolAtom: core.CallAtom([]string{dbp + "isdeleted"}, core.FromCall(0, ldb+"get")), RejectVal: true, Sentinel: dbp + "ErrNotFoundInDb"}.Check(r)
				core.Dominated{Fn: ldb + "Set", Spec: &core.FlowSpec{Conds: []core.CondGuard{core.BoolGuard("in-transaction", func(c *core.Ctx, e ast.Expr) bool {
					sel, ok := ast.Unparen(e).(*ast.SelectorExpr)
					return ok && sel.Sel.Name == "intx"
				}, true), core.BoolGuard("no-transaction", func(c *core.Ctx, e ast.Expr) bool {
					sel, ok := ast.Unparen(e).(*ast.SelectorExpr)
					return ok && sel.Sel.Name == "intx"
				}, false)}}, Sink: core.CallSinkWhere("setdb2(l.txcache…)", kvSetters(r), func(c *core.Ctx, call *ast.CallExpr) bool {
					return len(call.Args) == 3 && core.Mentions(dbp+"LocalDB.txcache")(c, call.Args[0])
				}), Need: []Fact{"in-transaction"}, Min: 1}.Check(r)
				core.Dominated{Fn: ldb + "Set", Spec: &core.FlowSpec{Conds: []core.CondGuard{core.BoolGuard("no-transaction", func(c *core.Ctx, e ast.Expr) bool {
					sel, ok := ast.Unparen(e).(*ast.SelectorExpr)
					return ok && sel.Sel.Name == "intx"
				}, false)}}, Sink: core.CallSinkWhere("setdb2(l.cache…)", kvSetters(r), func(c *core.Ctx, call *ast.CallExpr) bool {
					return len(call.Args) == 3 && core.Mentions(dbp+"LocalDB.cache")(c, call.Args[0])
				}), Need: []Fact{"no-transaction"}, Min: 1}.Check(r)
			}),
		},
	})

	// ------------------------------------------------------------------ C09
	register(&core.Property{
		ID:       "C09",
		Title:    "Versioned reads return the right key at the right version",
		Packages: []string{"common/db", "types"},
		Explanation: "Thin claim, structural clauses (R09a-R09c): the versioned read, add and remove keep live, correctly oriented rejections (found version above the requested one; previous-version hash mismatch; removing a non-top version); " +
			"adding a version records every written key in the per-version key list and writes each value under the version-suffixed key, removal derives its deletions from that list with the same key constructor, and the version-meta records are symmetric; " +
			"the collector deletes an entry only when its version is at most the requested one and it is not the first (newest) entry of its key group.",
		NotCovered: "that the key encoding never confuses a key with a key that extends it, and the reverse-seek landing position (V: runtime key bytes).",
		Rules: []core.Rule{
			rule("R09a", "live, oriented rejections", 7, func(r *Run) {
				core.RejectWhen{Fn: smv + "GetV", Name: "found version > requested version", L: core.FromCall(0, dbp+"getVersion"), R: core.IsObj("param:1"), Rel: token.GTR, Sentinel: "types.ErrVersion"}.Check(r)
				verPos := func(c *core.Ctx, e ast.Expr) core.Tri {
					return core.AssumeRel(core.IsObj("param:3"), token.GTR, core.IsConstInt(0), core.True)(c, e)
				}
				core.RejectWhen{Fn: smv + "AddMVCC", Spec: &core.FlowSpec{Assume: verPos}, Name: "no previous hash given", L: core.IsObj("param:2"), R: isNilLit, Rel: token.EQL, Sentinel: "types.ErrPrevVersion"}.Check(r)
				core.RejectWhen{Fn: smv + "AddMVCC", Spec: &core.FlowSpec{Assume: verPos}, Name: "previous version's hash differs", BoolAtom: core.CallAtomSym("bytes.Equal", core.FromCall(0, smv+"GetVersionHash"), core.IsObj("param:2")), RejectVal: false, Sentinel: "types.ErrPrevVersion"}.Check(r)
				core.CallArgs{Fn: smv + "AddMVCC", Callee: []string{smv + "GetVersionHash"}, What: "looks up version-1", Args: map[int]core.ExprPred{0: func(c *core.Ctx, e ast.Expr) bool {
					if core.MinusOne(core.IsObj("param:3"))(c, e) {
						return true
					}
					id, ok := ast.Unparen(e).(*ast.Ident)
					if !ok {
						return false
					}
					for _, d := range c.DefsOf(c.Info.ObjectOf(id)) {
						if d.Rhs != nil && core.MinusOne(core.IsObj("param:3"))(c, d.Rhs) {
							return true
						}
					}
					return false
				}}, Min: 1}.Check(r)
				strict := &core.FlowSpec{AssumeObj: map[types.Object]core.Tri{}}
				if f := r.W.Func(smv + "delMVCC"); f != nil {
					strict.AssumeObj[f.Param(3)] = core.True
				}
				core.RejectWhen{Fn: smv + "delMVCC", Spec: strict, Name: "not the top version (strict)", L: core.FromCall(0, smv+"GetMaxVersion"), R: core.IsObj("param:2"), Rel: token.NEQ, Sentinel: "types.ErrCanOnlyDelTopVersion"}.Check(r)
				core.RejectWhen{Fn: smv + "delMVCC", Spec: strict, Name: "hash does not belong to the version", L: core.FromCall(0, smv+"GetVersion"), R: core.IsObj("param:2"), Rel: token.NEQ, Sentinel: "types.ErrVersion"}.Check(r)
				core.RejectWhen{Fn: smv + "SetVersionKV", Name: "negative version", L: core.IsObj("param:1"), R: core.IsConstInt(0), Rel: token.LSS, Sentinel: "types.ErrVersion"}.Check(r)
			}),
			rule("R09b", "add records what remove deletes, with the same key constructor", 7, func(r *Run) {
				symmetricPairD(r, smv+"GetSaveKV", smv+"GetDelKV", nil, 2) // constructors compared by name: the two helpers have different parameter lists
				delValuesNil(r, smv+"GetDelKV")
				core.CallArgs{Fn: smv + "DelVersionKV", Callee: []string{smv + "SetVersionKV"}, What: "built from the add-side records", Args: map[int]core.ExprPred{0: core.IsObj("param:0"), 1: core.IsObj("param:1")}, Min: 1}.Check(r)
				delValuesNil(r, smv+"DelVersionKV", smv+"SetVersionKV")
				// AddMVCC: every kv recorded in the key list and written under the versioned key
				core.Dominated{Fn: smv + "AddMVCC", Spec: &core.FlowSpec{
					Calls: []core.CallGuard{errNil("value-written", smv+"GetSaveKV")},
					Nodes: []core.NodeGen{{Fact: "key-listed", Gen: func(c *core.Ctx, n *core.GNode) bool {
						as, ok := n.Ast.(*ast.AssignStmt)
						return ok && len(core.StoresTo(c, as, "types.LocalDBSet.KV")) > 0
					}}},
					Foralls: []core.ForallGuard{{Fact: "all-values-written", Inner: "value-written", Loop: core.CountsOver(core.IsObj("param:0"), 0)},
						{Fact: "all-keys-listed", Inner: "key-listed", Loop: core.CountsOver(core.IsObj("param:0"), 0)}},
				}, Sink: core.SuccessReturn(-1), Need: []Fact{"all-values-written", "all-keys-listed"}, Min: 1}.Check(r)
				core.CallArgs{Fn: smv + "AddMVCC", Callee: []string{smv + "GetSaveKV"}, What: "key, value of the element at the new version",
					Args: map[int]core.ExprPred{0: core.Mentions("types.KeyValue.Key"), 1: core.Mentions("types.KeyValue.Value"), 2: core.IsObj("param:3")}, Min: 1}.Check(r)
				core.CallArgs{Fn: smv + "AddMVCC", Callee: []string{dbp + "getVersionKeyListKey"}, What: "key list stored under this version", Args: map[int]core.ExprPred{0: core.IsObj("param:3")}, Min: 1}.Check(r)
				core.CallArgs{Fn: smv + "GetDelKVList", Callee: []string{dbp + "getVersionKeyListKey"}, What: "key list of the version being removed", Args: map[int]core.ExprPred{0: core.IsObj("param:0")}, Min: 1}.Check(r)
				core.CallArgs{Fn: smv + "DelMVCC", Callee: []string{smv + "GetDelKVList"}, What: "for the version being removed", Args: map[int]core.ExprPred{0: core.IsObj("param:1")}, Min: 1}.Check(r)
				core.Dominated{Fn: smv + "delMVCC", Spec: &core.FlowSpec{Calls: []core.CallGuard{errNil("deleted", smv+"GetDelKV")},
					Foralls: []core.ForallGuard{{Fact: "all-deleted", Inner: "deleted", Loop: core.RangesOver(core.IsObj("param:0"))}}},
					Sink: core.SuccessReturn(-1), Need: []Fact{"all-deleted"}, Min: 1}.Check(r)
				core.CallArgs{Fn: smv + "delMVCC", Callee: []string{smv + "GetDelKV"}, What: "listed key at the removed version", Args: map[int]core.ExprPred{0: core.Mentions("types.KeyValue.Key"), 1: core.IsObj("param:2")}, Min: 1}.Check(r)
			}),
			iterBufferRule("R09d", 5, "common/db"),
			rule("R09c", "garbage collection keeps the newest entry of every key and everything above the requested version", 3, func(r *Run) {
				fn := "common/db.(*MVCCHelper).Trash"
				core.Dominated{Fn: fn, Spec: &core.FlowSpec{Conds: []core.CondGuard{
					core.RelGuard("at-most-requested", core.FromCall(0, dbp+"getVersion"), token.LEQ, core.IsObj("param:0")),
					core.BoolGuard("not-newest-of-group", core.CallAtom([]string{"bytes.HasPrefix"}, core.CallsAny(dbp+"Iterator.Key")), true),
				}}, Sink: core.CallSink(dbp + "DB.Delete"), Need: []Fact{"at-most-requested", "not-newest-of-group"}, Min: 1}.Check(r)
				core.HasAtom{Fn: fn, Name: "v <= version (inclusive boundary)", L: core.FromCall(0, dbp+"getVersion"), R: core.IsObj("param:0"), Rel: token.LEQ}.Check(r)
				core.CallArgs{Fn: fn, Callee: []string{dbp + "IteratorDB.Iterator"}, What: "walks the data keys newest-version first", Args: map[int]core.ExprPred{0: core.IsObj(dbp + "mvccData"), 2: func(c *core.Ctx, e ast.Expr) bool {
					tv, ok := c.Info.Types[e]
					return ok && tv.Value != nil && tv.Value.String() == "true"
				}}, Min: 1}.Check(r)
			}),
		},
	})

	// ------------------------------------------------------------------ C10
	register(&core.Property{
		ID:       "C10",
		Title:    "Indexed tables keep rows and indexes consistent",
		Packages: []string{"common/db/table", "util", "types"},
		Explanation: "Thin claim, symmetry clauses (R10a-R10c): adding and deleting a row write exactly the same data and index keys (same resolved key constructors over the same arguments), an update emits per modified index one deletion of the old key and one insertion of the new key built by the same constructor; " +
			"Add refuses a primary key that is present (live rejection keyed on the row lookup); Save emits rows in first-operation order over a slice and never iterates the row map.",
		NotCovered: "the combination of several buffered operations on one key before a save (e.g. Del after a cached Update uses the new data for the index keys — noticed by reading, not decidable by these rules) and index lookups (V).",
		Rules: []core.Rule{
			rule("R10a", "add/delete/update write symmetric keys", 5, func(r *Run) {
				symmetricPair(r, tbl+"addRow", tbl+"delRow", nil)
				delValuesNil(r, tbl+"delRow")
				for _, fn := range []string{tbl + "addRow", tbl + "delRow", tbl + "updateRow"} {
					f := r.Fn(fn)
					if f == nil {
						continue
					}
					c := f.Ctx()
					ok := false
					for _, lp := range core.LoopsIn(f) {
						if core.RangesOver(core.Mentions("common/db/table.Option.Index"))(c, lp) {
							ok = true
						}
					}
					label := fn + " covers every configured index"
					if ok {
						r.OK(label, r.W.Pos(f.Node().Pos()), "range over opt.Index")
					} else {
						r.Fail(label, r.W.Pos(f.Node().Pos()), "no loop over the configured indexes")
					}
				}
				// updateRow: delete(old key) + set(new key) per modified index
				f := r.Fn(tbl + "updateRow")
				if f != nil {
					c := f.Ctx()
					oldKey := core.FromCall(1, tbl+"getModify")
					newKey := core.FromCall(0, tbl+"getModify")
					var delOld, addNew bool
					core.InspectBody(f, func(x ast.Node) bool {
						cl, ok := x.(*ast.CompositeLit)
						if !ok {
							return true
						}
						var key, val ast.Expr
						for _, el := range cl.Elts {
							if kv, ok := el.(*ast.KeyValueExpr); ok {
								if id, ok := kv.Key.(*ast.Ident); ok {
									if id.Name == "Key" {
										key = kv.Value
									} else if id.Name == "Value" {
										val = kv.Value
									}
								}
							}
						}
						call, ok := ast.Unparen(key).(*ast.CallExpr)
						if key == nil || !ok || core.ShortName(core.Callee(c.Info, call)) != tbl+"getIndexKey" || len(call.Args) != 3 {
							return true
						}
						if oldKey(c, call.Args[1]) && val == nil {
							delOld = true
						}
						if newKey(c, call.Args[1]) && val != nil && core.Mentions("common/db/table.Row.Primary")(c, val) {
							addNew = true
						}
						return true
					})
					label := tbl + "updateRow replaces a modified index entry: delete old key, insert new key → primary"
					if delOld && addNew {
						r.OK(label, r.W.Pos(f.Node().Pos()), "both records built by getIndexKey")
					} else {
						r.Fail(label, r.W.Pos(f.Node().Pos()), fmt.Sprintf("deleteOld=%v insertNew=%v: a stale or missing index entry would result", delOld, addNew))
					}
					core.Dominated{Fn: tbl + "updateRow", Spec: spec(isTrue("modified", tbl+"getModify")), Sink: core.SinkPred{Label: "index record emission", Match: func(fl *core.Flow, n *core.GNode) bool {
						found := false
						core.InspectNode(n.Ast, func(y ast.Node) bool {
							if e, ok := y.(ast.Expr); ok && core.CallAtom([]string{tbl + "getIndexKey"})(fl.C, e) {
								found = true
							}
							return true
						})
						return found
					}}, Min: 2}.Check(r)
				}
				// getModify: "not modified" exactly when old and new index values are byte-equal
				core.Dominated{Fn: tbl + "getModify", Spec: &core.FlowSpec{Conds: []core.CondGuard{core.BoolGuard("index-values-differ", core.CallAtomSym("bytes.Equal", core.FromCall(0, tbl+"index"), core.FromCall(0, tbl+"index")), false)}},
					Sink: core.SinkPred{Label: "return …, true, nil", Match: func(fl *core.Flow, n *core.GNode) bool {
						rs, ok := n.Ast.(*ast.ReturnStmt)
						if !ok || len(rs.Results) != 4 {
							return false
						}
						tv, ok := fl.C.Info.Types[rs.Results[2]]
						return ok && tv.Value != nil && tv.Value.String() == "true"
					}}, Need: []Fact{"index-values-differ"}, Min: 1}.Check(r)
			}),
			rule("R10b", "Add refuses a present primary key", 3, func(r *Run) {
				core.RejectWhen{Fn: tbl + "Add", Name: "row lookup did not say not-found", L: core.MayBeFromCall(2, tbl+"findRow"), R: core.IsObj("types.ErrNotFound"), Rel: token.NEQ, Sentinel: "common/db/table.ErrDupPrimaryKey"}.Check(r)
				core.CallArgs{Fn: tbl + "Add", Callee: []string{tbl + "findRow"}, What: "looks up the row's own primary key", Args: map[int]core.ExprPred{0: core.FromCall(0, tbl+"primaryKey")}, Min: 1}.Check(r)
				core.FailStops{Fn: tbl + "Add", Callee: []string{tbl + "checkIndex"}, Fail: core.OErrNonNil, Idx: -1, Forbidden: core.CallSink(tbl + "addRowCache"), Min: 1, Name: "index check error"}.Check(r)
			}),
			rule("R10c", "Save emits rows in operation order", 3, func(r *Run) {
				f := r.Fn(tbl + "Save")
				if f == nil {
					return
				}
				c := f.Ctx()
				overSlice, overMap := false, false
				core.InspectBody(f, func(x ast.Node) bool {
					rs, ok := x.(*ast.RangeStmt)
					if !ok {
						return true
					}
					if core.Mentions("common/db/table.Table.rows")(c, rs.X) {
						overSlice = true
					}
					if _, isMap := c.Info.TypeOf(rs.X).Underlying().(*types.Map); isMap {
						overMap = true
					}
					return true
				})
				label := tbl + "Save walks the ordered row list, never the row map"
				if overSlice && !overMap {
					r.OK(label, r.W.Pos(f.Node().Pos()), "range table.rows")
				} else {
					r.Fail(label, r.W.Pos(f.Node().Pos()), fmt.Sprintf("rangesRows=%v rangesMap=%v", overSlice, overMap))
				}
				core.FailStops{Fn: tbl + "Save", Callee: []string{tbl + "saveRow"}, Fail: core.OErrNonNil, Idx: -1, Forbidden: core.SuccessReturn(-1), Min: 1, Name: "row save error"}.Check(r)
				core.CallArgs{Fn: tbl + "Save", Callee: []string{"util.DelDupKey"}, What: "duplicates collapse in first-seen order over the emitted list", Args: map[int]core.ExprPred{0: func(c *core.Ctx, e ast.Expr) bool {
					id, ok := ast.Unparen(e).(*ast.Ident)
					return ok && c.Info.ObjectOf(id) == c.F.Sig().Results().At(0)
				}}, Min: 1}.Check(r)
			}),
		},
	})
}

// indexOfCountParam finds the int32 parameter named like a count in scan
// helpers (the parameter right before `direction`, or the only int32 besides it).
func indexOfCountParam(f *core.FuncInfo) int {
	ps := f.Sig().Params()
	for i := 0; i < ps.Len(); i++ {
		if ps.At(i).Name() == "count" {
			return i
		}
	}
	return 0
}
