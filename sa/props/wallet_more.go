package props

import (
	"fmt"
	"go/ast"
	"go/token"
	"go/types"

	"verif/sa/core"
)

// sliceRoots: the variables whose backing array the slice expression e may share
// (through slicing and single-step local definitions).
func sliceRoots(c *core.Ctx, e ast.Expr, depth int, out map[types.Object]bool) {
	switch x := ast.Unparen(e).(type) {
	case *ast.SliceExpr:
		sliceRoots(c, x.X, depth, out)
	case *ast.Ident:
		o := c.Info.ObjectOf(x)
		if o == nil {
			return
		}
		out[o] = true
		if depth == 0 {
			return
		}
		for _, d := range c.DefsOf(o) {
			if d.Rhs == nil {
				continue
			}
			switch r := ast.Unparen(d.Rhs).(type) {
			case *ast.SliceExpr, *ast.Ident:
				sliceRoots(c, r.(ast.Expr), depth-1, out)
			}
		}
	}
}

func init() {
	extend("C37", "R37e (added after a seeded change was missed): an authenticated decryption attempt never writes into the storage of its own input while that input can still be read afterwards (the legacy-format fallback re-reads it).",
		rule("R37e", "decryption attempts do not overwrite an input that a later attempt re-reads", 2, func(r *Run) {
			n := 0
			for _, pp := range []string{"wallet", "wallet/common"} {
				pkg := r.W.Pkg(pp)
				if pkg == nil {
					r.Unresolved("package " + pp)
					continue
				}
				for _, f := range r.W.AllFuncs(pkg) {
					c := f.Ctx()
					g := f.Graph()
					occ := 0
					for _, nd := range g.Nodes {
						if nd.Ast == nil {
							continue
						}
						for _, call := range core.CallsIn(nd.Ast) {
							fn := core.Callee(c.Info, call)
							if fn == nil || len(call.Args) != 4 {
								continue
							}
							switch core.ShortName(fn) {
							case "crypto/cipher.AEAD.Open", "crypto/cipher.AEAD.Seal":
							default:
								continue
							}
							n++
							occ++
							r.Touch(f)
							label := fmt.Sprintf("%s: %s #%d leaves its input intact for later readers", f.Name, fn.Name(), occ)
							if isNilLit(c, call.Args[0]) {
								r.OK(label, r.W.Pos(call.Pos()), "dst is nil: the output is freshly allocated")
								continue
							}
							dst, src := map[types.Object]bool{}, map[types.Object]bool{}
							sliceRoots(c, call.Args[0], 2, dst)
							sliceRoots(c, call.Args[2], 2, src)
							var shared []types.Object
							for o := range dst {
								if src[o] {
									shared = append(shared, o)
								}
							}
							if len(shared) == 0 {
								r.OK(label, r.W.Pos(call.Pos()), "dst does not share storage with the input")
								continue
							}
							// in place: is the input read again afterwards?
							reach := g.Reachable([]*core.GNode{nd}, nil, nil)
							var later *core.GNode
							for m := range reach {
								if m == nd || m.Ast == nil {
									continue
								}
								for o := range src {
									if mentionsObjNode(c.Info, m.Ast, o) && (later == nil || m.Ast.Pos() < later.Ast.Pos()) {
										// ignore the statement that merely returns/uses the output variable
										later = m
									}
								}
							}
							if later == nil {
								r.OK(label, r.W.Pos(call.Pos()), "in-place, but the input is not read afterwards")
							} else {
								r.Fail(label, r.W.Pos(call.Pos()), fmt.Sprintf("`%s` writes into the storage of its own input and `%s` reads that input afterwards: a failed authentication wipes the buffer, so the fallback for the other (legacy) format can no longer decrypt it", core.ExprStr(call), core.ExprStr(later.Ast)))
							}
						}
					}
				}
			}
			if n < 2 {
				r.Fail("AEAD Open/Seal calls in the wallet packages", "-", fmt.Sprintf("expected ≥2, found %d", n))
			}
		}),
	)
	wm := "wallet.(*Wallet)."
	extend("C38", "R38e (added after a seeded change was missed): a timed unlock always ends with the re-lock timer armed for the requested timeout — resetTimeout arms (AfterFunc or Reset) on every path, and ProcWalletUnLock calls it on every successful timed unlock of the whole wallet.",
		rule("R38e", "a timed unlock always arms the re-lock timer", 2, func(r *Run) {
			armed := core.NodeGen{Fact: "timer-armed", Gen: func(c *core.Ctx, n *core.GNode) bool {
				if n.Ast == nil || n.Defer || n.Go {
					return false
				}
				for _, call := range core.CallsIn(n.Ast) {
					if fn := core.Callee(c.Info, call); fn != nil {
						switch core.ShortName(fn) {
						case "time.AfterFunc", "time.(*Timer).Reset":
							if len(call.Args) >= 1 && core.Mentions("param:0")(c, call.Args[0]) {
								return true
							}
						}
					}
				}
				return false
			}}
			core.Dominated{Fn: wm + "resetTimeout", Spec: &core.FlowSpec{Nodes: []core.NodeGen{armed}}, Sink: core.AnyReturn(), Need: []Fact{"timer-armed"}, Min: 1}.Check(r)
			// ProcWalletUnLock: whole-wallet unlock with a timeout reaches success only through resetTimeout
			core.Dominated{Fn: wm + "ProcWalletUnLock", Spec: &core.FlowSpec{
				Calls: []core.CallGuard{{Fact: "timeout-armed", Callee: core.Names(wm + "resetTimeout"), Pass: core.OCalled,
					ArgOK: func(c *core.Ctx, call *ast.CallExpr) bool {
						return len(call.Args) == 1 && core.Mentions("types.WalletUnLock.Timeout")(c, call.Args[0])
					}}},
				Assume: func(c *core.Ctx, e ast.Expr) core.Tri {
					if op, ok := core.CmpAtom(c, e, core.Mentions("types.WalletUnLock.Timeout"), core.IsConstInt(0)); ok {
						switch op {
						case token.NEQ, token.GTR:
							return core.True
						case token.EQL, token.LEQ:
							return core.False
						}
					}
					if core.IsObj("types.WalletUnLock.WalletOrTicket")(c, e) {
						return core.False // unlock of the whole wallet
					}
					return core.Unknown
				}}, Sink: core.SuccessReturn(-1), Need: []Fact{"timeout-armed"}, Min: 1}.Check(r)
		}),
	)
}
