package props

import (
	"fmt"
	"go/ast"
	"go/token"
	"go/types"
	"sort"

	"verif/sa/core"
)

const wm = "wallet.(*Wallet)."

func init() {
	ws := "wallet/common.(*Store)."
	register(&core.Property{
		ID:       "C37",
		Title:    "Wallet secrets decrypt correctly across formats and password changes",
		Packages: []string{"wallet", "wallet/common"},
		Explanation: "Password-change atomicity only (R37a-R37c): the in-memory password and encryption flag change only after the batch write returned nil; a wrong old password can never reach the batch; the password hash, encryption flag, re-encrypted seed and every re-encrypted account key go into the one batch that is written, nothing is written directly; " +
			"the seed is decrypted with the old password and re-encrypted with the new one, and each account key is decrypted with the old and encrypted with the new password; a failing step aborts before the write.",
		NotCovered: "round-trip correctness of the AES modes and legacy formats (V: byte-level crypto).",
		Rules: []core.Rule{
			rule("R37a", "memory follows the durable write; the old password gates everything", 6, func(r *Run) {
				fn := wm + "ProcWalletSetPasswd"
				core.Dominated{Fn: fn, Spec: spec(errNil("batch-written", "common/db.Batch.Write")), Sink: core.StoreSink(r.W, "wallet.Wallet.Password", "wallet.Wallet.EncryptFlag"), Need: []Fact{"batch-written"}, Min: 2}.Check(r)
				fills := core.CallSink(ws+"SetPasswordHash", ws+"SetEncryptionFlag", "wallet.SaveSeedInBatch", ws+"SetWalletAccountInBatch", "common/db.Batch.Write")
				core.FailStops{Fn: fn, Callee: []string{ws + "VerifyPasswordHash"}, Fail: core.OFalse, Idx: -1, Forbidden: fills, Min: 1, Name: "old password hash mismatch"}.Check(r)
				core.RejectWhen{Fn: fn, Spec: &core.FlowSpec{Assume: func(c *core.Ctx, e ast.Expr) core.Tri {
					if t := core.AssumeRel(lenOf(core.IsObj("wallet.Wallet.Password")), token.NEQ, core.IsConstInt(0), core.True)(c, e); t != core.Unknown {
						return t
					}
					return core.Unknown
				}}, Name: "old password differs from the unlocked password", L: core.Mentions("types.ReqWalletSetPasswd.OldPass"), R: core.IsObj("wallet.Wallet.Password"), Rel: token.NEQ, Sentinel: "types.ErrVerifyOldpasswdFail"}.Check(r)
				core.CallArgs{Fn: fn, Callee: []string{ws + "VerifyPasswordHash"}, What: "verifies the OLD password", Args: map[int]core.ExprPred{0: core.Mentions("types.ReqWalletSetPasswd.OldPass")}, Min: 1}.Check(r)
				for _, c := range []string{ws + "SetPasswordHash", ws + "SetEncryptionFlag"} {
					core.FailStops{Fn: fn, Callee: []string{c}, Fail: core.OErrNonNil, Idx: -1, Forbidden: core.CallSink("common/db.Batch.Write"), Min: 1, Name: c + " error"}.Check(r)
				}
				core.FailStops{Fn: fn, Callee: []string{"wallet.SaveSeedInBatch"}, Fail: core.OFalse, Idx: 0, Forbidden: core.CallSink("common/db.Batch.Write"), Min: 1, Name: "SaveSeedInBatch not ok"}.Check(r)
				core.FailStops{Fn: fn, Callee: []string{wm + "getSeed", "wallet.GetSeed"}, Fail: core.OErrNonNil, Idx: -1, Forbidden: core.CallSink("common/db.Batch.Write"), Min: 1, Name: "seed cannot be decrypted with the old password"}.Check(r)
				core.FailStops{Fn: fn, Callee: []string{"common/db.Batch.Write"}, Fail: core.OErrNonNil, Idx: -1, Forbidden: core.StoreSink(r.W, "wallet.Wallet.Password"), Min: 1, Name: "batch write error"}.Check(r)
			}),
			rule("R37b", "one batch, no direct writes", 2, func(r *Run) {
				fn := wm + "ProcWalletSetPasswd"
				core.SameBatchArg{Fn: fn, Callees: []string{ws + "SetPasswordHash", ws + "SetEncryptionFlag", "wallet.SaveSeedInBatch", ws + "SetWalletAccountInBatch"}, Arg: -1, Write: []string{"common/db.Batch.Write"}, Min: 4}.Check(r)
				core.NoCallsIn{Fns: []string{fn}, Forbidden: []string{ws + "SetWalletAccount", "wallet.SaveSeed", wm + "saveSeed", "common/db.KV.Set", "common/db.DB.SetSync"}, Why: "a partial password change must not reach the disk"}.Check(r)
			}),
			rule("R37c", "secrets are re-encrypted from the old to the new password", 4, func(r *Run) {
				fn := wm + "ProcWalletSetPasswd"
				oldP := core.Mentions("types.ReqWalletSetPasswd.OldPass")
				newP := core.Mentions("types.ReqWalletSetPasswd.NewPass")
				seedSrc := core.FromCall(0, wm+"getSeed", "wallet.GetSeed")
				core.CallArgs{Fn: fn, Callee: []string{wm + "getSeed", "wallet.GetSeed"}, What: "seed decrypted with the old password", Args: map[int]core.ExprPred{}, Min: 1}.Check(r)
				f := r.Fn(fn)
				if f != nil {
					c := f.Ctx()
					ok := false
					core.InspectBody(f, func(x ast.Node) bool {
						call, isCall := x.(*ast.CallExpr)
						if !isCall {
							return true
						}
						switch core.ShortName(core.Callee(c.Info, call)) {
						case wm + "getSeed":
							ok = len(call.Args) == 1 && oldP(c, call.Args[0])
						case "wallet.GetSeed":
							ok = len(call.Args) == 2 && oldP(c, call.Args[1])
						}
						return true
					})
					if ok {
						r.OK(fn+" decrypts the seed with the old password", r.W.Pos(f.Node().Pos()), "password argument is Passwd.OldPass")
					} else {
						r.Fail(fn+" decrypts the seed with the old password", r.W.Pos(f.Node().Pos()), "the seed is not read with the old password")
					}
				}
				core.CallArgs{Fn: fn, Callee: []string{"wallet.SaveSeedInBatch"}, What: "that seed re-encrypted with the new password into the batch", Args: map[int]core.ExprPred{1: seedSrc, 2: newP}, Min: 1}.Check(r)
				core.CallArgs{Fn: fn, Callee: []string{"wallet/common.CBCDecrypterPrivkey"}, What: "account key decrypted with the old password", Args: map[int]core.ExprPred{0: oldP}, Min: 1}.Check(r)
				core.CallArgs{Fn: fn, Callee: []string{"wallet/common.CBCEncrypterPrivkey"}, What: "the decrypted key encrypted with the new password",
					Args: map[int]core.ExprPred{0: newP, 1: core.FromCall(0, "wallet/common.CBCDecrypterPrivkey")}, Min: 1}.Check(r)
				core.CallArgs{Fn: fn, Callee: []string{ws + "SetPasswordHash"}, What: "hash of the new password", Args: map[int]core.ExprPred{0: newP}, Min: 1}.Check(r)
			}),
		},
	})

	register(&core.Property{
		ID:       "C38",
		Title:    "Wallet never appears unlocked without a successful unlock",
		Packages: []string{"wallet", "wallet/common"},
		Explanation: "Decides R38a-R38d: the lock flag can be driven to 'unlocked' only by ProcWalletUnLock, and there only behind the password verification; every function that reads or decrypts a stored private key or the seed does so behind a passed wallet-status check (or is only called from such a place), with the password-change path as the one reasoned exception; " +
			"the flag is only ever accessed through sync/atomic; the unlock timeout re-locks and is armed only by the unlock path.",
		NotCovered: "policies' own lock flags (ticket mining) and secrets held by callers after a legitimate read.",		Rules: []core.Rule{
			rule("R38a", "who may unlock, and only after the password was verified", 4, func(r *Run) {
				pkg := r.W.Pkg("wallet")
				if pkg == nil {
					r.Unresolved("wallet")
					return
				}
				flag := r.W.LookupObj("wallet.Wallet.isWalletLocked")
				n := 0
				for _, f := range r.W.AllFuncs(pkg) {
					bodies := append([]*core.FuncInfo{f}, f.Closures()...)
					for _, b := range bodies {
						c := b.Ctx()
						core.InspectBody(b, func(x ast.Node) bool {
							if lit, isLit := x.(*ast.FuncLit); isLit && lit != b.Lit {
								return false
							}
							call, ok := x.(*ast.CallExpr)
							if !ok {
								return true
							}
							name := core.ShortName(core.Callee(c.Info, call))
							if name != "sync/atomic.CompareAndSwapInt32" && name != "sync/atomic.StoreInt32" && name != "sync/atomic.SwapInt32" {
								return true
							}
							onFlag := false
							ast.Inspect(call.Args[0], func(y ast.Node) bool {
								if id, ok := y.(*ast.Ident); ok && c.Info.Uses[id] == flag {
									onFlag = true
								}
								return true
							})
							if !onFlag {
								return true
							}
							newVal := call.Args[len(call.Args)-1]
							if core.IsConstInt(1)(c, newVal) {
								return true // locking is always allowed
							}
							n++
							r.Touch(f)
							label := fmt.Sprintf("%s may set the wallet lock flag to 'unlocked' (`%s`)", f.Name, core.ExprStr(call))
							if f.Name == wm+"ProcWalletUnLock" && core.IsConstInt(0)(c, newVal) && b == f {
								r.OK(label, r.W.Pos(call.Pos()), "the unlock handler")
							} else {
								r.Fail(label, r.W.Pos(call.Pos()), "only ProcWalletUnLock may clear the lock flag: observers (GetWalletStatus, IsWalletLocked, policies) see the wallet unlocked although no unlock with the right password happened")
							}
							return true
						})
					}
				}
				if n < 1 {
					r.Fail("writes that clear the wallet lock flag", "-", "none found (unlock handler renamed?)")
				}
				un := wm + "ProcWalletUnLock"
				unlock := core.CallSinkWhere("clear lock flag", []string{"sync/atomic.CompareAndSwapInt32"}, func(c *core.Ctx, call *ast.CallExpr) bool {
					return len(call.Args) == 3 && core.IsConstInt(0)(c, call.Args[2])
				})
				core.FailStops{Fn: un, Callee: []string{"wallet/common.(*Store).VerifyPasswordHash"}, Fail: core.OFalse, Idx: -1, Forbidden: unlock, Min: 1, Name: "password hash mismatch"}.Check(r)
				core.RejectWhen{Fn: un, Spec: &core.FlowSpec{Assume: func(c *core.Ctx, e ast.Expr) core.Tri {
					if t := core.AssumeRel(lenOf(core.IsObj("wallet.Wallet.Password")), token.NEQ, core.IsConstInt(0), core.True)(c, e); t != core.Unknown {
						return t
					}
					return core.Unknown
				}}, Name: "password differs from the known password", L: core.Mentions("types.WalletUnLock.Passwd"), R: core.IsObj("wallet.Wallet.Password"), Rel: token.NEQ, Sentinel: "types.ErrInputPassword"}.Check(r)
				core.CallArgs{Fn: un, Callee: []string{"wallet/common.(*Store).VerifyPasswordHash"}, What: "verifies the submitted password", Args: map[int]core.ExprPred{0: core.Mentions("types.WalletUnLock.Passwd")}, Min: 1}.Check(r)
			}),
			rule("R38b", "stored secrets are read only behind the wallet-status check", 8, func(r *Run) {
				pkg := r.W.Pkg("wallet")
				if pkg == nil {
					return
				}
				secret := core.Names(wm+"getPrivKeyFromStore", "wallet.GetSeed", "wallet/common.CBCDecrypterPrivkey", "wallet.AesgcmDecrypter")
				// isTransfer wraps checkWalletStatus; its one extra "true" (ticket unlocked, recipient is the mining
				// contract) is the designed mining exception
				statusOK := spec(isTrue("status-ok", wm+"checkWalletStatus", wm+"CheckWalletStatus", wm+"isTransfer"))
				statusOK.Calls[0].Idx = 0
				exempt := map[string]string{
					wm + "ProcWalletSetPasswd": "verifies the old password itself (R37a) — changing the password of a locked wallet is allowed by design",
					"wallet.GetSeed":           "the package-level decrypt helper; its callers are the obligations",
					wm + "getAllPrivKeys":      "mining support: keys are handed to the ticket policy when the wallet OR only the ticket lock is open (status error ErrOnlyTicketUnLocked is let through by design); every other status error returns",
					wm + "GetPrivKeyByAddr":    "in-process plugin API (wallet/common.WalletOperate), not a request handler: R38b additionally checks that no function of the loaded packages calls it",
					wm + "ProcImportPrivkeysFile": "decrypts the user's import FILE with the password supplied for that file, not a stored secret; the stored-key path below it is status-checked",
				}
				guardedAt := func(f *core.FuncInfo, pos token.Pos) bool {
					fl := core.RunFlow(f, statusOK)
					nd := fl.G.NodeContaining(pos)
					return nd != nil && fl.In[nd].Has("status-ok")
				}
				// call sites of helper h in the package
				var callersOf func(h *types.Func) []core.CallSite
				callersOf = func(h *types.Func) []core.CallSite {
					return r.W.CallSitesOf(core.Names(core.ShortName(h)))
				}
				n := 0
				var check func(f *core.FuncInfo, pos token.Pos, what string, depth int, chain string)
				check = func(f *core.FuncInfo, pos token.Pos, what string, depth int, chain string) {
					label := fmt.Sprintf("%s reads %s behind the wallet-status check", chain, what)
					if why, ok := exempt[f.Name]; ok {
						r.Exception(label, why)
						r.OK(label, r.W.Pos(pos), "frozen exception: "+why)
						return
					}
					if f.Lit == nil && guardedAt(f, pos) {
						r.OK(label, r.W.Pos(pos), "checkWalletStatus()==true dominates the access in "+f.Name)
						return
					}
					if depth == 0 || f.Obj == nil {
						r.Fail(label, r.W.Pos(pos), "no passed wallet-status check on the way to the stored secret")
						return
					}
					sites := callersOf(f.Obj)
					var inPkg []core.CallSite
					for _, s := range sites {
						if s.Caller != nil && s.Caller.Pkg == f.Pkg {
							inPkg = append(inPkg, s)
						}
					}
					if len(inPkg) == 0 {
						if f.Obj.Exported() {
							r.Fail(label, r.W.Pos(pos), fmt.Sprintf("%s is exported, reads the secret without a status check and has no checked caller", f.Name))
						} else {
							r.OK(label, r.W.Pos(pos), "helper without callers")
						}
						return
					}
					for _, s := range inPkg {
						check(s.Caller, s.Call.Pos(), what, depth-1, s.Caller.Name+" → "+chain)
					}
				}
				for _, f := range r.W.AllFuncs(pkg) {
					info := f.Info()
					core.InspectBody(f, func(x ast.Node) bool {
						call, ok := x.(*ast.CallExpr)
						if !ok || !secret.Has(core.Callee(info, call)) {
							return true
						}
						n++
						r.Touch(f)
						check(f, call.Pos(), core.ShortName(core.Callee(info, call)), 2, f.Name)
						return true
					})
				}
				if n < 8 {
					r.Fail("stored-secret access sites", "-", fmt.Sprintf("expected ≥8, found %d", n))
				}
				// the unchecked plugin API is not reachable from any request handler in the loaded packages
				sites := r.W.CallSitesOf(core.Names(wm+"GetPrivKeyByAddr", "wallet/common.WalletOperate.GetPrivKeyByAddr"))
				label := wm + "GetPrivKeyByAddr (unchecked plugin API) has no caller in the wallet packages"
				if len(sites) == 0 {
					r.OK(label, "-", "no call site")
				} else {
					r.Fail(label, r.W.Pos(sites[0].Call.Pos()), "a wallet function calls the unchecked key getter")
				}
				// getAllPrivKeys: only the ticket-only status error is let through
				core.RejectWhen{Fn: wm + "getAllPrivKeys", Name: "status check failed with anything but ErrOnlyTicketUnLocked",
					L: core.MayBeFromCall(1, wm+"checkWalletStatus"), R: core.IsObj("types.ErrOnlyTicketUnLocked"), Rel: token.NEQ,
					Spec: &core.FlowSpec{FailCalls: []core.FailCall{{Callee: core.Names(wm + "checkWalletStatus"), Idx: 0, Outcome: core.OFalse}}},
					RejectBy: func(fl *core.Flow, ret *core.GNode) bool {
						rs, ok := ret.Ast.(*ast.ReturnStmt)
						return ok && len(rs.Results) == 2 && isNilLit(fl.C, rs.Results[0]) // no keys are returned
					}}.Check(r)
			}),
			rule("R38c", "the lock flag is only accessed atomically", 5, func(r *Run) {
				flag := r.W.LookupObj("wallet.Wallet.isWalletLocked")
				pkg := r.W.Pkg("wallet")
				if flag == nil || pkg == nil {
					r.Unresolved("wallet.Wallet.isWalletLocked")
					return
				}
				n := 0
				var fns []string
				for _, f := range r.W.AllFuncs(pkg) {
					c := f.Ctx()
					var stack []ast.Node
					core.InspectBody(f, func(x ast.Node) bool {
						if x == nil {
							stack = stack[:len(stack)-1]
							return true
						}
						stack = append(stack, x)
						id, ok := x.(*ast.Ident)
						if !ok || c.Info.Uses[id] != flag {
							return true
						}
						n++
						atomicUse := false
						for i := len(stack) - 1; i >= 0; i-- {
							if call, ok := stack[i].(*ast.CallExpr); ok {
								if fn := core.Callee(c.Info, call); fn != nil && fn.Pkg() != nil && fn.Pkg().Path() == "sync/atomic" {
									atomicUse = true
								}
								break
							}
						}
						label := fmt.Sprintf("%s accesses the lock flag atomically #%d", f.Name, n)
						if atomicUse {
							r.OK(label, r.W.Pos(id.Pos()), "argument of a sync/atomic call")
						} else {
							// composite-literal initialisation in the constructor
							if _, isKV := stack[len(stack)-2].(*ast.KeyValueExpr); isKV {
								r.OK(label, r.W.Pos(id.Pos()), "constructor initialisation")
							} else {
								r.Fail(label, r.W.Pos(id.Pos()), "plain read/write of the lock flag races with the atomic accesses")
							}
						}
						fns = append(fns, f.Name)
						return true
					})
				}
				sort.Strings(fns)
				if n < 5 {
					r.Fail("accesses of the lock flag", "-", fmt.Sprintf("expected ≥5, found %d", n))
				}
			}),
			rule("R38d", "the unlock timeout re-locks and is armed only by the unlock path", 2, func(r *Run) {
				core.WhoMayCall{Targets: []string{wm + "resetTimeout"}, Allowed: []string{wm + "ProcWalletUnLock"}, Min: 1}.Check(r)
				f := r.Fn(wm + "resetTimeout")
				if f != nil {
					ok := false
					for _, cl := range f.Closures() {
						c := cl.Ctx()
						core.InspectBody(cl, func(x ast.Node) bool {
							if call, isCall := x.(*ast.CallExpr); isCall && core.ShortName(core.Callee(c.Info, call)) == "sync/atomic.CompareAndSwapInt32" && len(call.Args) == 3 &&
								core.IsConstInt(0)(c, call.Args[1]) && core.IsConstInt(1)(c, call.Args[2]) {
								ok = true
							}
							return true
						})
					}
					label := wm + "resetTimeout's timer re-locks the wallet (0→1)"
					if ok {
						r.OK(label, r.W.Pos(f.Node().Pos()), "CompareAndSwap(flag, 0, 1) in the timer callback")
					} else {
						r.Fail(label, r.W.Pos(f.Node().Pos()), "the timer callback does not lock the wallet")
					}
				}
				core.Dominated{Fn: wm + "ProcWalletLock", Spec: spec(), Sink: core.CallSinkWhere("lock", []string{"sync/atomic.CompareAndSwapInt32"}, func(c *core.Ctx, call *ast.CallExpr) bool {
					return len(call.Args) == 3 && core.IsConstInt(1)(c, call.Args[2])
				}), Min: 1}.Check(r)
			}),
		},
	})
}
