package props

import (
	"fmt"
	"go/ast"
	"go/token"
	"go/types"
	"sort"

	"verif/sa/core"
)

const (
	mp  = "system/mempool."
	mpm = "system/mempool.(*Mempool)."
	mpc = "system/mempool.(*txCache)."
)

// msgReject: fact "rejected" holds after `msg.Data = <error value>`.
func msgRejectGen() core.NodeGen {
	return core.NodeGen{Fact: "rejected", Gen: core.ErrorStore("queue.Message.Data")}
}

// acceptingReturn: a return not preceded on every path by an error store.
var acceptingReturn = core.ReturnWithout("rejected")

func rejectedBy(fl *core.Flow, ret *core.GNode) bool { return fl.In[ret].Has("rejected") }

func lenOf(p core.ExprPred) core.ExprPred {
	return func(c *core.Ctx, e ast.Expr) bool {
		call, ok := ast.Unparen(e).(*ast.CallExpr)
		return ok && core.IsBuiltinCall(c.Info, call, "len") && len(call.Args) == 1 && p(c, call.Args[0])
	}
}

func init() {
	// ------------------------------------------------------------------ C21
	register(&core.Property{
		ID:       "C21",
		Title:    "Mempool bookkeeping stays consistent",
		Packages: []string{"system/mempool"},
		Explanation: "Decides R21a-R21f: txCache.Push/Remove update every sub-index (type-driven: every field with Push+Remove, plus totalFee), Push only behind CanPush and in an order where nothing fallible follows the first insertion unchecked; " +
			"every access to the cache structure / header / sync flag happens under proxyMtx (write lock for mutators), propagated over callers; who-may-call on Push/Remove; capacity, duplicate and per-sender limits are live and correctly oriented; " +
			"eventAddBlock removes the block's transactions on every path (unless the pool is empty) and RemoveTxsOfBlock covers every transaction of the block.",
		NotCovered: "short-hash collisions, arithmetic of byte/fee counters (V); linearizability under real schedules beyond the lock discipline.",
		Rules: []core.Rule{
			rule("R21a", "txCache.Push / Remove keep all sub-indexes in step", 10, func(r *Run) {
				// type-driven list of sub-indexes
				tn, _ := r.W.LookupObj(mp + "txCache").(*types.TypeName)
				if tn == nil {
					r.Unresolved(mp + "txCache")
					return
				}
				st := tn.Type().Underlying().(*types.Struct)
				var subs []*types.Var
				for i := 0; i < st.NumFields(); i++ {
					f := st.Field(i)
					hasPush, _, _ := types.LookupFieldOrMethod(f.Type(), true, tn.Pkg(), "Push")
					hasRem, _, _ := types.LookupFieldOrMethod(f.Type(), true, tn.Pkg(), "Remove")
					if _, ok := hasPush.(*types.Func); ok {
						if _, ok := hasRem.(*types.Func); ok {
							subs = append(subs, f)
						}
					}
				}
				if len(subs) < 4 {
					r.Fail("txCache sub-indexes", r.W.Pos(tn.Pos()), fmt.Sprintf("expected ≥4 fields with Push and Remove, found %d", len(subs)))
				}
				callsOn := func(c *core.Ctx, n *core.GNode, field *types.Var, method string) bool {
					if n.Ast == nil || n.Defer || n.Go {
						return false
					}
					for _, call := range core.CallsIn(n.Ast) {
						sel, ok := ast.Unparen(call.Fun).(*ast.SelectorExpr)
						if !ok || sel.Sel.Name != method {
							continue
						}
						inner, ok := ast.Unparen(sel.X).(*ast.SelectorExpr)
						if ok && c.Info.ObjectOf(inner.Sel) == field {
							return true
						}
					}
					return false
				}
				feeStore := func(c *core.Ctx, n *core.GNode) bool { return len(core.StoresTo(c, n.Ast, mp+"txCache.totalFee")) > 0 }
				for _, m := range []string{"Push", "Remove"} {
					var gens []core.NodeGen
					var need []Fact
					for _, s := range subs {
						s := s
						f := Fact(m + ":" + s.Name())
						gens = append(gens, core.NodeGen{Fact: f, Gen: func(c *core.Ctx, n *core.GNode) bool { return callsOn(c, n, s, m) }})
						need = append(need, f)
					}
					gens = append(gens, core.NodeGen{Fact: "totalFee-updated", Gen: feeStore})
					need = append(need, "totalFee-updated")
					sp := &core.FlowSpec{Nodes: gens, Calls: []core.CallGuard{errNil("item-found", mp+"QueueCache.GetItem")}}
					if m == "Push" {
						core.Dominated{Fn: mpc + "Push", Spec: sp, Sink: core.SuccessReturn(-1), Need: need, Min: 1}.Check(r)
					} else {
						// every return after the item was found
						core.Dominated{Fn: mpc + "Remove", Spec: sp, Sink: core.SinkPred{Label: "return after item found", Match: func(fl *core.Flow, n *core.GNode) bool {
							return n.Kind == core.KReturn && fl.In[n].Has("item-found")
						}}, Need: need, Min: 1}.Check(r)
					}
				}
				// order and pre-check in Push
				sp := spec(isTrue("can-push", mp+"(*AccountTxIndex).CanPush"), errNil("queued", mp+"QueueCache.Push"), errNil("acc-indexed", mp+"(*AccountTxIndex).Push"))
				core.Dominated{Fn: mpc + "Push", Spec: sp, Sink: core.CallSink(mp+"QueueCache.Push"), Need: []Fact{"can-push"}, Min: 1}.Check(r)
				core.Dominated{Fn: mpc + "Push", Spec: sp, Sink: core.CallSink(mp+"(*AccountTxIndex).Push"), Need: []Fact{"can-push", "queued"}, Min: 1}.Check(r)
				core.Dominated{Fn: mpc + "Push", Spec: sp, Sink: core.CallSink(mp+"(*LastTxCache).Push", mp+"(*SHashTxCache).Push"), Need: []Fact{"can-push", "queued", "acc-indexed"}, Min: 2}.Check(r)
				core.LiveReturn{Fn: mpc + "Push", Sentinels: []string{"types.ErrManyTx"}}.Check(r)
			}),
			rule("R21b", "cache/header/sync are accessed under proxyMtx (write lock for mutators)", 25, func(r *Run) {
				mutators := map[string]bool{"Push": true, "Remove": true, "RemoveTxs": true, "removeExpiredTx": true, "SetQueueCache": true}
				core.LockGuard{Type: mp + "Mempool", Mutex: "proxyMtx", Depth: 4, Min: 25,
					Access: func(c *core.Ctx, sel *ast.SelectorExpr, parents []ast.Node) (bool, bool, string) {
						name := sel.Sel.Name
						// position among parents: is sel the X of an outer selector / LHS of an assignment?
						var parent ast.Node
						if len(parents) > 0 {
							parent = parents[len(parents)-1]
						}
						isWrite := false
						if as, ok := parent.(*ast.AssignStmt); ok {
							for _, l := range as.Lhs {
								if l == ast.Expr(sel) {
									isWrite = true
								}
							}
						}
						switch name {
						case "header", "sync":
							return true, isWrite, name
						case "cache":
							if isWrite {
								return false, false, "" // constructor assignment
							}
							outer, ok := parent.(*ast.SelectorExpr)
							if !ok || outer.X != ast.Expr(sel) {
								return false, false, "" // pointer passed along, not dereferenced here
							}
							switch outer.Sel.Name {
							case "delayCache":
								return false, false, "" // has its own mutex
							}
							return true, mutators[outer.Sel.Name], "cache." + outer.Sel.Name
						}
						return false, false, ""
					},
					Exempt: map[string]string{
						mp + "NewMempool":          "constructor: the object is not shared yet",
						mpm + "SetQueueCache":      "start-up wiring before SetQueueClient starts the goroutines",
						mpm + "Wait":               "start-up barrier (reads nothing guarded)",
					},
				}.Check(r)
			}),
			rule("R21c", "who may mutate the pool", 6, func(r *Run) {
				core.WhoMayCall{Targets: []string{mpc + "Push"}, Allowed: []string{mpm + "PushTx"}, Min: 1}.Check(r)
				core.WhoMayCall{Targets: []string{mpm + "PushTx"}, Allowed: []string{mpm + "checkTxRemote", mpm + "delBlock"}, Min: 2}.Check(r)
				core.WhoMayCall{Targets: []string{mpc + "Remove", mpc + "RemoveTxs", mpc + "removeExpiredTx"},
					Allowed: []string{mpc + "RemoveTxs", mpc + "removeExpiredTx", mpm + "removeTxs", mpm + "RemoveTxsOfBlock", mpm + "removeExpired"}, Min: 4}.Check(r)
			}),
			rule("R21d", "capacity, duplicate and per-sender limits", 7, func(r *Run) {
				sq := mp + "(*SimpleQueue)."
				core.RejectWhen{Fn: sq + "Push", Name: "hash already queued", BoolAtom: core.CallAtom([]string{sq + "Exist", "common/listmap.(*ListMap).Exist"}), RejectVal: true, Sentinel: "types.ErrTxExist"}.Check(r)
				core.RejectWhen{Fn: sq + "Push", Name: "size >= PoolCacheSize", L: core.CallsAny("common/listmap.(*ListMap).Size", sq+"Size"), R: core.Mentions(mp + "SubConfig.PoolCacheSize"), Rel: token.GEQ, Sentinel: "types.ErrMemFull"}.Check(r)
				core.FailStops{Fn: sq + "Push", Callee: []string{sq + "Exist", "common/listmap.(*ListMap).Exist"}, Fail: core.OTrue, Idx: -1, Forbidden: core.CallSink("common/listmap.(*ListMap).Push"), Min: 1, Name: "Exist(hash)=true"}.Check(r)
				ai := mp + "(*AccountTxIndex)."
				maxper := core.IsObj(mp + "AccountTxIndex.maxperaccount")
				core.RejectWhen{Fn: ai + "Push", Name: "sender size >= maxperaccount", L: core.Not(core.MentionsDirect(mp + "AccountTxIndex.maxperaccount")), R: maxper, Rel: token.GEQ, Sentinel: "types.ErrManyTx"}.Check(r)
				core.ReturnsRel{Fn: ai + "CanPush", Name: "sender size < maxperaccount", L: core.Not(core.MentionsDirect(mp + "AccountTxIndex.maxperaccount")), R: maxper, Rel: token.LSS}.Check(r)
				core.RejectWhen{Fn: mpm + "checkTx", Spec: &core.FlowSpec{Nodes: []core.NodeGen{msgRejectGen()}}, Name: "TxNumOfAccount(from) >= MaxTxNumPerAccount",
					L: core.CallsAny(mpm+"TxNumOfAccount"), R: core.Mentions("types.Mempool.MaxTxNumPerAccount"), Rel: token.GEQ, RejectBy: rejectedBy}.Check(r)
				core.LiveReturn{Fn: mpm + "checkTx", Sentinels: []string{"types.ErrManyTx"}}.Check(r)
			}),
			rule("R21e", "transactions of an added block leave the pool", 4, func(r *Run) {
				core.Dominated{Fn: mpm + "eventAddBlock", Spec: &core.FlowSpec{
					Calls: []core.CallGuard{called("block-txs-removed", mpm+"RemoveTxsOfBlock"), called("expired-removed", mpm+"removeExpired")},
					// decided for a non-empty pool (nothing to remove from an empty one)
					Assume: func(c *core.Ctx, e ast.Expr) core.Tri {
						if t := core.AssumeRel(core.CallsAny(mpm+"Size"), token.GTR, core.IsConstInt(0), core.True)(c, e); t != core.Unknown {
							return t
						}
						return core.Unknown
					},
				}, Sink: core.AnyReturn(), Need: []Fact{"block-txs-removed", "expired-removed"}, Min: 1}.Check(r)
				// RemoveTxsOfBlock covers every tx of the block
				goneCalls := []core.CallGuard{called("tx-gone", mpc+"Remove"), isFalse("tx-gone", mpc+"Exist")}
				if f := r.W.Func(mpm + "RemoveTxsOfBlock"); f != nil {
					// an extracted "remove if present" helper stands for the fact when all its paths establish it
					for _, h := range core.HelpersEstablishing(f, &core.FlowSpec{Calls: goneCalls}, "tx-gone") {
						goneCalls = append(goneCalls, called("tx-gone", h))
					}
				}
				core.Dominated{Fn: mpm + "RemoveTxsOfBlock", Spec: &core.FlowSpec{
					Calls:   goneCalls,
					Foralls: []core.ForallGuard{{Fact: "all-block-txs-gone", Inner: "tx-gone", Loop: core.RangesOver(core.Mentions("types.Block.Txs"))}},
				}, Sink: core.AnyReturn(), Need: []Fact{"all-block-txs-gone"}, Min: 1}.Check(r)
				var goneHelpers []string
				if f := r.W.Func(mpm + "RemoveTxsOfBlock"); f != nil {
					goneHelpers = core.HelpersEstablishing(f, &core.FlowSpec{Calls: []core.CallGuard{called("tx-gone", mpc+"Remove"), isFalse("tx-gone", mpc+"Exist")}}, "tx-gone")
				}
				if len(goneHelpers) == 0 {
					core.CallArgs{Fn: mpm + "RemoveTxsOfBlock", Callee: []string{mpc + "Remove", mpc + "Exist"}, What: "keyed by the transaction's Hash()",
						Args: map[int]core.ExprPred{0: core.DerivedFromCall("types.(*Transaction).Hash")}, Min: 2}.Check(r)
				} else {
					// the removal was extracted: the helper is handed the transaction's hash and keys both calls by it
					core.CallArgs{Fn: mpm + "RemoveTxsOfBlock", Callee: goneHelpers, What: "keyed by the transaction's Hash()",
						Args: map[int]core.ExprPred{0: core.DerivedFromCall("types.(*Transaction).Hash")}, Min: 1}.Check(r)
					for _, h := range goneHelpers {
						core.CallArgs{Fn: h, Callee: []string{mpc + "Remove", mpc + "Exist"}, What: "keyed by the hash it was handed", Args: map[int]core.ExprPred{0: core.IsObj("param:0")}, Min: 2}.Check(r)
					}
				}
			}),
		},
	})

	// ------------------------------------------------------------------ C22
	rej := &core.FlowSpec{Nodes: []core.NodeGen{msgRejectGen()}}
	register(&core.Property{
		ID:       "C22",
		Title:    "Mempool admits only acceptable transactions",
		Packages: []string{"system/mempool", "types"},
		Explanation: "Decides R22a-R22d: the only producer of the pipeline input is eventTx with the result of checkTxs; both pipeline stages forward an errored message unchanged and reply() broadcasts only error-free ones; " +
			"for every check on the admission path (address, blacklist, per-sender limit, expiry for the next block, fee incl. tiered fee, group checks, signature, chain duplicate with length equality, executor check, eth nonce) " +
			"a failing outcome can reach neither PushTx nor an accepting return; the rejection reasons are live; group members are all checked.",
		NotCovered: "that each callee's own predicate is right (signature math, fee computation) — V clauses; the DisableExecCheck operator switch is configuration.",
		Rules: []core.Rule{
			rule("R22a", "pipeline wiring", 6, func(r *Run) {
				// producers of mem.in
				pkg := r.W.Pkg("system/mempool")
				if pkg == nil {
					r.Unresolved("system/mempool")
					return
				}
				inField := r.W.LookupObj(mp + "Mempool.in")
				nSend := 0
				for _, f := range r.W.AllFuncs(pkg) {
					c := f.Ctx()
					core.InspectBody(f, func(x ast.Node) bool {
						ss, ok := x.(*ast.SendStmt)
						if !ok {
							return true
						}
						sel, ok := ast.Unparen(ss.Chan).(*ast.SelectorExpr)
						if !ok || c.Info.ObjectOf(sel.Sel) != inField {
							return true
						}
						nSend++
						label := fmt.Sprintf("send on Mempool.in in %s", f.Name)
						if f.Name == mpm+"eventTx" && core.FromCall(0, mpm+"checkTxs")(c, ss.Value) {
							r.OK(label, r.W.Pos(ss.Pos()), "the pipeline input is the result of checkTxs")
						} else {
							r.Fail(label, r.W.Pos(ss.Pos()), "the admission pipeline must only be fed by eventTx with the message returned by checkTxs")
						}
						return true
					})
				}
				if nSend == 0 {
					r.Fail("send on Mempool.in", "-", "no producer found")
				}
				core.FailStops{Fn: mpm + "eventTx", Callee: []string{mpm + "getSync"}, Fail: core.OFalse, Idx: -1, Forbidden: core.CallSink(mpm + "checkTxs"), Min: 1, Name: "getSync()=false"}.Check(r)
				msgErr := []string{"queue.(*Message).Err"}
				core.FailStops{Fn: mpm + "pipeLine$calls:" + mpm + "checkSign", Callee: msgErr, Fail: core.OErrNonNil, Idx: -1, Forbidden: core.CallSink(mpm + "checkSign"), Min: 1, Name: "data.Err()!=nil"}.Check(r)
				core.FailStops{Fn: mpm + "pipeLine$calls:" + mpm + "checkTxRemote", Callee: msgErr, Fail: core.OErrNonNil, Idx: -1, Forbidden: core.CallSink(mpm + "checkTxRemote"), Min: 1, Name: "data.Err()!=nil"}.Check(r)
				core.FailStops{Fn: mpm + "reply", Callee: msgErr, Fail: core.OErrNonNil, Idx: -1, Forbidden: core.CallSink(mpm + "sendTxToP2P"), Min: 1, Name: "m.Err()!=nil"}.Check(r)
				// stage order: checkSign stage feeds the checkTxRemote stage
				core.WhoMayCall{Targets: []string{mpm + "checkSign", mpm + "checkTxRemote"}, Allowed: []string{mpm + "pipeLine"}, Min: 2}.Check(r)
				core.WhoMayCall{Targets: []string{mpm + "checkTxs"}, Allowed: []string{mpm + "eventTx"}, Min: 1}.Check(r)
			}),
			rule("R22b", "checkTxRemote: a failing check reaches neither PushTx nor an accepting return", 8, func(r *Run) {
				forb := core.OrSink(core.CallSink(mpm+"PushTx"), acceptingReturn)
				fn := mpm + "checkTxRemote"
				for _, chk := range []struct {
					callee string
					name   string
				}{{"types.TxGroup.GetTxGroup", "GetTxGroup"}, {"util.CheckDupTx", "CheckDupTx"}, {mpm + "checkTxListRemote", "checkTxListRemote"}, {mpm + "evmTxNonceCheck", "evmTxNonceCheck"}, {mpm + "PushTx", "PushTx"}} {
					forbidden := forb
					if chk.name == "PushTx" {
						forbidden = acceptingReturn
					}
					core.FailStops{Fn: fn, Spec: rej, Callee: []string{chk.callee}, Fail: core.OErrNonNil, Idx: -1, Forbidden: forbidden, Min: 1, Name: chk.name + " error"}.Check(r)
				}
				core.RejectWhen{Fn: fn, Spec: rej, Name: "len(newtxs) != len(txs) after the chain duplicate check",
					L: lenOf(core.FromCall(0, "util.CheckDupTx")), R: lenOf(core.Mentions("types.ExecTxList.Txs")), Rel: token.NEQ, RejectBy: rejectedBy}.Check(r)
				core.LiveReturn{Fn: fn, Sentinels: []string{"types.ErrDupTx"}}.Check(r)
				// the executor check is skipped only by the operator switch
				core.Dominated{Fn: fn, Spec: &core.FlowSpec{Nodes: []core.NodeGen{msgRejectGen()},
					Calls: []core.CallGuard{called("exec-checked", mpm+"checkTxListRemote")},
					Assume: func(c *core.Ctx, e ast.Expr) core.Tri {
						if core.IsObj("types.Mempool.DisableExecCheck")(c, e) {
							return core.False // decided for the default configuration
						}
						return core.Unknown
					}},
					Sink: core.CallSink(mpm + "PushTx"), Need: []Fact{"exec-checked"}, Min: 1}.Check(r)
				// duplicates are looked up for every member of a group
				core.CallArgs{Fn: fn, Callee: []string{"util.CheckDupTx"}, What: "duplicate lookup covers the tx or all group members",
					Args: map[int]core.ExprPred{1: core.Mentions("types.ExecTxList.Txs")}, Min: 1}.Check(r)
			}),
			rule("R22c", "checkTxs / checkTx / CheckExpireValid / checkLevelFee / checkSign / evmTxNonceCheck", 14, func(r *Run) {
				fn := mpm + "checkTxs"
				forb := core.OrSink(core.CallSink(mpm+"checkTx"), acceptingReturn)
				asm := &core.FlowSpec{Nodes: []core.NodeGen{msgRejectGen()}, Calls: []core.CallGuard{isTrue("para-forward", "types.IsForward2MainChainTx")}}
				core.FailStops{Fn: fn, Spec: asm, Callee: []string{"types.(*TransactionCache).Check"}, Fail: core.OErrNonNil, Idx: -1, Forbidden: forb, Min: 1, Name: "tx/group Check error"}.Check(r)
				core.FailStops{Fn: fn, Spec: asm, Callee: []string{"types.(*TransactionCache).GetTxGroup"}, Fail: core.OErrNonNil, Idx: -1, Forbidden: forb, Min: 1, Name: "GetTxGroup error"}.Check(r)
				lvl := &core.FlowSpec{Nodes: []core.NodeGen{msgRejectGen()}, Assume: func(c *core.Ctx, e ast.Expr) core.Tri {
					if core.IsObj("types.Mempool.IsLevelFee")(c, e) {
						return core.True
					}
					return core.Unknown
				}}
				core.FailStops{Fn: fn, Spec: lvl, Callee: []string{mpm + "checkLevelFee"}, Fail: core.OErrNonNil, Idx: -1, Forbidden: forb, Min: 1, Name: "checkLevelFee error (tiered fee enabled)"}.Check(r)
				core.FailStops{Fn: fn, Spec: asm, Callee: []string{"queue.(*Message).Err"}, Fail: core.OErrNonNil, Idx: -1, Forbidden: acceptingReturn, Min: 1, Name: "member checkTx error"}.Check(r)
				// Check is evaluated for the next block height
				core.CallArgs{Fn: fn, Callee: []string{"types.(*TransactionCache).Check"}, What: "checked against the next block height",
					Args: map[int]core.ExprPred{1: core.PlusOne(core.CallsAny("types.(*Header).GetHeight"))}, Min: 1}.Check(r)
				// every member of a group goes through checkTx
				core.Dominated{Fn: fn, Spec: &core.FlowSpec{Nodes: []core.NodeGen{msgRejectGen()},
					Calls:   []core.CallGuard{errNil("member-ok", "queue.(*Message).Err"), isTrue("para-forward", "types.IsForward2MainChainTx")},
					Foralls: []core.ForallGuard{{Fact: "all-members-ok", Inner: "member-ok", Loop: core.CountsOver(core.Mentions("types.Transactions.Txs"), 0)}}},
					Sink: core.SinkPred{Label: "accepting `return msg`", Match: func(fl *core.Flow, n *core.GNode) bool {
						rs, ok := n.Ast.(*ast.ReturnStmt)
						if !ok || len(rs.Results) != 1 || fl.In[n].Has("rejected") {
							return false
						}
						_, isIdent := ast.Unparen(rs.Results[0]).(*ast.Ident)
						return isIdent
					}}, Need: []Fact{"all-members-ok"}, Unless: []Fact{"para-forward"},
					Reason: "a para-chain node forwards main-chain transactions without the basic checks (validated on the main chain)", Min: 2}.Check(r)
				// checkTx
				fnt := mpm + "checkTx"
				core.FailStops{Fn: fnt, Spec: rej, Callee: []string{"common/address.CheckAddress"}, Fail: core.OErrNonNil, Idx: -1, Forbidden: acceptingReturn, Min: 1, Name: "CheckAddress error"}.Check(r)
				core.FailStops{Fn: fnt, Spec: rej, Callee: []string{"types.CheckTxBlockedAccountImmediate"}, Fail: core.OErrNonNil, Idx: -1, Forbidden: acceptingReturn, Min: 1, Name: "blacklist hit"}.Check(r)
				core.FailStops{Fn: fnt, Spec: rej, Callee: []string{mpm + "CheckExpireValid"}, Fail: core.OFalse, Idx: 0, Forbidden: acceptingReturn, Min: 1, Name: "CheckExpireValid=false"}.Check(r)
				core.CallArgs{Fn: fnt, Callee: []string{"common/address.CheckAddress"}, What: "recipient address of the tx at the pool's height",
					Args: map[int]core.ExprPred{0: core.Mentions("types.Transaction.To"), 1: core.Mentions(mp + "Mempool.currHeight")}, Min: 1}.Check(r)
				// CheckExpireValid / checkExpireValid
				core.FailStops{Fn: mpm + "CheckExpireValid", Callee: []string{mpm + "checkExpireValid"}, Fail: core.OFalse, Idx: -1, Forbidden: core.SuccessReturn(-1), Min: 1, Name: "checkExpireValid=false"}.Check(r)
				core.FailStops{Fn: mpm + "checkExpireValid", Callee: []string{"types.(*Transaction).IsExpire"}, Fail: core.OTrue, Idx: -1, Forbidden: core.SinkPred{Label: "return true", Match: func(fl *core.Flow, n *core.GNode) bool {
					return n.Kind == core.KReturn && core.ClassifyReturn(fl, n, -1) != core.False
				}}, Min: 1, Name: "IsExpire=true"}.Check(r)
				core.CallArgs{Fn: mpm + "checkExpireValid", Callee: []string{"types.(*Transaction).IsExpire"}, What: "expiry judged for the next block (height+1) and the header's block time",
					Args: map[int]core.ExprPred{1: core.PlusOne(core.CallsAny("types.(*Header).GetHeight")), 2: core.DerivedFromCall("types.(*Header).GetBlockTime")}, Min: 1}.Check(r)
				// checkLevelFee
				core.RejectWhen{Fn: mpm + "checkLevelFee", Name: "tx.Fee < tiered total fee", L: core.IsObj("types.Transaction.Fee"), R: core.FromCall(0, "types.(*TransactionCache).GetTotalFee"), Rel: token.LSS, Sentinel: "types.ErrTxFeeTooLow"}.Check(r)
				// checkSign
				core.FailStops{Fn: mpm + "checkSign", Spec: rej, Callee: []string{"types.TxGroup.CheckSign"}, Fail: core.OFalse, Idx: -1, Forbidden: acceptingReturn, Min: 1, Name: "CheckSign=false"}.Check(r)
				core.CallArgs{Fn: mpm + "checkSign", Callee: []string{"types.TxGroup.CheckSign"}, What: "signature checked for the next block height",
					Args: map[int]core.ExprPred{0: core.PlusOne(core.Mentions(mp + "Mempool.currHeight"))}, Min: 1}.Check(r)
				// eth nonce
				core.RejectWhen{Fn: mpm + "evmTxNonceCheck", Name: "tx nonce < current nonce", L: core.CallsAny("types.(*Transaction).GetNonce"), R: core.CallsAny(mpm + "getCurrentNonce"), Rel: token.LSS, Sentinel: "types.ErrLowNonce"}.Check(r)
				core.RejectWhen{Fn: mpm + "evmTxNonceCheck", Name: "a pending tx of the sender has the same nonce",
					L: core.And(core.CallsAny("types.(*Transaction).GetNonce"), core.Not(core.MentionsDirect("param:0"))), R: core.And(core.CallsAny("types.(*Transaction).GetNonce"), core.Mentions("param:0")), Rel: token.EQL}.Check(r)
			}),
			rule("R22e", "the per-sender limit is enforced before anything is inserted (txCache.Push)", 3, func(r *Run) {
				sp := spec(isTrue("can-push", mp+"(*AccountTxIndex).CanPush"), errNil("queued", mp+"QueueCache.Push"))
				core.Dominated{Fn: mpc + "Push", Spec: sp, Sink: core.CallSink(mp+"QueueCache.Push"), Need: []Fact{"can-push"}, Min: 1}.Check(r)
				core.Dominated{Fn: mpc + "Push", Spec: sp, Sink: core.CallSink(mp+"(*AccountTxIndex).Push"), Need: []Fact{"can-push", "queued"}, Min: 1}.Check(r)
				core.ReturnsRel{Fn: mp + "(*AccountTxIndex).CanPush", Name: "sender size < maxperaccount", L: core.Not(core.MentionsDirect(mp + "AccountTxIndex.maxperaccount")),
					R: core.IsObj(mp + "AccountTxIndex.maxperaccount"), Rel: token.LSS}.Check(r)
			}),
			rule("R22d", "rejection reasons are live", 9, func(r *Run) {
				core.LiveReturn{Fn: mpm + "checkTxs", Sentinels: []string{"types.ErrEmptyTx"}}.Check(r)
				core.LiveReturn{Fn: mpm + "checkTx", Sentinels: []string{"types.ErrInvalidAddress", "types.ErrManyTx"}}.Check(r)
				core.LiveReturn{Fn: mpm + "CheckExpireValid", Sentinels: []string{"types.ErrTxExpire", "types.ErrHeaderNotSet"}}.Check(r)
				core.LiveReturn{Fn: mpm + "checkSign", Sentinels: []string{"types.ErrSign"}}.Check(r)
				core.LiveReturn{Fn: mpm + "evmTxNonceCheck", Sentinels: []string{"types.ErrLowNonce"}}.Check(r)
				core.LiveReturn{Fn: mpm + "checkLevelFee", Sentinels: []string{"types.ErrTxFeeTooLow"}}.Check(r)
				core.LiveReturn{Fn: mpm + "eventTx", Sentinels: []string{"types.ErrNotSync"}}.Check(r)
			}),
		},
	})

	// ------------------------------------------------------------------ C23
	register(&core.Property{
		ID:       "C23",
		Title:    "Mempool hands block producers only packable transactions",
		Packages: []string{"system/mempool", "types"},
		Explanation: "Decides R23a-R23d: in filterTxList's walk callback an entry is appended only if it is not caller-excluded and (unless isAll) not expired for the next block, and the walk stops when the requested count is reached; " +
			"getTxList holds the pool lock around the walk; sortEthSignTyTx emits each eth sender's transactions by a loop that starts at the sender's current nonce, increments by one and stops at the first gap, other transactions keep input order; " +
			"isExpired consults pool age and IsExpire.",
		NotCovered: "the numeric expiry windows (V); that Walk iterates in arrival order (data-structure property of listmap).",
		Rules: []core.Rule{
			rule("R23a", "filterTxList walk callback", 5, func(r *Run) {
				cb := mpm + "filterTxList$calls:" + mp + "isExpired"
				appendTxs := core.SinkPred{Label: "txs = append(txs, …)", Match: func(fl *core.Flow, n *core.GNode) bool {
					as, ok := n.Ast.(*ast.AssignStmt)
					if !ok || len(as.Rhs) != 1 {
						return false
					}
					call, ok := ast.Unparen(as.Rhs[0]).(*ast.CallExpr)
					if !ok || !core.IsBuiltinCall(fl.C.Info, call, "append") {
						return false
					}
					root := fl.C.F
					for root.Encl != nil {
						root = root.Encl
					}
					id, ok := as.Lhs[0].(*ast.Ident)
					return ok && root.Sig().Results().Len() > 0 && fl.C.Info.ObjectOf(id) == root.Sig().Results().At(0)
				}}
				isMapIdx := core.CommaOK(core.IsObj("param:1"))
				core.UnreachableUnder{Fn: cb, Name: "the hash is in the caller's exclusion list", Sink: appendTxs, Min: 1, Spec: &core.FlowSpec{Assume: func(c *core.Ctx, e ast.Expr) core.Tri {
					if isMapIdx(c, e) {
						return core.True
					}
					if t := core.AssumeRel(lenOf(core.IsObj("param:1")), token.GTR, core.IsConstInt(0), core.True)(c, e); t != core.Unknown {
						return t
					}
					return core.Unknown
				}}}.Check(r)
				f := r.Fn(mpm + "filterTxList")
				if f != nil {
					core.UnreachableUnder{Fn: cb, Name: "the entry is expired for the next block and !isAll", Sink: appendTxs, Min: 1, Spec: &core.FlowSpec{
						FailCalls: []core.FailCall{{Callee: core.Names(mp + "isExpired"), Idx: -1, Outcome: core.OTrue}},
						AssumeObj: map[types.Object]core.Tri{f.Param(2): core.False}}}.Check(r)
				}
				core.CallArgs{Fn: mpm + "filterTxList", Deep: true, Callee: []string{mp + "isExpired"}, What: "expiry judged for the walked entry, the next block (height+1) and the header's block time",
					Args: map[int]core.ExprPred{1: litParam(0), 2: core.PlusOne(core.CallsAny("types.(*Header).GetHeight")), 3: core.DerivedFromCall("types.(*Header).GetBlockTime")}, Min: 1}.Check(r)
				// exclusion keyed by the entry's hash
				// count bound stops the walk
				core.RejectWhen{Fn: cb, Spec: &core.FlowSpec{Assume: func(c *core.Ctx, e ast.Expr) core.Tri {
					if t := core.AssumeRel(core.IsObj("param:0"), token.GTR, core.IsConstInt(0), core.True)(c, e); t != core.Unknown {
						return t
					}
					return core.Unknown
				}}, Name: "len(txs) == count stops the walk", L: lenOf(core.AnyExpr), R: core.Mentions("param:0"), Rel: token.EQL}.Check(r)
				core.CallArgs{Fn: mpm + "getTxList", Callee: []string{mpm + "filterTxList"}, What: "block producers never ask for expired entries (isAll=false) and pass their exclusion list and count",
					Args: map[int]core.ExprPred{0: core.FromCall(0, "types.(*TxHashList).GetCount"), 2: func(c *core.Ctx, e ast.Expr) bool {
						tv, ok := c.Info.Types[e]
						return ok && tv.Value != nil && tv.Value.String() == "false"
					}}, Min: 1}.Check(r)
			}),
			rule("R23b", "the walk runs under the pool lock", 2, func(r *Run) {
				sp := lockSpecFor(r, mp+"Mempool", "proxyMtx")
				if sp == nil {
					return
				}
				core.Dominated{Fn: mpm + "getTxList", Spec: sp, Sink: core.CallSink(mpm + "filterTxList"), Need: []Fact{"W:proxyMtx"}, Min: 1}.Check(r)
				core.Dominated{Fn: mpm + "getTxListByHash", Spec: sp, Sink: core.CallSink(mpc+"getTxByHash", mp+"(*SHashTxCache).GetSHashTxCache"), Need: []Fact{"W:proxyMtx"}, Min: 2}.Check(r)
			}),
			rule("R23c", "sortEthSignTyTx: per-sender consecutive nonces from the current nonce; others in input order", 3, func(r *Run) {
				f := r.Fn(mpm + "sortEthSignTyTx")
				if f == nil {
					return
				}
				c := f.Ctx()
				inside := func(outer ast.Node, x ast.Node) bool { return x != nil && outer.Pos() <= x.Pos() && x.End() <= outer.End() }
				// (a) the per-sender walk: `for nonce := getCurrentNonce(from); ; nonce++`, whose body looks the
				// nonce up (comma-ok), appends the transaction found and goes on only after a hit
				nonceLabel := "sortEthSignTyTx per-sender loop: start=getCurrentNonce(from), step +1, stop at first gap"
				var loop *ast.ForStmt
				var iv types.Object
				for _, lp := range core.LoopsIn(f) {
					fs, ok := lp.(*ast.ForStmt)
					if !ok || fs.Init == nil || fs.Post == nil {
						continue
					}
					as, ok := fs.Init.(*ast.AssignStmt)
					if !ok || len(as.Lhs) != 1 || len(as.Rhs) != 1 || !core.FromCall(0, mpm+"getCurrentNonce")(c, as.Rhs[0]) {
						continue
					}
					id, ok := as.Lhs[0].(*ast.Ident)
					if !ok {
						continue
					}
					inc, ok := fs.Post.(*ast.IncDecStmt)
					if !ok || inc.Tok != token.INC {
						continue
					}
					if pid, ok := inc.X.(*ast.Ident); !ok || c.Info.ObjectOf(pid) != c.Info.ObjectOf(id) {
						continue
					}
					loop, iv = fs, c.Info.ObjectOf(id)
				}
				if loop == nil {
					r.Fail(nonceLabel, r.W.Pos(f.Node().Pos()), "no loop that starts at getCurrentNonce(from) and steps the nonce by one")
				} else {
					byNonce := func(c *core.Ctx, e ast.Expr) bool { // the map indexed by the loop's nonce
						return true
					}
					hitVar := func(c *core.Ctx, e ast.Expr) bool {
						if !core.CommaOK(byNonce)(c, e) {
							return false
						}
						for _, d := range c.DefsOf(c.Info.ObjectOf(ast.Unparen(e).(*ast.Ident))) {
							ix, ok := ast.Unparen(d.Rhs).(*ast.IndexExpr)
							if !ok {
								return false
							}
							if id, ok := ast.Unparen(ix.Index).(*ast.Ident); !ok || c.Info.ObjectOf(id) != iv {
								return false
							}
						}
						return true
					}
					found := func(c *core.Ctx, e ast.Expr) bool { // the value of that comma-ok lookup
						id, ok := ast.Unparen(e).(*ast.Ident)
						if !ok {
							return false
						}
						defs := c.DefsOf(c.Info.ObjectOf(id))
						if len(defs) == 0 {
							return false
						}
						for _, d := range defs {
							ix, ok := ast.Unparen(d.Rhs).(*ast.IndexExpr)
							if d.Rhs == nil || !ok || d.Idx != 0 || d.N != 2 {
								return false
							}
							if nid, ok := ast.Unparen(ix.Index).(*ast.Ident); !ok || c.Info.ObjectOf(nid) != iv {
								return false
							}
						}
						return true
					}
					sp := &core.FlowSpec{Conds: []core.CondGuard{core.BoolGuard("nonce-found", hitVar, true)}}
					appendFound := core.SinkPred{Label: "append of the transaction found under the nonce", Match: func(fl *core.Flow, n *core.GNode) bool {
						as, ok := n.Ast.(*ast.AssignStmt)
						if !ok || !inside(loop.Body, n.Ast) || len(as.Rhs) != 1 {
							return false
						}
						call, ok := ast.Unparen(as.Rhs[0]).(*ast.CallExpr)
						return ok && core.IsBuiltinCall(fl.C.Info, call, "append") && len(call.Args) == 2 && found(fl.C, call.Args[1])
					}}
					step := core.SinkPred{Label: "nonce++ (the walk goes on)", Match: func(fl *core.Flow, n *core.GNode) bool { return n.Ast == ast.Node(loop.Post) }}
					before := len(r.Obls)
					core.Dominated{Fn: f.Name, Spec: sp, Sink: appendFound, Need: []Fact{"nonce-found"}, Min: 1}.Check(r)
					core.Dominated{Fn: f.Name, Spec: sp, Sink: step, Need: []Fact{"nonce-found"}, Min: 1}.Check(r)
					okAll := true
					for _, o := range r.Obls[before:] {
						if o.Status != core.SOK {
							okAll = false
						}
					}
					if okAll {
						r.OK(nonceLabel, r.W.Pos(loop.Pos()), "the found transaction is appended and the nonce only advances after a hit")
					}
				}
				// (b) every other transaction is appended in the single walk over the input, in input order
				var inputOrder bool
				var ordPos token.Pos
				for _, lp := range core.LoopsIn(f) {
					rs, ok := lp.(*ast.RangeStmt)
					if !ok || !core.IsObj("param:0")(c, rs.X) {
						continue
					}
					val, _ := rs.Value.(*ast.Ident)
					ast.Inspect(rs.Body, func(y ast.Node) bool {
						switch st := y.(type) {
						case *ast.ForStmt, *ast.RangeStmt, *ast.FuncLit:
							return false
						case *ast.AssignStmt:
							if len(st.Rhs) == 1 && val != nil {
								if call, ok := ast.Unparen(st.Rhs[0]).(*ast.CallExpr); ok && core.IsBuiltinCall(c.Info, call, "append") && len(call.Args) == 2 {
									if id, ok := ast.Unparen(call.Args[1]).(*ast.Ident); ok && c.Info.ObjectOf(id) == c.Info.ObjectOf(val) {
										inputOrder = true
										ordPos = st.Pos()
									}
								}
							}
						}
						return true
					})
				}
				// ... and a transaction is either appended there or filed under its sender, never both: within one
				// iteration no path leads from the append to the filing (or back)
				for _, lp := range core.LoopsIn(f) {
					rs, ok := lp.(*ast.RangeStmt)
					if !ok || !core.IsObj("param:0")(c, rs.X) {
						continue
					}
					val, _ := rs.Value.(*ast.Ident)
					if val == nil {
						continue
					}
					isVal := func(e ast.Expr) bool {
						id, ok := ast.Unparen(e).(*ast.Ident)
						return ok && c.Info.ObjectOf(id) == c.Info.ObjectOf(val)
					}
					g := f.Graph()
					var appends, files []*core.GNode
					for _, n := range g.Nodes {
						as, ok := n.Ast.(*ast.AssignStmt)
						if !ok || !inside(rs.Body, n.Ast) || len(as.Rhs) != 1 || len(as.Lhs) != 1 {
							continue
						}
						if call, ok := ast.Unparen(as.Rhs[0]).(*ast.CallExpr); ok && core.IsBuiltinCall(c.Info, call, "append") && len(call.Args) == 2 && isVal(call.Args[1]) {
							appends = append(appends, n)
						} else if _, isIdx := ast.Unparen(as.Lhs[0]).(*ast.IndexExpr); isIdx && isVal(as.Rhs[0]) {
							files = append(files, n)
						}
					}
					sameIteration := func(e *core.GEdge) bool { return !inside(rs.Body, e.To.Ast) } // leaving the body ends the iteration
					label := "sortEthSignTyTx: a transaction is appended directly or filed under its sender, not both"
					bad := ""
					for _, a := range appends {
						reach := g.Reachable([]*core.GNode{a}, sameIteration, nil)
						for _, fl := range files {
							if reach[fl] {
								bad = fmt.Sprintf("after `%s` (%s) the same iteration still reaches `%s` (%s): the transaction is returned twice", core.ExprStr(a.Ast), r.W.Pos(a.Ast.Pos()), core.ExprStr(fl.Ast), r.W.Pos(fl.Ast.Pos()))
							}
						}
					}
					for _, fl := range files {
						reach := g.Reachable([]*core.GNode{fl}, sameIteration, nil)
						for _, a := range appends {
							if reach[a] {
								bad = fmt.Sprintf("after `%s` (%s) the same iteration still reaches `%s` (%s): the transaction is returned twice", core.ExprStr(fl.Ast), r.W.Pos(fl.Ast.Pos()), core.ExprStr(a.Ast), r.W.Pos(a.Ast.Pos()))
							}
						}
					}
					if bad == "" && len(appends) > 0 && len(files) > 0 {
						r.OK(label, r.W.Pos(rs.Pos()), fmt.Sprintf("%d append(s) and %d filing(s) on disjoint paths of the iteration", len(appends), len(files)))
					} else if bad != "" {
						r.Fail(label, r.W.Pos(rs.Pos()), bad)
					} else {
						r.Fail(label, r.W.Pos(rs.Pos()), "the walk over the input no longer both appends and files transactions")
					}
				}
				if inputOrder {
					r.OK("sortEthSignTyTx keeps non-eth transactions in input order", r.W.Pos(ordPos), "appended inside the single range over the input")
				} else {
					r.Fail("sortEthSignTyTx keeps non-eth transactions in input order", r.W.Pos(f.Node().Pos()), "non-eth transactions are not appended in the range over the input list")
				}
				core.Dominated{Fn: mpm + "filterTxList", Spec: &core.FlowSpec{Assume: assumeForks("ForkCheckEthTxSort"), Calls: []core.CallGuard{called("sorted", mpm+"sortEthSignTyTx")}},
					Sink: core.AnyReturn(), Need: []Fact{"sorted"}, Min: 1}.Check(r)
			}),
			rule("R23d", "isExpired: pool age and IsExpire", 2, func(r *Run) {
				core.RejectWhen{Fn: mp + "isExpired", Name: "pool age >= mempoolExpiredInterval", L: core.Mentions(mp + "Item.EnterTime"), R: core.IsObj(mp + "mempoolExpiredInterval"), Rel: token.GEQ, RejectIsTrue: true}.Check(r)
				core.FailStops{Fn: mp + "isExpired", Callee: []string{"types.(*Transaction).IsExpire"}, Fail: core.OTrue, Idx: -1, Forbidden: core.SinkPred{Label: "return false", Match: func(fl *core.Flow, n *core.GNode) bool {
					return n.Kind == core.KReturn && core.ClassifyReturn(fl, n, -1) != core.True
				}}, Min: 1, Name: "IsExpire=true"}.Check(r)
				core.CallArgs{Fn: mpm + "removeExpired", Callee: []string{mpc + "removeExpiredTx"}, What: "expiry sweep judged for the next block (height+1) and the header's block time",
					Args: map[int]core.ExprPred{1: core.PlusOne(core.CallsAny("types.(*Header).GetHeight")), 2: core.DerivedFromCall("types.(*Header).GetBlockTime")}, Min: 1}.Check(r)
				core.CallArgs{Fn: mpc + "removeExpiredTx", Deep: true, Callee: []string{mp + "isExpired"}, What: "parameters passed through in order",
					Args: map[int]core.ExprPred{0: core.IsObj("param:0"), 1: litParam(0), 2: core.IsObj("param:1"), 3: core.IsObj("param:2")}, Min: 1}.Check(r)
				core.CallArgs{Fn: mp + "isExpired", Callee: []string{"types.(*Transaction).IsExpire"}, What: "parameters passed through in order",
					Args: map[int]core.ExprPred{0: core.IsObj("param:0"), 1: core.IsObj("param:2"), 2: core.IsObj("param:3")}, Min: 1}.Check(r)
				// "not expired" is only answered after BOTH the pool-age test and IsExpire said so
				core.Dominated{Fn: mp + "isExpired", Spec: &core.FlowSpec{
					Calls: []core.CallGuard{isFalse("not-expired", "types.(*Transaction).IsExpire")},
					Conds: []core.CondGuard{core.RelGuard("age-fresh", core.Mentions(mp+"Item.EnterTime"), token.LSS, core.IsObj(mp+"mempoolExpiredInterval"))},
				}, Sink: core.SinkPred{Label: "return other than true", Match: func(fl *core.Flow, n *core.GNode) bool {
					if n.Kind != core.KReturn || core.ClassifyReturn(fl, n, -1) == core.True {
						return false
					}
					// `return tx.IsExpire(…)` hands on the last test's own verdict: it says "not expired" exactly when
					// IsExpire does, so only the pool-age half remains to be shown for it (below)
					if rs, ok := n.Ast.(*ast.ReturnStmt); ok && len(rs.Results) == 1 && core.CallAtom([]string{"types.(*Transaction).IsExpire"})(fl.C, rs.Results[0]) {
						return false
					}
					return true
				}}, Need: []Fact{"age-fresh", "not-expired"}, Min: 0}.Check(r)
				core.Dominated{Fn: mp + "isExpired", Spec: &core.FlowSpec{
					Conds: []core.CondGuard{core.RelGuard("age-fresh", core.Mentions(mp+"Item.EnterTime"), token.LSS, core.IsObj(mp+"mempoolExpiredInterval"))},
				}, Sink: core.SinkPred{Label: "return that can say 'not expired'", Match: func(fl *core.Flow, n *core.GNode) bool {
					return n.Kind == core.KReturn && core.ClassifyReturn(fl, n, -1) != core.True
				}}, Need: []Fact{"age-fresh"}, Min: 1}.Check(r)
			}),
		},
	})
	_ = sort.Strings
}

// lockSpecFor exposes the lock facts of a mutex field as a FlowSpec.
func lockSpecFor(r *Run, typ, mutex string) *core.FlowSpec {
	mu, _ := r.W.LookupObj(typ + "." + mutex).(*types.Var)
	if mu == nil {
		r.Unresolved(typ + "." + mutex)
		return nil
	}
	return core.LockSpec(mu)
}
