package props

// Rules added after the second round of seeded changes (see seeded/HISTORY.md).

import (
	"fmt"
	"go/ast"
	"go/token"
	"go/types"

	"verif/sa/core"
)

// freshBytes: the expression denotes byte-slice memory created by this
// evaluation (so appending to it cannot write into memory another value sees):
// a conversion from a string, a make, a composite literal, append onto a fresh
// base, a call to one of the listed constructors, or a local variable all of
// whose definitions are fresh or append onto itself.
func freshBytes(c *core.Ctx, e ast.Expr, ctors core.NameSet, depth int) bool {
	e = ast.Unparen(e)
	switch x := e.(type) {
	case *ast.CompositeLit:
		return true
	case *ast.CallExpr:
		if core.IsBuiltinCall(c.Info, x, "make") {
			return true
		}
		if core.IsBuiltinCall(c.Info, x, "append") && len(x.Args) >= 1 {
			return freshBytes(c, x.Args[0], ctors, depth)
		}
		if tv, ok := c.Info.Types[x.Fun]; ok && tv.IsType() && len(x.Args) == 1 {
			at := c.Info.TypeOf(x.Args[0])
			if at != nil {
				if b, isB := at.Underlying().(*types.Basic); isB && b.Info()&types.IsString != 0 {
					return true // []byte(string) allocates
				}
			}
			return false // []byte([]byte) shares
		}
		if fn := core.Callee(c.Info, x); fn != nil && ctors.Has(fn) {
			return true
		}
		return false
	case *ast.Ident:
		if depth == 0 {
			return false
		}
		o := c.Info.ObjectOf(x)
		v, ok := o.(*types.Var)
		if !ok || v.IsField() || v.Pkg() == nil || v.Parent() == v.Pkg().Scope() {
			return false
		}
		defs := c.DefsOf(o)
		if len(defs) == 0 {
			return false
		}
		for _, d := range defs {
			if d.Rhs == nil {
				return false
			}
			// key = append(key, …): grows itself
			if call, ok := ast.Unparen(d.Rhs).(*ast.CallExpr); ok && core.IsBuiltinCall(c.Info, call, "append") && len(call.Args) >= 1 {
				if id, ok := ast.Unparen(call.Args[0]).(*ast.Ident); ok && c.Info.ObjectOf(id) == o {
					continue
				}
			}
			if !freshBytes(c, d.Rhs, ctors, depth-1) {
				return false
			}
		}
		return true
	}
	return false
}

func init() {
	tb := "common/db/table.(*Table)."
	extend("C10", "R10d-R10f (added after seeded changes were missed): cancelling a buffered row also removes it from the by-primary-key map (the map only ever holds rows that will be written); every storage-key constructor returns freshly allocated bytes, so keys built for different rows can never share a backing array; "+
		"the rows produced by one loop never share an object that the loop keeps modifying.",
		rule("R10d", "a cancelled buffered row leaves the by-primary-key map", 2, func(r *Run) {
			pkg := r.W.Pkg("common/db/table")
			if pkg == nil {
				r.Unresolved("package common/db/table")
				return
			}
			noneObj := r.W.LookupObj("common/db/table.None")
			n := 0
			for _, f := range r.W.AllFuncs(pkg) {
				if f.Lit != nil {
					continue
				}
				c := f.Ctx()
				cancels := false
				ast.Inspect(f.Body(), func(x ast.Node) bool {
					as, ok := x.(*ast.AssignStmt)
					if !ok || len(as.Lhs) != 1 || len(as.Rhs) != 1 {
						return true
					}
					sel, ok := ast.Unparen(as.Lhs[0]).(*ast.SelectorExpr)
					if !ok || sel.Sel.Name != "Ty" {
						return true
					}
					if id, ok := ast.Unparen(as.Rhs[0]).(*ast.Ident); ok && noneObj != nil && c.Info.ObjectOf(id) == noneObj {
						// only rows that already sit in the buffer (handed in, or looked up): a row this function
						// has just created is not in the map yet
						if base, ok := ast.Unparen(sel.X).(*ast.Ident); ok {
							created := false
							for _, d := range c.DefsOf(c.Info.ObjectOf(base)) {
								if d.Rhs == nil {
									continue
								}
								switch rx := ast.Unparen(d.Rhs).(type) {
								case *ast.CompositeLit:
									created = true
								case *ast.UnaryExpr:
									if _, isLit := ast.Unparen(rx.X).(*ast.CompositeLit); isLit {
										created = true
									}
								case *ast.CallExpr:
									if fn := core.Callee(c.Info, rx); fn != nil && fn.Name() == "CreateRow" {
										created = true
									}
								}
							}
							if !created {
								cancels = true
							}
						}
					}
					return true
				})
				if !cancels {
					continue
				}
				n++
				core.Dominated{Fn: f.Name, Spec: &core.FlowSpec{Nodes: []core.NodeGen{{Fact: "unmapped", Gen: func(c *core.Ctx, n *core.GNode) bool {
					for _, call := range core.CallsIn(n.Ast) {
						if core.IsBuiltinCall(c.Info, call, "delete") && len(call.Args) == 2 && core.Mentions("common/db/table.Table.rowmap")(c, call.Args[0]) &&
							core.DerivedFrom("common/db/table.Row.Primary")(c, call.Args[1]) {
							return true
						}
					}
					return false
				}}}}, Sink: core.AnyReturn(), Need: []Fact{"unmapped"}, Min: 1}.Check(r)
			}
			label := "common/db/table: functions that cancel a buffered row (Ty = None)"
			if n >= 1 {
				r.OK(label, "common/db/table/table.go", fmt.Sprintf("%d function(s)", n))
			} else {
				r.Fail(label, "common/db/table/table.go", "no function sets Row.Ty = None any more (anchor moved?)")
			}
		}),
		rule("R10e", "storage-key constructors return freshly allocated bytes", 4, func(r *Run) {
			names := []string{tb + "getDataKey", tb + "getIndexKey", tb + "primaryPrefix", tb + "indexPrefix"}
			ctors := core.Names(names...)
			for _, fn := range names {
				f := r.Fn(fn)
				if f == nil {
					continue
				}
				c := f.Ctx()
				for i, ret := range f.Graph().Returns() {
					rs, ok := ret.Ast.(*ast.ReturnStmt)
					if !ok || len(rs.Results) != 1 {
						continue
					}
					label := fmt.Sprintf("%s return#%d yields fresh memory", f.Name, i+1)
					if freshBytes(c, rs.Results[0], ctors, 3) {
						r.OK(label, r.W.Pos(rs.Pos()), core.ExprStr(rs.Results[0]))
					} else {
						r.Fail(label, r.W.Pos(rs.Pos()), fmt.Sprintf("`%s` may share its backing array with a long-lived slice: an append by one caller can overwrite the key another caller still holds", core.ExprStr(rs.Results[0])))
					}
				}
			}
		}),
		rule("R10f", "rows produced in a loop do not share a mutable object declared outside it", 1, func(r *Run) {
			core.NoSharedAcrossIterations{Pkgs: []string{"common/db/table"}, Min: 8}.Check(r)
		}),
	)

	pu := "blockchain.(*Push)."
	extend("C32", "R32e-R32f (added after seeded changes were missed): the sequence a payload builder reports as delivered is computed from what was actually packed (the packed list or a counter advanced per packed item), never from the requested count, because the size cap can cut a batch short; "+
		"a subscriber that registers with a resume point is persisted at its last SEQUENCE (sequence and height differ after any reorganisation).",
		rule("R32e", "the acknowledged sequence is computed from what was packed", 4, func(r *Run) {
			for _, fn := range []string{"getBlockSeqs", "getHeaderSeqs", "getEVMEvent", "getTxReceipts"} {
				f := r.Fn(pu + fn)
				if f == nil {
					continue
				}
				c := f.Ctx()
				// the requested-count parameter: the int parameter that precedes maxSize
				ps := f.Sig().Params()
				cntIdx := -1
				for i := 0; i < ps.Len(); i++ {
					if ps.At(i).Name() == "maxSize" && i > 0 {
						cntIdx = i - 1
					}
				}
				if cntIdx < 0 {
					r.Unresolved(f.Name + ": no maxSize parameter (signature changed)")
					continue
				}
				q := fmt.Sprintf("param:%d", cntIdx)
				n := 0
				for _, ret := range f.Graph().Returns() {
					rs, ok := ret.Ast.(*ast.ReturnStmt)
					if !ok || len(rs.Results) != 3 || !isNilLit(c, rs.Results[2]) {
						continue
					}
					n++
					label := fmt.Sprintf("%s success return#%d: the reported sequence does not come from the requested count", f.Name, n)
					if mayDeriveFrom(q)(c, rs.Results[1]) {
						r.Fail(label, r.W.Pos(rs.Pos()), fmt.Sprintf("`%s` is computed from the requested count %s; when the size cap stops the batch early the skipped sequences are recorded as delivered and never sent", core.ExprStr(rs.Results[1]), ps.At(cntIdx).Name()))
					} else {
						r.OK(label, r.W.Pos(rs.Pos()), core.ExprStr(rs.Results[1]))
					}
				}
				if n == 0 {
					r.Fail(f.Name+": success returns", r.W.Pos(f.Node().Pos()), "no `return data, seq, nil` found")
				}
			}
		}),
		rule("R32f", "resume points are stored as sequences", 2, func(r *Run) {
			core.CallArgs{Fn: pu + "addSubscriber", Callee: []string{pu + "setLastPushSeq"}, What: "the subscriber's name and its last SEQUENCE", Args: map[int]core.ExprPred{
				0: core.Mentions("types.PushSubscribeReq.Name"), 1: core.Mentions("types.PushSubscribeReq.LastSequence")}, Min: 1}.Check(r)
			core.CallArgs{Fn: pu + "runTask$calls:blockchain.PostService.PostData", Callee: []string{pu + "setLastPushSeq"}, What: "the sequence the payload builder reported", Args: map[int]core.ExprPred{
				1: core.FromCall(1, pu+"getPushData")}, Min: 1}.Check(r)
		}),
	)
	_ = token.ADD
}
