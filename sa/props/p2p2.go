package props

import (
	"fmt"
	"go/ast"
	"go/token"
	"go/types"

	"verif/sa/core"
)

func init() {
	lt := bcast + "(*ltBroadcast)."
	// ------------------------------------------------------------------ C34
	register(&core.Property{
		ID:       "C34",
		Title:    "Light blocks are rebuilt exactly or fall back",
		Packages: []string{"system/p2p/dht/protocol/broadcast", "system/mempool"},
		Explanation: "Decides R34a-R34d: the rebuilt block is handed to the blockchain only when no position stayed empty (the success flag starts true, is only ever lowered, is lowered on every missing pool transaction, and guards the hand-over); each missing position asks the pool for the short hash of that same position (index and hash are appended together) and the pool answers with one entry per requested hash, in request order; " +
			"a pending block is re-tried on every tick and leaves the list only when built or when its age reaches the configured timeout, in which case the full block is requested from the peer it came from, for the block's height.",
		NotCovered: "that the rebuilt block hashes to the announced hash (value clause: decided downstream by the blockchain's header/tx-root checks); short-hash collisions in the pool.",
		Rules: []core.Rule{
			rule("R34a", "hand-over only when every position was filled", 4, func(r *Run) {
				fn := lt + "buildPendBlock"
				f := r.Fn(fn)
				if f == nil {
					return
				}
				c := f.Ctx()
				// the success flag: the variable tested by the `if` that guards postBlockChain
				var flag types.Object
				fl := core.RunFlow(f, &core.FlowSpec{})
				for _, gn := range fl.G.Nodes {
					if gn.Ast == nil {
						continue
					}
					for _, call := range core.CallsIn(gn.Ast) {
						if fnc := core.Callee(c.Info, call); fnc != nil && core.ShortName(fnc) == bcast+"(*broadcastProtocol).postBlockChain" {
							for p := r.W.Parent(call); p != nil; p = r.W.Parent(p) {
								if ifs, ok := p.(*ast.IfStmt); ok {
									if id, ok := ast.Unparen(ifs.Cond).(*ast.Ident); ok {
										flag = c.Info.ObjectOf(id)
									}
									break
								}
							}
						}
					}
				}
				if flag == nil {
					// guard-clause form (`if !ok { return false }` before the hand-over): the flag is
					// the bool local known to be true where postBlockChain is called
					for _, gn := range fl.G.Nodes {
						if gn.Ast == nil || !fl.Live(gn) {
							continue
						}
						for _, call := range core.CallsIn(gn.Ast) {
							if fnc := core.Callee(c.Info, call); fnc != nil && core.ShortName(fnc) == bcast+"(*broadcastProtocol).postBlockChain" {
								for o, v := range fl.In[gn].Val {
									if vv, isVar := o.(*types.Var); isVar && v == core.True && !vv.IsField() {
										if b, isB := vv.Type().Underlying().(*types.Basic); isB && b.Kind() == types.Bool {
											flag = o
										}
									}
								}
							}
						}
					}
				}
				label := fn + ": the hand-over to the blockchain is guarded by a success flag"
				if flag == nil {
					r.Fail(label, r.W.Pos(f.Node().Pos()), "postBlockChain is not inside `if <flag>`")
					return
				}
				r.OK(label, r.W.Pos(f.Node().Pos()), "if "+flag.Name()+" { postBlockChain(…) }")
				// only ever lowered
				label = fn + ": the success flag starts true and is only lowered"
				defs := c.DefsOf(flag)
				nTrue, nFalse, other := 0, 0, 0
				for _, d := range defs {
					if id, ok := ast.Unparen(d.Rhs).(*ast.Ident); ok && d.Rhs != nil {
						switch id.Name {
						case "true":
							nTrue++
							continue
						case "false":
							nFalse++
							continue
						}
					}
					other++
				}
				if nTrue == 1 && nFalse >= 1 && other == 0 {
					r.OK(label, r.W.Pos(f.Node().Pos()), fmt.Sprintf("1 × true (initial), %d × false", nFalse))
				} else {
					r.Fail(label, r.W.Pos(f.Node().Pos()), fmt.Sprintf("assignments: true×%d false×%d other×%d: a later iteration could raise the flag again after a transaction was found missing", nTrue, nFalse, other))
				}
				// a missing pool transaction lowers the flag and fills nothing
				isMissing := func(c *core.Ctx, e ast.Expr) bool {
					op, ok := core.CmpAtom(c, e, core.DerivedFromCall("types.(*ReplyTxList).GetTxs"), func(c *core.Ctx, e ast.Expr) bool { return isNilLit(c, e) })
					return ok && op == token.EQL
				}
				lowered, filledUnderMissing := false, false
				for _, gn := range fl.G.Nodes {
					as, ok := gn.Ast.(*ast.AssignStmt)
					if !ok || len(as.Lhs) != 1 {
						continue
					}
					if id, ok := ast.Unparen(as.Lhs[0]).(*ast.Ident); ok && c.Info.ObjectOf(id) == flag {
						if v, ok := ast.Unparen(as.Rhs[0]).(*ast.Ident); ok && v.Name == "false" && core.ControlledBy(fl, gn, isMissing, true) {
							lowered = true
						}
					}
					if ix, ok := ast.Unparen(as.Lhs[0]).(*ast.IndexExpr); ok && core.CallsAny("types.(*Block).GetTxs")(c, ix.X) {
						if !core.ControlledBy(fl, gn, isMissing, false) {
							filledUnderMissing = true
						}
					}
				}
				label = fn + ": a transaction the pool does not have lowers the flag, and positions are only filled with transactions that exist"
				if lowered && !filledUnderMissing {
					r.OK(label, r.W.Pos(f.Node().Pos()), "flag = false under `tx == nil`; every store into block.Txs is behind `tx == nil` being false")
				} else {
					r.Fail(label, r.W.Pos(f.Node().Pos()), fmt.Sprintf("flag lowered under the missing test: %v; a store into block.Txs reachable with a missing tx: %v", lowered, filledUnderMissing))
				}
				core.CallArgs{Fn: fn, Callee: []string{bcast + "(*broadcastProtocol).postBlockChain"}, What: "hands over the pending block itself, under its announced hash, with its sender", Min: 1,
					Args: map[int]core.ExprPred{0: core.DerivedFrom(bcast + "pendBlock.blockHash"), 2: core.IsObj(bcast + "pendBlock.block"), 3: core.IsObj(bcast + "pendBlock.publisher")}}.Check(r)
			}),
			rule("R34b", "each missing position asks for its own short hash; the pool answers in request order", 3, func(r *Run) {
				fn := lt + "buildPendBlock"
				f := r.Fn(fn)
				if f != nil {
					c := f.Ctx()
					// the two appends sit in one block and use the same range index
					label := fn + ": index and short hash of a missing position are recorded together"
					ok := false
					core.InspectBody(f, func(x ast.Node) bool {
						blk, isBlk := x.(*ast.BlockStmt)
						if !isBlk {
							return true
						}
						var idxArg, hashIdx ast.Expr
						for _, st := range blk.List {
							as, isAs := st.(*ast.AssignStmt)
							if !isAs || len(as.Lhs) != 1 || len(as.Rhs) != 1 {
								continue
							}
							call, isCall := ast.Unparen(as.Rhs[0]).(*ast.CallExpr)
							if !isCall || !core.IsBuiltinCall(c.Info, call, "append") || len(call.Args) != 2 {
								continue
							}
							if core.IsObj(bcast + "pendBlock.notExistTxIndices")(c, as.Lhs[0]) {
								idxArg = call.Args[1]
							}
							if core.IsObj(bcast + "pendBlock.notExistTxHashes")(c, as.Lhs[0]) {
								if ix, isIx := ast.Unparen(call.Args[1]).(*ast.IndexExpr); isIx && core.IsObj(bcast+"pendBlock.sTxHashes")(c, ix.X) {
									hashIdx = ix.Index
								}
							}
						}
						if idxArg != nil && hashIdx != nil && core.CanonExpr(c, idxArg) == core.CanonExpr(c, hashIdx) {
							if id, isID := ast.Unparen(idxArg).(*ast.Ident); isID && c.Info.ObjectOf(id) != nil {
								ok = true
							}
						}
						return true
					})
					if ok {
						r.OK(label, r.W.Pos(f.Node().Pos()), "append(indices, i) and append(hashes, sTxHashes[i]) in the same block")
					} else {
						r.Fail(label, r.W.Pos(f.Node().Pos()), "the request list and the position list can get out of step: a transaction would be put at another position than the one its hash stands at")
					}
					core.CallArgs{Fn: fn, Callee: []string{prot + "(*P2PEnv).QueryModule"}, What: "asks the pool for exactly the recorded short hashes", Min: 1,
						Args: map[int]core.ExprPred{2: core.Mentions(bcast + "pendBlock.notExistTxHashes")}}.Check(r)
				}
				// pool side: one entry per requested hash, in order
				mp := "system/mempool.(*Mempool).getTxListByHash"
				core.Dominated{Fn: mp, Spec: &core.FlowSpec{
					Assume: func(c *core.Ctx, e ast.Expr) core.Tri {
						if callTo("types.(*ReqTxHashList).GetIsShortHash")(c, e) {
							return core.True
						}
						return core.Unknown
					},
					Nodes: []core.NodeGen{{Fact: "answered", Gen: func(c *core.Ctx, n *core.GNode) bool {
						as, ok := n.Ast.(*ast.AssignStmt)
						if !ok || len(as.Lhs) != 1 || len(as.Rhs) != 1 || !core.IsObj("types.ReplyTxList.Txs")(c, as.Lhs[0]) {
							return false
						}
						call, ok := ast.Unparen(as.Rhs[0]).(*ast.CallExpr)
						return ok && core.IsBuiltinCall(c.Info, call, "append") && len(call.Args) == 2 && core.IsObj("types.ReplyTxList.Txs")(c, call.Args[0])
					}}},
					Foralls: []core.ForallGuard{{Fact: "one-entry-per-hash", Inner: "answered", Loop: core.RangesOver(core.CallsAny("types.(*ReqTxHashList).GetHashes"))}}},
					Sink: core.AnyReturn(), Need: []Fact{"one-entry-per-hash"}, Min: 1}.Check(r)
			}),
			rule("R34c", "pending blocks leave the list only when built or timed out; timed-out blocks are requested in full", 5, func(r *Run) {
				fn := lt + "buildPendList"
				core.HasAtom{Fn: fn, Name: "age ≥ configured pending timeout", L: func(c *core.Ctx, e ast.Expr) bool {
					return core.DerivedFrom(bcast+"pendBlock.receiveTimeStamp")(c, e)
				}, R: core.Mentions("system/p2p/dht/types.BroadcastConfig.LtBlockPendTimeout"), Rel: token.GEQ}.Check(r)
				// removal from the list is dominated by (built) or (timed out)
				built := core.CondGuard{Fact: "built", Match: func(c *core.Ctx, atom ast.Expr) (bool, bool) {
					return callTo(lt+"buildPendBlock")(c, atom), true
				}}
				timedOut := core.RelGuard("timed-out", core.DerivedFrom(bcast+"pendBlock.receiveTimeStamp"), token.GEQ, core.Mentions("system/p2p/dht/types.BroadcastConfig.LtBlockPendTimeout"))
				core.Dominated{Fn: fn, Spec: &core.FlowSpec{Conds: []core.CondGuard{built, timedOut}}, Sink: core.SinkPred{Label: "queue for removal", Match: func(fl *core.Flow, n *core.GNode) bool {
					as, ok := n.Ast.(*ast.AssignStmt)
					if !ok || len(as.Lhs) != 1 {
						return false
					}
					id, ok := ast.Unparen(as.Lhs[0]).(*ast.Ident)
					return ok && id.Name == "removeItems"
				}}, AnyOf: [][]Fact{{"built"}, {"timed-out"}}, Min: 2}.Check(r)
				// pendBlockLoop: every timed-out block with a height above ours is requested from its sender
				core.CallArgs{Fn: lt + "pendBlockLoop", Callee: []string{bcast + "(*broadcastProtocol).pubPeerMsg"}, What: "full block requested from the sender, for the block's height", Min: 1,
					Args: map[int]core.ExprPred{0: core.IsObj(bcast + "pendBlock.fromPeer"), 1: core.IsObj(bcast + "blockReqMsgID"), 2: core.CallsAny("types.(*Block).GetHeight")}}.Check(r)
				core.CallArgs{Fn: lt + "pendBlockLoop", Callee: []string{lt + "buildPendList"}, What: "the list is re-tried on every tick", Min: 1}.Check(r)
			}),
		},
	})

	// ------------------------------------------------------------------ C35
	dp := dl + "(*Protocol)."
	register(&core.Property{
		ID:       "C35",
		Title:    "Block download delivers every servable height",
		Packages: []string{"system/p2p/dht/protocol/download"},
		Explanation: "Decides R35a-R35d: a download task starts one worker per height of the inclusive range and waits for all of them before it re-tries failed heights and releases the task; a worker that fails on a peer releases that peer's job slot and removes the peer from its candidate list before it tries again, delivers a downloaded block to the blockchain module together with the serving peer, and ends on context cancellation, on an empty candidate list or after a bounded number of rounds; failed heights are recorded under the task and re-tried with a fresh candidate list.",
		NotCovered: "that a serving peer is always selected (availbTask's slot limits and peer heights are runtime values); the shared backing array of the candidate list between workers (a worker's removal shifts what other workers see) — a schedule-level effect not decided here.",
		Rules: []core.Rule{
			rule("R35a", "one worker per height of the range; the task waits for all workers", 4, func(r *Run) {
				fn := dp + "handleEventDownloadBlock"
				f := r.Fn(fn)
				if f == nil {
					return
				}
				c := f.Ctx()
				label := fn + ": the height loop covers Start..End inclusive and starts a worker per height"
				ok := false
				core.InspectBody(f, func(x ast.Node) bool {
					fs, isFor := x.(*ast.ForStmt)
					if !isFor || fs.Init == nil || fs.Cond == nil || fs.Post == nil {
						return true
					}
					as, isAs := fs.Init.(*ast.AssignStmt)
					if !isAs || len(as.Rhs) != 1 || !core.CallsAny("types.(*ReqBlocks).GetStart")(c, as.Rhs[0]) {
						return true
					}
					cond, isB := fs.Cond.(*ast.BinaryExpr)
					if !isB || cond.Op != token.LEQ || !core.CallsAny("types.(*ReqBlocks).GetEnd")(c, cond.Y) {
						return true
					}
					inc, isInc := fs.Post.(*ast.IncDecStmt)
					if !isInc || inc.Tok != token.INC {
						return true
					}
					hasGo, hasAdd := false, false
					for _, st := range fs.Body.List {
						switch s := st.(type) {
						case *ast.GoStmt:
							// the worker receives the loop's height
							if len(s.Call.Args) >= 1 && core.CanonExpr(c, s.Call.Args[0]) == core.CanonExpr(c, as.Lhs[0]) {
								hasGo = true
							}
						case *ast.ExprStmt:
							if call, isCall := s.X.(*ast.CallExpr); isCall {
								if fnc := core.Callee(c.Info, call); fnc != nil && core.ShortName(fnc) == "sync.(*WaitGroup).Add" {
									hasAdd = true
								}
							}
						}
					}
					if hasGo && hasAdd {
						ok = true
					}
					return true
				})
				if ok {
					r.OK(label, r.W.Pos(f.Node().Pos()), "for h := Start; h <= End; h++ { wg.Add(1); go worker(h, …) }")
				} else {
					r.Fail(label, r.W.Pos(f.Node().Pos()), "no loop of that shape: a height at the edge of the range would never be requested")
				}
				core.Dominated{Fn: fn, Spec: spec(core.CallGuard{Fact: "workers-done", Callee: core.Names("sync.(*WaitGroup).Wait"), Pass: core.OCalled}),
					Sink: core.CallSink(dp+"checkTask", dl+"(*Counter).Release"), Need: []Fact{"workers-done"}, Min: 2}.Check(r)
				// the worker signals completion on every path
				for _, cl := range f.Closures() {
					calls := false
					core.InspectBody(cl, func(x ast.Node) bool {
						if call, isCall := x.(*ast.CallExpr); isCall {
							if fnc := core.Callee(cl.Info(), call); fnc != nil && core.ShortName(fnc) == dp+"downloadBlock" {
								calls = true
							}
						}
						return true
					})
					if !calls {
						continue
					}
					label := cl.Name + ": the worker's first statement defers wg.Done()"
					okDone := false
					if len(cl.Body().List) > 0 {
						if ds, isDefer := cl.Body().List[0].(*ast.DeferStmt); isDefer {
							if fnc := core.Callee(cl.Info(), ds.Call); fnc != nil && core.ShortName(fnc) == "sync.(*WaitGroup).Done" {
								okDone = true
							}
						}
					}
					if okDone {
						r.OK(label, r.W.Pos(cl.Node().Pos()), "defer wg.Done()")
					} else {
						r.Fail(label, r.W.Pos(cl.Node().Pos()), "a worker that returns early would leave the task waiting for ever")
					}
				}
			}),
			rule("R35b", "a peer that failed is released and removed before the next attempt; success delivers the block", 4, func(r *Run) {
				fn := dp + "downloadBlock"
				retry := core.SinkPred{Label: "retry (goto) after a failed download", Match: func(fl *core.Flow, n *core.GNode) bool {
					bs, ok := n.Ast.(*ast.BranchStmt)
					if !ok || bs.Tok != token.GOTO {
						return false
					}
					// the goto that sits in the `err != nil` branch of the download call
					for p := fl.C.W.Parent(bs); p != nil; p = fl.C.W.Parent(p) {
						if ifs, ok := p.(*ast.IfStmt); ok {
							if op, ok := core.CmpAtom(fl.C, ifs.Cond, core.MayBeFromCall(1, dp+"downloadBlockFromPeerOld", dp+"downloadBlockFromPeer"), func(c *core.Ctx, e ast.Expr) bool { return isNilLit(c, e) }); ok && op == token.NEQ {
								return true
							}
							return false
						}
					}
					return false
				}}
				_ = retry
				if f := r.Fn(fn); f != nil {
					c := f.Ctx()
					label := fn + ": the failure branch releases the peer's slot and removes the peer before it leaves"
					found, okBranch := false, false
					core.InspectBody(f, func(x ast.Node) bool {
						ifs, isIf := x.(*ast.IfStmt)
						if !isIf {
							return true
						}
						op, isCmp := core.CmpAtom(c, ifs.Cond, core.MayBeFromCall(1, dp+"downloadBlockFromPeerOld", dp+"downloadBlockFromPeer"), func(c *core.Ctx, e ast.Expr) bool { return isNilLit(c, e) })
						if !isCmp || op != token.NEQ {
							return true
						}
						found = true
						released, removed := false, false
						for _, st := range ifs.Body.List {
							switch s := st.(type) {
							case *ast.BranchStmt, *ast.ReturnStmt:
								okBranch = released && removed
								return true
							case *ast.ExprStmt:
								if call, isCall := s.X.(*ast.CallExpr); isCall {
									if fnc := core.Callee(c.Info, call); fnc != nil && core.ShortName(fnc) == dp+"releaseJob" {
										released = true
									}
								}
							case *ast.AssignStmt:
								if len(s.Rhs) == 1 && core.CallAtom([]string{dl + "tasks.Remove"})(c, s.Rhs[0]) {
									removed = true
								}
							}
						}
						okBranch = released && removed
						return true
					})
					switch {
					case !found:
						r.Fail(label, r.W.Pos(f.Node().Pos()), "no `if err != nil` branch on the download call's error")
					case okBranch:
						r.OK(label, r.W.Pos(f.Node().Pos()), "releaseJob(task) and tasks.Remove(task) precede the jump back / return")
					default:
						r.Fail(label, r.W.Pos(f.Node().Pos()), "the failure branch can leave without releasing the slot or without removing the failed peer: the same peer is asked again for this height")
					}
				}
				// the result of Remove replaces the candidate list
				if f := r.Fn(fn); f != nil {
					c := f.Ctx()
					label := fn + ": the shortened candidate list replaces the old one"
					ok := false
					core.InspectBody(f, func(x ast.Node) bool {
						as, isAs := x.(*ast.AssignStmt)
						if isAs && len(as.Lhs) == 1 && len(as.Rhs) == 1 && core.IsObj("param:1")(c, as.Lhs[0]) && core.CallAtom([]string{dl + "tasks.Remove"})(c, as.Rhs[0]) {
							ok = true
						}
						return true
					})
					if ok {
						r.OK(label, r.W.Pos(f.Node().Pos()), "tasks = tasks.Remove(task)")
					} else {
						r.Fail(label, r.W.Pos(f.Node().Pos()), "the result of Remove is dropped: the failed peer stays in the list and is asked again")
					}
				}
				core.CallArgs{Fn: fn, Callee: []string{"queue.Client.NewMessage"}, What: "the downloaded block goes to the blockchain module with the serving peer", Min: 1,
					Args: map[int]core.ExprPred{0: func(c *core.Ctx, e ast.Expr) bool {
						tv, ok := c.Info.Types[e]
						return ok && tv.Value != nil && tv.Value.ExactString() == `"blockchain"`
					}, 1: core.IsObj("types.EventSyncBlock"), 2: core.MentionsAny("types.BlockPid.Block")}}.Check(r)
				core.Dominated{Fn: fn, Spec: spec(errNil("downloaded", dp+"downloadBlockFromPeerOld", dp+"downloadBlockFromPeer")), Sink: core.CallSink("queue.Client.Send"), Need: []Fact{"downloaded"}, Min: 1}.Check(r)
			}),
			rule("R35c", "every worker terminates", 3, func(r *Run) {
				fn := dp + "downloadBlock"
				isRetry := core.InitFrom(func(c *core.Ctx, e ast.Expr) bool { return false })
				_ = isRetry
				f := r.Fn(fn)
				if f == nil {
					return
				}
				c := f.Ctx()
				// a counter that is incremented once per round and compared with a constant that ends the worker
				var counter types.Object
				core.InspectBody(f, func(x ast.Node) bool {
					if inc, ok := x.(*ast.IncDecStmt); ok && inc.Tok == token.INC {
						if id, ok := ast.Unparen(inc.X).(*ast.Ident); ok {
							counter = c.Info.ObjectOf(id)
						}
					}
					return true
				})
				label := fn + ": the number of rounds is bounded"
				if counter == nil {
					r.Fail(label, r.W.Pos(f.Node().Pos()), "no round counter found")
				} else {
					isCounter := func(c *core.Ctx, e ast.Expr) bool {
						id, ok := ast.Unparen(e).(*ast.Ident)
						return ok && c.Info.ObjectOf(id) == counter
					}
					isConst := func(c *core.Ctx, e ast.Expr) bool {
						tv, ok := c.Info.Types[e]
						return ok && tv.Value != nil
					}
					core.RejectWhen{Fn: fn, Name: "the round counter exceeds its constant bound", L: isCounter, R: isConst, Rel: token.GTR}.Check(r)
					// the increment is on every path from the retry label to the download attempt
					core.Dominated{Fn: fn, Spec: &core.FlowSpec{Nodes: []core.NodeGen{{Fact: "round-counted", Gen: func(c *core.Ctx, n *core.GNode) bool {
						inc, ok := n.Ast.(*ast.IncDecStmt)
						return ok && isCounter(c, inc.X)
					}, Kill: func(c *core.Ctx, n *core.GNode) bool {
						ls, ok := n.Ast.(*ast.LabeledStmt)
						return ok && ls != nil
					}}}}, Sink: core.CallSink(dp+"downloadBlockFromPeerOld", dp+"downloadBlockFromPeer"), Need: []Fact{"round-counted"}, Min: 1}.Check(r)
				}
				core.RejectWhen{Fn: fn, Name: "no candidate peer is left", L: core.CallsAny(dl + "tasks.Size"), R: core.IsConstInt(0), Rel: token.EQL}.Check(r)
			}),
			rule("R35d", "failed heights are recorded and re-tried with a fresh candidate list", 3, func(r *Run) {
				ct := dp + "checkTask"
				core.CallArgs{Fn: ct, Callee: []string{dp + "downloadBlock"}, What: "re-try of a recorded height with a fresh job list", Min: 1,
					Args: map[int]core.ExprPred{1: core.FromCall(0, dp+"initJob")}}.Check(r)
				if f := r.Fn(ct); f != nil {
					c := f.Ctx()
					label := ct + " walks every recorded failed height of the task"
					ok := false
					core.InspectBody(f, func(x ast.Node) bool {
						rs, isR := x.(*ast.RangeStmt)
						if !isR {
							return true
						}
						calls := false
						ast.Inspect(rs.Body, func(y ast.Node) bool {
							if call, isCall := y.(*ast.CallExpr); isCall {
								if fnc := core.Callee(c.Info, call); fnc != nil && core.ShortName(fnc) == dp+"downloadBlock" && len(call.Args) >= 1 {
									if k, isID := rs.Key.(*ast.Ident); isID && core.CanonExpr(c, call.Args[0]) == k.Name || (rs.Key != nil && core.ExprStr(call.Args[0]) == core.ExprStr(rs.Key)) {
										calls = true
									}
								}
							}
							return true
						})
						if calls {
							ok = true
						}
						return true
					})
					if ok {
						r.OK(label, r.W.Pos(f.Node().Pos()), "range over the failed-height map, downloadBlock(height, …) for each key")
					} else {
						r.Fail(label, r.W.Pos(f.Node().Pos()), "no loop that re-downloads each recorded height")
					}
				}
				// the worker records its height when downloadBlock fails (and the context is still alive)
				if f := r.Fn(dp + "handleEventDownloadBlock"); f != nil {
					label := dp + "handleEventDownloadBlock: a failed worker records its height under the task"
					ok := false
					for _, cl := range f.Closures() {
						c := cl.Ctx()
						core.InspectBody(cl, func(x ast.Node) bool {
							as, isAs := x.(*ast.AssignStmt)
							if !isAs || len(as.Lhs) != 1 {
								return true
							}
							ix, isIx := ast.Unparen(as.Lhs[0]).(*ast.IndexExpr)
							if !isIx {
								return true
							}
							// failedJob[blockheight] = …  with blockheight the worker's own parameter
							// (through the parameter of an unnamed helper the block was moved into)
							if id, isID := c.Through(ix.Index).(*ast.Ident); isID {
								if v, isVar := c.Info.ObjectOf(id).(*types.Var); isVar && cl.Param(0) == v {
									ok = true
								}
							}
							return true
						})
					}
					if ok {
						r.OK(label, r.W.Pos(f.Node().Pos()), "failedJob[<worker height>] = … on the error path")
					} else {
						r.Fail(label, r.W.Pos(f.Node().Pos()), "the failed height is not recorded: checkTask has nothing to re-try")
					}
				}
			}),
		},
	})
}
