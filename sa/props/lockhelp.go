package props

import (
	"fmt"
	"go/types"

	"verif/sa/core"
)

// underLock requires every reference to the variable/field `target` (in
// functions with bodies) to happen while the mutex `mutex` is write-locked in
// the same function.  exempt: function short name -> reason.
func underLock(r *Run, target, mutex string, min int, exempt map[string]string) {
	tobj := r.W.LookupObj(target)
	mu, _ := r.W.LookupObj(mutex).(*types.Var)
	if tobj == nil || mu == nil {
		r.Unresolved(target + " / " + mutex)
		return
	}
	if v, ok := tobj.(*types.Var); ok {
		tobj = v.Origin()
	}
	refs := r.W.RefsTo(map[types.Object]bool{tobj: true})
	flows := map[*core.FuncInfo]*core.Flow{}
	occ := map[string]int{}
	n := 0
	for _, ref := range refs {
		if ref.Fn == nil {
			continue
		}
		n++
		r.Touch(ref.Fn)
		occ[ref.Fn.Name]++
		label := fmt.Sprintf("%s: access #%d to %s holds %s", ref.Fn.Name, occ[ref.Fn.Name], core.ShortObj(tobj), mu.Name())
		pos := r.W.Pos(ref.Ident.Pos())
		if why, ok := exempt[ref.Fn.Name]; ok {
			r.Exception(label, why)
			r.OK(label, pos, "frozen exception: "+why)
			continue
		}
		fl := flows[ref.Fn]
		if fl == nil {
			fl = core.RunFlow(ref.Fn, core.LockSpec(mu))
			flows[ref.Fn] = fl
		}
		gn := fl.G.NodeContaining(ref.Ident.Pos())
		if gn == nil {
			// inside a nested literal: analyse the literal on its own
			held := false
			for _, cl := range ref.Fn.Closures() {
				if cl.Lit.Pos() <= ref.Ident.Pos() && ref.Ident.Pos() < cl.Lit.End() {
					cfl := core.RunFlow(cl, core.LockSpec(mu))
					if cn := cfl.G.NodeContaining(ref.Ident.Pos()); cn != nil && cfl.In[cn].Has(core.Fact("W:"+mu.Name())) {
						held = true
					}
				}
			}
			if held {
				r.OK(label, pos, "lock held inside the function literal")
			} else {
				r.Fail(label, pos, "access inside a function literal without the lock being taken there")
			}
			continue
		}
		if fl.In[gn] != nil && fl.In[gn].Has(core.Fact("W:"+mu.Name())) {
			r.OK(label, pos, "Lock() dominates, no Unlock() in between")
		} else {
			r.Fail(label, pos, fmt.Sprintf("%s is read or written without %s held: concurrent requests race on it", core.ShortObj(tobj), mu.Name()))
		}
	}
	if n < min {
		r.Fail("accesses to "+target, "-", fmt.Sprintf("expected ≥%d, found %d", min, n))
	}
}
