package props

import (
	"fmt"
	"go/ast"
	"go/constant"
	"go/token"
	"go/types"
	"regexp"
	"sort"
	"strings"

	"verif/sa/core"
)

// keyCtors collects, for function f and same-package helpers it calls (depth),
// the multiset of resolved key constructors (callee used for KeyValue.Key) and
// of polarity calls (same-package callee with a constant bool argument).
func keyCtors(w *core.World, f *core.FuncInfo, depth int, out map[string]int, seen map[*core.FuncInfo]bool) {
	keyCtorsAt(w, f, depth, out, seen, nil, "")
}

// intoKVHelpers is set while a sibling-symmetry rule is re-decided after failing
// on the plain pass: unnamed helpers that only build KeyValues are then looked
// into per call site.  (The graphs are not used by these rules, so the engine's
// own inline mode is switched off for the canonical forms to stay comparable
// between the two paired functions.)
var intoKVHelpers bool

var paramRef = regexp.MustCompile(`\$\d+`)

func withoutInline(w *core.World, fn func()) {
	was, only := w.Inline, w.InlineFor
	intoKVHelpers = was
	w.Inline, w.InlineFor = false, nil
	defer func() { w.Inline, w.InlineFor, intoKVHelpers = was, only, false }()
	fn()
}

// keyCtorsAt: with subst/outer set, f is an unnamed helper looked into from one
// call site of a paired function on the helper-inlined pass: its parameters are
// replaced by the canonical arguments of that call and its keys stand under the
// guards of the call, so that they compare with keys built in place.
func keyCtorsAt(w *core.World, f *core.FuncInfo, depth int, out map[string]int, seen map[*core.FuncInfo]bool, subst []string, outer string) {
	if f == nil || seen[f] {
		return
	}
	place := func(s string) string {
		if subst == nil {
			return s
		}
		return paramRef.ReplaceAllStringFunc(s, func(m string) string {
			var i int
			fmt.Sscanf(m, "$%d", &i)
			if i < len(subst) {
				return subst[i]
			}
			return m
		})
	}
	join := func(a, b string) string {
		if a == "" {
			return b
		}
		if b == "" {
			return a
		}
		return a + "&" + b
	}
	seen[f] = true
	defer delete(seen, f)
	c := f.Ctx()
	info := f.Info()
	kvT, _ := w.LookupObj("types.KeyValue").(*types.TypeName)
	var at ast.Node // the KeyValue literal being looked at (for its guard context)
	keyExpr := func(e ast.Expr) {
		e = ast.Unparen(e)
		var call *ast.CallExpr
		switch x := e.(type) {
		case *ast.CallExpr:
			call = x
		case *ast.Ident:
			for _, d := range c.DefsOf(info.ObjectOf(x)) {
				if cl, ok := ast.Unparen(d.Rhs).(*ast.CallExpr); ok && d.Rhs != nil {
					call = cl
				}
			}
		}
		if call != nil {
			if fn := core.Callee(info, call); fn != nil {
				// arguments are compared only for constructors used directly in the paired
				// functions (helpers have their own parameter numbering)
				if depth == 3 {
					var args []string
					for _, a := range call.Args {
						args = append(args, place(core.CanonExpr(c, a)))
					}
					guard := ""
					if at != nil {
						if g := join(outer, place(guardsOf(w, c, at, f))); g != "" {
							guard = " under " + g
						}
					}
					out["key:"+core.ShortName(fn)+"("+strings.Join(args, ",")+")"+guard]++
				} else {
					out["key:"+core.ShortName(fn)]++
				}
				return
			}
		}
		out["key:<"+fmt.Sprintf("%T", e)+">"]++
	}
	core.InspectBody(f, func(x ast.Node) bool {
		switch s := x.(type) {
		case *ast.CompositeLit:
			t := info.TypeOf(s)
			if p, ok := t.(*types.Pointer); ok {
				t = p.Elem()
			}
			if n, ok := t.(*types.Named); ok && kvT != nil && n.Obj() == kvT {
				for _, el := range s.Elts {
					if kv, ok := el.(*ast.KeyValueExpr); ok {
						if id, ok := kv.Key.(*ast.Ident); ok && id.Name == "Key" {
							at = s
							keyExpr(kv.Value)
							at = nil
						}
					}
				}
			}
		case *ast.CallExpr:
			fn := core.Callee(info, s)
			if fn == nil || fn.Pkg() == nil {
				return true
			}
			// polarity flag
			for _, a := range s.Args {
				if tv, ok := info.Types[a]; ok && tv.Value != nil && tv.Value.Kind() == constant.Bool && fn.Pkg().Path() == f.Pkg.PkgPath {
					out["polar:"+core.ShortName(fn)+"("+tv.Value.String()+")"]++
				}
			}
			if callee := w.FuncOf(fn); callee != nil && callee.Pkg == f.Pkg && depth > 0 {
				if depth == 3 && intoKVHelpers && !core.IsMentioned(core.ShortName(fn)) && len(s.Args) == callee.Sig().Params().Len() && !callee.Sig().Variadic() && returnsOnlyKVs(callee, kvT) {
					var sub []string
					for _, a := range s.Args {
						sub = append(sub, place(core.CanonExpr(c, a)))
					}
					keyCtorsAt(w, callee, 3, out, seen, sub, join(outer, place(guardsOf(w, c, s, f))))
				} else {
					keyCtors(w, callee, depth-1, out, seen)
				}
			}
		}
		return true
	})
}

func multisetStr(m map[string]int, flip bool) string {
	var ks []string
	for k, v := range m {
		if flip && strings.HasPrefix(k, "polar:") {
			if strings.HasSuffix(k, "(true)") {
				k = strings.TrimSuffix(k, "(true)") + "(false)"
			} else if strings.HasSuffix(k, "(false)") {
				k = strings.TrimSuffix(k, "(false)") + "(true)"
			}
		}
		ks = append(ks, fmt.Sprintf("%s×%d", k, v))
	}
	sort.Strings(ks)
	return strings.Join(ks, ", ")
}

// symmetricPair compares the key-constructor multisets of an add/remove pair.
func symmetricPair(r *Run, add, del string, exceptAddOnly map[string]string) {
	symmetricPairD(r, add, del, exceptAddOnly, 3)
}

// symmetricPairD: depth 3 compares constructor arguments of the paired
// functions themselves (canonical form); depth 2 compares constructor names only.
func symmetricPairD(r *Run, add, del string, exceptAddOnly map[string]string, depth int) {
	fa, fd := r.Fn(add), r.Fn(del)
	if fa == nil || fd == nil {
		return
	}
	ma, md := map[string]int{}, map[string]int{}
	withoutInline(r.W, func() {
		keyCtors(r.W, fa, depth, ma, map[*core.FuncInfo]bool{})
		keyCtors(r.W, fd, depth, md, map[*core.FuncInfo]bool{})
	})
	for k, why := range exceptAddOnly {
		if _, ok := ma[k]; ok {
			delete(ma, k)
			r.Exception(add+" "+k, why)
		}
	}
	label := fmt.Sprintf("%s ⇄ %s write the same keys (polarity flipped)", add, del)
	sa, sd := multisetStr(ma, true), multisetStr(md, false)
	if len(ma) == 0 {
		r.Fail(label, r.W.Pos(fa.Node().Pos()), "no key constructors found on the add side")
		return
	}
	if sa == sd {
		r.OK(label, r.W.Pos(fd.Node().Pos()), "constructors: "+sd)
	} else {
		r.Fail(label, r.W.Pos(fd.Node().Pos()), fmt.Sprintf("add side {%s} vs remove side {%s}: a key written when the block is applied is not removed (or not by the same constructor) when it is rolled back", multisetStr(ma, false), sd))
	}
}

// delValuesNil: every types.KeyValue literal built directly in fn has no
// non-nil Value (remove side), and values obtained from a shared helper are
// set to nil in a loop.
func delValuesNil(r *Run, fn string, sharedHelpers ...string) {
	withoutInline(r.W, func() { delValuesNil1(r, fn, sharedHelpers...) })
}

func delValuesNil1(r *Run, fn string, sharedHelpers ...string) {
	f := r.Fn(fn)
	if f == nil {
		return
	}
	c := f.Ctx()
	info := f.Info()
	kvT, _ := r.W.LookupObj("types.KeyValue").(*types.TypeName)
	bad := ""
	core.InspectBody(f, func(x ast.Node) bool {
		s, ok := x.(*ast.CompositeLit)
		if !ok {
			return true
		}
		t := info.TypeOf(s)
		if p, ok := t.(*types.Pointer); ok {
			t = p.Elem()
		}
		if n, ok := t.(*types.Named); !ok || n.Obj() != kvT {
			return true
		}
		for _, el := range s.Elts {
			if kv, ok := el.(*ast.KeyValueExpr); ok {
				if id, ok := kv.Key.(*ast.Ident); ok && id.Name == "Value" && !isNilLit(c, kv.Value) {
					bad = r.W.Pos(kv.Pos())
				}
			}
		}
		return true
	})
	usesHelper := false
	niled := false
	hs := core.Names(sharedHelpers...)
	core.InspectBody(f, func(x ast.Node) bool {
		switch s := x.(type) {
		case *ast.CallExpr:
			if hs.Has(core.Callee(info, s)) {
				usesHelper = true
			}
		case *ast.AssignStmt:
			if len(core.StoresTo(c, s, "types.KeyValue.Value")) > 0 && len(s.Rhs) == 1 && isNilLit(c, s.Rhs[0]) {
				niled = true
			}
		}
		return true
	})
	label := fn + " emits only deletions (nil values) for the keys it names"
	switch {
	case bad != "":
		r.Fail(label, bad, "a KeyValue with a non-nil value is emitted on the remove side")
	case usesHelper && !niled:
		r.Fail(label, r.W.Pos(f.Node().Pos()), "the KVs obtained from the shared add-side helper are not turned into deletions (Value = nil)")
	default:
		r.OK(label, r.W.Pos(f.Node().Pos()), "all literal values nil; shared-helper values nil-ed")
	}
}

func init() {
	register(&core.Property{
		ID:       "C14",
		Title:    "Local indexes are exactly undone when a block is removed",
		Packages: []string{"executor", "system/dapp/coins/executor", "system/dapp/manage/executor", "system/dapp", "blockchain"},
		Explanation: "Decides R14a-R14d: for every registered plugin the remove side writes exactly the keys the add side writes, built by the same resolved key constructors, with the add/remove polarity flag flipped and nil values; " +
			"each coins ExecLocal_X has an ExecDelLocal_X calling the same updater with the same arguments and the flag flipped (Genesis excepted), manage pairs AddRollbackKV with DelRollbackKV; " +
			"the block store applies a returned KV list with the same rule on add and delete (nil ⇒ delete, else set), for every element; block removal walks the transactions from last to first, block addition first to last.",
		NotCovered: "counter arithmetic for repeated addresses and the contents of MVCC version records (V).",
		Rules: []core.Rule{
			rule("R14a", "plugins: symmetric key constructors", 9, func(r *Run) {
				// the registered plugins, type-driven: every type in package executor with ExecLocal+ExecDelLocal
				pkg := r.W.Pkg("executor")
				if pkg == nil {
					r.Unresolved("executor")
					return
				}
				var plugins []string
				sc := pkg.Types.Scope()
				for _, name := range sc.Names() {
					tn, ok := sc.Lookup(name).(*types.TypeName)
					if !ok {
						continue
					}
					pt := types.NewPointer(tn.Type())
					a, _, _ := types.LookupFieldOrMethod(pt, true, pkg.Types, "ExecLocal")
					d, _, _ := types.LookupFieldOrMethod(pt, true, pkg.Types, "ExecDelLocal")
					ce, _, _ := types.LookupFieldOrMethod(pt, true, pkg.Types, "CheckEnable")
					if a != nil && d != nil && ce != nil {
						if _, isIface := tn.Type().Underlying().(*types.Interface); !isIface {
							plugins = append(plugins, name)
						}
					}
				}
				sort.Strings(plugins)
				if len(plugins) < 6 {
					r.Fail("registered plugins", "-", fmt.Sprintf("expected ≥6 plugin types, found %v", plugins))
				}
				for _, p := range plugins {
					add, del := "executor.(*"+p+").ExecLocal", "executor.(*"+p+").ExecDelLocal"
					switch p {
					case "mvccPlugin":
						core.CallArgs{Fn: add, Callee: []string{"executor.AddMVCC"}, What: "same store and block", Args: map[int]core.ExprPred{0: core.Mentions("executor.executor.localDB"), 1: core.IsObj("param:1")}, Min: 1}.Check(r)
						core.CallArgs{Fn: del, Callee: []string{"executor.DelMVCC"}, What: "same store and block", Args: map[int]core.ExprPred{0: core.Mentions("executor.executor.localDB"), 1: core.IsObj("param:1")}, Min: 1}.Check(r)
					case "statPlugin":
						core.CallArgs{Fn: add, Callee: []string{"executor.countInfo"}, What: "same block", Args: map[int]core.ExprPred{1: core.IsObj("param:1")}, Min: 1}.Check(r)
						core.CallArgs{Fn: del, Callee: []string{"executor.delCountInfo"}, What: "same block", Args: map[int]core.ExprPred{1: core.IsObj("param:1")}, Min: 1}.Check(r)
					default:
						symmetricPair(r, add, del, nil)
						delValuesNil(r, del, "executor.getTx")
					}
				}
				// every transaction of the block is covered on both sides
				for _, p := range []string{"txindexPlugin", "addrindexPlugin", "addrFeeIndexPlugin"} {
					for _, m := range []string{"ExecLocal", "ExecDelLocal"} {
						fn := "executor.(*" + p + ")." + m
						f := r.Fn(fn)
						if f == nil {
							continue
						}
						c := f.Ctx()
						ok := false
						for _, lp := range core.LoopsIn(f) {
							if core.CountsOver(core.DerivedFrom("types.Block.Txs"), 0)(c, lp) {
								ok = true
							}
						}
						label := fn + " covers every transaction of the block"
						if ok {
							r.OK(label, r.W.Pos(f.Node().Pos()), "loop 0..len(Txs)")
						} else {
							r.Fail(label, r.W.Pos(f.Node().Pos()), "no complete loop over the block's transactions")
						}
					}
				}
			}),
			rule("R14b", "built-in executors: every ExecLocal_X is mirrored by ExecDelLocal_X", 4, func(r *Run) {
				pkg := r.W.Pkg("system/dapp/coins/executor")
				if pkg == nil {
					r.Unresolved("system/dapp/coins/executor")
					return
				}
				coins := "system/dapp/coins/executor.(*Coins)."
				tn, _ := pkg.Types.Scope().Lookup("Coins").(*types.TypeName)
				if tn == nil {
					r.Unresolved(coins)
					return
				}
				ms := types.NewMethodSet(types.NewPointer(tn.Type()))
				n := 0
				for i := 0; i < ms.Len(); i++ {
					name := ms.At(i).Obj().Name()
					if !strings.HasPrefix(name, "ExecLocal_") {
						continue
					}
					n++
					x := strings.TrimPrefix(name, "ExecLocal_")
					if x == "Genesis" {
						r.Exception(coins+name, "the genesis block (height 0) is never removed")
						r.OK(coins+name+" has no removal (frozen exception)", "-", "height 0 is never rolled back")
						continue
					}
					symmetricPair(r, coins+name, coins+"ExecDelLocal_"+x, nil)
					// same address and amount expressions
					fa, fd := r.Fn(coins+name), r.Fn(coins+"ExecDelLocal_"+x)
					if fa != nil && fd != nil {
						sig := func(f *core.FuncInfo) string {
							var out []string
							core.InspectBody(f, func(y ast.Node) bool {
								if call, ok := y.(*ast.CallExpr); ok && core.ShortName(core.Callee(f.Info(), call)) == "system/dapp/coins/executor.updateAddrReciver" && len(call.Args) == 4 {
									addr := call.Args[1]
									if id, ok := ast.Unparen(addr).(*ast.Ident); ok {
										for _, d := range f.Ctx().DefsOf(f.Info().ObjectOf(id)) {
											if d.Rhs != nil {
												addr = d.Rhs
											}
										}
									}
									out = append(out, types.ExprString(addr)+" | "+types.ExprString(call.Args[2]))
								}
								return true
							})
							return strings.Join(out, "; ")
						}
						label := coins + name + " and its removal update the same address by the same amount"
						if sa, sd := sig(fa), sig(fd); sa == sd && sa != "" {
							r.OK(label, r.W.Pos(fd.Node().Pos()), sa)
						} else {
							r.Fail(label, r.W.Pos(fd.Node().Pos()), fmt.Sprintf("add: %s — remove: %s", sa, sd))
						}
					}
				}
				if n < 4 {
					r.Fail("coins ExecLocal_* methods", "-", fmt.Sprintf("expected ≥4, found %d", n))
				}
				// manage: automatic rollback KV pair
				mg := "system/dapp/manage/executor.(*Manage)."
				core.CallArgs{Fn: mg + "execAutoLocalItem", Callee: []string{"system/dapp.(*DriverBase).AddRollbackKV"}, What: "rollback record for this tx/execer over the KVs just produced",
					Args: map[int]core.ExprPred{0: core.IsObj("param:0"), 1: core.Mentions("types.Transaction.Execer")}, Min: 1}.Check(r)
				core.CallArgs{Fn: mg + "execAutoDelLocal", Callee: []string{"system/dapp.(*DriverBase).DelRollbackKV"}, What: "rollback record of the same tx/execer",
					Args: map[int]core.ExprPred{0: core.IsObj("param:0"), 1: core.Mentions("types.Transaction.Execer")}, Min: 1}.Check(r)
				for _, m := range []string{"ExecLocal_Apply", "ExecLocal_Approve"} {
					core.CallArgs{Fn: mg + m, Callee: []string{mg + "execAutoLocalItem"}, What: "goes through the rollback-recording path", Args: map[int]core.ExprPred{0: core.IsObj("param:1")}, Min: 1}.Check(r)
				}
			}),
			rule("R14c", "block store applies KV lists with the same rule on add and delete", 4, func(r *Run) {
				for _, fn := range []string{bsm + "AddTxs", bsm + "DelTxs"} {
					isKV := core.Mentions("types.LocalDBSet.KV")
					valNil := func(fact Fact, rel token.Token) core.CondGuard {
						return core.RelGuard(fact, core.Mentions("types.KeyValue.Value"), rel, isNilLit)
					}
					sp := &core.FlowSpec{Conds: []core.CondGuard{valNil("value-nil", token.EQL), valNil("value-set", token.NEQ)},
						Calls:   []core.CallGuard{called("applied", "common/db.Batch.Delete", "common/db.Batch.Set")},
						Foralls: []core.ForallGuard{{Fact: "all-applied", Inner: "applied", Loop: core.CountsOver(isKV, 0)}}}
					core.Dominated{Fn: fn, Spec: sp, Sink: core.CallSink("common/db.Batch.Delete"), Need: []Fact{"value-nil"}, Min: 1}.Check(r)
					core.Dominated{Fn: fn, Spec: sp, Sink: core.CallSink("common/db.Batch.Set"), Need: []Fact{"value-set"}, Min: 1}.Check(r)
					core.Dominated{Fn: fn, Spec: sp, Sink: core.SuccessReturn(-1), Need: []Fact{"all-applied"}, Min: 1}.Check(r)
					core.CallArgs{Fn: fn, Callee: []string{"common/db.Batch.Delete", "common/db.Batch.Set"}, What: "into the caller's batch, keyed by the KV's key",
						Args: map[int]core.ExprPred{0: core.Mentions("types.KeyValue.Key")}, Min: 2}.Check(r)
				}
				core.CallArgs{Fn: bsm + "AddTxs", Callee: []string{bsm + "getLocalKV"}, What: "add side asks for the add KVs", Args: map[int]core.ExprPred{0: core.IsObj("param:1")}, Min: 1}.Check(r)
				core.CallArgs{Fn: bsm + "DelTxs", Callee: []string{bsm + "getDelLocalKV"}, What: "delete side asks for the delete KVs", Args: map[int]core.ExprPred{0: core.IsObj("param:1")}, Min: 1}.Check(r)
			}),
			rule("R14d", "removal walks transactions last to first, addition first to last", 2, func(r *Run) {
				txsOf := core.DerivedFrom("types.Block.Txs")
				for _, x := range []struct {
					fn      string
					reverse bool
					callee  string
				}{{"executor.(*Executor).procExecDelBlock", true, ex + "execDelLocal"}, {"executor.(*Executor).procExecAddBlock", false, ex + "execLocalTx"}} {
					f := r.Fn(x.fn)
					if f == nil {
						continue
					}
					c := f.Ctx()
					ok := false
					for _, lp := range core.LoopsIn(f) {
						match := core.CountsOver(txsOf, 0)(c, lp)
						if x.reverse {
							match = core.ReverseLoopOver(txsOf)(c, lp)
						}
						if !match {
							continue
						}
						ast.Inspect(lp, func(y ast.Node) bool {
							if call, isCall := y.(*ast.CallExpr); isCall && core.ShortName(core.Callee(c.Info, call)) == x.callee {
								ok = true
							}
							return true
						})
					}
					dir := "first to last"
					if x.reverse {
						dir = "last to first"
					}
					label := fmt.Sprintf("%s runs %s over the block's transactions %s", x.fn, x.callee, dir)
					if ok {
						r.OK(label, r.W.Pos(f.Node().Pos()), "canonical loop shape")
					} else {
						r.Fail(label, r.W.Pos(f.Node().Pos()), "no loop of the required direction contains the per-transaction call: counters updated by several transactions of one block would be undone in the wrong order")
					}
				}
			}),
		},
	})
}

// returnsOnlyKVs: the helper's single result is a KeyValue, a pointer to one or
// a slice of them (it builds records for its caller and has no error path).
func returnsOnlyKVs(h *core.FuncInfo, kvT *types.TypeName) bool {
	res := h.Sig().Results()
	if res.Len() != 1 || kvT == nil {
		return false
	}
	t := res.At(0).Type()
	if sl, ok := t.(*types.Slice); ok {
		t = sl.Elem()
	}
	if p, ok := t.(*types.Pointer); ok {
		t = p.Elem()
	}
	n, ok := t.(*types.Named)
	return ok && n.Obj() == kvT
}
