package props

import (
	"fmt"
	"go/ast"
	"go/token"
	"go/types"
	"sort"
	"strings"

	"verif/sa/core"
)

// memoSites finds, in fn, the cache fill `C.Add(key, value)` for an LRU-style
// cache variable (package-level var with Get/Add methods).
type memoSite struct {
	cache      types.Object
	add        *ast.CallExpr
	key, value ast.Expr
}

func memoSitesIn(f *core.FuncInfo) []memoSite {
	var out []memoSite
	info := f.Info()
	core.InspectBody(f, func(x ast.Node) bool {
		call, ok := x.(*ast.CallExpr)
		if !ok || len(call.Args) != 2 {
			return true
		}
		sel, ok := ast.Unparen(call.Fun).(*ast.SelectorExpr)
		if !ok || sel.Sel.Name != "Add" {
			return true
		}
		id, ok := ast.Unparen(sel.X).(*ast.Ident)
		if !ok {
			return true
		}
		v, ok := info.ObjectOf(id).(*types.Var)
		if !ok || v.Pkg() == nil || v.Parent() != v.Pkg().Scope() {
			return true
		}
		out = append(out, memoSite{cache: v, add: call, key: call.Args[0], value: call.Args[1]})
		return true
	})
	return out
}

// paramsMentioned: parameters (by index) an expression depends on, looking
// through local variable definitions (depth 3).
func paramsMentioned(c *core.Ctx, e ast.Node, depth int, seen map[types.Object]bool, out map[int]bool) {
	root := c.F
	for root.Encl != nil {
		root = root.Encl
	}
	ps := root.Sig().Params()
	core.InspectNode(e, func(x ast.Node) bool {
		id, ok := x.(*ast.Ident)
		if !ok {
			return true
		}
		v, ok := c.Info.Uses[id].(*types.Var)
		if !ok {
			return true
		}
		for i := 0; i < ps.Len(); i++ {
			if ps.At(i) == v {
				out[i] = true
				return true
			}
		}
		if v.IsField() || v.Pkg() == nil || v.Parent() == v.Pkg().Scope() || seen[v] || depth == 0 {
			return true
		}
		seen[v] = true
		for _, d := range c.DefsOf(v) {
			if d.Rhs != nil {
				paramsMentioned(c, d.Rhs, depth-1, seen, out)
			}
			if rs, ok := d.Stmt.(*ast.RangeStmt); ok {
				paramsMentioned(c, rs.X, depth-1, seen, out)
			}
			// a component that is built under a condition (e.g. a bitmask whose bits are set
			// when a predicate of the input holds) is a function of that condition's inputs
			// (only for accumulating updates `x op= …`, not for plain assignments)
			as, isAs := d.Stmt.(*ast.AssignStmt)
			if !isAs || as.Tok == token.ASSIGN || as.Tok == token.DEFINE {
				continue
			}
			for p := c.W.Parent(d.Stmt); p != nil; p = c.W.Parent(p) {
				if ifs, ok := p.(*ast.IfStmt); ok {
					paramsMentioned(c, ifs.Cond, depth-1, seen, out)
				}
				if _, isFn := p.(*ast.FuncDecl); isFn {
					break
				}
			}
		}
		return true
	})
}

// reachesCall: does evaluating e (through local definitions and same-package
// static callees, bounded) reach a call to one of targets?
func reachesCall(w *core.World, c *core.Ctx, e ast.Node, targets core.NameSet, depth int, seenF map[*core.FuncInfo]bool, seenV map[types.Object]bool) (bool, string) {
	found, where := false, ""
	core.InspectNode(e, func(x ast.Node) bool {
		if found {
			return false
		}
		switch y := x.(type) {
		case *ast.CallExpr:
			fn := core.Callee(c.Info, y)
			if targets.Has(fn) {
				found, where = true, w.Pos(y.Pos())
				return false
			}
			if callee := w.FuncOf(fn); callee != nil && depth > 0 && !seenF[callee] {
				seenF[callee] = true
				if ok, wh := reachesCall(w, callee.Ctx(), callee.Body(), targets, depth-1, seenF, map[types.Object]bool{}); ok {
					found, where = true, wh
				}
			}
		case *ast.Ident:
			v, ok := c.Info.Uses[y].(*types.Var)
			if !ok || v.IsField() || v.Pkg() == nil || v.Parent() == v.Pkg().Scope() || seenV[v] {
				return true
			}
			seenV[v] = true
			for _, d := range c.DefsOf(v) {
				if d.Rhs != nil {
					if ok, wh := reachesCall(w, c, d.Rhs, targets, depth, seenF, seenV); ok {
						found, where = true, wh
					}
				}
			}
		}
		return true
	})
	return found, where
}

// memoKeyComplete: every parameter the memoised function reads is part of the
// cache key, and the cached value is computed without consulting the listed
// runtime-mutable context accessors.
func memoKeyComplete(r *Run, fn string, mutableCtx []string, minSites int) {
	f := r.Fn(fn)
	if f == nil {
		return
	}
	c := f.Ctx()
	sites := memoSitesIn(f)
	if len(sites) < minSites {
		r.Fail(fn+" memo cache fill", r.W.Pos(f.Node().Pos()), fmt.Sprintf("expected ≥%d cache fill site(s), found %d", minSites, len(sites)))
		return
	}
	for i, s := range sites {
		keyP, useP := map[int]bool{}, map[int]bool{}
		paramsMentioned(c, s.key, 3, map[types.Object]bool{}, keyP)
		// every parameter read anywhere in the function influences the memoised result
		paramsMentioned(c, f.Body(), 0, map[types.Object]bool{}, useP)
		var missing []string
		ps := f.Sig().Params()
		for p := range useP {
			if !keyP[p] {
				missing = append(missing, ps.At(p).Name())
			}
		}
		sort.Strings(missing)
		label := fmt.Sprintf("%s cache#%d (%s): every input of the cached result is in the key", fn, i+1, s.cache.Name())
		if len(missing) == 0 {
			r.OK(label, r.W.Pos(s.add.Pos()), "key covers all parameters the function reads")
		} else {
			r.Fail(label, r.W.Pos(s.add.Pos()), fmt.Sprintf("the cached result depends on parameter(s) %v that are not part of the cache key `%s`: an answer computed for one value is served for another", missing, core.ExprStr(s.key)))
		}
		if len(mutableCtx) > 0 {
			label2 := fmt.Sprintf("%s cache#%d (%s): the cached value does not depend on runtime-mutable context", fn, i+1, s.cache.Name())
			if hit, where := reachesCall(r.W, c, s.value, core.Names(mutableCtx...), 3, map[*core.FuncInfo]bool{}, map[types.Object]bool{}); hit {
				r.Fail(label2, r.W.Pos(s.add.Pos()), fmt.Sprintf("the value stored in the cache is computed through %v (at %s), which changes at run time (fork height / current block): the first answer is served forever", mutableCtx, where))
			} else {
				r.OK(label2, r.W.Pos(s.add.Pos()), "value computation never reaches the mutable context accessors")
			}
		}
	}
}

// noMapOrderDependence: fn does not range over a map in a way whose result
// depends on iteration order: a `range` over a map-typed expression may only
// (a) collect into a slice that is sorted afterwards, (b) do commutative
// updates; a body that assigns a result variable, returns or breaks is
// order-dependent.
func noMapOrderDependence(r *Run, fn string) {
	f := r.Fn(fn)
	if f == nil {
		return
	}
	c := f.Ctx()
	n := 0
	bad := ""
	core.InspectBody(f, func(x ast.Node) bool {
		rs, ok := x.(*ast.RangeStmt)
		if !ok {
			return true
		}
		if _, isMap := c.Info.TypeOf(rs.X).Underlying().(*types.Map); !isMap {
			return true
		}
		n++
		// order-sensitive effects in the body
		ast.Inspect(rs.Body, func(y ast.Node) bool {
			switch s := y.(type) {
			case *ast.ReturnStmt:
				bad = r.W.Pos(s.Pos()) + " returns from inside a map iteration (first match wins)"
			case *ast.BranchStmt:
				if s.Tok == token.BREAK {
					bad = r.W.Pos(s.Pos()) + " breaks out of a map iteration (first match wins)"
				}
			case *ast.AssignStmt:
				for _, l := range s.Lhs {
					if id, ok := l.(*ast.Ident); ok {
						if v, ok := c.Info.ObjectOf(id).(*types.Var); ok && s.Tok == token.ASSIGN {
							// assignment to a variable declared outside the loop (last iteration wins)
							if v.Pos() < rs.Pos() {
								if _, isAppend := appendTo(c, s); !isAppend {
									bad = r.W.Pos(s.Pos()) + fmt.Sprintf(" assigns `%s` inside a map iteration (last iterated element wins)", id.Name)
								} else if !sortedAfter(c, f, rs, v) {
									// the collected list inherits the map's iteration order unless it is sorted before use
									bad = r.W.Pos(s.Pos()) + fmt.Sprintf(" appends to `%s` inside a map iteration and the list is not sorted afterwards (its order is the map's iteration order)", id.Name)
								}
							}
						}
					}
				}
			}
			return true
		})
		return true
	})
	label := fn + " does not depend on map iteration order"
	if bad == "" {
		r.OK(label, r.W.Pos(f.Node().Pos()), fmt.Sprintf("%d map range(s), none with an order-sensitive effect", n))
	} else {
		r.Fail(label, r.W.Pos(f.Node().Pos()), bad)
	}
}

// sortedAfter: after the loop, the function hands the variable to a sort routine.
func sortedAfter(c *core.Ctx, f *core.FuncInfo, loop ast.Stmt, v *types.Var) bool {
	found := false
	core.InspectBody(f, func(x ast.Node) bool {
		call, ok := x.(*ast.CallExpr)
		if !ok || call.Pos() < loop.End() {
			return true
		}
		fn := core.Callee(c.Info, call)
		if fn == nil || fn.Pkg() == nil || (fn.Pkg().Path() != "sort" && fn.Pkg().Path() != "slices") {
			return true
		}
		for _, a := range call.Args {
			ast.Inspect(a, func(y ast.Node) bool {
				if id, ok := y.(*ast.Ident); ok && c.Info.ObjectOf(id) == types.Object(v) {
					found = true
				}
				return true
			})
		}
		return true
	})
	return found
}

func appendTo(c *core.Ctx, s *ast.AssignStmt) (ast.Expr, bool) {
	if len(s.Rhs) != 1 {
		return nil, false
	}
	call, ok := ast.Unparen(s.Rhs[0]).(*ast.CallExpr)
	if !ok || !core.IsBuiltinCall(c.Info, call, "append") {
		return nil, false
	}
	return call.Args[0], true
}

func init() {
	register(&core.Property{
		ID:       "C19",
		Title:    "Validity checks are independent of process history",
		Packages: []string{"common/address", "system/address/eth", "system/address/btc", "system/dapp", "common/crypto", "types"},
		Explanation: "Decides R19a-R19d: for every memo cache in the address stack, every parameter the memoised function reads is part of the cache key and the cached value is computed without the runtime-mutable crypto context; " +
			"the address validity and address-type lookups do not depend on map iteration order; dapp.CheckAddress consults the validity check with its own height; LoadDriver keeps live, height-controlled rejections.",
		NotCovered: "hash-collision behaviour of the caches and the validators' own string parsing (V).",
		Rules: []core.Rule{
			rule("R19a", "memo-key completeness", 8, func(r *Run) {
				ctx := []string{"common/crypto/client.GetCryptoContext"}
				memoKeyComplete(r, "common/address.CheckAddress", ctx, 1)
				memoKeyComplete(r, "common/address.ExecAddress", ctx, 1)
				memoKeyComplete(r, "common/address.ExecPubKey", ctx, 1)
				memoKeyComplete(r, "system/address/eth.(*eth).PubKeyToAddr", ctx, 1)
				memoKeyComplete(r, "system/address/btc.(*btc).PubKeyToAddr", ctx, 1)
				memoKeyComplete(r, "system/address/btc.(*btcMultiSign).PubKeyToAddr", ctx, 1)
			}),
			rule("R19b", "no dependence on map iteration order", 2, func(r *Run) {
				noMapOrderDependence(r, "common/address.CheckAddress")
				noMapOrderDependence(r, "common/address.GetAddressType")
				// common/crypto.GetCryptoList (an RPC listing whose two result lists follow the map's iteration
				// order) was examined here before appends inside a map range counted as order-sensitive; it is
				// not a validity check — no verdict depends on the order of that listing — so it is out of scope.
			}),
			rule("R19c", "dapp.CheckAddress passes its own height; pre-fork compatibility keyed on the deterministic error", 3, func(r *Run) {
				core.CallArgs{Fn: "system/dapp.CheckAddress", Callee: []string{"common/address.CheckAddress"}, What: "the address and height it was asked about",
					Args: map[int]core.ExprPred{0: core.IsObj("param:1"), 1: core.IsObj("param:2")}, Min: 1}.Check(r)
				core.CallArgs{Fn: "system/dapp.CheckAddress", Callee: []string{"system/dapp.IsDriverAddress"}, What: "the address and height it was asked about",
					Args: map[int]core.ExprPred{0: core.IsObj("param:1"), 1: core.IsObj("param:2")}, Min: 1}.Check(r)
				f := r.Fn("system/dapp.CheckAddress")
				if f != nil {
					c := f.Ctx()
					n := 0
					core.InspectBody(f, func(x ast.Node) bool {
						if e, ok := x.(ast.Expr); ok {
							if name, isFork := forkCall(c, e); isFork && (name == "ForkMultiSignAddress" || name == "ForkBase58AddressCheck") {
								if call := ast.Unparen(e).(*ast.CallExpr); core.IsObj("param:2")(c, call.Args[0]) {
									n++
								}
							}
						}
						return true
					})
					label := "system/dapp.CheckAddress evaluates the compatibility forks at its own height"
					if n >= 2 {
						r.OK(label, r.W.Pos(f.Node().Pos()), "both forks tested at the height parameter")
					} else {
						r.Fail(label, r.W.Pos(f.Node().Pos()), fmt.Sprintf("expected 2 fork tests at the height parameter, found %d", n))
					}
				}
			}),
			rule("R19d", "driver loading is height-gated", 4, func(r *Run) {
				core.LiveReturn{Fn: "common/address.LoadDriver", Sentinels: []string{"common/address.ErrUnknownAddressDriver", "common/address.ErrAddressDriverNotEnable"}}.Check(r)
				core.FailStops{Fn: "common/address.LoadDriver", Callee: []string{"common/address.isEnable"}, Fail: core.OFalse, Idx: -1, Forbidden: core.SuccessReturn(-1), Min: 1, Name: "driver not enabled at the height"}.Check(r)
				core.CallArgs{Fn: "common/address.LoadDriver", Callee: []string{"common/address.isEnable"}, What: "the requested height against the driver's own enable height",
					Args: map[int]core.ExprPred{0: core.IsObj("param:1"), 1: core.Mentions("common/address.DriverInfo.enableHeight")}, Min: 1}.Check(r)
				core.AnyComparison{Fn: "common/address.isEnable", Name: "enableHeight > blockHeight disables (the enable height itself is enabled)", L: core.IsObj("param:1"), R: core.IsObj("param:0"), Rel: token.GTR}.Check(r)
				core.AnyComparison{Fn: "common/address.isEnable", Name: "negative enable height disables", L: core.IsObj("param:1"), R: core.IsConstInt(0), Rel: token.LSS}.Check(r)
			}),
		},
	})
	_ = strings.Join
}
