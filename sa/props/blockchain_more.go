package props

import (
	"fmt"
	"go/ast"
	"go/token"

	"verif/sa/core"
)

func init() {
	extend("C29", "R29e (added after a seeded change was missed): blockExists answers yes for a block found in the database only when it is the main-chain block recorded for its height — a block that was merely pre-stored by hash before a crash (or sits on a side chain) must be processed again after a restart, otherwise the chain cannot advance past it.",
		rule("R29e", "a stored-by-hash block counts as existing only if it is connected at its height", 1, func(r *Run) {
			f := r.Fn(bcm + "blockExists")
			if f == nil {
				return
			}
			c := f.Ctx()
			fl := core.RunFlow(f, &core.FlowSpec{Calls: []core.CallGuard{{Fact: "in-index", Callee: core.Names(bcp + "(*blockIndex).HaveBlock"), Pass: core.OTrue, Idx: 0}},
				Conds: []core.CondGuard{core.BoolGuard("is-main-chain", core.CallAtomSym("bytes.Equal", core.DerivedFromCall(bsm+"GetBlockHashByHeight"), core.IsObj("param:0")), true)}})
			n := 0
			for _, ret := range fl.G.Returns() {
				rs, ok := ret.Ast.(*ast.ReturnStmt)
				if !ok || !fl.Live(ret) || len(rs.Results) != 1 {
					continue
				}
				n++
				label := fmt.Sprintf("%s: return #%d says 'exists' only for an indexed or a connected block", f.Name, n)
				pos := r.W.Pos(rs.Pos())
				if core.ClassifyReturn(fl, ret, 0) == core.False {
					r.OK(label, pos, "returns false")
					continue
				}
				if fl.In[ret].Has("in-index") || fl.In[ret].Has("is-main-chain") {
					r.OK(label, pos, "behind the index hit / the main-chain comparison")
					continue
				}
				// a conjunction containing the main-chain comparison
				okConj := false
				var walk func(e ast.Expr)
				walk = func(e ast.Expr) {
					e = ast.Unparen(e)
					if b, isB := e.(*ast.BinaryExpr); isB && b.Op == token.LAND {
						walk(b.X)
						walk(b.Y)
						return
					}
					if core.CallAtomSym("bytes.Equal", core.DerivedFromCall(bsm+"GetBlockHashByHeight"), core.IsObj("param:0"))(c, e) {
						okConj = true
					}
				}
				walk(rs.Results[0])
				if okConj {
					r.OK(label, pos, "the result is a conjunction that includes bytes.Equal(main-chain hash at the header's height, hash)")
				} else {
					r.Fail(label, pos, fmt.Sprintf("`%s` can answer true for a block that is only stored by hash (pre-stored before a crash, or side chain): after a restart it is refused with ErrBlockExist and its children with ErrParentBlockNoExist", core.ExprStr(rs)))
				}
			}
			if n == 0 {
				r.Fail(f.Name+": returns", r.W.Pos(f.Node().Pos()), "no return statements found")
			}
		}),
	)
}

func init() {
	extend("C25", "R25e (added after a seeded change was missed): no loop in package blockchain ranges over a map/slice field that the calls in its body modify (the orphan pool removes children while walking them: the walk must re-read the collection, not range over it).",
		rule("R25e", "collections are not mutated under a range loop", 5, func(r *Run) {
			core.NoRangeMutation{Pkgs: []string{"blockchain"}, Depth: 3, Min: 5}.Check(r)
		}))
}
