package props

import (
	"fmt"
	"go/ast"
	"go/token"
	"go/types"
	"sort"
	"strings"

	"verif/sa/core"
)

const (
	mdb  = "system/store/mavl/db."
	mdbN = "system/store/mavl/db.(*Node)."
	mdbT = "system/store/mavl/db.(*Tree)."
	mdbD = "system/store/mavl/db.(*nodeDB)."
	mst  = "system/store/mavl.(*Store)."
)

// nodeStore is one assignment to a field of a *Node.
type nodeStore struct {
	f     *core.FuncInfo
	gn    *core.GNode
	pos   token.Pos
	field string
	base  ast.Expr // the expression whose field is stored to
	stmt  ast.Node
}

func isMavlNodePtr(t types.Type) bool {
	p, ok := t.(*types.Pointer)
	if !ok {
		return false
	}
	n, ok := p.Elem().(*types.Named)
	return ok && n.Obj().Name() == "Node" && n.Obj().Pkg() != nil && strings.HasSuffix(n.Obj().Pkg().Path(), "system/store/mavl/db")
}

func nodeStoresIn(f *core.FuncInfo) []nodeStore {
	var out []nodeStore
	info := f.Info()
	g := f.Graph()
	for _, gn := range g.Nodes {
		if gn.Ast == nil {
			continue
		}
		var lhs []ast.Expr
		switch s := gn.Ast.(type) {
		case *ast.AssignStmt:
			lhs = s.Lhs
		case *ast.IncDecStmt:
			lhs = []ast.Expr{s.X}
		default:
			continue
		}
		for _, l := range lhs {
			sel, ok := ast.Unparen(l).(*ast.SelectorExpr)
			if !ok {
				continue
			}
			if t := info.TypeOf(sel.X); t == nil || !isMavlNodePtr(t) {
				continue
			}
			out = append(out, nodeStore{f: f, gn: gn, pos: sel.Pos(), field: sel.Sel.Name, base: sel.X, stmt: gn.Ast})
		}
	}
	return out
}

// freshNodeExpr: the expression yields a Node nobody else can hold yet.
func freshNodeExpr(c *core.Ctx, e ast.Expr, idx int) bool {
	e = ast.Unparen(e)
	if u, ok := e.(*ast.UnaryExpr); ok && u.Op == token.AND {
		if lit, ok := ast.Unparen(u.X).(*ast.CompositeLit); ok {
			return isMavlNodePtr(types.NewPointer(c.Info.TypeOf(lit)))
		}
	}
	if call, ok := e.(*ast.CallExpr); ok && idx == 0 {
		if fn := core.Callee(c.Info, call); fn != nil {
			switch core.ShortName(fn) {
			case mdb + "NewNode", mdbN + "_copy", mdb + "MakeNode":
				return true
			}
		}
	}
	return false
}

// assignsVar reports whether graph node n assigns v, and whether from a fresh expression.
func assignsVar(c *core.Ctx, n *core.GNode, v types.Object) (assigns, fresh bool) {
	switch s := n.Ast.(type) {
	case *ast.AssignStmt:
		for i, l := range s.Lhs {
			id, ok := ast.Unparen(l).(*ast.Ident)
			if !ok || c.Info.ObjectOf(id) != v {
				continue
			}
			assigns = true
			if len(s.Rhs) == len(s.Lhs) {
				fresh = freshNodeExpr(c, s.Rhs[i], 0)
			} else if len(s.Rhs) == 1 {
				fresh = freshNodeExpr(c, s.Rhs[0], i)
			}
		}
	case *ast.ValueSpec:
		for i, id := range s.Names {
			if c.Info.ObjectOf(id) != v {
				continue
			}
			assigns = true
			if len(s.Values) == len(s.Names) {
				fresh = freshNodeExpr(c, s.Values[i], 0)
			} else if len(s.Values) == 1 {
				fresh = freshNodeExpr(c, s.Values[0], i)
			}
		}
	case *ast.Ident: // range key/value
		if c.Info.ObjectOf(s) == v {
			assigns = true
		}
	}
	return
}

// nodeVarSpec builds the flow spec tracking, for each *Node variable of f,
// "fresh:<v>" (assigned from a fresh expression, not re-assigned since) and
// "unpersisted:<v>" (a test of v.persisted / v.hash == nil passed).
func nodeVarSpec(f *core.FuncInfo, vars []*types.Var) *core.FlowSpec {
	sp := &core.FlowSpec{}
	for _, v := range vars {
		v := v
		isV := func(c *core.Ctx, e ast.Expr) bool {
			id, ok := ast.Unparen(e).(*ast.Ident)
			return ok && c.Info.ObjectOf(id) == v
		}
		fieldOfV := func(name string) core.ExprPred {
			return func(c *core.Ctx, e ast.Expr) bool {
				sel, ok := ast.Unparen(e).(*ast.SelectorExpr)
				return ok && sel.Sel.Name == name && isV(c, sel.X)
			}
		}
		fresh := core.Fact("fresh:" + v.Name())
		unp := core.Fact("unpersisted:" + v.Name())
		sp.Nodes = append(sp.Nodes,
			core.NodeGen{Fact: fresh,
				Kill: func(c *core.Ctx, n *core.GNode) bool { a, _ := assignsVar(c, n, v); return a },
				Gen:  func(c *core.Ctx, n *core.GNode) bool { _, fr := assignsVar(c, n, v); return fr }},
			core.NodeGen{Fact: unp, Kill: func(c *core.Ctx, n *core.GNode) bool { a, _ := assignsVar(c, n, v); return a }})
		sp.Conds = append(sp.Conds,
			core.BoolGuard(unp, fieldOfV("persisted"), false),
			core.RelGuard(unp, fieldOfV("hash"), token.EQL, func(c *core.Ctx, e ast.Expr) bool { return isNilLit(c, e) }))
	}
	return sp
}

func nodeVarsOf(f *core.FuncInfo) []*types.Var {
	seen := map[*types.Var]bool{}
	var out []*types.Var
	core.InspectBody(f, func(x ast.Node) bool {
		if id, ok := x.(*ast.Ident); ok {
			if v, ok := f.Info().ObjectOf(id).(*types.Var); ok && !v.IsField() && isMavlNodePtr(v.Type()) && !seen[v] {
				seen[v] = true
				out = append(out, v)
			}
		}
		return true
	})
	if rv := f.Recv(); rv != nil && isMavlNodePtr(rv.Type()) && !seen[rv] {
		out = append(out, rv)
	}
	sort.Slice(out, func(i, j int) bool { return out[i].Pos() < out[j].Pos() })
	return out
}

// transientNodeFields: fields that are not part of a node's content and are
// only meaningful inside one Save; reason recorded with each exception.
var transientNodeFields = map[string]string{
	"parentNode": "back pointer used only while the same tree is being saved (prune index); never read by get/iterate/hash",
}

func checkCopyOnWrite(r *Run) {
	pkg := r.W.Pkg("system/store/mavl/db")
	if pkg == nil {
		r.Unresolved("system/store/mavl/db")
		return
	}
	type fstate struct {
		f    *core.FuncInfo
		fl   *core.Flow
		vars []*types.Var
	}
	states := map[*types.Func]*fstate{}
	flowOf := func(f *core.FuncInfo) *fstate {
		if st, ok := states[f.Obj]; ok {
			return st
		}
		vars := nodeVarsOf(f)
		st := &fstate{f: f, vars: vars, fl: core.RunFlow(f, nodeVarSpec(f, vars))}
		states[f.Obj] = st
		return st
	}
	justified := func(st *fstate, gn *core.GNode, base ast.Expr) (bool, string, *types.Var) {
		id, ok := ast.Unparen(base).(*ast.Ident)
		if !ok {
			return false, "", nil
		}
		v, _ := st.f.Info().ObjectOf(id).(*types.Var)
		if v == nil {
			return false, "", nil
		}
		in := st.fl.In[gn]
		if in == nil {
			return true, "unreachable", v
		}
		if in.Has(core.Fact("fresh:" + v.Name())) {
			return true, "`" + v.Name() + "` holds a node created in this function (literal / NewNode / _copy / MakeNode) on every path", v
		}
		if in.Has(core.Fact("unpersisted:" + v.Name())) {
			return true, "behind a test that `" + v.Name() + "` is not persisted (persisted flag false / hash still nil): persisted nodes are the only shared ones", v
		}
		return false, "", v
	}
	// pass 1: stores; collect requires-fresh receivers
	requiresFresh := map[*types.Func]string{}
	nStores := 0
	var pending []func()
	for _, f := range r.W.AllFuncs(pkg) {
		stores := nodeStoresIn(f)
		if len(stores) == 0 {
			continue
		}
		st := flowOf(f)
		r.Touch(f)
		occ := map[string]int{}
		for _, s := range stores {
			s := s
			nStores++
			key := core.ExprStr(s.base) + "." + s.field
			occ[key]++
			label := fmt.Sprintf("%s: store to %s #%d goes to a node no other tree can see", f.Name, key, occ[key])
			pos := r.W.Pos(s.pos)
			if why, ok := transientNodeFields[s.field]; ok {
				r.Exception(label, why)
				r.OK(label, pos, "frozen exception: "+why)
				continue
			}
			ok, why, v := justified(st, s.gn, s.base)
			switch {
			case ok:
				r.OK(label, pos, why)
			case v != nil && v == f.Recv():
				requiresFresh[f.Obj] = f.Name
				pending = append(pending, func() {
					r.OK(label, pos, "the receiver is modified in place: every call site must pass a fresh / unpersisted node (obligations below)")
				})
			default:
				r.Fail(label, pos, fmt.Sprintf("`%s` modifies a node that may be persisted and shared (node cache, other versions of the tree): reads at older roots would change", core.ExprStr(s.stmt)))
			}
		}
	}
	// pass 2: call sites of requires-fresh methods (to a fixpoint over receivers passed on)
	for changed := true; changed; {
		changed = false
		for _, f := range r.W.AllFuncs(pkg) {
			for _, gn := range f.Graph().Nodes {
				if gn.Ast == nil {
					continue
				}
				for _, call := range core.CallsIn(gn.Ast) {
					fn := core.Callee(f.Info(), call)
					if fn == nil {
						continue
					}
					if _, need := requiresFresh[fn.Origin()]; !need {
						continue
					}
					sel, ok := ast.Unparen(call.Fun).(*ast.SelectorExpr)
					if !ok {
						continue
					}
					st := flowOf(f)
					if ok, _, v := justified(st, gn, sel.X); !ok && v != nil && v == f.Recv() {
						if _, had := requiresFresh[f.Obj]; !had {
							requiresFresh[f.Obj] = f.Name
							changed = true
						}
					}
				}
			}
		}
	}
	for _, p := range pending {
		p()
	}
	nCalls := 0
	for _, f := range r.W.AllFuncs(pkg) {
		occ := map[string]int{}
		for _, gn := range f.Graph().Nodes {
			if gn.Ast == nil {
				continue
			}
			for _, call := range core.CallsIn(gn.Ast) {
				fn := core.Callee(f.Info(), call)
				if fn == nil {
					continue
				}
				name, need := requiresFresh[fn.Origin()]
				if !need {
					continue
				}
				sel, ok := ast.Unparen(call.Fun).(*ast.SelectorExpr)
				if !ok {
					continue
				}
				nCalls++
				r.Touch(f)
				occ[name]++
				label := fmt.Sprintf("%s: call #%d of %s (modifies its receiver) is given a fresh node", f.Name, occ[name], name)
				st := flowOf(f)
				ok2, why, v := justified(st, gn, sel.X)
				switch {
				case ok2:
					r.OK(label, r.W.Pos(call.Pos()), why)
				case v != nil && v == f.Recv() && requiresFresh[f.Obj] != "":
					r.OK(label, r.W.Pos(call.Pos()), "passes on its own receiver, which its callers must provide fresh")
				default:
					r.Fail(label, r.W.Pos(call.Pos()), fmt.Sprintf("`%s` hands a possibly persisted, shared node to a function that modifies it in place", core.ExprStr(call)))
				}
			}
		}
	}
	if nStores < 25 {
		r.Fail("stores to Node fields in system/store/mavl/db", "-", fmt.Sprintf("expected ≥25, found %d", nStores))
	}
	if nCalls < 5 {
		r.Fail("call sites of receiver-modifying Node methods", "-", fmt.Sprintf("expected ≥5, found %d (requires-fresh set: %v)", nCalls, requiresFresh))
	}
}

func init() {
	// ------------------------------------------------------------------ C01
	register(&core.Property{
		ID:       "C01",
		Title:    "State tree behaves as a persistent versioned map",
		Packages: []string{"system/store/mavl/db", "system/store/mavl"},
		Explanation: "Decides the persistence clause through R01a-R01d: (a) copy-on-write — every assignment to a field of a tree node in package mavl/db goes to a node created in the same function (literal, NewNode, _copy, MakeNode), or sits behind a test that the node is not persisted; methods that modify their receiver are only called on such nodes (persisted nodes are shared between versions through the node cache, so an in-place store would change reads at older roots); " +
			"(b) a node record is written only after both children were saved, Save writes the root's subtree before the one batch commit; (c) Set copies the caller's key/value buffers; (d) loading a version marks what it loads as persisted under the requested hash and reports a missing record.",
		NotCovered:  "latest-write-wins, AVL balance arithmetic (height/size), split-key maintenance and the bounds logic of traverseInRange are value clauses and not decided; iteration exactness likewise.",
		Assumptions: []string{"a node reachable from another tree version is persisted (persisted == true and hash != nil): GetNode/SaveNode are the only places that publish nodes to the cache (checked by R01d)"},
		Rules: []core.Rule{
			rule("R01a", "copy-on-write: no in-place store to a shared node", 30, checkCopyOnWrite),
			rule("R01b", "children are saved before their parent; one commit after the subtree", 4, func(r *Run) {
				sv := mdbN + "save"
				childDone := func(side string) []core.CondGuard {
					return []core.CondGuard{core.RelGuard(core.Fact(side+"-child-saved"), core.IsObj(mdb+"Node."+side+"Node"), token.EQL, func(c *core.Ctx, e ast.Expr) bool { return isNilLit(c, e) })}
				}
				childCall := func(side string) core.CallGuard {
					return core.CallGuard{Fact: core.Fact(side + "-child-saved"), Callee: core.Names(sv), Pass: core.OCalled,
						ArgOK: func(c *core.Ctx, call *ast.CallExpr) bool {
							sel, ok := ast.Unparen(call.Fun).(*ast.SelectorExpr)
							return ok && core.IsObj(mdb + "Node." + side + "Node")(c, sel.X)
						}, NoArgDeps: true}
				}
				core.Dominated{Fn: sv, Spec: &core.FlowSpec{Conds: append(childDone("left"), childDone("right")...), Calls: []core.CallGuard{childCall("left"), childCall("right")}},
					Sink: core.CallSink(mdbD + "SaveNode"), Need: []Fact{"left-child-saved", "right-child-saved"}, Min: 1}.Check(r)
				core.NotAfter{Fn: sv, Early: []string{sv}, Late: []string{mdbD + "SaveNode"}, Name: "no child is saved after its parent's record was queued", Min: 1}.Check(r)
				core.Dominated{Fn: mdbT + "Save", Spec: spec(core.CallGuard{Fact: "subtree-saved", Callee: core.Names(sv), Pass: core.OCalled, NoArgDeps: true}),
					Sink: core.CallSink(mdbD + "Commit"), Need: []Fact{"subtree-saved"}, Min: 1}.Check(r)
				// SaveNode queues into the batch that Commit writes
				core.Dominated{Fn: mdbD + "Commit", Spec: spec(), Sink: core.CallSinkWhere("write of the node batch", []string{"common/db.MustWrite"}, func(c *core.Ctx, call *ast.CallExpr) bool {
					return len(call.Args) == 1 && core.IsObj(mdb + "nodeDB.batch")(c, call.Args[0])
				}), Min: 1}.Check(r)
				core.Dominated{Fn: mdbD + "SaveNode", Spec: spec(), Sink: core.CallSinkWhere("node record queued in the node batch", []string{"common/db.Batch.Set"}, func(c *core.Ctx, call *ast.CallExpr) bool {
					sel, ok := ast.Unparen(call.Fun).(*ast.SelectorExpr)
					return ok && core.IsObj(mdb + "nodeDB.batch")(c, sel.X) && len(call.Args) == 2 && core.Mentions(mdb + "Node.hash")(c, call.Args[0])
				}), Min: 1}.Check(r)
			}),
			rule("R01c", "Set does not alias the caller's buffers", 2, func(r *Run) {
				cp := core.CallAtom([]string{mdb + "copyBytes"})
				core.CallArgs{Fn: mdbT + "Set", Callee: []string{mdb + "NewNode"}, What: "the first leaf stores copies of key and value", Args: map[int]core.ExprPred{0: cp, 1: cp}, Min: 1}.Check(r)
				core.CallArgs{Fn: mdbT + "Set", Callee: []string{mdbN + "set"}, What: "inserted key and value are copies", Args: map[int]core.ExprPred{1: cp, 2: cp}, Min: 1}.Check(r)
			}),
			rule("R01d", "loading a version: missing record reported, loaded node published as persisted under the requested hash", 5, func(r *Run) {
				gn := mdbD + "GetNode"
				core.LiveReturn{Fn: gn, Sentinels: []string{mdb + "ErrNodeNotExist"}}.Check(r)
				// the node is put in the shared cache only after hash and persisted were set
				hashSet := core.NodeGen{Fact: "hash-set", Gen: func(c *core.Ctx, n *core.GNode) bool {
					as, ok := n.Ast.(*ast.AssignStmt)
					return ok && len(as.Lhs) == 1 && len(as.Rhs) == 1 && core.IsObj(mdb+"Node.hash")(c, as.Lhs[0]) && core.IsObj("param:1")(c, as.Rhs[0])
				}}
				persistedSet := core.NodeGen{Fact: "persisted-set", Gen: func(c *core.Ctx, n *core.GNode) bool {
					as, ok := n.Ast.(*ast.AssignStmt)
					if !ok || len(as.Lhs) != 1 || len(as.Rhs) != 1 || !core.IsObj(mdb + "Node.persisted")(c, as.Lhs[0]) {
						return false
					}
					id, ok := as.Rhs[0].(*ast.Ident)
					return ok && id.Name == "true"
				}}
				core.Dominated{Fn: gn, Spec: &core.FlowSpec{Nodes: []core.NodeGen{hashSet, persistedSet}}, Sink: core.CallSink(mdbD + "cacheNode"), Need: []Fact{"hash-set", "persisted-set"}, Min: 1}.Check(r)
				core.Dominated{Fn: mdbD + "SaveNode", Spec: &core.FlowSpec{Nodes: []core.NodeGen{persistedSet}}, Sink: core.CallSink(mdbD + "cacheNode"), Need: []Fact{"persisted-set"}, Min: 1}.Check(r)
				core.WhoMayCall{Targets: []string{mdbD + "cacheNode"}, Allowed: []string{mdbD + "GetNode", mdbD + "SaveNode"}, Min: 2}.Check(r)
				// Load propagates the error of GetNode
				core.FailStops{Fn: mdbT + "Load", Callee: []string{gn}, Fail: core.OErrNonNil, Idx: -1, Forbidden: core.CertainSuccessReturn(-1), Min: 1, Name: "root record missing"}.Check(r)
			}),
		},
	})
}
