package props

import (
	"fmt"
	"go/ast"
	"go/token"
	"go/types"
	"sort"
	"strings"

	"verif/sa/core"
)

func init() {
	extend("C39", "R39f-R39g (added after seeded changes were missed): each access list is initialised from, and checked against, its own configuration key and table only (no cross-wiring between the JSON-RPC and gRPC lists); the text form of an IP used for whitelist matching is never produced from an unparsable (nil) address, so garbage on both sides cannot collapse to the same key.",
		rule("R39f", "every access list is wired to its own configuration key and table", 8, func(r *Run) {
			listFields := map[string]bool{"Whitelist": true, "Whitlist": true, "JrpcFuncWhitelist": true, "GrpcFuncWhitelist": true, "JrpcFuncBlacklist": true, "GrpcFuncBlacklist": true}
			tables := []string{"rpc.remoteIPWhitelist", "rpc.jrpcFuncWhitelist", "rpc.grpcFuncWhitelist", "rpc.jrpcFuncBlacklist", "rpc.grpcFuncBlacklist"}
			tableObjs := map[types.Object]string{}
			for _, t := range tables {
				if o := r.W.LookupObj(t); o != nil {
					tableObjs[o] = t
				} else {
					r.Unresolved(t)
				}
			}
			tablesUsed := func(f *core.FuncInfo) []string {
				set := map[string]bool{}
				core.InspectBody(f, func(x ast.Node) bool {
					if id, ok := x.(*ast.Ident); ok {
						if t, ok := tableObjs[f.Info().Uses[id]]; ok {
							set[t] = true
						}
					}
					return true
				})
				var out []string
				for k := range set {
					out = append(out, k)
				}
				sort.Strings(out)
				return out
			}
			wiring := []struct {
				fn     string
				fields []string
				table  string
			}{
				{"rpc.InitIPWhitelist", []string{"Whitelist", "Whitlist"}, "rpc.remoteIPWhitelist"},
				{"rpc.InitJrpcFuncWhitelist", []string{"JrpcFuncWhitelist"}, "rpc.jrpcFuncWhitelist"},
				{"rpc.InitGrpcFuncWhitelist", []string{"GrpcFuncWhitelist"}, "rpc.grpcFuncWhitelist"},
				{"rpc.InitJrpcFuncBlacklist", []string{"JrpcFuncBlacklist"}, "rpc.jrpcFuncBlacklist"},
				{"rpc.InitGrpcFuncBlacklist", []string{"GrpcFuncBlacklist"}, "rpc.grpcFuncBlacklist"},
				{"rpc.checkIPWhitelist", nil, "rpc.remoteIPWhitelist"},
				{"rpc.checkJrpcFuncWhitelist", nil, "rpc.jrpcFuncWhitelist"},
				{"rpc.checkJrpcFuncBlacklist", nil, "rpc.jrpcFuncBlacklist"},
			}
			for _, w := range wiring {
				f := r.Fn(w.fn)
				if f == nil {
					continue
				}
				label := w.fn + " uses only its own configuration key(s) and table"
				gotF := rpcFieldsRead(f, listFields)
				gotT := tablesUsed(f)
				wantF := append([]string{}, w.fields...)
				sort.Strings(wantF)
				if strings.Join(gotF, ",") == strings.Join(wantF, ",") && len(gotT) == 1 && gotT[0] == w.table {
					r.OK(label, r.W.Pos(f.Node().Pos()), fmt.Sprintf("keys %v, table %s", gotF, w.table))
				} else {
					r.Fail(label, r.W.Pos(f.Node().Pos()), fmt.Sprintf("reads configuration keys %v (expected %v) and tables %v (expected [%s]): a list configured under its own key would be ignored or replaced by another list's setting", gotF, wantF, gotT, w.table))
				}
			}
			// checkGrpcFuncValidity consults exactly the two gRPC tables
			if f := r.Fn("rpc.checkGrpcFuncValidity"); f != nil {
				label := "rpc.checkGrpcFuncValidity consults the gRPC black- and whitelist only"
				got := strings.Join(tablesUsed(f), ",")
				if got == "rpc.grpcFuncBlacklist,rpc.grpcFuncWhitelist" {
					r.OK(label, r.W.Pos(f.Node().Pos()), got)
				} else {
					r.Fail(label, r.W.Pos(f.Node().Pos()), "tables used: "+got)
				}
			}
		}),
		rule("R39g", "whitelist keys are never the text of an unparsable address", 1, func(r *Run) {
			n := 0
			for _, pp := range []string{"rpc", "rpc/ethrpc"} {
				pkg := r.W.Pkg(pp)
				if pkg == nil {
					r.Unresolved("package " + pp)
					continue
				}
				for _, f := range r.W.AllFuncs(pkg) {
					c := f.Ctx()
					var calls []*ast.CallExpr
					core.InspectBody(f, func(x ast.Node) bool {
						if call, ok := x.(*ast.CallExpr); ok {
							if fn := core.Callee(c.Info, call); fn != nil && core.ShortName(fn) == "net.IP.String" {
								calls = append(calls, call)
							}
						}
						return true
					})
					if len(calls) == 0 {
						continue
					}
					r.Touch(f)
					for i, call := range calls {
						n++
						label := fmt.Sprintf("%s: IP text #%d comes from a parsed (non-nil) address", f.Name, i+1)
						sel := ast.Unparen(call.Fun).(*ast.SelectorExpr)
						id, ok := ast.Unparen(sel.X).(*ast.Ident)
						if !ok {
							r.Fail(label, r.W.Pos(call.Pos()), fmt.Sprintf("`%s`: String() of an IP expression that was never tested: net.ParseIP returns nil for anything that is not an IP literal and nil prints as \"<nil>\" — every unparsable peer address and every unparsable whitelist entry would then be equal", core.ExprStr(call)))
							continue
						}
						o := c.Info.ObjectOf(id)
						isVar := func(c *core.Ctx, e ast.Expr) bool {
							v, ok := ast.Unparen(e).(*ast.Ident)
							return ok && c.Info.ObjectOf(v) == o
						}
						fl := core.RunFlow(f, &core.FlowSpec{Conds: []core.CondGuard{core.RelGuard("parsed", isVar, token.NEQ, func(c *core.Ctx, e ast.Expr) bool { return isNilLit(c, e) })}})
						gn := fl.G.NodeContaining(call.Pos())
						if gn != nil && fl.In[gn] != nil && fl.In[gn].Has("parsed") {
							r.OK(label, r.W.Pos(call.Pos()), "behind `"+id.Name+" != nil`")
						} else {
							r.Fail(label, r.W.Pos(call.Pos()), fmt.Sprintf("`%s` is not behind a non-nil test of `%s`", core.ExprStr(call), id.Name))
						}
					}
				}
			}
			if n < 1 {
				r.Fail("IP text conversions in the rpc packages", "-", "expected ≥1 net.IP.String call (the IPv4-mapped normalisation)")
			}
		}),
	)
}
