package props

import (
	"fmt"
	"go/ast"
	"go/types"
	"sort"
	"strings"

	"verif/sa/core"
)

// fieldStores lists, per function of the struct's package, the positions where
// <expr>.<field> (field of typeQual) is assigned (=, :=, op=, ++/--, append-self).
func fieldStores(r *Run, typeQual, field string) map[*core.FuncInfo][]ast.Node {
	out := map[*core.FuncInfo][]ast.Node{}
	fv, _ := r.W.LookupObj(typeQual + "." + field).(*types.Var)
	if fv == nil {
		r.Unresolved(typeQual + "." + field)
		return nil
	}
	pkg := r.W.Pkgs[fv.Pkg().Path()]
	if pkg == nil {
		r.Unresolved("package of " + typeQual)
		return nil
	}
	for _, f := range r.W.AllFuncs(pkg) {
		info := f.Info()
		core.InspectBody(f, func(x ast.Node) bool {
			var lhs []ast.Expr
			switch s := x.(type) {
			case *ast.AssignStmt:
				lhs = s.Lhs
			case *ast.IncDecStmt:
				lhs = []ast.Expr{s.X}
			case *ast.CompositeLit:
				// T{field: v} in a constructor
				for _, el := range s.Elts {
					if kv, ok := el.(*ast.KeyValueExpr); ok {
						if id, ok := kv.Key.(*ast.Ident); ok && info.ObjectOf(id) == fv {
							out[f] = append(out[f], kv)
						}
					}
				}
			}
			for _, l := range lhs {
				if sel, ok := ast.Unparen(l).(*ast.SelectorExpr); ok && info.ObjectOf(sel.Sel) == fv {
					out[f] = append(out[f], x)
				}
			}
			return true
		})
	}
	return out
}

// whoMayStoreField: the field may only be assigned inside the listed methods of
// the type (constructors using composite literals / functions named New* are
// exempt: the object is not shared yet).
func whoMayStoreField(r *Run, typeQual, field string, methods []string) {
	stores := fieldStores(r, typeQual, field)
	if stores == nil {
		return
	}
	pkgp, tname := typeQual[:strings.LastIndex(typeQual, ".")], typeQual[strings.LastIndex(typeQual, ".")+1:]
	allowed := map[string]bool{}
	for _, m := range methods {
		allowed[fmt.Sprintf("%s.(*%s).%s", pkgp, tname, m)] = true
	}
	var fns []*core.FuncInfo
	for f := range stores {
		fns = append(fns, f)
	}
	sort.Slice(fns, func(i, j int) bool { return fns[i].Name < fns[j].Name })
	n := 0
	for _, f := range fns {
		r.Touch(f)
		label := fmt.Sprintf("%s.%s assigned in %s", typeQual, field, f.Name)
		pos := r.W.Pos(stores[f][0].Pos())
		short := f.Name[strings.LastIndex(f.Name, ".")+1:]
		switch {
		case allowed[f.Name]:
			n++
			r.OK(label, pos, "writer is in the allowed set")
		case strings.HasPrefix(short, "New") || strings.HasPrefix(short, "new"):
			r.Exception(label, "constructor: object not shared yet")
			r.OK(label, pos, "constructor")
		default:
			r.Fail(label, pos, fmt.Sprintf("field %s describes the whole transaction scope and may only be written by %v; a write here desynchronises it from the scope it describes", field, methods))
		}
	}
	if n == 0 {
		r.Fail(fmt.Sprintf("%s.%s writers", typeQual, field), "-", "no allowed writer found (field or methods renamed)")
	}
}

// noReadAfterReset: inside fn, no read of recv.<field> is reachable from a call
// to a same-receiver method that assigns the field (the decision must be taken
// from the value before it is reset).
func noReadAfterReset(r *Run, fn, typeQual, field string) {
	f := r.Fn(fn)
	if f == nil {
		return
	}
	stores := fieldStores(r, typeQual, field)
	if stores == nil {
		return
	}
	fv, _ := r.W.LookupObj(typeQual + "." + field).(*types.Var)
	// only writers that assign the zero value (false, 0, nil) reset the field
	writers := map[*types.Func]bool{}
	for g, nodes := range stores {
		if g.Obj == nil || g == f {
			continue
		}
		for _, nd := range nodes {
			as, ok := nd.(*ast.AssignStmt)
			if !ok || len(as.Lhs) != len(as.Rhs) {
				continue
			}
			for i, l := range as.Lhs {
				sel, ok := ast.Unparen(l).(*ast.SelectorExpr)
				if !ok || g.Info().ObjectOf(sel.Sel) != fv {
					continue
				}
				rhs := ast.Unparen(as.Rhs[i])
				zero := false
				if tv, ok := g.Info().Types[rhs]; ok && tv.Value != nil {
					s := tv.Value.ExactString()
					zero = s == "false" || s == "0"
				}
				if id, ok := rhs.(*ast.Ident); ok {
					if _, isNil := g.Info().ObjectOf(id).(*types.Nil); isNil {
						zero = true
					}
				}
				if zero {
					writers[g.Obj] = true
				}
			}
		}
	}
	fl := core.RunFlow(f, &core.FlowSpec{})
	info := f.Info()
	recv := f.Recv()
	isRecv := func(e ast.Expr) bool {
		id, ok := ast.Unparen(e).(*ast.Ident)
		return ok && info.ObjectOf(id) == recv
	}
	var resets, reads []*core.GNode
	for _, n := range fl.G.Nodes {
		if n.Ast == nil || !fl.Live(n) {
			continue
		}
		for _, call := range core.CallsIn(n.Ast) {
			sel, ok := ast.Unparen(call.Fun).(*ast.SelectorExpr)
			if ok && isRecv(sel.X) && writers[core.Callee(info, call)] && !n.Defer {
				resets = append(resets, n)
			}
		}
		// direct reads of recv.field in this node (not as assignment target)
		assigned := map[ast.Expr]bool{}
		if as, ok := n.Ast.(*ast.AssignStmt); ok {
			for _, l := range as.Lhs {
				assigned[ast.Unparen(l)] = true
			}
		}
		core.InspectNode(n.Ast, func(x ast.Node) bool {
			sel, ok := x.(*ast.SelectorExpr)
			if ok && info.ObjectOf(sel.Sel) == fv && isRecv(sel.X) && !assigned[sel] {
				reads = append(reads, n)
			}
			return true
		})
	}
	label := fmt.Sprintf("%s reads %s before any call that resets it", f.Name, field)
	if len(reads) == 0 {
		r.OK(label, r.W.Pos(f.Node().Pos()), "field not read here")
		return
	}
	reach := fl.G.Reachable(resets, func(e *core.GEdge) bool { return !fl.Feasible(e) }, nil)
	for _, rd := range reads {
		isReset := false
		for _, rs := range resets {
			if rs == rd {
				isReset = true
			}
		}
		if reach[rd] && !isReset {
			r.Fail(label, r.W.Pos(rd.Ast.Pos()), fmt.Sprintf("`%s` reads %s after a call that has already reset it: the decision it guards is taken from the reset value", core.ExprStr(rd.Ast), field))
			return
		}
	}
	r.OK(label, r.W.Pos(reads[0].Ast.Pos()), fmt.Sprintf("%d read(s), none reachable from the %d resetting call(s)", len(reads), len(resets)))
}
