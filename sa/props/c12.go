package props

import (
	"fmt"
	"go/ast"
	"go/token"
	"go/types"

	"verif/sa/core"
)

func init() {
	register(&core.Property{
		ID:       "C12",
		Title:    "Transactions can only write where their executor is allowed",
		Packages: []string{"executor"},
		Explanation: "Decides R12a-R12e: execTxOne succeeds only behind checkKV (fed with the state keys recorded after Exec and the receipt's KV) and checkKeyAllow; " +
			"both checks quantify over every key (loop-forall) with live rejections; StateDB.Set records every key written inside a transaction; " +
			"local KVs are applied/returned only behind checkKV+checkPrefix (execLocalTx, procExecDelBlock, procExecAddBlock); " +
			"every `return true` of the key-ownership predicate is justified by one of the enumerated ownership conditions.",
		NotCovered:  "the byte-level key parsing in types.FindExecer/GetExecKey and the friend-contract decision of each dapp (V clauses).",
		Assumptions: []string{"checkPrefix panics on a bad key (recovered by procExec*), so 'checkPrefix returned' is its pass edge"},
		Rules: []core.Rule{
			rule("R12a", "execTxOne: checkKV is fed with the keys recorded after Exec and with the receipt KV; success needs both checks", 4, func(r *Run) {
				f := r.Fn(ex + "execTxOne")
				if f == nil {
					return
				}
				sp := spec(errNil("exec-ok", ex+"Exec"), errNil("checkKV-ok", ex+"checkKV"), errNil("keyAllow-ok", ex+"checkKeyAllow"))
				fl := core.RunFlow(f, sp)
				c := fl.C
				setKeys := core.FromCall(0, "executor.(*StateDB).GetSetKeys")
				rcpKV := core.And(core.CallsAny("types.(*Receipt).GetKV"), func(c *core.Ctx, e ast.Expr) bool {
					// receiver of GetKV is the Exec result
					ok := false
					core.InspectNode(e, func(x ast.Node) bool {
						if call, isCall := x.(*ast.CallExpr); isCall {
							if sel, isSel := ast.Unparen(call.Fun).(*ast.SelectorExpr); isSel && sel.Sel.Name == "GetKV" {
								if core.FromCall(0, ex+"Exec")(c, sel.X) {
									ok = true
								}
							}
						}
						return true
					})
					return ok
				})
				n := 0
				for _, nd := range fl.G.Nodes {
					if nd.Ast == nil || !fl.Live(nd) {
						continue
					}
					for _, call := range core.CallsIn(nd.Ast) {
						switch core.ShortName(core.Callee(c.Info, call)) {
						case ex + "checkKV":
							n++
							label := "execTxOne checkKV(memset, kvs) arguments"
							if len(call.Args) == 2 && setKeys(c, call.Args[0]) && rcpKV(c, call.Args[1]) {
								r.OK(label, r.W.Pos(call.Pos()), "memset = StateDB.GetSetKeys(), kvs = Exec-receipt.GetKV()")
							} else {
								r.Fail(label, r.W.Pos(call.Pos()), "checkKV must compare the keys recorded by the state DB with the KV of the receipt returned by Exec")
							}
						case ex + "checkKeyAllow":
							n++
							label := "execTxOne checkKeyAllow(.., kvs) argument"
							if len(call.Args) == 4 && rcpKV(c, call.Args[3]) && core.IsObj("param:1")(c, call.Args[1]) {
								r.OK(label, r.W.Pos(call.Pos()), "kvs = Exec-receipt.GetKV(), tx = the executed transaction")
							} else {
								r.Fail(label, r.W.Pos(call.Pos()), "checkKeyAllow must be given the executed tx and the KV of the receipt returned by Exec")
							}
						case "executor.(*StateDB).GetSetKeys":
							n++
							label := "execTxOne GetSetKeys() taken after Exec"
							if fl.In[nd].Has("exec-ok") {
								r.OK(label, r.W.Pos(call.Pos()), "dominated by Exec success")
							} else {
								r.Fail(label, r.W.Pos(call.Pos()), "the recorded key set is read before Exec ran")
							}
						}
					}
				}
				if n < 3 {
					r.Fail("execTxOne check calls", r.W.Pos(f.Node().Pos()), fmt.Sprintf("expected checkKV, checkKeyAllow and GetSetKeys calls, found %d", n))
				}
				core.Dominated{Fn: ex + "execTxOne", Spec: sp, Sink: core.SuccessReturn(-1), Need: []Fact{"checkKV-ok", "keyAllow-ok"}, Min: 1}.Check(r)
			}),
			rule("R12b", "checkKV / checkKeyAllow / checkPrefix quantify over every key", 3, func(r *Run) {
				// checkKV: for every key of memset (param 0): key ∈ map built from kvs
				inKeys := core.CommaOK(func(c *core.Ctx, e ast.Expr) bool {
					t := c.Info.TypeOf(e)
					_, isMap := t.Underlying().(*types.Map)
					return isMap
				})
				core.Dominated{Fn: ex + "checkKV", Spec: &core.FlowSpec{
					Conds:   []core.CondGuard{core.BoolGuard("key-in-receipt", inKeys, true)},
					Foralls: []core.ForallGuard{{Fact: "all-memset-keys", Inner: "key-in-receipt", Loop: core.RangesOver(core.IsObj("param:0"))}},
				}, Sink: core.SuccessReturn(-1), Need: []Fact{"all-memset-keys"}, Min: 1}.Check(r)
				// the lookup table of checkKV is filled from every element of kvs
				fillsFromAll(r, ex+"checkKV", 1)
				core.Dominated{Fn: ex + "checkKeyAllow", Spec: &core.FlowSpec{
					Calls:   []core.CallGuard{isTrue("allowed", ex+"isAllowExec")},
					Foralls: []core.ForallGuard{{Fact: "all-keys-allowed", Inner: "allowed", Loop: core.RangesOver(core.IsObj("param:3"))}},
				}, Sink: core.SuccessReturn(-1), Need: []Fact{"all-keys-allowed"}, Min: 1}.Check(r)
				core.Dominated{Fn: ex + "checkPrefix", Spec: &core.FlowSpec{
					Calls:   []core.CallGuard{errNil("local-key-ok", "executor.isAllowLocalKey")},
					Foralls: []core.ForallGuard{{Fact: "all-local-keys-ok", Inner: "local-key-ok", Loop: core.CountsOver(core.IsObj("param:1"), 0)}},
				}, Sink: core.SuccessReturn(-1), Need: []Fact{"all-local-keys-ok"}, Min: 1}.Check(r)
			}),
			rule("R12c", "StateDB.Set / LocalDB.Set record every key written inside a transaction; StartTx/Begin reset the record", 4, func(r *Run) {
				for _, ty := range []string{"executor.(*StateDB)", "executor.(*LocalDB)"} {
					tyq := ty[:len("executor.")] + ty[len("executor.(*"):len(ty)-1] // executor.StateDB
					core.Dominated{Fn: ty + ".Set", Spec: &core.FlowSpec{
						Assume: assumeRecvField("intx", core.True),
						Nodes: []core.NodeGen{{Fact: "key-recorded", Gen: func(c *core.Ctx, n *core.GNode) bool {
							as, ok := n.Ast.(*ast.AssignStmt)
							if !ok || len(core.StoresTo(c, as, tyq+".keys")) == 0 || len(as.Rhs) != 1 {
								return false
							}
							call, ok := ast.Unparen(as.Rhs[0]).(*ast.CallExpr)
							return ok && core.IsBuiltinCall(c.Info, call, "append") && len(call.Args) == 2 && core.DerivedFrom("param:0")(c, call.Args[1])
						}}},
					}, Sink: core.SuccessReturn(-1), Need: []Fact{"key-recorded"}, Min: 1}.Check(r)
					for _, m := range []string{"StartTx", "Begin"} {
						f := r.Fn(ty + "." + m)
						if f == nil {
							continue
						}
						label := fmt.Sprintf("%s.%s resets the recorded key list", ty, m)
						if pos, ok := mutatedRecvFields(r.W, f, 1, nil)["keys"]; ok {
							r.OK(label, pos, "assigns receiver field keys")
						} else {
							r.Fail(label, r.W.Pos(f.Node().Pos()), "does not reset field keys: keys of an earlier transaction would be attributed to the next one (or checkKV rejects valid receipts)")
						}
					}
				}
			}),
			rule("R12d", "local KVs are applied / returned only behind checkKV and checkPrefix", 5, func(r *Run) {
				sp := spec(errNil("checkKV-ok", ex+"checkKV"), errNil("prefix-ok", ex+"checkPrefix"), errNil("execLocal-ok", ex+"execLocal"))
				core.Dominated{Fn: ex + "execLocalTx", Spec: sp, Sink: core.CallSinkWhere("localDB.Set", []string{"common/db.KV.Set", "common/db.KVDB.Set"}, func(c *core.Ctx, call *ast.CallExpr) bool {
					return core.Mentions("executor.executor.localDB")(c, call.Fun)
				}), Need: []Fact{"execLocal-ok", "checkKV-ok", "prefix-ok"}, Min: 1}.Check(r)
				// memkvset of execLocalTx is LocalDB.GetSetKeys()
				if f := r.Fn(ex + "execLocalTx"); f != nil {
					c := f.Ctx()
					found := false
					core.InspectBody(f, func(x ast.Node) bool {
						if call, ok := x.(*ast.CallExpr); ok && core.ShortName(core.Callee(c.Info, call)) == ex+"checkKV" && len(call.Args) == 2 {
							found = true
							label := "execLocalTx checkKV(memset, kvs) arguments"
							if core.FromCall(0, "executor.(*LocalDB).GetSetKeys")(c, call.Args[0]) && core.Mentions("types.LocalDBSet.KV")(c, call.Args[1]) {
								r.OK(label, r.W.Pos(call.Pos()), "memset = LocalDB.GetSetKeys(), kvs = execLocal result KV")
							} else {
								r.Fail(label, r.W.Pos(call.Pos()), "checkKV must compare LocalDB.GetSetKeys() with the KV returned by execLocal")
							}
						}
						return true
					})
					if !found {
						r.Fail("execLocalTx checkKV call", r.W.Pos(f.Node().Pos()), "no checkKV call found")
					}
				}
				// returned KV sets in the block-level procedures
				appendOf := func(src ...string) core.SinkPred {
					from := core.MayBeFromCall(0, src...)
					return core.SinkPred{Label: "kvset.KV = append(.., kv.KV...)", Match: func(fl *core.Flow, n *core.GNode) bool {
						as, ok := n.Ast.(*ast.AssignStmt)
						if !ok || len(core.StoresTo(fl.C, as, "types.LocalDBSet.KV")) == 0 {
							return false
						}
						hit := false
						for _, rhs := range as.Rhs {
							core.InspectNode(rhs, func(x ast.Node) bool {
								if id, ok := x.(*ast.Ident); ok && from(fl.C, id) {
									hit = true
								}
								return true
							})
						}
						return hit
					}}
				}
				spd := spec(errNil("prefix-ok", ex+"checkPrefix"))
				core.Dominated{Fn: "executor.(*Executor).procExecDelBlock", Spec: spd, Sink: appendOf(ex + "execDelLocal"), Need: []Fact{"prefix-ok"}, Min: 2}.Check(r)
				core.Dominated{Fn: "executor.(*Executor).procExecAddBlock", Spec: spd, Sink: appendOf(ex + "execLocal"), Need: []Fact{"prefix-ok"}, Min: 1}.Check(r)
			}),
			rule("R12e", "rejection reasons are live", 6, func(r *Run) {
				core.LiveReturn{Fn: ex + "checkKV", Sentinels: []string{"types.ErrNotAllowMemSetKey"}}.Check(r)
				core.LiveReturn{Fn: ex + "checkKeyAllow", Sentinels: []string{"types.ErrNotAllowKey"}}.Check(r)
				core.LiveReturn{Fn: ex + "execLocalTx", Sentinels: []string{"types.ErrNotAllowMemSetLocalKey"}}.Check(r)
				core.LiveReturn{Fn: "executor.isAllowLocalKey2", Sentinels: []string{"types.ErrLocalPrefix", "types.ErrLocalKeyLen"}}.Check(r)
				// the length test protects the two index expressions and rejects keys that are too short
				core.RejectWhen{Fn: "executor.isAllowLocalKey2", Name: "len(key) <= minkeylen",
					L: core.And(core.Mentions("builtin:len", "param:2")), R: core.Not(core.MentionsDirect("param:2")), Rel: token.LEQ, Sentinel: "types.ErrLocalKeyLen"}.Check(r)
				core.RejectWhen{Fn: "executor.isAllowLocalKey2", Name: "key lacks the local prefix",
					BoolAtom: core.CallAtom([]string{"bytes.HasPrefix"}, core.IsObj("param:2"), core.IsObj("types.LocalPrefix")), RejectVal: false, Sentinel: "types.ErrLocalPrefix"}.Check(r)
				core.RejectWhen{Fn: "executor.isAllowLocalKey2", Name: "key lacks the executor name after the prefix",
					BoolAtom: core.CallAtom([]string{"bytes.HasPrefix"}, core.Mentions("param:2"), core.IsObj("param:1")), RejectVal: false, Sentinel: "types.ErrLocalPrefix"}.Check(r)
			}),
			rule("R12f", "every `return true` of isAllowKeyWrite is justified by an ownership condition", 4, func(r *Run) {
				keyExecer := core.FromCall(0, "types.FindExecer")
				exec := core.FromCall(0, "types.(*Chain33Config).GetParaExec")
				execAddr := core.FromCall(0, "types.GetExecKey")
				okVar := core.FromCall(1, "types.GetExecKey")
				lit := func(s string) core.ExprPred {
					return func(c *core.Ctx, e ast.Expr) bool {
						found := false
						core.InspectNode(e, func(x ast.Node) bool {
							if bl, ok := x.(*ast.BasicLit); ok && bl.Value == `"`+s+`"` {
								found = true
							}
							return true
						})
						return found
					}
				}
				txExecAddr := core.And(core.CallsAny("system/dapp.ExecAddress"), core.Mentions("types.Transaction.Execer"))
				sp := &core.FlowSpec{
					Calls: []core.CallGuard{errNil("findExecer-ok", "types.FindExecer")},
					Conds: []core.CondGuard{
						core.BoolGuard("own-namespace", core.CallAtomSym("bytes.Equal", keyExecer, exec), true),
						core.BoolGuard("pre-ForkExecKey", func(c *core.Ctx, e ast.Expr) bool { n, ok := forkCall(c, e); return ok && n == "ForkExecKey" }, false),
						core.BoolGuard("exec-is-manage", core.CallAtomSym("bytes.Equal", exec, lit("manage")), true),
						core.BoolGuard("key-is-config", core.CallAtomSym("bytes.Equal", keyExecer, lit("config")), true),
						core.BoolGuard("exec-is-token", core.CallAtomSym("bytes.Equal", exec, lit("token")), true),
						core.BoolGuard("key-create-token", core.CallAtom([]string{"bytes.HasPrefix"}, core.IsObj("param:1"), lit("mavl-create-token-")), true),
						core.BoolGuard("execkey-found", func(c *core.Ctx, e ast.Expr) bool { _, isId := ast.Unparen(e).(*ast.Ident); return isId && okVar(c, e) }, true),
						core.RelGuardEq("deposit-area-of-tx-execer", execAddr, txExecAddr),
					},
				}
				core.Dominated{Fn: "executor.isAllowKeyWrite", Spec: sp, Sink: core.CertainSuccessReturn(-1), Min: 4,
					Need: []Fact{"findExecer-ok"},
					AnyOf: [][]Fact{{"own-namespace"}, {"pre-ForkExecKey", "exec-is-manage", "key-is-config"}, {"pre-ForkExecKey", "exec-is-token", "key-create-token"},
						{"execkey-found", "deposit-area-of-tx-execer"}}}.Check(r)
				// the only other way to allow is the friend decision of the owning driver
				core.Dominated{Fn: "executor.isAllowKeyWrite", Spec: sp, Sink: core.SinkPred{Label: "non-literal return", Match: func(fl *core.Flow, n *core.GNode) bool {
					return n.Kind == core.KReturn && core.ClassifyReturn(fl, n, -1) == core.Unknown
				}}, Min: 1, Need: []Fact{"findExecer-ok"}, SkipSink: nil}.Check(r)
				if f := r.Fn("executor.isAllowKeyWrite"); f != nil {
					c := f.Ctx()
					for _, rn := range f.Graph().Returns() {
						rs, _ := rn.Ast.(*ast.ReturnStmt)
						if rs == nil || len(rs.Results) != 1 {
							continue
						}
						if _, isLit := ast.Unparen(rs.Results[0]).(*ast.Ident); isLit {
							continue
						}
						label := "isAllowKeyWrite delegated decision"
						if core.CallAtom([]string{"system/dapp.Driver.IsFriend"})(c, rs.Results[0]) {
							r.OK(label, r.W.Pos(rs.Pos()), "delegates to the owning driver's IsFriend")
						} else {
							r.Fail(label, r.W.Pos(rs.Pos()), "a non-literal return other than Driver.IsFriend decides key ownership")
						}
					}
				}
			}),
		},
	})
}

// assumeRecvField builds an Assume function fixing receiver.<field> to v.
func assumeRecvField(field string, v core.Tri) func(c *core.Ctx, e ast.Expr) core.Tri {
	return func(c *core.Ctx, e ast.Expr) core.Tri {
		if sel, ok := ast.Unparen(e).(*ast.SelectorExpr); ok && sel.Sel.Name == field {
			if id, ok := ast.Unparen(sel.X).(*ast.Ident); ok && c.Info.ObjectOf(id) == c.F.Recv() {
				return v
			}
		}
		return core.Unknown
	}
}

// fillsFromAll checks that fn contains a `range` over parameter #param whose body
// stores into a map (the lookup table is built from every element).
func fillsFromAll(r *Run, fn string, param int) {
	f := r.Fn(fn)
	if f == nil {
		return
	}
	c := f.Ctx()
	ok := false
	var pos token.Pos
	core.InspectBody(f, func(x ast.Node) bool {
		rs, isR := x.(*ast.RangeStmt)
		if !isR || !core.IsObj(fmt.Sprintf("param:%d", param))(c, rs.X) {
			return true
		}
		pos = rs.Pos()
		brk := false
		stores := false
		ast.Inspect(rs.Body, func(y ast.Node) bool {
			switch s := y.(type) {
			case *ast.BranchStmt:
				brk = true
			case *ast.ReturnStmt:
				brk = true
			case *ast.AssignStmt:
				for _, l := range s.Lhs {
					if ix, isIx := ast.Unparen(l).(*ast.IndexExpr); isIx {
						if _, isMap := c.Info.TypeOf(ix.X).Underlying().(*types.Map); isMap {
							stores = true
						}
					}
				}
			}
			return true
		})
		if stores && !brk {
			ok = true
		}
		return true
	})
	label := fmt.Sprintf("%s builds its lookup table from every element of parameter %d", fn, param)
	if ok {
		r.OK(label, r.W.Pos(pos), "unconditional range with a map store and no early exit")
	} else {
		r.Fail(label, r.W.Pos(f.Node().Pos()), "no complete range over the parameter that fills a map was found")
	}
}
