package props

import (
	"go/ast"
	"go/constant"
	"go/types"

	"verif/sa/core"
)

type (
	Fact = core.Fact
	Run  = core.Run
)

// errNil: fact holds once a call to one of callees has returned a nil error (last result).
func errNil(f Fact, callees ...string) core.CallGuard {
	return core.CallGuard{Fact: f, Callee: core.Names(callees...), Pass: core.OErrNil, Idx: -1}
}

// isTrue / isFalse: fact holds once the (last) boolean result is known true / false.
func isTrue(f Fact, callees ...string) core.CallGuard {
	return core.CallGuard{Fact: f, Callee: core.Names(callees...), Pass: core.OTrue, Idx: -1}
}
func isFalse(f Fact, callees ...string) core.CallGuard {
	return core.CallGuard{Fact: f, Callee: core.Names(callees...), Pass: core.OFalse, Idx: -1}
}

// called: fact holds once the call has been evaluated.
func called(f Fact, callees ...string) core.CallGuard {
	return core.CallGuard{Fact: f, Callee: core.Names(callees...), Pass: core.OCalled, NoArgDeps: true}
}

// calledOrDeferred also accepts a deferred call.
func calledOrDeferred(f Fact, callees ...string) core.CallGuard {
	return core.CallGuard{Fact: f, Callee: core.Names(callees...), Pass: core.OCalled, NoArgDeps: true, InDefer: true}
}

func spec(calls ...core.CallGuard) *core.FlowSpec { return &core.FlowSpec{Calls: calls} }

const isFork = "types.(*Chain33Config).IsFork"

// forkCall recognises cfg.IsFork(h, "<name>") and returns the name.
func forkCall(c *core.Ctx, e ast.Expr) (string, bool) {
	call, ok := ast.Unparen(e).(*ast.CallExpr)
	if !ok {
		return "", false
	}
	fn := core.Callee(c.Info, call)
	if fn == nil || core.ShortName(fn) != "types.(*Chain33Config).IsFork" || len(call.Args) != 2 {
		return "", false
	}
	tv, ok := c.Info.Types[call.Args[1]]
	if !ok || tv.Value == nil || tv.Value.Kind() != constant.String {
		return "", false
	}
	return constant.StringVal(tv.Value), true
}

// assumeForks returns an Assume function that fixes the given forks to true.
func assumeForks(names ...string) func(c *core.Ctx, e ast.Expr) core.Tri {
	set := map[string]bool{}
	for _, n := range names {
		set[n] = true
	}
	return func(c *core.Ctx, e ast.Expr) core.Tri {
		if n, ok := forkCall(c, e); ok && set[n] {
			return core.True
		}
		return core.Unknown
	}
}

// callTo recognises a call (possibly negated by the caller) to one of names.
func callTo(names ...string) func(c *core.Ctx, e ast.Expr) bool {
	ns := core.Names(names...)
	return func(c *core.Ctx, e ast.Expr) bool {
		call, ok := ast.Unparen(e).(*ast.CallExpr)
		return ok && ns.Has(core.Callee(c.Info, call))
	}
}

func rule(id, doc string, floor int, run func(r *Run)) core.Rule {
	return core.Rule{ID: id, Doc: doc, Floor: floor, Run: run}
}

func fieldObj(w *core.World, q string) *types.Var {
	v, _ := w.LookupObj(q).(*types.Var)
	return v
}
