package props

import (
	"fmt"
	"go/ast"
	"go/token"
	"go/types"
	"sort"
	"strings"

	"verif/sa/core"
)

// consensusPkgs: packages whose functions run during block execution / hashing.
var consensusPkgs = []string{"executor", "util", "account", "types", "common/merkle", "common/db/table", "system/dapp",
	"system/dapp/coins/executor", "system/dapp/manage/executor", "system/dapp/none/executor",
	// the executor-type packages, so that interface calls on types.ExecutorType resolve to their implementations
	"system/dapp/coins/types", "system/dapp/manage/types", "system/dapp/none/types", "common/address"}

// mapRangeVerdict classifies one `range` over a map.
//   ok == true  : order-insensitive (collect+sort, commutative updates, pure lookup copy)
//   ok == false : the loop has an order-sensitive effect
func mapRangeVerdict(c *core.Ctx, fbody *ast.BlockStmt, rs *ast.RangeStmt) (bool, string) {
	info := c.Info
	declaredOutside := func(id *ast.Ident) bool {
		o := info.ObjectOf(id)
		return o != nil && (o.Pos() < rs.Pos() || o.Pos() > rs.End())
	}
	var appended []types.Object
	sensitive := ""
	ast.Inspect(rs.Body, func(y ast.Node) bool {
		switch s := y.(type) {
		case *ast.FuncLit:
			return false
		case *ast.ReturnStmt:
			if len(s.Results) > 0 {
				sensitive = "returns a value from inside the iteration (first match in map order)"
			}
		case *ast.BranchStmt:
			if s.Tok == token.BREAK {
				sensitive = "breaks out of the iteration (first match in map order)"
			}
		case *ast.SendStmt:
			sensitive = "sends on a channel in map order"
		case *ast.AssignStmt:
			for i, l := range s.Lhs {
				switch lv := ast.Unparen(l).(type) {
				case *ast.Ident:
					if !declaredOutside(lv) || lv.Name == "_" {
						continue
					}
					if i < len(s.Rhs) || len(s.Rhs) == 1 {
						rhs := s.Rhs[0]
						if i < len(s.Rhs) {
							rhs = s.Rhs[i]
						}
						if call, ok := ast.Unparen(rhs).(*ast.CallExpr); ok && core.IsBuiltinCall(info, call, "append") {
							appended = append(appended, info.ObjectOf(lv))
							continue
						}
					}
					switch s.Tok {
					case token.ADD_ASSIGN, token.OR_ASSIGN, token.AND_ASSIGN, token.XOR_ASSIGN, token.MUL_ASSIGN:
						if b, ok := info.TypeOf(lv).Underlying().(*types.Basic); ok && b.Info()&types.IsString == 0 {
							continue // commutative numeric accumulation
						}
						sensitive = fmt.Sprintf("concatenates into `%s` in map order", lv.Name)
					default:
						sensitive = fmt.Sprintf("assigns `%s` (declared outside the loop) inside the iteration: the last element in map order wins", lv.Name)
					}
				case *ast.IndexExpr:
					// map[k] = v is commutative when keyed by the iteration key; slice[i] = v with outer i is ordered
					if _, isMap := info.TypeOf(lv.X).Underlying().(*types.Map); !isMap {
						sensitive = "stores into a slice element in map order"
					}
				case *ast.SelectorExpr:
					if call, ok := ast.Unparen(s.Rhs[0]).(*ast.CallExpr); ok && core.IsBuiltinCall(info, call, "append") {
						sensitive = fmt.Sprintf("appends to field `%s` in map order", lv.Sel.Name)
					}
				}
			}
		case *ast.CallExpr:
			if fn := core.Callee(info, s); fn != nil {
				switch core.ShortName(fn) {
				case "common/db.Batch.Set", "common/db.Batch.Delete", "common/db.KV.Set", "common/db.KVDB.Set", "strings.(*Builder).WriteString", "bytes.(*Buffer).Write", "bytes.(*Buffer).WriteString":
					// writes to an ordered sink; a batch of distinct keys is order-insensitive for Set, but we do not prove distinctness
					if !strings.HasPrefix(core.ShortName(fn), "common/db.") {
						sensitive = "writes to an ordered sink in map order"
					}
				}
			}
		}
		return true
	})
	if sensitive != "" {
		return false, sensitive
	}
	// collected slices must be sorted after the loop, before the function uses them further
	for _, o := range appended {
		sorted := false
		ast.Inspect(fbody, func(y ast.Node) bool {
			call, ok := y.(*ast.CallExpr)
			if !ok || call.Pos() < rs.End() {
				return true
			}
			fn := core.Callee(info, call)
			if fn == nil || fn.Pkg() == nil || fn.Pkg().Path() != "sort" {
				return true
			}
			for _, a := range call.Args {
				if id, ok := ast.Unparen(a).(*ast.Ident); ok && info.ObjectOf(id) == o {
					sorted = true
				}
			}
			return true
		})
		if !sorted {
			return false, fmt.Sprintf("collects into `%s` in map order and never sorts it", o.Name())
		}
	}
	if len(appended) > 0 {
		return true, "collect then sort"
	}
	return true, "only commutative / keyed updates"
}

// onlyLoggedUse: every use of variable v in fbody is inside an argument of a
// logger call (directly or through types.Since/time.Since).
func onlyLoggedUse(c *core.Ctx, fbody *ast.BlockStmt, v types.Object) bool {
	ok := true
	var stack []ast.Node
	ast.Inspect(fbody, func(x ast.Node) bool {
		if x == nil {
			stack = stack[:len(stack)-1]
			return true
		}
		stack = append(stack, x)
		id, isId := x.(*ast.Ident)
		if !isId || c.Info.Uses[id] != v {
			return true
		}
		// a re-assignment `v = …` is not a use of the value; a plain copy `w := v`
		// is fine when w itself is only logged
		if len(stack) >= 2 {
			if as, isAs := stack[len(stack)-2].(*ast.AssignStmt); isAs {
				for _, l := range as.Lhs {
					if l == ast.Expr(id) {
						return true
					}
				}
				if len(as.Lhs) == 1 && len(as.Rhs) == 1 && as.Rhs[0] == ast.Expr(id) {
					if w, isW := as.Lhs[0].(*ast.Ident); isW {
						if wo := c.Info.ObjectOf(w); wo != nil && wo != v && onlyLoggedUse(c, fbody, wo) {
							return true
						}
					}
				}
			}
		}
		logged := false
		for i := len(stack) - 1; i >= 0; i-- {
			call, isCall := stack[i].(*ast.CallExpr)
			if !isCall {
				continue
			}
			if fn := core.Callee(c.Info, call); isObservabilitySink(fn) {
				logged = true
				break
			}
		}
		if !logged {
			ok = false
		}
		return true
	})
	return ok
}

func init() {
	register(&core.Property{
		ID:       "C13",
		Title:    "Block execution is deterministic",
		Packages: consensusPkgs,
		Explanation: "Decides R13a-R13c over every function of the packages that run during block execution and hashing (executor, util, account, types, merkle, table, built-in dapps): every `range` over a map is classified and must be order-insensitive (collect+sort, commutative or keyed updates); " +
			"every read of the clock, random source or CPU count must flow only into log output, or be one of the frozen, reasoned sites (worker-count decisions whose merge is index-based: decided by C18/C16); the plugin registry is only iterated through the sorted name list, and the callers use it.",
		NotCovered: "that goroutine schedules cannot influence results through shared state other than the index-carrying merges (decided only for the two fan-outs of C18/C16); floating point; third-party dapps.",
		Rules: []core.Rule{
			rule("R13a", "map iteration order never reaches a result", 4, func(r *Run) {
				n := 0
				closure, chains := consensusClosure(r)
				for range []int{0} {
					for _, f := range closure {
						_ = chains
						c := f.Ctx()
						occ := 0
						core.InspectBody(f, func(x ast.Node) bool {
							rs, ok := x.(*ast.RangeStmt)
							if !ok {
								return true
							}
							t := c.Info.TypeOf(rs.X)
							if t == nil {
								return true
							}
							if _, isMap := t.Underlying().(*types.Map); !isMap {
								return true
							}
							n++
							occ++
							r.Touch(f)
							label := fmt.Sprintf("%s map-range#%d over %s", f.Name, occ, core.CanonExpr(c, rs.X))
							if why, ok := mapRangeExceptions[f.Name]; ok {
								r.Exception(label, why)
								r.OK(label, r.W.Pos(rs.Pos()), "frozen exception: "+why)
								return true
							}
							okv, why := mapRangeVerdict(c, f.Body(), rs)
							if okv {
								r.OK(label, r.W.Pos(rs.Pos()), why)
							} else {
								r.Fail(label, r.W.Pos(rs.Pos()), why+": two nodes executing the same block may produce different bytes")
							}
							return true
						})
					}
				}
				if n < 4 {
					r.Fail("map ranges in the consensus packages", "-", fmt.Sprintf("expected ≥4, found %d", n))
				}
			}),
			rule("R13b", "clock / randomness / CPU count never reach a result", 10, func(r *Run) {
				srcs := core.Names("time.Now", "types.Now", "runtime.NumCPU", "runtime.GOMAXPROCS", "math/rand.Int", "math/rand.Intn", "math/rand.Int63", "math/rand.Int31n", "math/rand.Read",
					"math/rand.Float64", "os.Getenv", "time.Since", "types.Since")
				n := 0
				closure, _ := consensusClosure(r)
				for range []int{0} {
					for _, f := range closure {
						c := f.Ctx()
						occ := 0
						var stack []ast.Node
						core.InspectBody(f, func(x ast.Node) bool {
							if x == nil {
								stack = stack[:len(stack)-1]
								return true
							}
							stack = append(stack, x)
							call, ok := x.(*ast.CallExpr)
							if !ok || !srcs.Has(core.Callee(c.Info, call)) {
								return true
							}
							n++
							occ++
							r.Touch(f)
							src := core.ShortName(core.Callee(c.Info, call))
							label := fmt.Sprintf("%s %s#%d", f.Name, src, occ)
							if why, ok := clockExceptions[f.Name]; ok {
								r.Exception(label, why)
								r.OK(label, r.W.Pos(call.Pos()), "frozen exception: "+why)
								return true
							}
							// (1) directly inside a logger call
							for i := len(stack) - 2; i >= 0; i-- {
								if pc, isCall := stack[i].(*ast.CallExpr); isCall {
									if fn := core.Callee(c.Info, pc); isObservabilitySink(fn) {
										r.OK(label, r.W.Pos(call.Pos()), "value only formatted into a log line")
										return true
									}
								}
							}
							// (2) assigned to a variable that is only logged
							for i := len(stack) - 2; i >= 0; i-- {
								if as, isAs := stack[i].(*ast.AssignStmt); isAs {
									all := true
									for _, l := range as.Lhs {
										id, isId := l.(*ast.Ident)
										if !isId || !onlyLoggedUse(c, f.Body(), c.Info.ObjectOf(id)) {
											all = false
										}
									}
									if all {
										r.OK(label, r.W.Pos(call.Pos()), "stored in a variable whose every use is inside log output")
										return true
									}
								}
							}
							r.Fail(label, r.W.Pos(call.Pos()), fmt.Sprintf("`%s` reads a process-local quantity and its value is not confined to log output", core.ExprStr(call)))
							return true
						})
					}
				}
				if n < 10 {
					r.Fail("clock/random/cpu reads in the consensus packages", "-", fmt.Sprintf("expected ≥10 sites, found %d", n))
				}
			}),
			rule("R13c", "plugin registry iterated only in sorted order; duplicate keys collapse in first-seen order", 5, func(r *Run) {
				gp := r.W.LookupObj("executor.globalPlugins")
				if gp == nil {
					r.Unresolved("executor.globalPlugins")
					return
				}
				pkg := r.W.Pkg("executor")
				for _, f := range r.W.AllFuncs(pkg) {
					c := f.Ctx()
					core.InspectBody(f, func(x ast.Node) bool {
						rs, ok := x.(*ast.RangeStmt)
						if !ok {
							return true
						}
						if id, ok := ast.Unparen(rs.X).(*ast.Ident); ok && c.Info.Uses[id] == gp {
							label := "executor.globalPlugins ranged in " + f.Name
							if f.Name == "executor.sortedPluginNames" {
								r.OK(label, r.W.Pos(rs.Pos()), "the one place, followed by sort.Strings")
							} else {
								r.Fail(label, r.W.Pos(rs.Pos()), "the plugin registry (a map) is iterated directly: plugin KVs would be emitted in map order")
							}
						}
						return true
					})
				}
				for _, fn := range []string{"executor.(*Executor).procExecAddBlock", "executor.(*Executor).procExecDelBlock"} {
					f := r.Fn(fn)
					if f == nil {
						continue
					}
					c := f.Ctx()
					ok := false
					core.InspectBody(f, func(x ast.Node) bool {
						if rs, isR := x.(*ast.RangeStmt); isR && core.CallAtom([]string{"executor.sortedPluginNames"})(c, rs.X) {
							ok = true
						}
						return true
					})
					label := fn + " walks the plugins in sorted-name order"
					if ok {
						r.OK(label, r.W.Pos(f.Node().Pos()), "range sortedPluginNames()")
					} else {
						r.Fail(label, r.W.Pos(f.Node().Pos()), "does not iterate sortedPluginNames()")
					}
				}
				// sortedPluginNames: collect + sort
				if f := r.Fn("executor.sortedPluginNames"); f != nil {
					c := f.Ctx()
					var verdicts []string
					core.InspectBody(f, func(x ast.Node) bool {
						if rs, ok := x.(*ast.RangeStmt); ok {
							okv, why := mapRangeVerdict(c, f.Body(), rs)
							verdicts = append(verdicts, fmt.Sprint(okv, ":", why))
						}
						return true
					})
					label := "executor.sortedPluginNames collects the names and sorts them"
					if len(verdicts) == 1 && verdicts[0] == "true:collect then sort" {
						r.OK(label, r.W.Pos(f.Node().Pos()), "collect then sort.Strings")
					} else {
						r.Fail(label, r.W.Pos(f.Node().Pos()), fmt.Sprint(verdicts))
					}
				}
				// DelDupKey: single forward pass over the slice; the map is only used for lookup
				if f := r.Fn("util.DelDupKey"); f != nil {
					c := f.Ctx()
					ranges, mapRange := 0, false
					core.InspectBody(f, func(x ast.Node) bool {
						if rs, ok := x.(*ast.RangeStmt); ok {
							ranges++
							if _, isMap := c.Info.TypeOf(rs.X).Underlying().(*types.Map); isMap {
								mapRange = true
							}
							if !core.IsObj("param:0")(c, rs.X) {
								mapRange = true
							}
						}
						return true
					})
					label := "util.DelDupKey collapses duplicates in one forward pass over the input slice (first-seen position, last value)"
					if ranges == 1 && !mapRange {
						r.OK(label, r.W.Pos(f.Node().Pos()), "single range over the parameter; the index map is never iterated")
					} else {
						r.Fail(label, r.W.Pos(f.Node().Pos()), fmt.Sprintf("ranges=%d iteratesMapOrOther=%v", ranges, mapRange))
					}
				}
			}),
		},
	})
	_ = sort.Strings
}

// mapRangeExceptions: function → reason (frozen, confirmed by reading).
var mapRangeExceptions = map[string]string{
	"types.(*ExecTypeBase).ActionName": "reverse lookup in the name→type-id table of an executor, which is a bijection by construction (each action registers one id); a first match is the only match",
}

// clockExceptions: function → reason (frozen, confirmed by reading).
var clockExceptions = map[string]string{
	"types.verifyTxsSignature":    "CPU count only sizes the worker pool; the result is the conjunction of all worker results (decided by C16 R16d)",
	"common/merkle.GetMerkleRoot": "CPU count only chooses the chunking; results are merged by carried index (C18 R18a); equality with the sequential root is a value clause not decided here",
	"types.Now":                   "the clock wrapper itself; every caller inside the closure is an obligation of its own",
	"types.Since":                 "the elapsed-time wrapper itself; every caller inside the closure is an obligation of its own",
	"util.init":                   "seeds math/rand for test-data helpers (GenNoneTxs…), not used on the execution path",
	"util.CreateNoneBlock":        "test-data helper (block time of a locally produced test block)",
	"util.CreateCoinsBlock":       "test-data helper",
}

// statSinks: result-less collectors of latency statistics (frozen, confirmed by reading): what they
// receive is only ever printed by the periodic benchmark report.
var statSinks = map[string]string{
	"common/db.(*SsdbBench).read":  "latency statistics of the remote key-value backends, printed every five minutes",
	"common/db.(*SsdbBench).write": "latency statistics of the remote key-value backends, printed every five minutes",
}

// isObservabilitySink: a call whose arguments only ever end up in log output or statistics.
func isObservabilitySink(fn *types.Func) bool {
	if fn == nil {
		return false
	}
	if fn.Pkg() != nil && strings.Contains(fn.Pkg().Path(), "log") {
		return true
	}
	if _, ok := statSinks[core.ShortName(fn)]; ok {
		return true
	}
	// an I/O deadline: the clock only decides whether the remote call times out, which is an environment
	// failure (it aborts the operation), never a value of the computation
	if fn.Pkg() != nil && fn.Pkg().Path() == "net" {
		switch fn.Name() {
		case "SetDeadline", "SetReadDeadline", "SetWriteDeadline":
			return true
		}
	}
	return false
}
