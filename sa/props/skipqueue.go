package props

import (
	"fmt"
	"go/ast"
	"go/token"
	"go/types"
	"sort"
	"strings"

	"verif/sa/core"
)

const (
	skp = "common/skiplist."
	skq = "common/skiplist.(*Queue)."
	skl = "common/skiplist.(*SkipList)."
	lst = "container/list.(*List)."
	lel = "container/list.(*Element)."
)

// calleeSet lists the short names of every function called (not deferred) in
// fn, literals included.
func calleeSet(f *core.FuncInfo) map[string]bool {
	out := map[string]bool{}
	core.InspectBody(f, func(x ast.Node) bool {
		if call, ok := x.(*ast.CallExpr); ok {
			if fn := core.Callee(f.Info(), call); fn != nil {
				out[core.ShortName(fn)] = true
			}
		}
		return true
	})
	return out
}

// storedFields lists the struct fields (as Type.field) that fn assigns to:
// x.f = …, x.f[i] = …, x.f++, x.f op= … (the selector may be nested in index
// expressions on the left-hand side).
func storedFields(f *core.FuncInfo) map[string]token.Pos {
	out := map[string]token.Pos{}
	storedFieldsInto(f, out, 0, map[*core.FuncInfo]bool{})
	return out
}

// storedFieldsDeep also counts the stores of unexported helpers that have this function as their only
// user (a block extracted from it), two levels deep.
func storedFieldsDeep(f *core.FuncInfo) map[string]token.Pos {
	out := map[string]token.Pos{}
	storedFieldsInto(f, out, 2, map[*core.FuncInfo]bool{})
	return out
}

// storedFieldsInto also follows calls to declared functions of the same package (an extracted block keeps
// counting as the caller's work), to the given depth.
func storedFieldsInto(f *core.FuncInfo, out map[string]token.Pos, depth int, seen map[*core.FuncInfo]bool) {
	if f == nil || seen[f] {
		return
	}
	seen[f] = true
	info := f.Info()
	if depth > 0 {
		core.InspectBody(f, func(x ast.Node) bool {
			if call, ok := x.(*ast.CallExpr); ok {
				if fn := core.Callee(info, call); fn != nil && fn.Pkg() != nil && fn.Pkg() == f.Pkg.Types && !fn.Exported() {
					if refs := f.W.RefsTo(map[types.Object]bool{fn.Origin(): true}); len(refs) == 1 {
						storedFieldsInto(f.W.FuncOf(fn), out, depth-1, seen)
					}
				}
			}
			return true
		})
	}
	note := func(lhs ast.Expr) {
		e := ast.Unparen(lhs)
		for {
			if ix, ok := e.(*ast.IndexExpr); ok {
				e = ast.Unparen(ix.X)
				continue
			}
			break
		}
		sel, ok := e.(*ast.SelectorExpr)
		if !ok {
			return
		}
		v, ok := info.ObjectOf(sel.Sel).(*types.Var)
		if !ok || !v.IsField() {
			return
		}
		if _, seen := out[v.Name()]; !seen {
			out[v.Name()] = lhs.Pos()
		}
	}
	core.InspectBody(f, func(x ast.Node) bool {
		switch s := x.(type) {
		case *ast.AssignStmt:
			for _, l := range s.Lhs {
				note(l)
			}
		case *ast.IncDecStmt:
			note(s.X)
		}
		return true
	})
}

// deltaStores returns, for every statement of fn that adds to / subtracts from
// field (x.f += e, x.f -= e, x.f = x.f + e, x.f = x.f - e), the sign and e.
func deltaStores(f *core.FuncInfo, field string) (out []struct {
	Sign int
	Rhs  ast.Expr
	Pos  token.Pos
}) {
	info := f.Info()
	isField := func(e ast.Expr) bool {
		sel, ok := ast.Unparen(e).(*ast.SelectorExpr)
		if !ok {
			return false
		}
		v, ok := info.ObjectOf(sel.Sel).(*types.Var)
		return ok && v.IsField() && v.Name() == field
	}
	add := func(sign int, rhs ast.Expr, pos token.Pos) {
		out = append(out, struct {
			Sign int
			Rhs  ast.Expr
			Pos  token.Pos
		}{sign, rhs, pos})
	}
	core.InspectBody(f, func(x ast.Node) bool {
		as, ok := x.(*ast.AssignStmt)
		if !ok || len(as.Lhs) != 1 || len(as.Rhs) != 1 || !isField(as.Lhs[0]) {
			return true
		}
		switch as.Tok {
		case token.ADD_ASSIGN:
			add(+1, as.Rhs[0], as.Pos())
		case token.SUB_ASSIGN:
			add(-1, as.Rhs[0], as.Pos())
		case token.ASSIGN:
			if b, ok := ast.Unparen(as.Rhs[0]).(*ast.BinaryExpr); ok {
				switch {
				case b.Op == token.ADD && isField(b.X):
					add(+1, b.Y, as.Pos())
				case b.Op == token.ADD && isField(b.Y):
					add(+1, b.X, as.Pos())
				case b.Op == token.SUB && isField(b.X):
					add(-1, b.Y, as.Pos())
				default:
					add(0, as.Rhs[0], as.Pos())
				}
			} else {
				add(0, as.Rhs[0], as.Pos())
			}
		}
		return true
	})
	return out
}

func init() {
	rankCmp := core.FromCall(0, skp+"(*SkipValue).Compare")
	itemCmp := core.FromCall(0, skp+"Scorer.Compare")
	isFull := core.AssumeRel(core.CallsAny(skq+"Size", "builtin:len"), token.GEQ, core.Mentions(skp+"Queue.maxsize"), core.True)
	insertSink := core.CallSink(skq + "Insert")

	register(&core.Property{
		ID:       "C24",
		Title:    "Score-ordered queue keeps order and capacity",
		Packages: []string{"common/skiplist"},
		Explanation: "Structural clauses R24a-R24f of the capacity/eviction/membership part: Push admits nothing that is already queued; with the queue at capacity (size >= maxsize) the insertion is reached only when the newcomer ranks strictly above the current last item " +
			"(higher score, or equal score and Compare says bigger) AND the eviction of exactly that last item succeeded, otherwise ErrMemFull; Insert and Remove keep the hash map, the score buckets and the byte counter in step (same fields, opposite byte delta of the same item, " +
			"the map entry is the list element the bucket returned); a score bucket is linked into the skip list only when no bucket of that score exists and is unlinked when it becomes empty; the FIFO direction of a bucket agrees between insertion, Walk, First and Last; " +
			"membership, lookup and size all read the one hash map; the skip list's Insert and Delete maintain the same link/count fields and SkipValue.Compare orders by descending score.",
		NotCovered: "the skip list's pointer surgery for random levels, the search loops' comparison boundaries and therefore the ordering itself (V: needs generated insert/delete sequences).",
		Rules: []core.Rule{
			rule("R24a", "admission: duplicate, capacity, strictly better, eviction succeeded", 9, func(r *Run) {
				fn := skq + "Push"
				core.RejectWhen{Fn: fn, Name: "hash already queued", BoolAtom: core.CallAtom([]string{skq + "Exist"}), RejectVal: true, Sentinel: "types.ErrTxExist"}.Check(r)
				core.FailStops{Fn: fn, Callee: []string{skq + "Exist"}, Fail: core.OTrue, Idx: -1, Forbidden: insertSink, Min: 1, Name: "Exist(hash)=true"}.Check(r)
				core.HasAtom{Fn: fn, Name: "size >= maxsize is the capacity test", L: core.CallsAny(skq+"Size", "builtin:len"), R: core.Mentions(skp + "Queue.maxsize"), Rel: token.GEQ}.Check(r)
				// at capacity: the newcomer must rank strictly higher than the tail.  Both comparisons are three-valued
				// (Big=-1, Equal=0, Small=1); every outcome other than "score bigger" or "score equal and tie-break
				// bigger" is enumerated and must leave both the eviction and the insertion unreachable.
				for _, sc := range []struct {
					rank, item int64
					what       string
				}{
					{0, 0, "equal score, tie-break says equal"}, {0, 1, "equal score, tie-break says smaller"},
					{1, -1, "lower score, tie-break says bigger"}, {1, 0, "lower score, tie-break says equal"}, {1, 1, "lower score, tie-break says smaller"},
				} {
					as := core.AssumeAll(isFull, core.AssumeValue(rankCmp, sc.rank), core.AssumeValue(itemCmp, sc.item))
					core.UnreachableUnder{Fn: fn, Spec: &core.FlowSpec{Assume: as}, Sink: insertSink, Name: "queue full, " + sc.what, Min: 1}.Check(r)
					core.UnreachableUnder{Fn: fn, Spec: &core.FlowSpec{Assume: as}, Sink: core.CallSink(skq + "Remove"), Name: "queue full, " + sc.what + " (nothing is evicted)", Min: 1}.Check(r)
				}
				// … and the eviction must have succeeded
				core.Dominated{Fn: fn, Spec: &core.FlowSpec{Assume: isFull, Calls: []core.CallGuard{errNil("tail-evicted", skq+"Remove")}}, Sink: insertSink, Need: []Fact{"tail-evicted"}, Min: 1}.Check(r)
				core.CallArgs{Fn: fn, Callee: []string{skq + "Remove"}, What: "evicts the item Last() returned", Args: map[int]core.ExprPred{0: core.DerivedFromCall(skq + "Last")}, Min: 1}.Check(r)
				core.CallArgs{Fn: fn, Callee: []string{skp + "Scorer.Compare"}, What: "tie-break compares the newcomer with the item Last() returned", Args: map[int]core.ExprPred{0: core.DerivedFromCall(skq + "Last")}, Min: 1}.Check(r)
				core.LiveReturn{Fn: fn, Sentinels: []string{"types.ErrMemFull", "types.ErrTxExist"}}.Check(r)
				core.WhoMayCall{Targets: []string{skq + "Insert"}, Allowed: []string{skq + "Push"}, Min: 1}.Check(r)
			}),
			rule("R24b", "Insert and Remove keep map, buckets and byte counter in step", 8, func(r *Run) {
				ins, rem := r.Fn(skq+"Insert"), r.Fn(skq+"Remove")
				if ins == nil || rem == nil {
					return
				}
				si, sr := storedFields(ins), storedFields(rem)
				// delete(cache.txMap, hash) is a mutation of txMap as well
				core.InspectBody(rem, func(x ast.Node) bool {
					if call, ok := x.(*ast.CallExpr); ok && core.IsBuiltinCall(rem.Info(), call, "delete") && len(call.Args) == 2 {
						if sel, ok := ast.Unparen(call.Args[0]).(*ast.SelectorExpr); ok {
							sr[sel.Sel.Name] = call.Pos()
						}
					}
					return true
				})
				keys := func(m map[string]token.Pos) string {
					var ks []string
					for k := range m {
						ks = append(ks, k)
					}
					sort.Strings(ks)
					return strings.Join(ks, ",")
				}
				label := "common/skiplist.Queue Insert and Remove update the same fields"
				if keys(si) == keys(sr) && si["txMap"] != token.NoPos && si["cacheBytes"] != token.NoPos {
					r.OK(label, r.W.Pos(ins.Node().Pos()), keys(si))
				} else {
					r.Fail(label, r.W.Pos(rem.Node().Pos()), fmt.Sprintf("Insert stores to {%s}, Remove to {%s} (required: both maintain txMap and cacheBytes)", keys(si), keys(sr)))
				}
				// byte counter: +ByteSize of the inserted item, -ByteSize of the removed element
				for _, x := range []struct {
					f    *core.FuncInfo
					sign int
					src  core.ExprPred
					what string
				}{
					{ins, +1, core.Mentions("param:1"), "the inserted item"},
					{rem, -1, core.DerivedFrom(skp + "Queue.txMap"), "the element found under the hash"},
				} {
					c := x.f.Ctx()
					ds := deltaStores(x.f, "cacheBytes")
					label := fmt.Sprintf("%s changes cacheBytes by %+d × ByteSize() of %s, once", x.f.Name, x.sign, x.what)
					if len(ds) == 1 && ds[0].Sign == x.sign && core.CallsAny(skp+"Scorer.ByteSize")(c, ds[0].Rhs) && x.src(c, ds[0].Rhs) {
						r.OK(label, r.W.Pos(ds[0].Pos), core.ExprStr(ds[0].Rhs))
					} else {
						var got []string
						for _, d := range ds {
							got = append(got, fmt.Sprintf("%+d×%s", d.Sign, core.ExprStr(d.Rhs)))
						}
						r.Fail(label, r.W.Pos(x.f.Node().Pos()), "cacheBytes updates found: ["+strings.Join(got, "; ")+"]")
					}
				}
				// the map entry is the list element of the bucket, under the caller's hash
				c := ins.Ctx()
				ok, pos := false, ins.Node().Pos()
				core.InspectBody(ins, func(x ast.Node) bool {
					as, isA := x.(*ast.AssignStmt)
					if !isA || len(as.Lhs) != 1 || len(as.Rhs) != 1 {
						return true
					}
					ix, isIx := ast.Unparen(as.Lhs[0]).(*ast.IndexExpr)
					if isIx && core.Mentions(skp + "Queue.txMap")(c, ix.X) {
						pos = as.Pos()
						ok = core.IsObj("param:0")(c, ix.Index) && core.FromCall(0, skq+"insertSkipValue")(c, as.Rhs[0])
					}
					return true
				})
				label = "common/skiplist.(*Queue).Insert maps the caller's hash to the element insertSkipValue returned"
				if ok {
					r.OK(label, r.W.Pos(pos), "txMap[hash] = insertSkipValue(item)")
				} else {
					r.Fail(label, r.W.Pos(pos), "the txMap store is missing, keyed by something else than the hash parameter, or stores another element")
				}
				core.CallArgs{Fn: skq + "Insert", Callee: []string{skq + "insertSkipValue"}, What: "the inserted item", Args: map[int]core.ExprPred{0: core.IsObj("param:1")}, Min: 1}.Check(r)
				// Remove: found → map entry deleted under the same hash, bucket entry removed with the found element
				core.RejectWhen{Fn: skq + "Remove", Name: "hash not queued", BoolAtom: core.CommaOK(core.Mentions(skp + "Queue.txMap")), RejectVal: false, Sentinel: "types.ErrNotFound"}.Check(r)
				core.CallArgs{Fn: skq + "Remove", Callee: []string{skq + "deleteSkipValue"}, What: "the element found under the hash", Args: map[int]core.ExprPred{0: core.DerivedFrom(skp + "Queue.txMap")}, Min: 1}.Check(r)
				core.Dominated{Fn: skq + "Remove", Spec: spec(called("unlinked", skq+"deleteSkipValue")), Sink: core.SuccessReturn(-1), Need: []Fact{"unlinked"}, Min: 1}.Check(r)
				core.NoDroppedError{Pkgs: []string{"common/skiplist"}, Callees: []string{skq + "deleteSkipValue", skq + "Remove"}, Min: 2}.Check(r)
			}),
			rule("R24c", "one bucket per score: linked when first needed, unlinked when empty", 8, func(r *Run) {
				fi := skq + "insertSkipValue"
				noBucket := core.RelGuard("no-bucket-of-this-score", core.FromCall(0, skl+"Find"), token.EQL, isNilLit)
				core.Dominated{Fn: fi, Spec: &core.FlowSpec{Conds: []core.CondGuard{noBucket}}, Sink: core.CallSink(skl + "Insert"), Need: []Fact{"no-bucket-of-this-score"}, Min: 1}.Check(r)
				core.Dominated{Fn: fi, Spec: &core.FlowSpec{Assume: core.AssumeRel(core.FromCall(0, skl+"Find"), token.EQL, isNilLit, core.True), Calls: []core.CallGuard{called("bucket-linked", skl+"Insert")}},
					Sink: core.AnyReturn(), Need: []Fact{"bucket-linked"}, Min: 1}.Check(r)
				core.CallArgs{Fn: fi, Callee: []string{skl + "Find", skl + "Insert"}, What: "keyed by the item's score value", Args: map[int]core.ExprPred{0: core.FromCall(0, skq+"CreateSkipValue")}, Min: 2}.Check(r)
				core.CallArgs{Fn: fi, Callee: []string{skq + "CreateSkipValue"}, What: "the inserted item", Args: map[int]core.ExprPred{0: core.IsObj("param:0")}, Min: 1}.Check(r)
				fd := skq + "deleteSkipValue"
				itemNonNil := map[types.Object]core.Tri{}
				if f := r.W.Func(fd); f != nil {
					itemNonNil[f.Param(0)] = core.True
				}
				empty := core.RelGuard("bucket-empty", core.CallsAny(lst+"Len"), token.EQL, core.IsConstInt(0))
				core.Dominated{Fn: fd, Spec: &core.FlowSpec{Conds: []core.CondGuard{empty}}, Sink: core.CallSink(skl + "Delete"), Need: []Fact{"bucket-empty"}, Min: 1}.Check(r)
				core.Dominated{Fn: fd, Spec: &core.FlowSpec{AssumeObj: itemNonNil, Assume: core.AssumeRel(core.CallsAny(lst+"Len"), token.EQL, core.IsConstInt(0), core.True),
					Calls: []core.CallGuard{called("bucket-unlinked", skl+"Delete"), called("element-removed", lst+"Remove")}}, Sink: core.SuccessReturn(-1), Need: []Fact{"bucket-unlinked", "element-removed"}, Min: 1}.Check(r)
				core.NotAfter{Fn: fd, Early: []string{lst + "Remove"}, Late: []string{lst + "Len"}, Name: "the element leaves the bucket before the bucket is tested for emptiness", Min: 1}.Check(r)
				core.CallArgs{Fn: fd, Callee: []string{lst + "Remove"}, What: "the element handed in", Args: map[int]core.ExprPred{0: core.IsObj("param:0")}, Min: 1}.Check(r)
				core.CallArgs{Fn: fd, Callee: []string{skl + "Delete"}, What: "the bucket node Find returned", Args: map[int]core.ExprPred{0: core.FromCall(0, skl+"Find")}, Min: 1}.Check(r)
				core.RejectWhen{Fn: fd, Spec: &core.FlowSpec{AssumeObj: itemNonNil}, Name: "no bucket of the element's score", L: core.FromCall(0, skl+"Find"), R: isNilLit, Rel: token.EQL, Sentinel: "types.ErrNotFound"}.Check(r)
				// the score key is the item's GetScore()
				if f := r.Fn(skq + "CreateSkipValue"); f != nil {
					c := f.Ctx()
					ok := false
					core.InspectBody(f, func(x ast.Node) bool {
						if kv, isKV := x.(*ast.KeyValueExpr); isKV {
							if id, isId := kv.Key.(*ast.Ident); isId && id.Name == "Score" && core.CallsAny(skp+"Scorer.GetScore")(c, kv.Value) && core.Mentions("param:0")(c, kv.Value) {
								ok = true
							}
						}
						if as, isA := x.(*ast.AssignStmt); isA && len(as.Lhs) == 1 && len(as.Rhs) == 1 {
							if sel, isSel := ast.Unparen(as.Lhs[0]).(*ast.SelectorExpr); isSel && sel.Sel.Name == "Score" && core.CallsAny(skp+"Scorer.GetScore")(c, as.Rhs[0]) && core.Mentions("param:0")(c, as.Rhs[0]) {
								ok = true
							}
						}
						return true
					})
					label := "common/skiplist.(*Queue).CreateSkipValue keys the bucket by the item's GetScore()"
					if ok {
						r.OK(label, r.W.Pos(f.Node().Pos()), "Score: item.GetScore()")
					} else {
						r.Fail(label, r.W.Pos(f.Node().Pos()), "the Score of the returned value is not the item's GetScore()")
					}
				}
			}),
			rule("R24d", "ties in arrival order: bucket direction agrees between insertion, Walk, First and Last", 4, func(r *Run) {
				fi, fw, ff, fl := r.Fn(skq+"insertSkipValue"), r.Fn(skq+"Walk"), r.Fn(skq+"First"), r.Fn(skq+"Last")
				if fi == nil || fw == nil || ff == nil || fl == nil {
					return
				}
				ci, cw, cf, cl := calleeSet(fi), calleeSet(fw), calleeSet(ff), calleeSet(fl)
				dir := ""
				switch {
				case ci[lst+"PushBack"] && !ci[lst+"PushFront"]:
					dir = "back"
				case ci[lst+"PushFront"] && !ci[lst+"PushBack"]:
					dir = "front"
				}
				label := "common/skiplist.(*Queue).insertSkipValue appends to one fixed end of the bucket"
				if dir == "" {
					r.Fail(label, r.W.Pos(fi.Node().Pos()), "neither (or both) of PushBack/PushFront is used: arrival order inside a bucket is not defined")
					return
				}
				r.OK(label, r.W.Pos(fi.Node().Pos()), "new items go to the "+dir)
				head, next, tail, prev := lst+"Front", lel+"Next", lst+"Back", lel+"Prev"
				if dir == "front" {
					head, next, tail, prev = tail, prev, head, next
				}
				chk := func(f *core.FuncInfo, cs map[string]bool, want []string, forbid []string, what string) {
					label := fmt.Sprintf("%s %s", f.Name, what)
					for _, w := range want {
						if !cs[w] {
							r.Fail(label, r.W.Pos(f.Node().Pos()), fmt.Sprintf("expected a call to %s (new items are appended at the %s of a bucket)", w, dir))
							return
						}
					}
					for _, w := range forbid {
						if cs[w] {
							r.Fail(label, r.W.Pos(f.Node().Pos()), fmt.Sprintf("calls %s: it walks the bucket against arrival order (new items are appended at the %s)", w, dir))
							return
						}
					}
					r.OK(label, r.W.Pos(f.Node().Pos()), strings.Join(want, ", "))
				}
				chk(fw, cw, []string{head, next, skl + "Walk"}, []string{tail, prev}, "walks each bucket oldest-first and the buckets in skip-list order")
				chk(ff, cf, []string{head, skp + "(*Iterator).First"}, []string{tail, skp + "(*Iterator).Last"}, "returns the oldest item of the first bucket")
				chk(fl, cl, []string{tail, skp + "(*Iterator).Last"}, []string{head, skp + "(*Iterator).First"}, "returns the newest item of the last bucket")
			}),
			rule("R24e", "membership, lookup and size read the one hash map", 4, func(r *Run) {
				for _, fn := range []string{"Exist", "GetItem", "Size"} {
					f := r.Fn(skq + fn)
					if f == nil {
						continue
					}
					c := f.Ctx()
					label := fmt.Sprintf("%s answers from Queue.txMap", f.Name)
					okAll, n := true, 0
					for _, ret := range f.Graph().Returns() {
						rs, ok := ret.Ast.(*ast.ReturnStmt)
						if !ok || len(rs.Results) == 0 {
							continue
						}
						n++
						res := rs.Results[0]
						if tv, isC := c.Info.Types[res]; isC && (tv.Value != nil || tv.IsNil()) {
							continue // constant result of the not-found branch
						}
						if !core.DerivedFrom(skp + "Queue.txMap")(c, res) {
							okAll = false
						}
					}
					if okAll && n > 0 {
						r.OK(label, r.W.Pos(f.Node().Pos()), fmt.Sprintf("%d return(s)", n))
					} else {
						r.Fail(label, r.W.Pos(f.Node().Pos()), "a returned value is not derived from the txMap field")
					}
				}
				core.CallArgs{Fn: skq + "Push", Callee: []string{skq + "Exist", skq + "Insert"}, What: "keyed by the item's Hash()", Args: map[int]core.ExprPred{0: core.DerivedFromCall(skp + "Scorer.Hash")}, Min: 2}.Check(r)
			}),
			rule("R24f", "skip list: Insert/Delete maintain the same links; descending score order", 4, func(r *Run) {
				ins, del := r.Fn(skl+"Insert"), r.Fn(skl+"Delete")
				if ins != nil && del != nil {
					si, sd := storedFieldsDeep(ins), storedFieldsDeep(del)
					var missing []string
					for k := range si {
						if _, ok := sd[k]; !ok {
							missing = append(missing, k)
						}
					}
					sort.Strings(missing)
					label := "common/skiplist.(*SkipList).Delete maintains every field Insert maintains"
					if len(missing) == 0 && len(si) >= 5 {
						var ks []string
						for k := range si {
							ks = append(ks, k)
						}
						sort.Strings(ks)
						r.OK(label, r.W.Pos(del.Node().Pos()), strings.Join(ks, ","))
					} else {
						r.Fail(label, r.W.Pos(del.Node().Pos()), fmt.Sprintf("Insert writes %d fields; Delete never writes: %v", len(si), missing))
					}
				}
				// Compare: -1 (Big) only when the receiver's score is greater, 0 only when equal
				cmpFn := skp + "(*SkipValue).Compare"
				score := func(who string) core.ExprPred { return core.And(core.Mentions(who), core.Mentions(skp+"SkipValue.Score")) }
				retConst := func(v int64) core.SinkPred {
					return core.SinkPred{Label: fmt.Sprintf("return %d", v), Match: func(fl *core.Flow, n *core.GNode) bool {
						rs, ok := n.Ast.(*ast.ReturnStmt)
						return ok && len(rs.Results) == 1 && core.IsConstInt(v)(fl.C, rs.Results[0])
					}}
				}
				core.Dominated{Fn: cmpFn, Spec: &core.FlowSpec{Conds: []core.CondGuard{core.RelGuard("receiver-score-greater", score("recv"), token.GTR, score("param:0"))}}, Sink: retConst(-1), Need: []Fact{"receiver-score-greater"}, Min: 1}.Check(r)
				core.Dominated{Fn: cmpFn, Spec: &core.FlowSpec{Conds: []core.CondGuard{core.RelGuard("scores-equal", score("recv"), token.EQL, score("param:0"))}}, Sink: retConst(0), Need: []Fact{"scores-equal"}, Min: 1}.Check(r)
				core.UnreachableUnder{Fn: cmpFn, Spec: &core.FlowSpec{Assume: core.AssumeRel(score("recv"), token.LSS, score("param:0"), core.True)}, Sink: core.OrSink(retConst(-1), retConst(0)), Name: "the receiver's score is lower", Min: 2}.Check(r)
			}),
		},
	})
}
