package props

import (
	"fmt"
	"go/ast"
	"go/types"

	"verif/sa/core"
)

func init() {
	extend("C36", "R36e (added after seeded changes were missed): the wake-up channels that R36a/R36d rely on are real: every chanSub value carries a done channel (a nil channel would block its select arm for ever), "+
		"and client.Close closes client.done before it waits for the client's own goroutines (they and the handlers they feed are only released by that close).",
		rule("R36e", "close signals exist and are raised before Close waits", 4, func(r *Run) {
			pkg := r.W.Pkg("queue")
			if pkg == nil {
				r.Unresolved("queue")
				return
			}
			subT := r.W.LookupObj("queue.chanSub")
			if subT == nil {
				r.Unresolved("queue.chanSub")
				return
			}
			// (1) every chanSub literal sets `done`
			n := 0
			for _, decl := range r.W.AllFuncs(pkg) {
				occ := 0
				c := decl.Ctx()
				core.InspectBody(decl, func(x ast.Node) bool {
					lit, ok := x.(*ast.CompositeLit)
					if !ok {
						return true
					}
					t := c.Info.TypeOf(lit)
					if t == nil {
						return true
					}
					if p, isPtr := t.(*types.Pointer); isPtr {
						t = p.Elem()
					}
					if nt, isNamed := t.(*types.Named); !isNamed || nt.Obj() != subT {
						return true
					}
					n++
					occ++
					r.Touch(decl)
					label := fmt.Sprintf("%s: chanSub literal #%d carries a done channel", decl.Name, occ)
					var done ast.Expr
					for _, el := range lit.Elts {
						if kv, isKV := el.(*ast.KeyValueExpr); isKV {
							if k, isID := kv.Key.(*ast.Ident); isID && k.Name == "done" {
								done = kv.Value
							}
						}
					}
					switch {
					case done == nil:
						r.Fail(label, r.W.Pos(lit.Pos()), fmt.Sprintf("`%s` leaves done nil: `case <-sub.done` on it never fires, so a Wait or Send that looks the topic up after the close blocks for ever", core.ExprStr(lit)))
					case core.IsObj("queue.chanSub.done")(c, done):
						r.OK(label, r.W.Pos(lit.Pos()), "re-uses the done channel of the topic it replaces")
					default:
						if call, isCall := ast.Unparen(done).(*ast.CallExpr); isCall && core.IsBuiltinCall(c.Info, call, "make") {
							r.OK(label, r.W.Pos(lit.Pos()), "fresh done channel")
						} else {
							r.Fail(label, r.W.Pos(lit.Pos()), fmt.Sprintf("done is `%s`: neither a fresh channel nor the replaced topic's channel", core.ExprStr(done)))
						}
					}
					return true
				})
			}
			if n < 3 {
				r.Fail("chanSub literals in package queue", "-", fmt.Sprintf("expected ≥3, found %d", n))
			}
			// (2) client.Close: close(client.done) is not downstream of wg.Wait()
			f := r.Fn("queue.(*client).Close")
			if f == nil {
				return
			}
			c := f.Ctx()
			g := f.Graph()
			var closes, waits []*core.GNode
			for _, nd := range g.Nodes {
				if nd.Ast == nil || nd.Defer || nd.Go {
					continue
				}
				for _, call := range core.CallsIn(nd.Ast) {
					if core.IsBuiltinCall(c.Info, call, "close") && len(call.Args) == 1 && core.IsObj("queue.client.done")(c, call.Args[0]) {
						closes = append(closes, nd)
					}
					if fn := core.Callee(c.Info, call); fn != nil && core.ShortName(fn) == "sync.(*WaitGroup).Wait" {
						waits = append(waits, nd)
					}
				}
			}
			label := "queue.(*client).Close raises client.done before waiting for the client's goroutines"
			if len(closes) == 0 || len(waits) == 0 {
				r.Fail(label, r.W.Pos(f.Node().Pos()), fmt.Sprintf("found %d close(client.done) and %d wg.Wait() sites", len(closes), len(waits)))
				return
			}
			reach := g.Reachable(waits, nil, nil)
			for _, cl := range closes {
				if reach[cl] {
					r.Fail(label, r.W.Pos(cl.Ast.Pos()), "close(client.done) can only run after client.wg.Wait() returned, but the goroutines it waits for (and the handlers blocked in Wait/Send on this client) are released only by that close: Close deadlocks")
					return
				}
			}
			r.OK(label, r.W.Pos(closes[0].Ast.Pos()), fmt.Sprintf("%d close site(s), none reachable from the %d wait site(s)", len(closes), len(waits)))
		}),
	)
}
