package props

import (
	"fmt"
	"go/ast"
	"go/token"
	"go/types"
	"strings"

	"verif/sa/core"
)

func notFalseReturn() core.SinkPred {
	return core.SinkPred{Label: "return other than false", Match: func(fl *core.Flow, n *core.GNode) bool {
		return n.Kind == core.KReturn && core.ClassifyReturn(fl, n, -1) != core.False
	}}
}

func init() {
	txm := "types.(*Transaction)."
	// ------------------------------------------------------------------ C31
	register(&core.Property{
		ID:       "C31",
		Title:    "Blacklisted accounts cannot transact",
		Packages: []string{"types", "executor", "system/consensus", "system/mempool", "system/dapp"},
		Explanation: "Decides R31a-R31e: the core check rejects when the sender, recipient, real recipient, EVM contract address or raw EVM transfer target is blacklisted (each position: a hit can never reach the success return, and the error wraps ErrBlockedAccount); " +
			"each of the six enforcement sites (executor checkTx/checkTxGroup, block assembly for single and group, mempool checkTx, delayed-tx entry points) cannot reach its accepting sink when the check fails; group checks quantify over all members; " +
			"the proxied (inner) transaction is what the executor screens; the consensus-side check is fork-gated while the pool-side check is not.",
		NotCovered: "that every accepted spelling of an address normalises to the same 20 bytes (V: string parsing in parseBlockedAccount).",
		Rules: []core.Rule{
			rule("R31a", "four positions + EVM targets in the core check", 9, func(r *Run) {
				fn := "types.checkTxBlockedAccountCore"
				argFrom := func(calls ...string) func(c *core.Ctx, call *ast.CallExpr) bool {
					p := core.DerivedFromCall(calls...)
					return func(c *core.Ctx, call *ast.CallExpr) bool { return len(call.Args) == 1 && p(c, call.Args[0]) }
				}
				asm := &core.FlowSpec{Assume: func(c *core.Ctx, e ast.Expr) core.Tri {
					// the real-recipient test only applies when it differs from To (otherwise To was already tested)
					if t := core.AssumeRel(core.FromCall(0, txm+"GetRealToAddr"), token.NEQ, core.CallsAny(txm+"GetTo"), core.True)(c, e); t != core.Unknown {
						return t
					}
					if t := core.AssumeRel(core.FromCall(0, "types.(*EVMContractAction4Chain33).GetContractAddr"), token.NEQ, func(c *core.Ctx, e ast.Expr) bool {
						bl, ok := ast.Unparen(e).(*ast.BasicLit)
						return ok && bl.Value == `""`
					}, core.True)(c, e); t != core.Unknown {
						return t
					}
					return core.Unknown
				}}
				for _, pos := range []struct{ name, getter string }{{"sender", txm + "From"}, {"recipient", txm + "GetTo"}, {"real recipient", txm + "GetRealToAddr"}} {
					core.FailStops{Fn: fn, Spec: asm, Callee: []string{"types.IsBlockedAccount"}, ArgOK: argFrom(pos.getter), Fail: core.OTrue, Idx: -1,
						Forbidden: core.SuccessReturn(-1), Min: 1, Name: "blacklisted " + pos.name}.Check(r)
				}
				core.FailStops{Fn: fn, Spec: asm, Callee: []string{"types.checkEVMTxBlockedTarget"}, Fail: core.OErrNonNil, Idx: -1, Forbidden: core.SuccessReturn(-1), Min: 1, Name: "blacklisted EVM target"}.Check(r)
				core.CallArgs{Fn: fn, Callee: []string{"types.checkEVMTxBlockedTarget"}, What: "the same transaction", Args: map[int]core.ExprPred{0: core.IsObj("param:0")}, Min: 1}.Check(r)
				evm := "types.checkEVMTxBlockedTarget"
				core.FailStops{Fn: evm, Spec: asm, Callee: []string{"types.IsBlockedAccount"}, ArgOK: argFrom("types.(*EVMContractAction4Chain33).GetContractAddr"), Fail: core.OTrue, Idx: -1,
					Forbidden: core.SuccessReturn(-1), Min: 1, Name: "blacklisted EVM contract address"}.Check(r)
				core.FailStops{Fn: evm, Spec: asm, Callee: []string{"types.IsBlockedAccountRaw"}, ArgOK: argFrom("types.(*EVMContractAction4Chain33).GetPara"), Fail: core.OTrue, Idx: -1,
					Forbidden: core.SuccessReturn(-1), Min: 1, Name: "blacklisted raw EVM transfer target"}.Check(r)
				core.LiveReturn{Fn: fn, Sentinels: []string{"types.ErrBlockedAccount"}}.Check(r)
				core.LiveReturn{Fn: evm, Sentinels: []string{"types.ErrBlockedAccount"}}.Check(r)
				// the membership test is a lookup of the parsed 20-byte key
				core.CallArgs{Fn: "types.IsBlockedAccount", Callee: []string{"types.IsBlockedAccountRaw"}, What: "raw bytes parsed from the given address",
					Args: map[int]core.ExprPred{0: core.FromCall(0, "types.parseBlockedAccount")}, Min: 1}.Check(r)
				core.CallArgs{Fn: "types.IsBlockedAccount", Callee: []string{"types.parseBlockedAccount"}, What: "the given address", Args: map[int]core.ExprPred{0: core.IsObj("param:0")}, Min: 1}.Check(r)
				core.Dominated{Fn: "types.IsBlockedAccountRaw", Spec: &core.FlowSpec{}, Sink: core.SinkPred{Label: "return of the set lookup", Match: func(fl *core.Flow, n *core.GNode) bool {
					rs, ok := n.Ast.(*ast.ReturnStmt)
					return ok && len(rs.Results) == 1 && core.CommaOK(core.IsObj("types.blockedAccountSet"))(fl.C, rs.Results[0])
				}}, Min: 1}.Check(r)
			}),
			rule("R31b", "six enforcement sites: a hit never reaches the accepting sink", 8, func(r *Run) {
				core.FailStops{Fn: ex + "checkTx", Callee: []string{"types.CheckTxBlockedAccount"}, Fail: core.OErrNonNil, Idx: -1, Forbidden: core.SuccessReturn(-1), Min: 1, Name: "blacklist hit"}.Check(r)
				core.FailStops{Fn: ex + "checkTxGroup", Callee: []string{"types.CheckTxsBlockedAccount"}, Fail: core.OErrNonNil, Idx: -1, Forbidden: core.SuccessReturn(-1), Min: 1, Name: "blacklist hit in group"}.Check(r)
				core.CallArgs{Fn: ex + "checkTxGroup", Callee: []string{"types.CheckTxsBlockedAccount"}, What: "all members at the block height",
					Args: map[int]core.ExprPred{1: core.Mentions("executor.executor.height"), 2: core.CallsAny("types.(*Transactions).GetTxs")}, Min: 1}.Check(r)
				core.CallArgs{Fn: ex + "checkTx", Callee: []string{"types.CheckTxBlockedAccount"}, What: "the checked tx at the block height",
					Args: map[int]core.ExprPred{1: core.Mentions("executor.executor.height"), 2: core.IsObj("param:0")}, Min: 1}.Check(r)
				bc := "system/consensus.(*BaseClient).AddTxsToBlock"
				blockAppend := core.StoreSink(r.W, "types.Block.Txs")
				// (inside the loop every later iteration is assumed to hit as well, otherwise a later clean tx legitimately reaches the append)
				bothHit := &core.FlowSpec{FailCalls: []core.FailCall{{Callee: core.Names("types.CheckTxBlockedAccount", "types.CheckTxsBlockedAccount"), Idx: -1, Outcome: core.OErrNonNil}}}
				core.FailStops{Fn: bc, Spec: bothHit, Callee: []string{"types.CheckTxBlockedAccount"}, Fail: core.OErrNonNil, Idx: -1, Forbidden: blockAppend, Min: 1, Name: "blacklist hit (single tx)"}.Check(r)
				core.FailStops{Fn: bc, Spec: bothHit, Callee: []string{"types.CheckTxsBlockedAccount"}, Fail: core.OErrNonNil, Idx: -1, Forbidden: blockAppend, Min: 1, Name: "blacklist hit (group)"}.Check(r)
				// both appends are dominated by a passed check of what is appended
				core.Dominated{Fn: bc, Spec: spec(errNil("single-clean", "types.CheckTxBlockedAccount"), errNil("group-clean", "types.CheckTxsBlockedAccount")),
					Sink: blockAppend, AnyOf: [][]Fact{{"single-clean"}, {"group-clean"}}, Min: 2}.Check(r)
				core.CallArgs{Fn: bc, Callee: []string{"types.CheckTxBlockedAccount", "types.CheckTxsBlockedAccount"}, What: "checked at the height of the block being assembled",
					Args: map[int]core.ExprPred{1: core.Mentions("types.Block.Height")}, Min: 2}.Check(r)
				core.FailStops{Fn: mpm + "checkTx", Spec: &core.FlowSpec{Nodes: []core.NodeGen{msgRejectGen()}}, Callee: []string{"types.CheckTxBlockedAccountImmediate"}, Fail: core.OErrNonNil, Idx: -1,
					Forbidden: acceptingReturn, Min: 1, Name: "blacklist hit"}.Check(r)
				core.FailStops{Fn: mpm + "eventAddDelayTx", Callee: []string{"types.CheckTxBlockedAccountImmediate"}, Fail: core.OErrNonNil, Idx: -1,
					Forbidden: core.CallSink(mp + "(*delayTxCache).addDelayTx"), Min: 1, Name: "blacklist hit (delayed tx rpc)"}.Check(r)
				core.FailStops{Fn: mpm + "addDelayTx", Callee: []string{"types.CheckTxBlockedAccountImmediate"}, Fail: core.OErrNonNil, Idx: -1,
					Forbidden: core.CallSink(mp + "(*delayTxCache).addDelayTx"), Min: 1, Name: "blacklist hit (delayed tx in block)"}.Check(r)
				// the pool-side group path hands every member to checkTx (which holds the immediate screening)
				memberScreened := core.CallGuard{Fact: "member-screened", Callee: core.Names("queue.(*Message).Err"), Pass: core.OErrNil, Idx: -1,
					ArgOK: func(c *core.Ctx, call *ast.CallExpr) bool {
						sel, ok := ast.Unparen(call.Fun).(*ast.SelectorExpr)
						if !ok {
							return false
						}
						chk := singleDefCall(c, sel.X, 0, mpm+"checkTx")
						// the message checked carries a member of the group's tx list
						return chk != nil && len(chk.Args) == 1 && core.Mentions("types.Transactions.Txs")(c, chk.Args[0])
					}}
				core.Dominated{Fn: mpm + "checkTxs", Spec: &core.FlowSpec{Nodes: []core.NodeGen{msgRejectGen()}, Calls: []core.CallGuard{memberScreened},
					// a para-chain node does not pool a main-chain tx: it forwards it to the main chain, whose own pool screens it (assumption)
					Assume: func(c *core.Ctx, e ast.Expr) core.Tri {
						if callTo("types.IsForward2MainChainTx")(c, e) {
							return core.False
						}
						return core.Unknown
					},
					Foralls: []core.ForallGuard{{Fact: "all-members-screened", Inner: "member-screened", Loop: core.CountsOver(core.IsObj("types.Transactions.Txs"), 0)}}},
					Sink: acceptingReturn, Need: []Fact{"all-members-screened"}, Min: 1,
					SkipSink: func(fl *core.Flow, n *core.GNode) (bool, string) {
						if rs, ok := n.Ast.(*ast.ReturnStmt); ok && len(rs.Results) == 1 {
							if call, ok := ast.Unparen(rs.Results[0]).(*ast.CallExpr); ok {
								if fn := core.Callee(fl.C.Info, call); fn != nil && core.ShortName(fn) == mpm+"checkTx" && len(call.Args) == 1 && core.IsObj("param:0")(fl.C, call.Args[0]) {
									return true, "single transaction: delegates to checkTx on the message itself"
								}
							}
						}
						return false, ""
					}}.Check(r)
				// every member of a group is screened
				for _, g := range []struct{ fn, inner string }{{"types.CheckTxsBlockedAccount", "types.CheckTxBlockedAccount"}, {"types.CheckTxsBlockedAccountImmediate", "types.CheckTxBlockedAccountImmediate"}} {
					core.Dominated{Fn: g.fn, Spec: &core.FlowSpec{Calls: []core.CallGuard{errNil("member-clean", g.inner)},
						Foralls: []core.ForallGuard{{Fact: "all-members-clean", Inner: "member-clean", Loop: core.RangesOver(func(c *core.Ctx, e ast.Expr) bool {
							// the last parameter is the member list
							root := c.F
							return core.IsObj(fmt.Sprintf("param:%d", root.Sig().Params().Len()-1))(c, e)
						})}}}, Sink: core.SuccessReturn(-1), Need: []Fact{"all-members-clean"}, Min: 1}.Check(r)
				}
			}),
			rule("R31c", "the executor screens the proxied (inner) transaction", 2, func(r *Run) {
				core.Dominated{Fn: ex + "execTx", Spec: &core.FlowSpec{
					Assume:    assumeRecvFieldsPositive("height"),
					FailCalls: []core.FailCall{{Callee: core.Names(ex + "checkProxyExecTx"), Idx: -1, Outcome: core.OTrue}},
					Calls:     []core.CallGuard{errNil("inner-tx-resolved", ex+"proxyExecTx")},
				}, Sink: core.CallSink(ex + "checkTx"), Need: []Fact{"inner-tx-resolved"}, Min: 1}.Check(r)
				// and the resolved tx replaces the variable that checkTx receives
				f := r.Fn(ex + "execTx")
				if f != nil {
					c := f.Ctx()
					ok := false
					core.InspectBody(f, func(x ast.Node) bool {
						as, isAs := x.(*ast.AssignStmt)
						if isAs && len(as.Rhs) == 1 && core.CallAtom([]string{ex + "proxyExecTx"})(c, as.Rhs[0]) && len(as.Lhs) == 2 && core.IsObj("param:1")(c, as.Lhs[0]) {
							ok = true
						}
						return true
					})
					label := "executor.execTx: the proxy result overwrites the tx that is checked and executed"
					if ok {
						r.OK(label, r.W.Pos(f.Node().Pos()), "tx, err = e.proxyExecTx(tx)")
					} else {
						r.Fail(label, r.W.Pos(f.Node().Pos()), "the inner transaction is not assigned to the variable passed to checkTx/execFee/execTxOne")
					}
					core.CallArgs{Fn: ex + "execTx", Callee: []string{ex + "checkTx", ex + "execFee"}, What: "operate on that tx", Args: map[int]core.ExprPred{0: core.IsObj("param:1")}, Min: 2}.Check(r)
				}
			}),
			rule("R31d", "consensus-side check is fork-gated, pool-side check is immediate", 3, func(r *Run) {
				isBL := func(c *core.Ctx, e ast.Expr) bool { n, ok := forkCall(c, e); return ok && n == "ForkAccountBlacklist" }
				core.Dominated{Fn: "types.CheckTxBlockedAccount", Spec: &core.FlowSpec{Conds: []core.CondGuard{core.BoolGuard("fork-active", isBL, true)}},
					Sink: core.CallSink("types.checkTxBlockedAccountCore"), Need: []Fact{"fork-active"}, Min: 1}.Check(r)
				core.FailStops{Fn: "types.CheckTxBlockedAccount", Spec: &core.FlowSpec{Assume: func(c *core.Ctx, e ast.Expr) core.Tri {
					if isBL(c, e) {
						return core.True
					}
					if t := core.AssumeRel(core.IsObj("param:0"), token.EQL, isNilLit, core.False)(c, e); t != core.Unknown {
						return t
					}
					return core.Unknown
				}}, Callee: []string{"types.checkTxBlockedAccountCore"}, Fail: core.OErrNonNil, Idx: -1, Forbidden: core.SuccessReturn(-1), Min: 1, Name: "core check error (fork active)"}.Check(r)
				f := r.Fn("types.CheckTxBlockedAccountImmediate")
				if f != nil {
					c := f.Ctx()
					gated := false
					core.InspectBody(f, func(x ast.Node) bool {
						if e, ok := x.(ast.Expr); ok && isBL(c, e) {
							gated = true
						}
						return true
					})
					label := "types.CheckTxBlockedAccountImmediate is not fork-gated and returns the core verdict"
					direct := false
					for _, rn := range f.Graph().Returns() {
						if rs, ok := rn.Ast.(*ast.ReturnStmt); ok && len(rs.Results) == 1 && core.CallAtom([]string{"types.checkTxBlockedAccountCore"}, core.IsObj("param:0"))(c, rs.Results[0]) {
							direct = true
						}
					}
					if !gated && direct {
						r.OK(label, r.W.Pos(f.Node().Pos()), "no fork test; returns checkTxBlockedAccountCore(tx, …)")
					} else {
						r.Fail(label, r.W.Pos(f.Node().Pos()), fmt.Sprintf("fork-gated=%v, returns core verdict=%v", gated, direct))
					}
				}
			}),
			rule("R31e", "the EVM-target screening classifies a tx by the executor-name normaliser that driver dispatch uses", 2, func(r *Run) {
				// which types.* normaliser does driver dispatch apply to the execer name?
				ld := r.Fn("system/dapp.LoadDriver")
				if ld == nil {
					return
				}
				norm := ""
				core.InspectBody(ld, func(x ast.Node) bool {
					as, ok := x.(*ast.AssignStmt)
					if !ok || len(as.Lhs) != 1 || !core.IsObj("param:0")(ld.Ctx(), as.Lhs[0]) {
						return true
					}
					for _, call := range core.CallsIn(as.Rhs[0]) {
						if fn := core.Callee(ld.Info(), call); fn != nil && fn.Pkg() != nil && strings.HasSuffix(fn.Pkg().Path(), "chain33/types") {
							norm = core.ShortName(fn)
						}
					}
					return true
				})
				label := "system/dapp.LoadDriver normalises the executor name through one types.* function"
				if norm == "" {
					r.Fail(label, r.W.Pos(ld.Node().Pos()), "no `name = types.<normaliser>(name)` found: the reference for the sibling comparison is gone")
					return
				}
				r.OK(label, r.W.Pos(ld.Node().Pos()), norm)
				core.HasAtom{Fn: "types.checkEVMTxBlockedTarget", Name: "'is an EVM transaction' on the execer normalised by " + norm + " (as driver dispatch does: user.evm.* and user.p.*.evm run the evm driver)",
					L: core.DerivedFromCall(norm), R: core.IsObj("types.evmExecName"), Rel: token.NEQ}.Check(r)
			}),
		},
	})

	// ------------------------------------------------------------------ C30
	bc := "system/consensus.(*BaseClient)."
	register(&core.Property{
		ID:       "C30",
		Title:    "Produced blocks respect size, count and group limits",
		Packages: []string{"system/consensus", "types"},
		Explanation: "Decides R30a-R30b: in AddTxsToBlock every append to the block is dominated by the blacklist, count (<= MaxTxNumber) and size (<= bound) tests with the exact boundaries, a group is counted and sized over all members first and appended as one whole slice; " +
			"CheckTxExpire tests the group bounds before slicing and marks the whole index range of a group when any member expired.",
		NotCovered: "the numeric values of the limits and Size() itself (V).",
		Rules: []core.Rule{
			rule("R30a", "AddTxsToBlock: limits dominate every append; groups are atomic", 9, func(r *Run) {
				fn := bc + "AddTxsToBlock"
				// the accumulators are identified by what they are initialised from
				isCount := core.InitFrom(lenOfDeep(core.Mentions("types.Block.Txs")))
				isSize := core.InitFrom(core.CallsAny("types.(*Block).Size"))
				isMaxTx := core.InitFrom(core.Mentions("types.ChainParam.MaxTxNumber"))
				isMaxSz := core.InitFrom(core.Mentions("types.MaxBlockSize"))
				sp := &core.FlowSpec{
					Calls: []core.CallGuard{errNil("single-clean", "types.CheckTxBlockedAccount"), errNil("group-clean", "types.CheckTxsBlockedAccount"), errNil("group-known", "types.(*Transaction).GetTxGroup")},
					Conds: []core.CondGuard{core.RelGuard("count-ok", isCount, token.LEQ, isMaxTx), core.RelGuard("size-ok", isSize, token.LEQ, isMaxSz)},
				}
				blockAppend := core.StoreSink(r.W, "types.Block.Txs")
				core.Dominated{Fn: fn, Spec: sp, Sink: blockAppend, Need: []Fact{"group-known", "count-ok", "size-ok"}, AnyOf: [][]Fact{{"single-clean"}, {"group-clean"}}, Min: 2}.Check(r)
				// each kind of append needs the screening of exactly what it appends: a single transaction its own
				// check, a whole group the check of every member (one CheckTxsBlockedAccount over the group's list, or
				// a loop over that list)
				isVariadic := func(fl *core.Flow, n *core.GNode) bool {
					as, ok := n.Ast.(*ast.AssignStmt)
					if !ok || len(as.Rhs) != 1 {
						return false
					}
					call, ok := as.Rhs[0].(*ast.CallExpr)
					return ok && call.Ellipsis.IsValid()
				}
				grpList := core.MentionsAny("types.Transactions.Txs", "types.(*Transactions).GetTxs")
				spg := &core.FlowSpec{
					Calls: []core.CallGuard{errNil("single-clean", "types.CheckTxBlockedAccount"),
						{Fact: "group-clean", Callee: core.Names("types.CheckTxsBlockedAccount"), Pass: core.OErrNil, Idx: -1, ArgOK: func(c *core.Ctx, call *ast.CallExpr) bool {
							return len(call.Args) == 3 && grpList(c, call.Args[2])
						}}},
					Foralls: []core.ForallGuard{{Fact: "group-clean", Inner: "single-clean", Loop: core.RangesOver(grpList)}},
				}
				core.Dominated{Fn: fn, Spec: spg, Sink: core.SinkPred{Label: "append of a whole group to block.Txs", Match: func(fl *core.Flow, n *core.GNode) bool {
					return blockAppend.Match(fl, n) && isVariadic(fl, n)
				}}, Need: []Fact{"group-clean"}, Min: 1}.Check(r)
				core.Dominated{Fn: fn, Spec: spg, Sink: core.SinkPred{Label: "append of a single transaction to block.Txs", Match: func(fl *core.Flow, n *core.GNode) bool {
					return blockAppend.Match(fl, n) && !isVariadic(fl, n)
				}}, Need: []Fact{"single-clean"}, Min: 1}.Check(r)
				core.HasAtom{Fn: fn, Name: "count > MaxTxNumber stops (exact boundary)", L: isCount, R: isMaxTx, Rel: token.GTR}.Check(r)
				core.HasAtom{Fn: fn, Name: "size > bound stops (exact boundary)", L: isSize, R: isMaxSz, Rel: token.GTR}.Check(r)
				// group: counted over all members, sized over all members, appended whole
				f := r.Fn(fn)
				if f != nil {
					c := f.Ctx()
					grpTxs := core.Mentions("types.Transactions.Txs")
					var counted, whole bool
					sized := false
					core.InspectBody(f, func(x ast.Node) bool {
						switch s := x.(type) {
						case *ast.AssignStmt:
							if s.Tok == token.ADD_ASSIGN && len(s.Lhs) == 1 && isCount(c, s.Lhs[0]) && lenOfDeep(grpTxs)(c, s.Rhs[0]) {
								counted = true
							}
							// size += helper(group.Txs), where the helper sums Size() over every element of its argument
							if s.Tok == token.ADD_ASSIGN && len(s.Lhs) == 1 && len(s.Rhs) == 1 && isSize(c, s.Lhs[0]) {
								if call, ok := ast.Unparen(s.Rhs[0]).(*ast.CallExpr); ok && len(call.Args) == 1 && grpTxs(c, call.Args[0]) {
									if h := r.W.FuncOf(core.Callee(c.Info, call)); h != nil && sumsSizeOverParam(h) {
										sized = true
									}
								}
							}
							if len(core.StoresTo(c, s, "types.Block.Txs")) > 0 && len(s.Rhs) == 1 {
								if call, ok := s.Rhs[0].(*ast.CallExpr); ok && call.Ellipsis.IsValid() && len(call.Args) == 2 {
									if _, isSlice := ast.Unparen(call.Args[1]).(*ast.SliceExpr); !isSlice && grpTxs(c, call.Args[1]) {
										whole = true
									}
								}
							}
						case *ast.ForStmt:
							if core.CountsOver(grpTxs, 0)(c, s) {
								ast.Inspect(s.Body, func(y ast.Node) bool {
									if as, ok := y.(*ast.AssignStmt); ok && as.Tok == token.ADD_ASSIGN && isSize(c, as.Lhs[0]) {
										sized = true
									}
									return true
								})
							}
						case *ast.RangeStmt:
							if grpTxs(c, s.X) {
								ast.Inspect(s.Body, func(y ast.Node) bool {
									if as, ok := y.(*ast.AssignStmt); ok && as.Tok == token.ADD_ASSIGN && isSize(c, as.Lhs[0]) {
										sized = true
									}
									return true
								})
							}
						}
						return true
					})
					for _, chk := range []struct {
						ok   bool
						what string
					}{{counted, "the count grows by the number of group members before the count test"}, {sized, "the size is summed over every member of the group"}, {whole, "the group is appended as one whole slice (no partial group)"}} {
						label := "AddTxsToBlock: " + chk.what
						if chk.ok {
							r.OK(label, r.W.Pos(f.Node().Pos()), "recognised")
						} else {
							r.Fail(label, r.W.Pos(f.Node().Pos()), "construct not found: a group could be split, under-counted or under-sized")
						}
					}
				}
			}),
			rule("R30c", "CheckTxExpire: the scan steps over every in-bounds group as a whole, expired or not", 1, func(r *Run) {
				// Every member of a group carries the group's count; if the scan did not jump to the last member
				// after looking at a group, the next iteration would treat the second member as the head of a
				// group that overlaps the transactions behind it.
				fn := bc + "CheckTxExpire"
				f := r.Fn(fn)
				if f == nil {
					return
				}
				gcnt := core.DerivedFrom("types.Transaction.GroupCount")
				plusCount := func(c *core.Ctx, e ast.Expr) bool {
					b, ok := ast.Unparen(e).(*ast.BinaryExpr)
					return ok && b.Op == token.ADD && gcnt(c, b.Y)
				}
				// the scan: for i := …; i < len(txs); … (the body is allowed to move i)
				scanLoop := func(c *core.Ctx, s ast.Stmt) (types.Object, bool) {
					fs, ok := s.(*ast.ForStmt)
					if !ok || fs.Init == nil || fs.Cond == nil {
						return nil, false
					}
					as, ok := fs.Init.(*ast.AssignStmt)
					if !ok || len(as.Lhs) != 1 {
						return nil, false
					}
					iv, ok := as.Lhs[0].(*ast.Ident)
					if !ok {
						return nil, false
					}
					io := c.Info.ObjectOf(iv)
					isI := func(c *core.Ctx, e ast.Expr) bool {
						id, ok := ast.Unparen(e).(*ast.Ident)
						return ok && c.Info.ObjectOf(id) == io
					}
					op, ok := core.CmpAtom(c, fs.Cond, isI, lenOf(core.IsObj("param:0")))
					return io, ok && op == token.LSS
				}
				loopVar := func(c *core.Ctx, id *ast.Ident) bool {
					o := c.Info.ObjectOf(id)
					for _, lp := range core.LoopsIn(c.F) {
						if io, ok := scanLoop(c, lp); ok && io == o {
							return true
						}
					}
					return false
				}
				sp := &core.FlowSpec{
					Assume: core.AssumeAll(core.AssumeRel(gcnt, token.EQL, core.IsConstInt(0), core.False), core.AssumeRel(plusCount, token.GTR, lenOf(core.IsObj("param:0")), core.False)),
					Nodes: []core.NodeGen{{Fact: "stepped-over-group", Gen: func(c *core.Ctx, n *core.GNode) bool {
						as, ok := n.Ast.(*ast.AssignStmt)
						if !ok || len(as.Lhs) != 1 || len(as.Rhs) != 1 {
							return false
						}
						id, ok := ast.Unparen(as.Lhs[0]).(*ast.Ident)
						if !ok || !loopVar(c, id) || !gcnt(c, as.Rhs[0]) {
							return false
						}
						return as.Tok == token.ADD_ASSIGN || (as.Tok == token.ASSIGN && mentionsIdent(c, as.Rhs[0], c.Info.ObjectOf(id)))
					}}},
					Foralls: []core.ForallGuard{{Fact: "every-group-stepped-over", Inner: "stepped-over-group", Loop: func(c *core.Ctx, s ast.Stmt) bool { _, ok := scanLoop(c, s); return ok }}},
				}
				core.Dominated{Fn: fn, Spec: sp, Sink: core.AnyReturn(), Need: []Fact{"every-group-stepped-over"}, Min: 1}.Check(r)
			}),
			rule("R30b", "CheckTxExpire: bounds before slicing, whole group marked", 3, func(r *Run) {
				fn := bc + "CheckTxExpire"
				f := r.Fn(fn)
				if f == nil {
					return
				}
				gcnt := core.DerivedFrom("types.Transaction.GroupCount")
				plusCount := func(c *core.Ctx, e ast.Expr) bool {
					b, ok := ast.Unparen(e).(*ast.BinaryExpr)
					return ok && b.Op == token.ADD && gcnt(c, b.Y)
				}
				core.Dominated{Fn: fn, Spec: &core.FlowSpec{Conds: []core.CondGuard{core.RelGuard("group-in-bounds", plusCount, token.LEQ, lenOf(core.IsObj("param:0")))}},
					Sink: core.SinkPred{Label: "txs[i:i+groupCount]", Match: func(fl *core.Flow, n *core.GNode) bool {
						found := false
						core.InspectNode(n.Ast, func(x ast.Node) bool {
							if se, ok := x.(*ast.SliceExpr); ok && se.High != nil && plusCount(fl.C, se.High) && core.IsObj("param:0")(fl.C, se.X) {
								found = true
							}
							return true
						})
						return found
					}}, Need: []Fact{"group-in-bounds"}, Min: 1}.Check(r)
				core.HasAtom{Fn: fn, Name: "i+groupCount > len(txs) (exact bound)", L: plusCount, R: lenOf(core.IsObj("param:0")), Rel: token.GTR}.Check(r)
				// whole range nil-ed: for j := i; j < i+groupCount; j++ { txs[j] = nil }
				c := f.Ctx()
				ok := false
				core.InspectBody(f, func(x ast.Node) bool {
					fs, isFor := x.(*ast.ForStmt)
					if !isFor || fs.Init == nil || fs.Cond == nil || fs.Post == nil {
						return true
					}
					as, isAs := fs.Init.(*ast.AssignStmt)
					if !isAs || len(as.Lhs) != 1 {
						return true
					}
					jv := c.Info.ObjectOf(as.Lhs[0].(*ast.Ident))
					isJ := func(c *core.Ctx, e ast.Expr) bool { id, ok := ast.Unparen(e).(*ast.Ident); return ok && c.Info.ObjectOf(id) == jv }
					if _, startIsIdent := ast.Unparen(as.Rhs[0]).(*ast.Ident); !startIsIdent {
						return true
					}
					op, isCmp := core.CmpAtom(c, fs.Cond, isJ, plusCount)
					if !isCmp || op != token.LSS {
						return true
					}
					// the start variable is the same i used in i+groupCount
					b := ast.Unparen(fs.Cond).(*ast.BinaryExpr)
					var hi *ast.BinaryExpr
					if plusCount(c, b.Y) {
						hi = ast.Unparen(b.Y).(*ast.BinaryExpr)
					} else {
						hi = ast.Unparen(b.X).(*ast.BinaryExpr)
					}
					si, _ := ast.Unparen(as.Rhs[0]).(*ast.Ident)
					hi0, _ := ast.Unparen(hi.X).(*ast.Ident)
					if si == nil || hi0 == nil || c.Info.ObjectOf(si) != c.Info.ObjectOf(hi0) {
						return true
					}
					ast.Inspect(fs.Body, func(y ast.Node) bool {
						if a2, isA := y.(*ast.AssignStmt); isA && len(a2.Lhs) == 1 {
							if ix, isIx := a2.Lhs[0].(*ast.IndexExpr); isIx && isJ(c, ix.Index) && core.IsObj("param:0")(c, ix.X) && isNilLit(c, a2.Rhs[0]) {
								ok = true
							}
						}
						return true
					})
					return true
				})
				label := "CheckTxExpire removes the whole index range [i, i+groupCount) of an expired group"
				if ok {
					r.OK(label, r.W.Pos(f.Node().Pos()), "canonical full-range loop")
				} else {
					r.Fail(label, r.W.Pos(f.Node().Pos()), "no loop over the full group range that nils every member: a group could be partially included")
				}
			}),
		},
	})
}

// mentionsIdent: expression e refers to object o.
func mentionsIdent(c *core.Ctx, e ast.Expr, o types.Object) bool {
	found := false
	core.InspectNode(e, func(x ast.Node) bool {
		if id, ok := x.(*ast.Ident); ok {
			if c.Info.ObjectOf(id) == o {
				found = true
			} else if t, isId := c.Through(id).(*ast.Ident); isId && t != id && c.Info.ObjectOf(t) == o {
				found = true // a spliced helper's parameter bound to the variable
			}
		}
		return !found
	})
	return found
}

// sumsSizeOverParam: h walks every element of its first parameter (range, or an index loop from 0) adding
// a Size() to an accumulator, and returns that accumulator.
func sumsSizeOverParam(h *core.FuncInfo) bool {
	c := h.Ctx()
	var acc types.Object
	for _, lp := range core.LoopsIn(h) {
		if !core.CountsOver(core.IsObj("param:0"), 0)(c, lp) {
			continue
		}
		ast.Inspect(lp, func(y ast.Node) bool {
			if as, ok := y.(*ast.AssignStmt); ok && as.Tok == token.ADD_ASSIGN && len(as.Lhs) == 1 && len(as.Rhs) == 1 {
				if id, ok := ast.Unparen(as.Lhs[0]).(*ast.Ident); ok && core.CallsAny("types.(*Transaction).Size", "types.Size", "google.golang.org/protobuf/proto.Size", "github.com/golang/protobuf/proto.Size")(c, as.Rhs[0]) {
					acc = c.Info.ObjectOf(id)
				}
			}
			return true
		})
	}
	if acc == nil {
		return false
	}
	for _, ret := range h.Graph().Returns() {
		rs, ok := ret.Ast.(*ast.ReturnStmt)
		if !ok {
			continue
		}
		if len(rs.Results) == 1 {
			if id, ok := ast.Unparen(rs.Results[0]).(*ast.Ident); ok && c.Info.ObjectOf(id) == acc {
				return true
			}
		} else if len(rs.Results) == 0 && h.Sig().Results().Len() == 1 && types.Object(h.Sig().Results().At(0)) == acc {
			return true
		}
	}
	return false
}
