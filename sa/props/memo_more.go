package props

import (
	"fmt"
	"go/ast"
	"go/types"
	"sort"
	"strings"

	"verif/sa/core"
)

func init() {
	p := registry["C19"]
	if p != nil {
		p.Packages = append(p.Packages, "common/crypto/client")
	}
	extend("C19", "R19e-R19f (added after seeded changes were missed): a memoising function fills the very cache it consults and stores the value it returns; the block context the address drivers read is overwritten unconditionally on every update, so it follows the chain down again after a rollback.",
		rule("R19e", "a memo cache is filled with the returned value, and it is the cache that was consulted", 12, func(r *Run) {
			for _, fn := range []string{"common/address.CheckAddress", "common/address.ExecAddress", "common/address.ExecPubKey",
				"system/address/eth.(*eth).PubKeyToAddr", "system/address/btc.(*btc).PubKeyToAddr", "system/address/btc.(*btcMultiSign).PubKeyToAddr"} {
				f := r.Fn(fn)
				if f == nil {
					continue
				}
				c := f.Ctx()
				// caches consulted / filled
				got, added := map[types.Object]bool{}, map[types.Object]bool{}
				core.InspectBody(f, func(x ast.Node) bool {
					call, ok := x.(*ast.CallExpr)
					if !ok {
						return true
					}
					sel, ok := ast.Unparen(call.Fun).(*ast.SelectorExpr)
					if !ok {
						return true
					}
					id, ok := ast.Unparen(sel.X).(*ast.Ident)
					if !ok {
						return true
					}
					v, ok := c.Info.ObjectOf(id).(*types.Var)
					if !ok || v.Pkg() == nil || v.Parent() != v.Pkg().Scope() {
						return true
					}
					switch sel.Sel.Name {
					case "Get":
						got[v] = true
					case "Add":
						added[v] = true
					}
					return true
				})
				names := func(m map[types.Object]bool) string {
					var s []string
					for o := range m {
						s = append(s, o.Name())
					}
					sort.Strings(s)
					return strings.Join(s, ",")
				}
				label := fn + ": fills the cache it consults"
				if len(got) > 0 && names(got) == names(added) {
					r.OK(label, r.W.Pos(f.Node().Pos()), names(got))
				} else {
					r.Fail(label, r.W.Pos(f.Node().Pos()), fmt.Sprintf("consults [%s] but fills [%s]: the result is filed where another function (or nobody) looks it up", names(got), names(added)))
				}
				// the value stored is the value returned
				g := f.Graph()
				for i, ms := range memoSitesIn(f) {
					label := fmt.Sprintf("%s: cache fill #%d stores the value that is returned", fn, i+1)
					gn := g.NodeContaining(ms.add.Pos())
					if gn == nil {
						r.Fail(label, r.W.Pos(ms.add.Pos()), "cache fill not found in the flow graph")
						continue
					}
					want := core.CanonExpr(c, ms.value)
					reach := g.Reachable([]*core.GNode{gn}, nil, nil)
					bad, nRet := "", 0
					for _, ret := range g.Returns() {
						if !reach[ret] {
							continue
						}
						rs, ok := ret.Ast.(*ast.ReturnStmt)
						if !ok {
							continue
						}
						nRet++
						match := false
						if len(rs.Results) == 0 {
							// named results: the stored value must be a named result variable
							if id, ok := ast.Unparen(ms.value).(*ast.Ident); ok {
								res := f.Sig().Results()
								for k := 0; k < res.Len(); k++ {
									if res.At(k) == c.Info.ObjectOf(id) {
										match = true
									}
								}
							}
						}
						for _, e := range rs.Results {
							if _, isID := ast.Unparen(ms.value).(*ast.Ident); !isID && core.CanonExpr(c, e) == want {
								match = true
							}
							// the returned expression is built from the stored variable (hash[:], format(addr))
							if vid, ok := ast.Unparen(ms.value).(*ast.Ident); ok && mentionsObjNode(c.Info, e, c.Info.ObjectOf(vid)) {
								match = true
							}
						}
						if !match {
							bad = fmt.Sprintf("%s: `%s` returns something else than the stored `%s`", r.W.Pos(rs.Pos()), core.ExprStr(rs), core.ExprStr(ms.value))
						}
					}
					if bad != "" || nRet == 0 {
						r.Fail(label, r.W.Pos(ms.add.Pos()), "first call and later (cached) calls would answer differently: "+bad)
					} else {
						r.OK(label, r.W.Pos(ms.add.Pos()), fmt.Sprintf("%d return(s) after the fill return `%s`", nRet, core.ExprStr(ms.value)))
					}
				}
			}
		}),
		rule("R19f", "the block context follows every update, also downwards", 2, func(r *Run) {
			fn := "common/crypto/client.SetCurrentBlock"
			stored := func(field string, param int) core.NodeGen {
				return core.NodeGen{Fact: core.Fact(field + "-stored"), Gen: func(c *core.Ctx, n *core.GNode) bool {
					as, ok := n.Ast.(*ast.AssignStmt)
					return ok && len(as.Lhs) == 1 && len(as.Rhs) == 1 && core.IsObj("common/crypto/client.CryptoContext."+field)(c, as.Lhs[0]) && core.IsObj(fmt.Sprintf("param:%d", param))(c, as.Rhs[0])
				}}
			}
			core.Dominated{Fn: fn, Spec: &core.FlowSpec{Nodes: []core.NodeGen{stored("CurrBlockHeight", 0), stored("CurrBlockTime", 1)}},
				Sink: core.AnyReturn(), Need: []Fact{"CurrBlockHeight-stored", "CurrBlockTime-stored"}, Min: 1}.Check(r)
		}),
	)
}
