package props

import (
	"fmt"
	"go/ast"
	"go/constant"
	"go/token"
	"sort"

	"verif/sa/core"
)

// intConsts lists the distinct integer constants (as hex/decimal text of their
// value) that appear in the bit-manipulating expressions of fn: operands of
// & | << >> and of comparisons.
func bitLayoutConsts(f *core.FuncInfo) map[string]bool {
	c := f.Ctx()
	out := map[string]bool{}
	note := func(e ast.Expr) {
		ast.Inspect(e, func(x ast.Node) bool {
			lit, ok := x.(*ast.BasicLit)
			if !ok || lit.Kind != token.INT {
				return true
			}
			if tv, ok := c.Info.Types[lit]; ok && tv.Value != nil && tv.Value.Kind() == constant.Int {
				out[tv.Value.ExactString()] = true
			}
			return true
		})
	}
	core.InspectBody(f, func(x ast.Node) bool {
		switch s := x.(type) {
		case *ast.BinaryExpr:
			switch s.Op {
			case token.AND, token.OR, token.SHL, token.SHR, token.MUL, token.SUB, token.LEQ, token.LSS, token.GTR, token.GEQ:
				note(s.X)
				note(s.Y)
			}
		case *ast.AssignStmt:
			switch s.Tok {
			case token.SHL_ASSIGN, token.SHR_ASSIGN, token.OR_ASSIGN, token.AND_ASSIGN:
				for _, r := range s.Rhs {
					note(r)
				}
			}
		}
		return true
	})
	return out
}

func init() {
	dp := "common/difficulty."
	register(&core.Property{
		ID:       "C20",
		Title:    "Difficulty compact encoding round-trips and orders work",
		Packages: []string{"common/difficulty", "blockchain"},
		Explanation: "Thin claim, structural clauses only (R20a-R20c). (a) What fork choice sums is work derived from the encoded target: every place that gives a block its weight — the index node's Difficulty and the total difficulty stored with the block and with the connected block — is CalcWork of that same block's Difficulty bits (the placeholder node's -1 is the one frozen exception). " +
			"(b) CalcWork decodes its argument with CompactToBig, answers zero for a non-positive target before anything is divided, and divides 2^256 by target+1 (the divisor is built by adding the constant one to the decoded target, so it is never zero for a positive target). " +
			"(c) The decoder and the encoder agree on the bit layout: the sign-bit mask, the exponent shift and the 'three mantissa bytes' pivot are the same constants in CompactToBig and BigToCompact, and each shifts by eight times the distance from that pivot in both branches.",
		NotCovered: "the round-trip and precision claims over the 2^32 compact values and the monotonicity of work in the target are arithmetic facts about big.Int code (V): no sound static argument in reach decides them; they need exhaustive enumeration or symbolic execution, which is a different technique family.",
		Rules: []core.Rule{
			rule("R20a", "block weight is CalcWork of the block's own Difficulty bits", 4, func(r *Run) {
				bits := core.MentionsAny("types.Block.Difficulty", "types.Header.Difficulty")
				for _, x := range []struct{ fn, what string }{
					{"blockchain.initBlockNode", "index node from a block"}, {"blockchain.newBlockNodeByHeader", "index node from a header"},
					{bsm + "dbMaybeStoreBlock", "total difficulty stored with a pre-stored block"}, {bcm + "connectBlock", "total difficulty stored with a connected block"},
				} {
					core.CallArgs{Fn: x.fn, Callee: []string{dp + "CalcWork"}, What: x.what + ": work of this block's Difficulty bits", Args: map[int]core.ExprPred{0: bits}, Min: 1}.Check(r)
				}
				// nothing else ever becomes a node's weight
				pkg := r.W.Pkg("blockchain")
				if pkg != nil {
					n := 0
					for _, f := range r.W.AllFuncs(pkg) {
						c := f.Ctx()
						core.InspectBody(f, func(x ast.Node) bool {
							var val ast.Expr
							var pos token.Pos
							switch s := x.(type) {
							case *ast.KeyValueExpr:
								if id, ok := s.Key.(*ast.Ident); ok && id.Name == "Difficulty" {
									if cl, ok := r.W.Parent(s).(*ast.CompositeLit); ok {
										if t := c.Info.TypeOf(cl); t != nil && core.TypeShort(t) == "blockchain.blockNode" {
											val, pos = s.Value, s.Pos()
										}
									}
								}
							case *ast.AssignStmt:
								for i, l := range s.Lhs {
									if core.IsObj("blockchain.blockNode.Difficulty")(c, l) && len(s.Rhs) == len(s.Lhs) {
										val, pos = s.Rhs[i], s.Pos()
									}
								}
							}
							if val == nil {
								return true
							}
							n++
							label := fmt.Sprintf("%s: index-node weight #%d is work derived from encoded bits", f.Name, n)
							switch {
							case core.CallAtom([]string{dp + "CalcWork"}, bits)(c, val):
								r.OK(label, r.W.Pos(pos), core.ExprStr(val))
							case f.Name == "blockchain.newPreGenBlockNode":
								why := "the placeholder parent of the genesis block: never compared, its weight is never added (connectBlock uses the block's own work at height 0)"
								r.Exception(label, why)
								r.OK(label, r.W.Pos(pos), "frozen exception: "+why)
							default:
								r.Fail(label, r.W.Pos(pos), fmt.Sprintf("`%s` is not CalcWork(<block>.Difficulty): total-difficulty comparisons would no longer follow the encoded targets", core.ExprStr(val)))
							}
							return true
						})
					}
					if n < 3 {
						r.Fail("blockchain: places that set blockNode.Difficulty", "blockchain/blockindex.go", fmt.Sprintf("expected ≥3, found %d", n))
					}
				}
			}),
			rule("R20b", "CalcWork: zero for a non-positive target, otherwise 2^256 / (target+1)", 4, func(r *Run) {
				fn := dp + "CalcWork"
				core.CallArgs{Fn: fn, Callee: []string{dp + "CompactToBig"}, What: "decodes the bits it was given", Args: map[int]core.ExprPred{0: core.IsObj("param:0")}, Min: 1}.Check(r)
				positive := core.RelGuard("target-positive", core.CallsAny("math/big.(*Int).Sign"), token.GTR, core.IsConstInt(0))
				core.Dominated{Fn: fn, Spec: &core.FlowSpec{Conds: []core.CondGuard{positive}}, Sink: core.CallSink("math/big.(*Int).Div", "math/big.(*Int).Quo"), Need: []Fact{"target-positive"}, Min: 1}.Check(r)
				core.CallArgs{Fn: fn, Callee: []string{"math/big.(*Int).Div", "math/big.(*Int).Quo"}, What: "numerator 2^256, divisor target+1",
					Args: map[int]core.ExprPred{0: core.IsObj(dp + "oneLsh256"), 1: func(c *core.Ctx, e ast.Expr) bool {
						// the divisor is (defined as) an Add of the decoded target and the constant one
						check := func(x ast.Expr) bool {
							call, ok := ast.Unparen(x).(*ast.CallExpr)
							if !ok || len(call.Args) != 2 {
								return false
							}
							if f := core.Callee(c.Info, call); f == nil || core.ShortName(f) != "math/big.(*Int).Add" {
								return false
							}
							one := core.IsObj(dp + "bigOne")
							tgt := core.FromCall(0, dp+"CompactToBig")
							return (one(c, call.Args[0]) && tgt(c, call.Args[1])) || (one(c, call.Args[1]) && tgt(c, call.Args[0]))
						}
						if check(e) {
							return true
						}
						if id, ok := ast.Unparen(e).(*ast.Ident); ok {
							defs := c.DefsOf(c.Info.ObjectOf(id))
							return len(defs) == 1 && defs[0].Rhs != nil && check(defs[0].Rhs)
						}
						return false
					}}, Min: 1}.Check(r)
				// bigOne is the constant one and oneLsh256 is bigOne shifted left by 256 (resolved calls and constant
				// values, not source text)
				if pkg := r.W.Pkg("common/difficulty"); pkg != nil {
					info := pkg.TypesInfo
					constArg := func(e ast.Expr, v int64) bool {
						tv, ok := info.Types[e]
						return ok && tv.Value != nil && tv.Value.ExactString() == fmt.Sprint(v)
					}
					for _, v := range []string{"bigOne", "oneLsh256"} {
						label := fmt.Sprintf("%s%s has the value CalcWork relies on", dp, v)
						good, pos := false, "common/difficulty/difficulty.go"
						for _, file := range pkg.Syntax {
							ast.Inspect(file, func(x ast.Node) bool {
								vs, isVS := x.(*ast.ValueSpec)
								if !isVS {
									return true
								}
								for i, nm := range vs.Names {
									if nm.Name != v || i >= len(vs.Values) || info.Defs[nm] == nil || info.Defs[nm].Parent() != pkg.Types.Scope() {
										continue
									}
									pos = r.W.Pos(vs.Pos())
									call, ok := ast.Unparen(vs.Values[i]).(*ast.CallExpr)
									if !ok {
										continue
									}
									fnc := core.Callee(info, call)
									switch v {
									case "bigOne":
										good = fnc != nil && core.ShortName(fnc) == "math/big.NewInt" && len(call.Args) == 1 && constArg(call.Args[0], 1)
									case "oneLsh256":
										if fnc != nil && core.ShortName(fnc) == "math/big.(*Int).Lsh" && len(call.Args) == 2 && constArg(call.Args[1], 256) {
											if id, ok := ast.Unparen(call.Args[0]).(*ast.Ident); ok && info.ObjectOf(id) == r.W.LookupObj(dp+"bigOne") {
												good = true
											}
										}
									}
								}
								return true
							})
						}
						if good {
							r.OK(label, pos, map[string]string{"bigOne": "big.NewInt(1)", "oneLsh256": "bigOne << 256"}[v])
						} else {
							r.Fail(label, pos, "the package-level value is not "+map[string]string{"bigOne": "NewInt(1)", "oneLsh256": "Lsh(bigOne, 256)"}[v])
						}
					}
				}
			}),
			rule("R20c", "decoder and encoder agree on the bit layout", 3, func(r *Run) {
				dec, enc := r.Fn(dp+"CompactToBig"), r.Fn(dp+"BigToCompact")
				if dec == nil || enc == nil {
					return
				}
				cd, ce := bitLayoutConsts(dec), bitLayoutConsts(enc)
				// shared layout constants: sign-bit mask 0x00800000, exponent shift 24, byte width 8, pivot 3
				for _, k := range []struct{ val, what string }{{"8388608", "sign-bit mask 0x00800000"}, {"24", "exponent shift"}, {"8", "bits per exponent step"}, {"3", "mantissa width in bytes (pivot of the shift)"}} {
					label := fmt.Sprintf("CompactToBig and BigToCompact both use the %s", k.what)
					if cd[k.val] && ce[k.val] {
						r.OK(label, r.W.Pos(dec.Node().Pos()), k.val)
					} else {
						var a, b []string
						for x := range cd {
							a = append(a, x)
						}
						for x := range ce {
							b = append(b, x)
						}
						sort.Strings(a)
						sort.Strings(b)
						r.Fail(label, r.W.Pos(enc.Node().Pos()), fmt.Sprintf("constant %s missing on one side — decoder uses %v, encoder uses %v", k.val, a, b))
					}
				}
				// and nothing else: a constant used by only one of them is either the mantissa mask (decoder) or foreign
				allowedOnly := map[string]string{"8388607": "mantissa mask 0x007fffff (decoder only: the encoder obtains the mantissa by shifting)", "0": "zero test"}
				var odd []string
				for x := range cd {
					if !ce[x] && allowedOnly[x] == "" {
						odd = append(odd, "decoder:"+x)
					}
				}
				for x := range ce {
					if !cd[x] && allowedOnly[x] == "" {
						odd = append(odd, "encoder:"+x)
					}
				}
				sort.Strings(odd)
				label := "no layout constant is used by only one of CompactToBig / BigToCompact"
				if len(odd) == 0 {
					r.OK(label, r.W.Pos(dec.Node().Pos()), "layouts agree")
				} else {
					r.Fail(label, r.W.Pos(enc.Node().Pos()), fmt.Sprintf("one-sided constants: %v", odd))
				}
			}),
		},
	})
}
