package props

import (
	"go/ast"

	"verif/sa/core"
)

// litParam holds for an identifier denoting parameter #idx of some function
// literal nested in the analysed function (e.g. the element handed to a walk
// callback).
func litParam(idx int) core.ExprPred {
	return func(c *core.Ctx, e ast.Expr) bool {
		id, ok := ast.Unparen(e).(*ast.Ident)
		if !ok {
			return false
		}
		o := c.Info.ObjectOf(id)
		root := c.F
		for root.Encl != nil {
			root = root.Encl
		}
		for _, cl := range root.Closures() {
			if p := cl.Param(idx); p != nil && p == o {
				return true
			}
		}
		return false
	}
}
