// Package props holds the per-property rule tables (anchors, idiom tables,
// frozen exceptions with reasons, floors).
package props

import (
	"sort"

	"verif/sa/core"
)

var registry = map[string]*core.Property{}

func register(p *core.Property) { registry[p.ID] = p }

// Get returns the rule table of a property (nil if not claimed).
func Get(id string) *core.Property { return registry[id] }

// IDs lists the claimed properties.
func IDs() []string {
	var out []string
	for k := range registry {
		out = append(out, k)
	}
	sort.Strings(out)
	return out
}
