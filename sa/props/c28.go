package props

import (
	"fmt"
	"go/ast"
	"go/token"
	"go/types"

	"verif/sa/core"
)

// assumeRecvFieldPositive assumes `recv.<field> > 0` style guards true and
// `recv.<field> == 0` false for the listed fields.
func assumeRecvFieldsPositive(fields ...string) func(c *core.Ctx, e ast.Expr) core.Tri {
	isField := func(c *core.Ctx, e ast.Expr) bool {
		sel, ok := ast.Unparen(e).(*ast.SelectorExpr)
		if !ok {
			return false
		}
		id, ok := ast.Unparen(sel.X).(*ast.Ident)
		if !ok || c.Info.ObjectOf(id) != c.F.Recv() {
			return false
		}
		for _, f := range fields {
			if sel.Sel.Name == f {
				return true
			}
		}
		return false
	}
	return func(c *core.Ctx, e ast.Expr) core.Tri {
		op, ok := core.CmpAtom(c, e, isField, core.IsConstInt(0))
		if !ok {
			return core.Unknown
		}
		switch op {
		case token.GTR, token.NEQ, token.GEQ:
			return core.True
		case token.EQL, token.LEQ, token.LSS:
			return core.False
		}
		return core.Unknown
	}
}

func orAssume(fs ...func(c *core.Ctx, e ast.Expr) core.Tri) func(c *core.Ctx, e ast.Expr) core.Tri {
	return func(c *core.Ctx, e ast.Expr) core.Tri {
		for _, f := range fs {
			if t := f(c, e); t != core.Unknown {
				return t
			}
		}
		return core.Unknown
	}
}

// fromRecv: identifier defined by a channel receive.
func fromRecv(c *core.Ctx, e ast.Expr) bool {
	id, ok := ast.Unparen(e).(*ast.Ident)
	if !ok {
		return false
	}
	o := c.Info.ObjectOf(id)
	if o == nil {
		return false
	}
	defs := c.DefsOf(o)
	if len(defs) == 0 {
		return false
	}
	for _, d := range defs {
		u, ok := ast.Unparen(d.Rhs).(*ast.UnaryExpr)
		if d.Rhs == nil || !ok || u.Op != token.ARROW {
			return false
		}
	}
	return true
}

func isNilLit(c *core.Ctx, e ast.Expr) bool {
	id, ok := ast.Unparen(e).(*ast.Ident)
	if !ok {
		return false
	}
	_, isNil := c.Info.ObjectOf(id).(*types.Nil)
	return isNil
}

func init() {
	txm := "types.(*Transaction)."
	register(&core.Property{
		ID:       "C28",
		Title:    "Chain holds no replayed, expired or mis-signed transactions",
		Packages: []string{"executor", "util", "types", "blockchain"},
		Explanation: "Decides R28a-R28d: for height>0 the per-transaction checks (checkTx / checkTxGroup) dominate fee charging and execution; " +
			"checkTx/check/isExpire keep live, correctly oriented rejections for expiry, fee bounds and chain id, the chain-id test precedes the zero-fee early return; " +
			"CheckTxDup de-duplicates in-block under the fork, sends every hash and expire to the chain and filters every reported duplicate; PreExecBlock turns a removal into ErrTxDup; " +
			"under errReturn every transaction handed to VerifySignature is either the whole block list or filtered by a digest that covers the signature; " +
			"the height-window duplicate cache is only updated from the connect/disconnect/startup paths.",
		NotCovered:  "numeric correctness of the expiry windows and fee computation (V); that each crypto driver rejects altered data.",
		Assumptions: []string{"R28a/R28b are decided under height>0, blocktime>0, errReturn=true and the relevant forks active (ForkTxChainIDStrict, ForkBlockCheck, ForkCheckTxDup)"},
		Rules: []core.Rule{
			rule("R28a", "execTx/execTxGroup: checks dominate fee charging and execution (height>0)", 6, func(r *Run) {
				spTx := &core.FlowSpec{Calls: []core.CallGuard{errNil("checkTx-ok", ex+"checkTx")}, Assume: assumeRecvFieldsPositive("height")}
				core.Dominated{Fn: ex + "execTx", Spec: spTx, Sink: core.CallSink(ex+"execFee", ex+"execTxOne", ex+"begin"), Need: []Fact{"checkTx-ok"}, Min: 3}.Check(r)
				spG := spec(errNil("checkGroup-ok", ex+"checkTxGroup"))
				core.Dominated{Fn: ex + "execTxGroup", Spec: spG, Sink: core.CallSink(ex+"execFee", ex+"execTxOne", ex+"begin"), Need: []Fact{"checkGroup-ok"}, Min: 4}.Check(r)
				// checkTx success needs every sub-check (frozen exception: para-chain forwarded tx)
				spc := &core.FlowSpec{
					Assume: assumeRecvFieldsPositive("height", "blocktime"),
					Calls: []core.CallGuard{errNil("txcheck-ok", txm+"Check"), isFalse("not-expired", txm+"IsExpire"), isTrue("execname-ok", "types.IsAllowExecName"),
						errNil("blacklist-ok", "types.CheckTxBlockedAccount"), isTrue("para-forward", "types.IsForward2MainChainTx")},
				}
				core.Dominated{Fn: ex + "checkTx", Spec: spc, Sink: core.SuccessReturn(-1), Need: []Fact{"txcheck-ok", "not-expired", "execname-ok", "blacklist-ok"},
					Unless: []Fact{"para-forward"}, Reason: "a para-chain node skips the basic checks for transactions forwarded to the main chain (validated there)", Min: 1}.Check(r)
				spcg := &core.FlowSpec{
					Assume: assumeRecvFieldsPositive("height", "blocktime"),
					Calls: []core.CallGuard{errNil("groupcheck-ok", "types.(*Transactions).Check"), isFalse("not-expired", "types.(*Transactions).IsExpire"),
						errNil("blacklist-ok", "types.CheckTxsBlockedAccount")},
				}
				core.Dominated{Fn: ex + "checkTxGroup", Spec: spcg, Sink: core.SuccessReturn(-1), Need: []Fact{"groupcheck-ok", "not-expired", "blacklist-ok"}, Min: 1}.Check(r)
				core.LiveReturn{Fn: ex + "checkTx", Spec: spc, Sentinels: []string{"types.ErrTxExpire", "types.ErrExecNameNotAllow"}}.Check(r)
				core.LiveReturn{Fn: ex + "checkTxGroup", Spec: spcg, Sentinels: []string{"types.ErrTxExpire"}}.Check(r)
			}),
			rule("R28b", "Transaction.check / isExpire: oriented rejections for chain id, fee bounds and expiry", 8, func(r *Run) {
				asm := &core.FlowSpec{Assume: orAssume(assumeForks("ForkTxChainIDStrict", "ForkBlockCheck"), func(c *core.Ctx, e ast.Expr) core.Tri {
					// cfg != nil and maxFee > 0 are the configurations in which the bounds apply
					if t := core.AssumeRel(core.IsObj("param:0"), token.NEQ, isNilLit, core.True)(c, e); t != core.Unknown {
						return t
					}
					if t := core.AssumeRel(core.IsObj("param:3"), token.GTR, core.IsConstInt(0), core.True)(c, e); t != core.Unknown {
						return t
					}
					return core.Unknown
				})}
				chainID := core.IsObj("types.Transaction.ChainID")
				cfgChain := core.CallsAny("types.(*Chain33Config).GetChainID")
				fee := core.IsObj("types.Transaction.Fee")
				core.RejectWhen{Fn: txm + "check", Spec: asm, Name: "tx.ChainID != cfg.GetChainID()", L: chainID, R: cfgChain, Rel: token.NEQ, Sentinel: "types.ErrTxChainID"}.Check(r)
				core.RejectWhen{Fn: txm + "check", Spec: asm, Name: "tx.Fee < realFee", L: fee, R: core.FromCall(0, txm+"GetRealFee"), Rel: token.LSS, Sentinel: "types.ErrTxFeeTooLow"}.Check(r)
				core.RejectWhen{Fn: txm + "check", Spec: asm, Name: "tx.Fee > maxFee", L: fee, R: core.IsObj("param:3"), Rel: token.GTR, Sentinel: "types.ErrTxFeeTooHigh"}.Check(r)
				// chain-id test precedes the zero-fee early return
				core.Dominated{Fn: txm + "check", Spec: &core.FlowSpec{Assume: asm.Assume, Calls: []core.CallGuard{errNil("realfee-ok", txm+"GetRealFee")},
					Conds: []core.CondGuard{core.RelGuardEq("chainid-ok", chainID, cfgChain)}},
					Sink: core.SuccessReturn(-1), Need: []Fact{"chainid-ok"}, Min: 2}.Check(r)
				// expiry predicate
				exp := core.FromCall(0) // placeholder never matches
				_ = exp
				valid := func(c *core.Ctx, e ast.Expr) bool {
					return core.IsObj("types.Transaction.Expire")(c, e) || core.DerivedFrom("types.Transaction.Expire")(c, e)
				}
				core.ReturnsRel{Fn: txm + "isExpire", Name: "expire-height <= height", L: valid, R: core.IsObj("param:1"), Rel: token.LEQ}.Check(r)
				core.ReturnsRel{Fn: txm + "isExpire", Name: "expire-time <= blocktime", L: valid, R: core.IsObj("param:2"), Rel: token.LEQ}.Check(r)
				// group forms quantify over every member
				core.Dominated{Fn: "types.(*Transactions).IsExpire", Spec: &core.FlowSpec{
					Calls:   []core.CallGuard{isFalse("member-live", txm+"isExpire")},
					Foralls: []core.ForallGuard{{Fact: "all-members-live", Inner: "member-live", Loop: core.CountsOver(core.DerivedFrom("types.Transactions.Txs"), 0)}},
				}, Sink: core.SinkPred{Label: "return false", Match: func(fl *core.Flow, n *core.GNode) bool {
					return n.Kind == core.KReturn && core.ClassifyReturn(fl, n, -1) != core.True
				}}, Need: []Fact{"all-members-live"}, Min: 1}.Check(r)
			}),
			rule("R28c", "duplicate detection: in-block de-dup, every hash sent, every reported duplicate filtered, removal ⇒ ErrTxDup", 6, func(r *Run) {
				// CheckTxDup
				f := r.Fn("util.CheckTxDup")
				if f != nil {
					sp := &core.FlowSpec{Assume: assumeForks("ForkCheckTxDup"),
						Calls: []core.CallGuard{called("in-block-dedup", "util.DelDupTx"), errNil("chain-asked", "queue.Client.Wait"), errNil("sent", "queue.Client.Send")}}
					core.Dominated{Fn: "util.CheckTxDup", Spec: sp, Sink: core.CallSink("queue.Client.Send"), Need: []Fact{"in-block-dedup"}, Min: 1}.Check(r)
					core.Dominated{Fn: "util.CheckTxDup", Spec: sp, Sink: core.SuccessReturn(-1), Need: []Fact{"chain-asked", "sent"},
						SkipSink: func(fl *core.Flow, n *core.GNode) (bool, string) {
							if core.ControlledBy(fl, n, func(c *core.Ctx, e ast.Expr) bool {
								return core.Mentions("types.Exec.DisableTxDupCheck")(c, e)
							}, true) {
								return true, "operator switch DisableTxDupCheck (configuration, outside the property's quantifier)"
							}
							return false, ""
						}, Min: 1}.Check(r)
					// every tx hash+expire sent; every reported duplicate filtered
					c := f.Ctx()
					var sendLoop, filterLoop bool
					core.InspectBody(f, func(x ast.Node) bool {
						rs, ok := x.(*ast.RangeStmt)
						if !ok || !core.IsObj("param:1")(c, rs.X) {
							return true
						}
						hashes, expires, cont, app := false, false, false, false
						ast.Inspect(rs.Body, func(y ast.Node) bool {
							switch s := y.(type) {
							case *ast.AssignStmt:
								if len(core.StoresTo(c, s, "types.TxHashList.Hashes")) > 0 {
									hashes = true
								}
								if len(core.StoresTo(c, s, "types.TxHashList.Expire")) > 0 {
									expires = true
								}
								for _, l := range s.Lhs {
									if id, ok := l.(*ast.Ident); ok && c.Info.ObjectOf(id) == c.F.Sig().Results().At(0) {
										app = true
									}
								}
							case *ast.BranchStmt:
								if s.Tok == token.CONTINUE {
									cont = true
								}
							}
							return true
						})
						if hashes && expires && !cont {
							sendLoop = true
						}
						if app && cont {
							filterLoop = true
						}
						return true
					})
					if sendLoop {
						r.OK("util.CheckTxDup sends hash and expire of every transaction", r.W.Pos(f.Node().Pos()), "unconditional range over txs appending to Hashes and Expire")
					} else {
						r.Fail("util.CheckTxDup sends hash and expire of every transaction", r.W.Pos(f.Node().Pos()), "no complete loop over txs that appends both Hashes and Expire")
					}
					// filter: the append to the result is dominated by !dupMap[hash]
					dup := func(c *core.Ctx, e ast.Expr) bool {
						ix, ok := ast.Unparen(e).(*ast.IndexExpr)
						if !ok {
							return false
						}
						_, isMap := c.Info.TypeOf(ix.X).Underlying().(*types.Map)
						return isMap
					}
					core.Dominated{Fn: "util.CheckTxDup", Spec: &core.FlowSpec{Conds: []core.CondGuard{core.BoolGuard("not-reported-dup", dup, false)}},
						Sink: core.SinkPred{Label: "append to result", Match: func(fl *core.Flow, n *core.GNode) bool {
							as, ok := n.Ast.(*ast.AssignStmt)
							if !ok {
								return false
							}
							for _, l := range as.Lhs {
								if id, ok := l.(*ast.Ident); ok && fl.C.Info.ObjectOf(id) == fl.C.F.Sig().Results().At(0) {
									return true
								}
							}
							return false
						}}, Need: []Fact{"not-reported-dup"}, Min: 1}.Check(r)
					_ = filterLoop
				}
				// PreExecBlock: removal ⇒ ErrTxDup (inside the checker goroutine), and the result is awaited before success
				core.LiveReturn{Fn: "util.PreExecBlock$calls:util.CheckTxDup", Spec: &core.FlowSpec{}, Sentinels: []string{"types.ErrTxDup"}}.Check(r)
				lenOf := func(q string) core.ExprPred {
					return func(c *core.Ctx, e ast.Expr) bool {
						call, ok := ast.Unparen(e).(*ast.CallExpr)
						return ok && core.IsBuiltinCall(c.Info, call, "len") && len(call.Args) == 1 && q != "" && core.Mentions(q)(c, call.Args[0])
					}
				}
				_ = lenOf
				core.Dominated{Fn: "util.PreExecBlock", Spec: &core.FlowSpec{
					Conds: []core.CondGuard{core.BoolGuard("dup-result-nil", func(c *core.Ctx, e ast.Expr) bool {
						op, ok := core.CmpAtom(c, e, fromRecv, isNilLit)
						return ok && op == token.NEQ
					}, false)}}, Sink: core.SuccessReturn(-1), Need: []Fact{"dup-result-nil"}, Min: 1}.Check(r)
			}),
			sigCoverageRule("R28d"),
			rule("R28f", "start-up refills the duplicate window with the same extent it is configured with", 2, func(r *Run) {
				// writer/reader agreement: the window constants given to newTxHashCache are the ones
				// that bound the refill loop feeding txHeightCache.Add at start-up
				f := r.Fn(bcm + "InitCache")
				if f == nil {
					return
				}
				c := f.Ctx()
				consts := []string{"types.HighAllowPackHeight", "types.LowAllowPackHeight"}
				ok := false
				for _, lp := range core.LoopsIn(f) {
					fs, isFor := lp.(*ast.ForStmt)
					if !isFor || fs.Init == nil {
						continue
					}
					feeds := false
					ast.Inspect(fs.Body, func(x ast.Node) bool {
						if call, isCall := x.(*ast.CallExpr); isCall && core.ShortName(core.Callee(c.Info, call)) == "blockchain.txHeightCacheType.Add" {
							feeds = true
						}
						return true
					})
					if !feeds {
						continue
					}
					as, isAs := fs.Init.(*ast.AssignStmt)
					if isAs && len(as.Rhs) == 1 && core.Mentions(consts...)(c, as.Rhs[0]) && core.Mentions("param:0")(c, as.Rhs[0]) {
						if op, isCmp := core.CmpAtom(c, fs.Cond, core.AnyExpr, core.IsObj("param:0")); isCmp && op == token.LEQ {
							ok = true
						}
					}
				}
				label := "blockchain.(*BlockChain).InitCache refills the duplicate cache from the whole Low+High pack window up to the tip"
				if ok {
					r.OK(label, r.W.Pos(f.Node().Pos()), "refill loop starts at tip-(High+Low)+… and runs to the tip inclusive")
				} else {
					r.Fail(label, r.W.Pos(f.Node().Pos()), "the loop that feeds txHeightCache.Add is not bounded by HighAllowPackHeight and LowAllowPackHeight: after a restart a transaction inside the validity window but outside the refilled range is no longer seen as a duplicate")
				}
				core.CallArgs{Fn: bcm + "InitCache", Callee: []string{"blockchain.newTxHashCache"}, What: "the cache is sized by the same window constants",
					Args: map[int]core.ExprPred{1: core.IsObj("types.HighAllowPackHeight"), 2: core.IsObj("types.LowAllowPackHeight")}, Min: 1}.Check(r)
			}),
			rule("R28e", "the height-window duplicate cache is only updated from connect/disconnect/startup", 3, func(r *Run) {
				core.WhoMayCall{Targets: []string{"blockchain.txHeightCacheType.Add", "blockchain.txHeightCacheType.Del"},
					Allowed: []string{"blockchain.(*BlockChain).AddCacheBlock", "blockchain.(*BlockChain).DelCacheBlock", "blockchain.(*BlockChain).InitCache"}, Min: 3}.Check(r)
				core.WhoMayCall{Targets: []string{"blockchain.(*BlockChain).AddCacheBlock", "blockchain.(*BlockChain).DelCacheBlock"},
					Allowed: []string{"blockchain.(*BlockChain).connectBlock", "blockchain.(*BlockChain).disconnectBlock", "blockchain.(*BlockChain).disBlock" /* operator-driven rollback tool: removes the tip block by block */}, Min: 2}.Check(r)
			}),
		},
	})
}

// sigCoverageRule: signature coverage under errReturn — VerifySignature sees every transaction that is
// not vouched for by a signature-covering digest (shared by C28 R28d, C27 R27g, C13 R13h).
func sigCoverageRule(id string) core.Rule {
	txm := "types.(*Transaction)."
	return rule(id, "signature coverage under errReturn: VerifySignature sees every transaction not vouched for by a signature-covering digest", 2, func(r *Run) {
		f := r.Fn("util.PreExecBlock")
		if f == nil {
			return
		}
		c := f.Ctx()
		// the request that lets transactions skip verification must be keyed by FullHash
		var reqHashes []ast.Expr
		core.InspectBody(f, func(x ast.Node) bool {
			as, ok := x.(*ast.AssignStmt)
			if !ok {
				return true
			}
			for i, l := range as.Lhs {
				if len(core.StoresTo(c, &ast.AssignStmt{Lhs: []ast.Expr{l}, Tok: as.Tok, Rhs: as.Rhs}, "types.ReqCheckTxsExist.TxHashes")) > 0 && i < len(as.Rhs) {
					reqHashes = append(reqHashes, as.Rhs[i])
				}
			}
			return true
		})
		label := "util.PreExecBlock skip-verification filter is keyed by a signature-covering digest"
		if len(reqHashes) == 0 {
			// no filter at all: VerifySignature must get block.Txs
			r.OK(label, r.W.Pos(f.Node().Pos()), "no mempool-existence filter present")
		}
		for _, e := range reqHashes {
			full := core.CallsAny(txm+"FullHash", "types.(*TransactionCache).FullHash")(c, e)
			if full {
				r.OK(label, r.W.Pos(e.Pos()), "filter keyed by FullHash (covers the signature)")
				continue
			}
			// Hash()-keyed filter: a transaction may be exempted only if its signature was
			// compared with the pooled (already verified) one.  Find signature-comparing
			// callees used in PreExecBlock and assume they report "different": then every
			// transaction of the block must be appended to the list handed to VerifySignature.
			var cmps []string
			core.InspectBody(f, func(x ast.Node) bool {
				call, ok := x.(*ast.CallExpr)
				if !ok {
					return true
				}
				callee := r.W.FuncOf(core.Callee(c.Info, call))
				if callee == nil || callee.Sig().Results().Len() != 1 {
					return true
				}
				cc := callee.Ctx()
				sig, eq := false, false
				core.InspectBody(callee, func(y ast.Node) bool {
					if ex, ok := y.(ast.Expr); ok {
						if core.CallAtom([]string{"bytes.Equal", "google.golang.org/protobuf/proto.Equal", "github.com/golang/protobuf/proto.Equal"})(cc, ex) {
							eq = true
						}
					}
					if id, ok := y.(*ast.Ident); ok && (id.Name == "GetSignature" || id.Name == "Signature" || id.Name == "FullHash") {
						sig = true
					}
					return true
				})
				if sig && eq {
					if whole, why := comparesWholeSignature(r, callee); whole {
						cmps = append(cmps, callee.Name)
					} else {
						r.Fail("util.PreExecBlock: "+callee.Name+" compares the whole signature (type, public key and signature bytes)", r.W.Pos(callee.Node().Pos()),
							why+": a block transaction that differs from the pooled, verified one in an uncompared signature field skips verification")
					}
				}
				return true
			})
			ok := false
			if len(cmps) > 0 {
				unv := core.SinkPred{Label: "append to the to-be-verified list", Match: func(fl *core.Flow, n *core.GNode) bool { return false }}
				_ = unv
				fl := core.RunFlow(f, &core.FlowSpec{
					AssumeObj: map[types.Object]core.Tri{f.Param(3): core.True},
					FailCalls: []core.FailCall{{Callee: core.Names(cmps...), Idx: -1, Outcome: core.OFalse}},
					Nodes: []core.NodeGen{{Fact: "queued-for-verification", Gen: func(c *core.Ctx, n *core.GNode) bool {
						as, isAs := n.Ast.(*ast.AssignStmt)
						if !isAs || len(as.Rhs) != 1 {
							return false
						}
						call, isCall := ast.Unparen(as.Rhs[0]).(*ast.CallExpr)
						return isCall && core.IsBuiltinCall(c.Info, call, "append") && len(call.Args) == 2 && core.Mentions("types.Block.Txs")(c, call.Args[1])
					}}},
					Foralls: []core.ForallGuard{{Fact: "all-queued", Inner: "queued-for-verification", Loop: core.RangesOver(core.Mentions("types.ReplyCheckTxsExist.ExistFlags"))}},
				})
				for _, n := range fl.G.Nodes {
					if !fl.Live(n) {
						continue
					}
					for _, e2 := range n.Succ {
						if e2.LoopStmt != nil && e2.Kind.String() == "RangeDone" && core.RangesOver(core.Mentions("types.ReplyCheckTxsExist.ExistFlags"))(fl.C, e2.LoopStmt) {
							if fl.EdgeIn[e2].Has("all-queued") {
								ok = true
							}
						}
					}
				}
			}
			if ok {
				r.OK(label, r.W.Pos(e.Pos()), fmt.Sprintf("Hash()-keyed filter, but a transaction is exempted only when %v reports an identical signature: assuming it reports a difference, every transaction is queued for verification", cmps))
			} else {
				r.Fail(label, r.W.Pos(e.Pos()), "transactions are exempted from signature verification when the mempool knows their Hash(), which does not cover Signature: a block carrying a pool transaction with a stripped or forged signature is accepted by nodes that hold it and rejected by nodes that do not")
			}
		}
		core.Dominated{Fn: "util.PreExecBlock", Spec: &core.FlowSpec{
			AssumeObj: map[types.Object]core.Tri{f.Param(3): core.True},
			Assume: func(c *core.Ctx, e ast.Expr) core.Tri {
				if t := core.AssumeRel(core.Mentions("types.Block.Height"), token.GTR, core.IsConstInt(0), core.True)(c, e); t != core.Unknown {
					return t
				}
				return core.Unknown
			},
			Calls: []core.CallGuard{isTrue("sig-ok", "types.VerifySignature")},
		}, Sink: core.CallSink("util.ExecTx", "util.ExecKVMemSet"), Need: []Fact{"sig-ok"}, Min: 2}.Check(r)
	})
}
